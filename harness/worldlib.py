"""World library: builds layers and tests from a JSON world at import time.
A generated test module is:   import worldlib; globals().update(worldlib.build(__name__))
Every hook / test phase appends a JSON record [pid, kind, a, b] to $VW_TRACE (O_APPEND)."""
import json
import os
import sys
import threading
import unittest

WORLD = json.load(open(os.environ['VW_WORLD']))
# every import of this library is a new generation of layer objects; a hook of an older generation that is still called
# (after the program dropped and re-created its layers) says so
GEN = os.urandom(4).hex()
os.environ['VW_GEN'] = GEN
TRACE = os.environ['VW_TRACE']
_attempts = {}


def emit(*rec):
    fd = os.open(TRACE, os.O_WRONLY | os.O_APPEND | os.O_CREAT, 0o644)
    try:
        os.write(fd, (json.dumps([os.getpid()] + list(rec)) + '\n').encode())
    finally:
        os.close(fd)


def _die(how):
    """Scripted death of this process (only ever scripted for layer subprocesses)."""
    import signal
    try:
        sys.stdout.flush()
    except Exception:
        pass
    if how == 'exit0':
        os._exit(0)
    if how == 'exit3':
        os._exit(3)
    if how == 'kill':
        os.kill(os.getpid(), signal.SIGKILL)
    if how == 'segv':
        os.kill(os.getpid(), signal.SIGSEGV)
    os._exit(1)


def _resume_layer():
    a = sys.argv
    if len(a) > 2 and a[1] == '--resume-layer':
        return a[2]
    return ''


def _hook(kind, idx, script):
    def hook(*_):
        if os.environ.get('VW_GEN') != GEN:
            emit('stale', idx, kind)
        key = (kind, idx)
        n = _attempts.get(key, 0)
        _attempts[key] = n + 1
        out = script[n] if n < len(script) else (script[-1] if script else 'ok')
        if kind in ('testSetUp', 'testTearDown'):
            ident = [sys.stdout is sys.__stdout__ or getattr(sys.stdout, '_vw_orig', False),
                     sys.stderr is sys.__stderr__ or getattr(sys.stderr, '_vw_orig', False)]
            emit(kind, idx, out, ident)
        else:
            emit(kind, idx, out)
        if isinstance(out, str) and out.startswith('die:'):
            if _resume_layer():
                _die(out[4:])
            return
        if out == 'thread_restart':
            _hook_worker_restart(idx)
            return
        if out == 'raise':
            raise ValueError('%s of layer %d' % (kind, idx))
        if out == 'raise_unhashable':
            raise UnhashableError('%s of layer %d' % (kind, idx))
        if isinstance(out, str) and out.startswith('raise_odd:'):
            raise odd_exception(out[10:], '%s of layer %d' % (kind, idx))
        if out == 'notimpl':
            raise NotImplementedError
        if out == 'kbd':
            raise KeyboardInterrupt
        if out == 'sysexit':
            raise SystemExit(0)
    return hook


class BadStrError(Exception):
    """An exception whose text cannot be produced."""
    def __str__(self):
        raise RuntimeError('str() of the exception failed')


class BadReprError(Exception):
    def __repr__(self):
        raise RuntimeError('repr() of the exception failed')
    __str__ = __repr__


def odd_exception(shape, text):
    """Exception objects of unusual but legal shape; the runner has to report them like any other."""
    if shape == 'cycle':
        # a cyclic explicit cause chain (`except Wrapped as e: raise e.__cause__ from e`)
        a, b = ValueError(text), RuntimeError('wrapped ' + text)
        a.__cause__, b.__cause__ = b, a
        return a
    if shape == 'ctxcycle':
        a, b = ValueError(text), RuntimeError('context of ' + text)
        a.__context__, b.__context__ = b, a
        return a
    if shape == 'selfcause':
        a = ValueError(text)
        a.__cause__ = a
        return a
    if shape == 'deep':
        # a retry loop that chains every attempt to the previous one
        e = ValueError(text + ' attempt 0')
        for k in range(1, 1100):
            n = ValueError('%s attempt %d' % (text, k))
            n.__cause__ = e
            e = n
        return e
    if shape == 'deepctx':
        e = ValueError(text + ' attempt 0')
        for k in range(1, 1100):
            n = ValueError('%s attempt %d' % (text, k))
            n.__context__ = e
            e = n
        return e
    if shape == 'badstr':
        return BadStrError(text)
    if shape == 'badrepr':
        return BadReprError(text)
    if shape == 'group':
        return ExceptionGroup(text, [ValueError(1), ExceptionGroup('inner', [KeyError('k'), BadStrError('x')])])
    if shape == 'notes':
        e = ValueError(text)
        e.add_note('a note \x01 with control characters')
        e.__notes__.append(42)
        return e
    if shape == 'syntaxerr':
        return SyntaxError(text, ('generated.py', 3, 5, 'x = (\n'))
    if shape == 'args':
        return OSError(2, text, 'file\x00name')
    raise AssertionError(shape)


class UnhashableError(Exception):
    """An exception whose instances cannot be hashed (like a dataclass exception with eq=True)."""
    __hash__ = None

    def __eq__(self, other):
        return self is other


class InstanceLayer:
    def __init__(self, name, module, bases):
        self.__name__ = name
        self.__module__ = module
        self.__bases__ = tuple(bases)

    def __repr__(self):
        return '<layer %s.%s>' % (self.__module__, self.__name__)


def _shared_method(kind):
    def method(self):
        return self._vw_hooks[kind]()
    method.__name__ = kind
    return method


# one function per hook name, shared by every layer of kind 'method' (layers that are instances of one class, as in
# plone.testing: `getattr(layer, 'testSetUp').__func__` is the same object for all of them)
_SHARED = {k: _shared_method(k) for k in ('setUp', 'tearDown', 'testSetUp', 'testTearDown')}
_METHOD_CLASSES = {}


def _method_layer(name, module, bases, hooks):
    kinds = tuple(sorted(hooks))
    cls = _METHOD_CLASSES.get(kinds)
    if cls is None:
        cls = _METHOD_CLASSES[kinds] = type('MethodLayer', (InstanceLayer,), {k: _SHARED[k] for k in kinds})
    obj = cls(name, module, bases)
    obj._vw_hooks = dict(hooks)
    return obj


class FalsyLayer(InstanceLayer):
    """An instance layer that is falsy (a resource container that is empty at collection time)."""
    def __len__(self):
        return 0


def snapshot():
    """Canonical view of the interpreter-global state a run may touch (C18)."""
    import gc
    import threading as _t
    import traceback
    import warnings

    def hook(h):
        if h is None:
            return 'None'
        owner = getattr(h, '__self__', None)
        return (type(owner).__name__ + '.' if owner is not None else '') + getattr(h, '__name__', type(h).__name__)

    def stream(x, orig):
        return 'orig' if (x is orig or getattr(x, '_vw_orig', False)) else type(x).__name__
    return {
        '0': repr(tuple(gc.get_threshold())), '1': str(gc.get_debug()),
        '2': traceback.format_exception.__module__ + '.' + traceback.format_exception.__qualname__,
        '3': traceback.print_exception.__module__ + '.' + traceback.print_exception.__qualname__,
        '4': hook(sys.gettrace()), '5': hook(getattr(_t, '_trace_hook', None)), '6': hook(sys.getprofile()) + '/' + str(sys.monitoring.get_tool(sys.monitoring.PROFILER_ID) if hasattr(sys, 'monitoring') else None),
        '7': str(hash(tuple(repr(f) for f in warnings.filters))),
        '8': stream(sys.stdout, sys.__stdout__), '9': stream(sys.stderr, sys.__stderr__),
        '10': 'same' if sys.settrace is _ORIG_SETTRACE else 'replaced',
    }


_ORIG_SETTRACE = sys.settrace


def _meddle(actions):
    """A test that itself changes interpreter-global state the runner manages or relies on (hostile but legal)."""
    import gc
    import warnings
    for a in actions:
        if a == 'syspath_remove':
            # sandboxing sys.path: drop every entry that is not part of the interpreter installation
            keep = [q for q in sys.path if q.startswith(sys.prefix) or q.startswith(sys.base_prefix) or 'boot' in q or q.endswith('/src') or q.endswith('harness')]
            sys.path[:] = keep
        elif a == 'gc_threshold':
            gc.set_threshold(123, 4, 5)
        elif a == 'gc_debug':
            gc.set_debug(gc.DEBUG_UNCOLLECTABLE | gc.DEBUG_SAVEALL)
        elif a == 'warn_reset':
            warnings.resetwarnings()
        elif a == 'warn_filter':
            # a test (or a library it imports) installs filters of its own and leaves them behind
            warnings.simplefilter('error', ResourceWarning)
            warnings.filterwarnings('ignore', message='vw scripted noise')
        elif a == 'chdir':
            os.chdir('/')
        elif a == 'chdir_sub':
            # a test that works in a scratch directory of its own and does not go back
            os.makedirs('elsewhere_cwd', exist_ok=True)
            os.chdir('elsewhere_cwd')
        elif a == 'settrace_none':
            sys.settrace(None)
        elif a == 'setprofile_none':
            sys.setprofile(None)
        elif a == 'rm_profile_dir':
            import shutil
            shutil.rmtree('profdir', ignore_errors=True)
_held = []          # threads parked by tests: (event, thread)


def _act(self, out):
    if out == 'ok':
        return
    if out == 'fail':
        self.fail('scripted failure \x01<&>')
    if out == 'error':
        raise KeyError('scripted error')
    if out == 'skip':
        self.skipTest('scripted skip')
    if out == 'exit':
        raise SystemExit(3)
    if out == 'kbd':
        raise KeyboardInterrupt
    if isinstance(out, list) and out[0] == 'first_only':
        # goes wrong the first time it is executed in this process and never again (a test that depends on a cold cache)
        key = ('first_only', id(self.__class__), self._testMethodName)
        n = _attempts.get(key, 0)
        _attempts[key] = n + 1
        return _act(self, out[1] if n == 0 else 'ok')
    if isinstance(out, list) and out[0] == 'die':
        if _resume_layer():
            _die(out[1])
        return
    if isinstance(out, list) and out[0] in ('raise', 'error'):
        raise ValueError(out[1])
    if isinstance(out, list) and out[0] == 'fail':
        self.fail(out[1])
    if out == 'error_unhashable':
        raise UnhashableError('scripted unhashable error')
    if isinstance(out, str) and out.startswith('error_odd:'):
        raise odd_exception(out[10:], 'scripted odd error')
    raise AssertionError('unknown outcome %r' % (out,))


def _writes(T, phase):
    for stream, token in T.get('writes', {}).get(phase, []):
        if stream == 'stdout':
            sys.stdout.write(token)
        elif stream == 'stderr':
            sys.stderr.write(token)
        elif stream == 'stdout.buffer':
            sys.stdout.buffer.write(token.encode())
        elif stream == 'stdout.badbytes':
            sys.stdout.buffer.write(token.encode() + b'\xff\xfe')
        elif stream == 'print':
            print(token)
        elif stream == 'fd2':
            os.write(2, token.encode('utf-8'))       # straight to the process's stderr, whatever sys.stderr is


def build(modname):
    ns = {}
    layers = []
    emit('imported', modname, _resume_layer())
    if WORLD.get('die_import') and _resume_layer():
        _die(WORLD['die_import'])
    if WORLD.get('import_raise_in_child') and _resume_layer():
        # the module loads in the parent but not in a layer subprocess (a lock file, a port in use, …)
        raise ImportError('scripted import failure inside the layer subprocess')
    for idx, L in enumerate(WORLD['layers']):
        bases = [layers[b] for b in L['bases']]
        d = {}
        for kind in ('setUp', 'tearDown', 'testSetUp', 'testTearDown'):
            if kind in L.get('hooks', {}):
                d[kind] = _hook(kind, idx, L['hooks'][kind])
        obj = None
        inherits = any(hasattr(b, kind) for b in bases
                       for kind in ('setUp', 'tearDown', 'testSetUp', 'testTearDown') if kind not in d)
        # a class layer would inherit the hooks it does not define itself; such layers become instance layers
        if L.get('kind') == 'class' and all(isinstance(b, type) for b in bases) and not inherits:
            cd = {k: classmethod(v) for k, v in d.items()}
            cd['__module__'] = modname
            try:
                obj = type(L['name'], tuple(bases) or (object,), cd)
            except TypeError:
                obj = None
        if obj is None and L.get('kind') == 'method':
            obj = _method_layer(L['name'], modname, bases, d)
        if obj is None:
            obj = (FalsyLayer if L.get('kind') == 'falsy' else InstanceLayer)(L['name'], modname, bases)
            for k, v in d.items():
                setattr(obj, k, v)
        layers.append(obj)
        if L.get('kind') == 'alias' and not isinstance(obj, type):
            # an instance layer whose __name__ is not the name of the variable that holds it; something else in the module goes by
            # that name (e.g. the instance's class: `COMBINED = Group(DB, WEB)` with __name__ defaulting to "Group")
            ns['held_' + L['name']] = obj
            ns[L['name']] = type(L['name'], (object,), {'__module__': modname})
        else:
            ns[L['name']] = obj
    classes = {}
    for tidx, T in enumerate(WORLD['tests']):
        if 'twin_of' in T:
            continue          # not a method of its own: a second instance of another test (added in test_suite below)
        cname = T.get('cls') or ('C%03d' % T['layer'] if T['layer'] is not None else 'CUnit')
        entry = classes.setdefault(cname, {'layer': T['layer'], 'tests': {}})
        entry['tests']['test_%04d%s' % (tidx, T.get('msuffix', ''))] = (tidx, T)
    for cname, entry in classes.items():
        table = entry['tests']

        def setUp(self, table=table):
            tidx, T = _pair(self, table)
            for j in range(len(T.get('cleanups', []))):
                self.addCleanup(_cleanup, self, tidx, T, j)
            emit('t_setUp', tidx)
            _writes(T, 'setUp')
            _act(self, T.get('setUp', 'ok'))

        def tearDown(self, table=table):
            tidx, T = _pair(self, table)
            emit('t_tearDown', tidx)
            _writes(T, 'tearDown')
            _act(self, T.get('tearDown', 'ok'))

        def __str__(self, table=table):
            tidx, T = _pair(self, table)
            if T.get('str_die') and _resume_layer() and sys.stdout.closed:
                # called while the child writes its report (SubProcess.report closes stdout first)
                _die(T['str_die'])
            if 'str' in T:
                return T['str']
            if 'twin_of' in T:
                # a twin is named after its own index, so that reports can be told apart
                return unittest.TestCase.__str__(self).replace(self._testMethodName, 'test_%04d' % tidx, 1)
            return unittest.TestCase.__str__(self)

        def countTestCases(self, table=table):
            # a composite case (e.g. table-driven) announces more than one test case
            return _pair(self, table)[1].get('count', 1)

        d = {'setUp': setUp, 'tearDown': tearDown, '__module__': modname, '__str__': __str__, 'countTestCases': countTestCases}
        for mname, (tidx, T) in table.items():
            def body(self, tidx=tidx, T=T):
                if getattr(self, '_vw_twin', None) is not None:
                    tidx, T = self._vw_twin
                emit('t_body', tidx)
                if T.get('probe'):
                    emit('probe', tidx, snapshot())
                if T.get('meddle'):
                    _meddle(T['meddle'])
                if T.get('sleep'):
                    import time
                    time.sleep(T['sleep'])
                _writes(T, 'body')
                if T.get('nested_run'):
                    _nested_run()
                    _writes(T, 'after_nested')
                for spec in T.get('threads', []):
                    _start_thread(tidx, spec)
                import contextlib
                import io
                # a test that redirects stdout around its subtests puts back whatever sys.stdout was when it entered
                redirect = contextlib.redirect_stdout(io.StringIO()) if T.get('redirect_sub') else contextlib.nullcontext()
                with redirect:
                    for k, out in enumerate(T.get('subs', [])):
                        with self.subTest(k=k):
                            emit('t_sub', tidx, k)
                            _act(self, out)
                if T.get('redirect_sub'):
                    _writes(T, 'after_redirect')
                _act(self, T.get('body', 'ok'))
            body.__name__ = mname
            if T.get('doc'):
                body.__doc__ = T['doc']
            if T.get('xf'):
                body = unittest.expectedFailure(body)
            if T.get('deco_skip'):
                body = unittest.skip('decorated skip')(body)
            d[mname] = body
        if entry['layer'] is not None:
            d['layer'] = layers[entry['layer']]
        lv = [T.get('level') for _, T in table.values() if T.get('level') is not None]
        if lv:
            d['level'] = lv[0]
        ns[cname] = type(cname, (unittest.TestCase,), d)
    twins = [(j, T) for j, T in enumerate(WORLD['tests']) if 'twin_of' in T]
    if twins:
        # equal-but-distinct instances (same class and method, e.g. parametrised cases): the module builds its own suite,
        # in the order the default loader would use, followed by the twins
        def test_suite(classes=classes, twins=twins):
            loader = unittest.defaultTestLoader
            suite = unittest.TestSuite()
            for cname in sorted(classes):
                suite.addTests(loader.loadTestsFromTestCase(ns[cname]))
            for j, T in twins:
                orig = WORLD['tests'][T['twin_of']]
                cname = orig.get('cls') or ('C%03d' % orig['layer'] if orig['layer'] is not None else 'CUnit')
                inst = ns[cname]('test_%04d%s' % (T['twin_of'], orig.get('msuffix', '')))
                inst._vw_twin = (j, T)
                suite.addTest(inst)
            return suite
        ns['test_suite'] = test_suite
    return ns


def _nested_run():
    """Run the test runner in this process, with --buffer, on a small module of its own (one passing test that prints, one failing)."""
    import shutil
    import tempfile
    import zope.testrunner
    d = tempfile.mkdtemp(prefix='vwinner_')
    try:
        with open(os.path.join(d, 'vwinner_mod.py'), 'w') as f:
            f.write('import unittest\n\n\nclass Inner(unittest.TestCase):\n'
                    '    def test_quiet(self):\n        print("inner noise")\n\n'
                    '    def test_loud(self):\n        print("inner failing noise")\n        self.fail("inner failure")\n')
        zope.testrunner.run_internal([], ['inner', '--path', d, '--tests-pattern', '^vwinner_mod$', '--buffer'])
    finally:
        sys.modules.pop('vwinner_mod', None)
        shutil.rmtree(d, ignore_errors=True)


def _pair(self, table):
    tw = getattr(self, '_vw_twin', None)
    return tw if tw is not None else table[self._testMethodName]


def _cleanup(self, tidx, T, j):
    emit('t_cleanup', tidx, j)
    _writes(T, 'cleanup%d' % j)
    _act(self, T['cleanups'][j])


_hook_worker = []


def _hook_worker_restart(idx):
    """A layer that keeps a worker thread for its tests and replaces it before every test (per-test hook)."""
    if _hook_worker:
        ev, th = _hook_worker.pop()
        ev.set()
        th.join(10)
    ev = threading.Event()
    started = threading.Event()
    box = {}

    def run():
        box['ident'] = threading.get_ident()
        started.set()
        ev.wait(60)
    th = threading.Thread(target=run, name='layer-worker', daemon=True)
    th.start()
    started.wait(10)
    _hook_worker.append((ev, th))
    emit('hookthread', idx, [th.name, box.get('ident')])


class FalsyThread(threading.Thread):
    """A worker thread object that is falsy (it reports the length of its empty job queue): a thread like any other."""
    def __len__(self):
        return 0


def _start_thread(tidx, spec):
    """spec: {"api": "threading"|"_thread", "name": str|None, "hold": bool, "release": [indices of parked threads]}"""
    import _thread
    for i in spec.get('release', []):
        if i < len(_held) and _held[i] is not None:
            ev, th, done = _held[i]
            ev.set()
            done.wait(10)
            if th is not None:
                th.join(10)
            _held[i] = None
    if spec.get('api') is None:
        return
    ev = threading.Event()
    done = threading.Event()
    started = threading.Event()
    box = {}

    def run():
        box['ident'] = threading.get_ident()
        if spec.get('cur'):
            # a low-level thread that asks `threading` who it is (logging does): threading registers a _DummyThread for it
            box['name'] = threading.current_thread().name
        started.set()
        if spec.get('hold'):
            ev.wait(60)
        done.set()
    th = None
    if spec['api'] == 'threading':
        th = (FalsyThread if spec.get('falsy') else threading.Thread)(target=run, name=spec.get('name') or None, daemon=True)
        th.start()
    else:
        _thread.start_new_thread(run, ())
    started.wait(10)
    if not spec.get('hold'):
        done.wait(10)
        if th is not None:
            th.join(10)
        else:
            import time
            time.sleep(0.05)
    name = th.name if th is not None else box.get('name') or 'Dummy-%s' % box.get('ident')
    emit('thread', tidx, [spec['api'], name, box.get('ident'), bool(spec.get('hold'))])
    _held.append((ev, th, done) if spec.get('hold') else None)
