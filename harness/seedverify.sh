#!/bin/sh
# Confirms a sub-agent's seed in its scratch worktree: demo exits 0 without the patch and 1 with it, and the pinned pytest run has the
# same FAILED/ERROR ids either way.   usage: harness/seedverify.sh <worktree> [boot dir]   (expects <worktree>/seed/{patch.diff,demo.py})
wt=$1; boot=${2:-/tmp/agent_boot}; cd "$wt" || exit 1
tmp=$(mktemp -d)
run() { ZTR_SRC=$wt/src PYTHONPATH=$boot timeout 600 /venv/bin/python "$@"; }
pt() { run -m pytest -ra -q -p no:cacheprovider --timeout=900 --continue-on-collection-errors 2>&1 | grep -E "^(FAILED|ERROR)|passed|failed" | sed "s/ in [0-9.]*s.*//" | sort; }
git apply -R seed/patch.diff || { echo "cannot reverse patch"; exit 1; }
run seed/demo.py > $tmp/demo_orig.txt 2>&1; d0=$?
pt > $tmp/pt_orig.txt
git apply seed/patch.diff || { echo "cannot apply patch"; exit 1; }
run seed/demo.py > $tmp/demo_pat.txt 2>&1; d1=$?
pt > $tmp/pt_pat.txt
if diff -q $tmp/pt_orig.txt $tmp/pt_pat.txt >/dev/null; then r=same; else r=DIFFERENT; diff $tmp/pt_orig.txt $tmp/pt_pat.txt; fi
echo "$(basename $wt) demo_orig=$d0 demo_patched=$d1 pytest=$r ($(grep passed $tmp/pt_pat.txt))"
rm -rf $tmp
