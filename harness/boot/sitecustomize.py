import sys, os
try:
    import zope
    import sysconfig
    p = os.path.join(sysconfig.get_paths()['purelib'], 'zope')
    if os.path.isdir(p) and p not in list(zope.__path__):
        zope.__path__.append(p)
except Exception:
    pass
