import sys, os
try:
    import zope
    import sysconfig
    p = os.path.join(sysconfig.get_paths()['purelib'], 'zope')
    if os.path.isdir(p) and p not in list(zope.__path__):
        zope.__path__.append(p)
    # mutation testing only: VERIF_REPO=<scratch worktree> makes every process of a check (children included) import
    # zope.testrunner from that tree instead of the editable install's /repo/src (whose nspkg .pth wins over PYTHONPATH)
    alt = os.environ.get('VERIF_REPO')
    if alt and os.path.isdir(os.path.join(alt, 'src', 'zope', 'testrunner')):
        altz = os.path.join(alt, 'src', 'zope')
        rest = [q for q in zope.__path__ if os.path.isdir(os.path.join(q, 'testrunner')) is False]
        zope.__path__[:] = [altz] + [q for q in rest if q != altz]
except Exception:
    pass
