"""Implementation side of C08's use sites: the same pattern lists given as -m / -t options and consulted by
find_suites (module names, with a --package-path style package prefix) and by tests_from_suite (test names)."""
import io
import json
import os
import re
import sys
import unittest
from contextlib import redirect_stdout

import zope.testrunner.find as find
from zope.testrunner.filter import build_filtering_func
from zope.testrunner.options import get_options

PREFIX = os.sep + os.path.join('nowhere', 'mounted') + os.sep
PKG = 'pk'


class Named(unittest.TestCase):
    name = ''

    def runTest(self):
        pass

    def __str__(self):
        return self.name

    def id(self):
        return 'impl_c08_use.Named.' + self.name


def via_modules(ps, fullnames, positional=False):
    """-m patterns: which modules does find_suites try to import?"""
    argv = ['prog']
    tail = []
    if positional and ps and ps[-1] not in ('', '.') and not ps[-1].startswith('-'):
        ps, tail = ps[:-1], [ps[-1]]          # the last pattern as the (deprecated) positional MODULE filter
    for p in ps:
        argv += ['-m', p]
    with redirect_stdout(io.StringIO()):
        options = get_options(argv + tail, [])
    options.prefix = [(PREFIX, PKG)]
    rel = [n[len(PKG) + 1:] for n in fullnames]
    tried = []
    saved = (find.find_test_files, find.import_name)
    find.find_test_files = lambda o: iter([(PREFIX + r.replace('.', os.sep) + '.py', PKG) for r in rel])

    def fake_import(name):
        tried.append(name)
        raise ImportError(name)
    find.import_name = fake_import
    try:
        list(find.find_suites(options, accept=build_filtering_func(options.module)))
    finally:
        find.find_test_files, find.import_name = saved
    return [n in tried for n in fullnames]


def via_tests(ps, fullnames, positional=False):
    """-t patterns: which tests does tests_from_suite yield?"""
    argv = ['prog']
    tail = []
    if positional and ps and ps[-1] not in ('', '.') and not ps[-1].startswith('-'):
        ps, tail = ps[:-1], ['.', ps[-1]]     # the last pattern as the positional TEST filter (after a MODULE filter of '.')
    for p in ps:
        argv += ['-t', p]
    with redirect_stdout(io.StringIO()):
        options = get_options(argv + tail, [])
    tests = []
    for n in fullnames:
        t = Named()
        t.name = n
        tests.append(t)
    suite = unittest.TestSuite(tests)
    got = set(id(t) for t, layer in find.tests_from_suite(suite, options, accept=build_filtering_func(options.test)))
    return [id(t) in got for t in tests]


cases = json.load(sys.stdin)
out = []
for c in cases:
    names = c['names']
    pos = bool(c.get('positional'))
    res = {'pats': via_modules(c['pats'], names, pos), 'pos': via_modules(c['pats'] + [c['xpos']], names),
           'perm': via_tests(c['perm'], names, pos), 'neg': via_tests(c['pats'] + [c['xneg']], names)}
    pset = set()
    for p in c['pats'] + c['perm'] + [c['xpos'], c['xneg']]:
        pset.add(p[1:] if p.startswith('!') else p)
    pset.add('.')
    res['tab'] = [[p, n, re.compile(p).search(n) is not None] for p in sorted(pset) for n in names]
    out.append(res)
json.dump(out, sys.stdout)
