"""Runs the real layer subprocess and keeps a copy of everything it writes to stderr:
   python teechild.py --resume-layer NAME N ...   (used through Runner(script_parts=[teechild.py]))"""
import os
import subprocess
import sys

layer = sys.argv[2] if len(sys.argv) > 2 else 'x'
p = subprocess.Popen([sys.executable, '-m', 'zope.testrunner'] + sys.argv[1:], stdin=subprocess.DEVNULL,
                     stdout=subprocess.PIPE, stderr=subprocess.PIPE)
out, err = p.communicate()
tee = os.environ.get('VW_TEE')
if tee:
    with open('%s.%s' % (tee, layer.rsplit('.', 1)[-1]), 'wb') as f:
        f.write(err)
os.write(1, out)
os.write(2, err)
os._exit(0)
