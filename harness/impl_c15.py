"""Implementation side of C15: run the stale byte-code cleanup on materialised trees."""
import io
import json
import os
import shutil
import subprocess
import sys
import tempfile
from contextlib import redirect_stdout

import treelib


def run(c, idx, base):
    root = os.path.join(base, 'c%d' % idx)
    treelib.materialise(root, c['tree'], c.get('order_seed', 0), store=os.path.join(base, 'store%d' % idx))
    before = treelib.snapshot(root)
    cleanup_raised = False
    argv = []
    for kind, rel in c['roots']:
        argv += [kind, os.path.join(root, *rel) if rel else root]
    argv += c['flags']
    if c['mode'] == 'history':
        import zope.testrunner
        defaults = argv + ['--tests-pattern', '^vhist_tests$']        # the caller's own list, used for both runs
        cwd = os.getcwd()
        os.chdir(root)
        try:
            with redirect_stdout(io.TextIOWrapper(io.BytesIO(), encoding='utf-8', write_through=True)):
                zope.testrunner.run_internal(defaults, ['prog', '-j2'], script_parts=['-m', 'zope.testrunner'], cwd=root)
            # the compiled files are back (another tool compiled, a checkout restored them ...)
            os.chdir(cwd)
            shutil.rmtree(root)
            treelib.materialise(root, c['tree'], c.get('order_seed', 0), store=os.path.join(base, 'store%db' % idx))
            os.chdir(root)
            before = treelib.snapshot(root)
            with redirect_stdout(io.TextIOWrapper(io.BytesIO(), encoding='utf-8', write_through=True)):
                zope.testrunner.run_internal(defaults, ['prog', '--list-tests'], script_parts=['-m', 'zope.testrunner'], cwd=root)
        finally:
            os.chdir(cwd)
            sys.modules.pop('vhist_tests', None)
        ign = None
    elif c['mode'] == 'cli':
        p = subprocess.run([sys.executable, '-m', 'zope.testrunner'] + argv + ['--list-tests'],
                           stdout=subprocess.PIPE, stderr=subprocess.STDOUT, cwd=root, timeout=120)
        ign = None
    else:
        from zope.testrunner.find import remove_stale_bytecode
        from zope.testrunner.options import get_options
        loaded = []
        if idx % 4 == 2:
            # the process has modules loaded from the compiled files (an earlier --usecompiled run in this interpreter, a
            # sourceless import by the embedding program): they are orphans on disk like any other
            import types
            for k, rel in enumerate(sorted(before)):
                if rel[-4:] in ('.pyc', '.pyo'):
                    m = types.ModuleType('vloaded_%d_%d' % (idx, k))
                    m.__file__ = m.__cached__ = os.path.abspath(os.path.join(root, rel))
                    sys.modules[m.__name__] = m
                    loaded.append(m.__name__)
        try:
            with redirect_stdout(io.StringIO()):
                options = get_options(['prog'] + argv, [])
                try:
                    remove_stale_bytecode(options)
                except Exception:
                    # the cleanup itself failed: an observation (whatever it left behind is judged), not a harness error
                    cleanup_raised = True
        finally:
            for name in loaded:
                sys.modules.pop(name, None)
        ign = sorted(options.ignore_dir)
    after = treelib.snapshot(root)
    deleted = sorted(set(before) - set(after))
    untouched = not cleanup_raised and all(after[k] == before[k] for k in after if k in before) and not (set(after) - set(before))
    shutil.rmtree(root, ignore_errors=True)
    return {'deleted': [d.split(os.sep) for d in deleted], 'untouched': untouched, 'ign': ign}


payload = json.load(sys.stdin)
base = tempfile.mkdtemp(prefix='c15_', dir=payload['scratch'])
try:
    out = [run(c, i, base) for i, c in enumerate(payload['cases'])]
finally:
    shutil.rmtree(base, ignore_errors=True)
json.dump(out, sys.stdout)
