#!/bin/sh
# Mutation testing without touching /repo: runs the quick check of each named property against a scratch worktree of the
# repository (VERIF_REPO; harness/boot/sitecustomize.py redirects the zope.testrunner import of every process there).
# usage: harness/mutcheck.sh <worktree> Cnn [Cnn ...]     — prints one line per property; writes no evidence.
wt=$1; shift
cd /verif || exit 1
[ -d "$wt/src/zope/testrunner" ] || { echo "no repository at $wt"; exit 2; }
for p in "$@"; do
  out=$(VERIF_REPO=$wt VERIF_NO_EVIDENCE=1 timeout 2400 ./check $p --quick 2>&1 | grep -E "VIOLATION|INTERNAL" | head -2 | tr '\n' ' ' | cut -c1-220)
  echo "$(basename $wt) $p: ${out:-MISSED}"
done
