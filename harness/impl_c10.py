"""Implementation side of C10: call order_by_bases on generated layer graphs."""
import json
import sys

from zope.testrunner.layer import UnitTests
from zope.testrunner.runner import order_by_bases


class InstanceLayer:
    def __init__(self, name, module, bases):
        self.__name__ = name
        self.__module__ = module
        self.__bases__ = tuple(bases)

    def __repr__(self):
        return '<%s.%s>' % (self.__module__, self.__name__)


def build(world):
    layers = []
    kinds = []
    for idx, L in enumerate(world['layers']):
        if world.get('unit') == idx:
            layers.append(UnitTests)
            kinds.append('unit')
            continue
        bases = [layers[b] for b in L['bases']]
        mod, _, name = L['name'].rpartition('.')
        obj = None
        if L['kind'] == 'class' and all(isinstance(b, type) for b in bases):
            try:
                obj = type(name, tuple(bases) or (object,), {'__module__': mod})
                kinds.append('class')
            except TypeError:      # no consistent MRO: fall back to an instance layer
                obj = None
        if obj is None:
            obj = InstanceLayer(name, mod, bases)
            kinds.append('instance')
        layers.append(obj)
    return layers, kinds


def run(c):
    layers, kinds = build(c['world'])
    index = {id(l): i for i, l in enumerate(layers)}
    out = {'kinds': kinds}
    for key in ('ls', 'ls2'):
        inp = [layers[i] for i in c[key]]
        if c.get('as_dict'):
            inp = {l: 1 for l in inp}
        res = order_by_bases(inp)
        got = [index[id(l)] for l in res]
        # repeated use on the same layer objects (run after run in one interpreter): the caller reverses the list it was given
        # (tear_down_unneeded does), asks again, and asks with the reversed result as the request; by
        # C10_order_is_a_fixed_point / C10_reversed_result_as_request every answer is the first one.  The observation is the
        # first answer that differs, if any.
        res.reverse()
        again = [index[id(l)] for l in order_by_bases(inp)]
        back = [index[id(l)] for l in order_by_bases(list(reversed([layers[i] for i in got])))] if len(set(c[key])) == len(c[key]) else got
        out[key] = again if again != got else back if back != got else got
    return out


payload = json.load(sys.stdin)
json.dump([run(c) for c in payload['cases']], sys.stdout)
