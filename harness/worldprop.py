"""Shared implementation of the world-based property checks (C01–C05, C12, C16)."""
import json

import fw
import worldcase
import worldrun

CHK = 'Obs'
CASE_TYPE = 'Chk_World.case'
IMPORTS = ('Layers', 'Run', 'Chk_World')
SHARD = 25
COMMON_TRUSTED = [
    'unittest.TestCase.run / TestResult of CPython 3.12.1 are modelled (Run.proto) and validated by the per-phase trace of every world',
    'worlds observe through their own hook and test bodies (pid-tagged O_APPEND trace); layers without a hook are invisible and '
    'the predicates range over the observable layers',
    'child processes are fresh interpreters (OS); -x together with -j N > 1 is not generated (which children start is a race)',
]
COMMON_ASSUMPTIONS = ['post-mortem debugging, MemoryError and EndRun paths are outside the model',
                      'per-test layer hooks (testSetUp/testTearDown) do not raise']


def observe(cases):
    return worldrun.run_worlds(cases)


def slim(o):
    return {k: v for k, v in o.items() if k not in ('globals_before', 'globals_after', 'driver_stderr', 'aborted_tb', 'features')}


def to_coq(c, o):
    return worldcase.to_coq(c, o)


def n_layers(c):
    return len(c['layers'])


def shrink_candidates(c):
    ts = c['tests']
    for i in range(len(ts)):
        if len(ts) > 1:
            # twins of a removed test go with it; the others are re-pointed
            kept = worldcase.drop_test(ts, i)
            if kept:
                yield dict(c, tests=kept)
    for i, T in enumerate(ts):
        for key in ('subs', 'cleanups', 'setUp', 'tearDown', 'body', 'xf', 'deco_skip', 'writes', 'threads'):
            if key in T:
                T2 = {k: v for k, v in T.items() if k != key}
                yield dict(c, tests=ts[:i] + [T2] + ts[i + 1:])
    ls = c['layers']
    for i in range(len(ls) - 1, -1, -1):
        # remove layer i when nothing references it
        if any(i in L['bases'] for L in ls) or any(T['layer'] == i for T in ts):
            continue

        def fix(j):
            return j - 1 if j is not None and j > i else j
        nl = [dict(L, bases=[fix(b) for b in L['bases']]) for k, L in enumerate(ls) if k != i]
        nt = [dict(T, layer=fix(T['layer'])) for T in ts]
        yield dict(c, layers=nl, tests=nt)
    for i, L in enumerate(ls):
        for key in list(L.get('hooks', {})):
            h = {k: v for k, v in L['hooks'].items() if k != key}
            yield dict(c, layers=ls[:i] + [dict(L, hooks=h)] + ls[i + 1:])
        for j in range(len(L['bases'])):
            yield dict(c, layers=ls[:i] + [dict(L, bases=L['bases'][:j] + L['bases'][j + 1:])] + ls[i + 1:])
    opts = c.get('options', [])
    for i in range(len(opts)):
        if opts[i].startswith('-') and not opts[i].lstrip('-').isdigit():
            n = 2 if opts[i] == '--repeat' else 1
            yield dict(c, options=opts[:i] + opts[i + n:])


def neighbours(c, rng):
    out = []
    for _ in range(24):
        d = json.loads(json.dumps(c))
        r = rng.random()
        if r < 0.4 and d['tests']:
            i = rng.randrange(len(d['tests']))
            d['tests'][i] = worldcase.gen_test(rng, len(d['layers']))
        elif r < 0.6:
            d['tests'].append(worldcase.gen_test(rng, len(d['layers'])))
        elif r < 0.8 and d['layers']:
            i = rng.randrange(len(d['layers']))
            d['layers'][i]['hooks'] = worldcase.gen_layers(rng, 1)[0]['hooks']
        else:
            d['options'] = worldcase.gen_world(rng, 0, 1)['options']
        for T in d['tests']:
            # a replaced original may no longer be able to have a twin
            if 'twin_of' in T and ('twin_of' in d['tests'][T['twin_of']] or d['tests'][T['twin_of']].get('deco_skip')):
                del T['twin_of']
        out.append(d)
    return out


def count_dist(rep, c):
    rep.count('layers=%d' % len(c['layers']))
    rep.count('tests=%d' % len(c['tests']))
    o = worldcase.parse_opts(c)
    rep.count('mode=%s' % ('-j%d' % o['procs'] if o['procs'] > 1 else 'sequential'))
    if o['x']:
        rep.count('-x')
    if o['repeat'] > 1:
        rep.count('--repeat')
    kinds = set()
    for T in c['tests']:
        if T.get('deco_skip'):
            kinds.add('deco_skip')
        if T.get('xf'):
            kinds.add('xf')
        if T.get('subs'):
            kinds.add('subtests')
        for k in ('setUp', 'body', 'tearDown'):
            if T.get(k, 'ok') != 'ok':
                kinds.add('%s=%s' % (k, T[k]))
        if T.get('cleanups'):
            kinds.add('cleanups')
    for k in kinds:
        rep.count('has:' + k)
    for L in c['layers']:
        for hk, sc in L.get('hooks', {}).items():
            if any(x != 'ok' for x in sc):
                rep.count('layerfault:%s=%s' % (hk, '/'.join(sc)))


def sample_view(c, o):
    keep = {k: o.get(k) for k in ('aborted', 'failed', 'ran', 'failures', 'errors', 'n_skipped')}
    keep['trace'] = [r[1:] for r in o.get('trace', [])][:60]
    return {'case': c, 'observation': keep}
