#!/bin/sh
# runs every quick check with several seeds; prints one line per (property, seed) that is not clean
./check --setup >/dev/null 2>&1 || { echo "setup failed"; exit 1; }
for s in "$@"; do
  for p in C01 C02 C03 C04 C05 C06 C07 C08 C09 C10 C11 C12 C13 C14 C15 C16 C17 C18 C19 C20; do
    out=$(VERIF_SEED=$s timeout 1800 ./check $p --quick 2>&1 | grep -E "VIOLATION|INTERNAL" | tr '\n' ' ' | cut -c1-240)
    [ -n "$out" ] && echo "seed=$s $p: $out"
  done
  echo "seed $s done"
done
