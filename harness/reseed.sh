#!/bin/sh
# Re-runs stored seeded changes (seeded/<id>/patch.diff) against the quick check of the property each one breaks, in a scratch
# worktree of /repo's HEAD (never in /repo itself), and prints one line per seed.
# usage: harness/reseed.sh [seed-id ...]   (default: all)
cd /verif || exit 1
ids="$@"; [ -n "$ids" ] || ids=$(ls seeded)
wt=/var/tmp/reseed_wt_$$
for id in $ids; do
  p=$(echo $id | cut -c1-3)
  [ -f seeded/$id/patch.diff ] || continue
  git -C /repo worktree add -q --detach $wt HEAD || exit 1
  if ! git -C $wt apply /verif/seeded/$id/patch.diff 2>/dev/null; then
    echo "$id: patch does not apply to the current tree (older base)"
  else
    props=$p
    [ -n "$RESEED_PROPS" ] && props="$RESEED_PROPS"
    harness/mutcheck.sh $wt $props | sed "s/^$(basename $wt)/$id/"
  fi
  git -C /repo worktree remove --force $wt
done
