#!/bin/sh
# Re-runs the stored seeded changes (seeded/<id>/patch.diff) against the quick check of the property each one breaks and prints
# one line per seed.  usage: harness/reseed.sh [seed-id ...]   (default: all).  /repo must be clean; it is restored after every seed.
cd /verif || exit 1
git -C /repo status --short | grep -q . && { echo "repo dirty"; exit 1; }
ids="$@"; [ -n "$ids" ] || ids=$(ls seeded)
for id in $ids; do
  p=$(echo $id | cut -c1-3)
  [ -f seeded/$id/patch.diff ] || continue
  if ! git -C /repo apply --check seeded/$id/patch.diff 2>/dev/null; then echo "$id: patch does not apply to the current tree (older base)"; continue; fi
  git -C /repo apply seeded/$id/patch.diff
  out=$(VERIF_NO_EVIDENCE=1 timeout 1800 ./check $p --quick 2>&1 | grep -E "VIOLATION|INTERNAL" | head -2 | tr '\n' ' ' | cut -c1-200)
  git -C /repo checkout -- .
  echo "$id $p: ${out:-MISSED}"
done
