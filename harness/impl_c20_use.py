"""Implementation side of the C20 use-site batch: the runner's per-test cyclic-garbage report (--gc-after-test -vvvv).
Each case is a list of digraphs (one per test); a test builds its graph out of slotted objects (no instance dicts, so the
referents of a node are exactly its successors and its class) and drops it; the report printed after the test is parsed."""
import json
import os
import re
import subprocess
import sys
import tempfile

MODULE = '''import gc, json, os, unittest
gc.disable()          # the collector runs only where the runner asks for it
GRAPHS = json.load(open(os.environ["VW_GRAPHS"]))


class N:
    __slots__ = ("name", "e0", "e1", "e2", "e3", "e4")

    def __init__(self, name):
        self.name = name

    def __repr__(self):
        return "node%d" % self.name


def build(spec):
    nodes = {k: N(k) for k in spec["nodes"]}
    for a, succ in spec["adj"]:
        for j, b in enumerate(succ):
            setattr(nodes[a], "e%d" % j, nodes[b])


class T(unittest.TestCase):
    pass


for _i, _spec in enumerate(GRAPHS):
    def _t(self, spec=_spec):
        build(spec)
    setattr(T, "test_%03d" % _i, _t)
'''


def run(c, idx, base):
    d = os.path.join(base, 'u%d' % idx)
    os.makedirs(d)
    mod = 'vcyc_%d' % idx
    with open(os.path.join(d, mod + '.py'), 'w') as f:
        f.write(MODULE)
    gp = os.path.join(d, 'graphs.json')
    json.dump(c['graphs'], open(gp, 'w'))
    env = dict(os.environ, VW_GRAPHS=gp)
    p = subprocess.run([sys.executable, '-m', 'zope.testrunner', '--path', d, '--tests-pattern', '^%s$' % mod,
                        '--gc-after-test', '-vvvv'] + c.get('options', []),
                       stdout=subprocess.PIPE, stderr=subprocess.STDOUT, cwd=d, timeout=180, env=env)
    out = p.stdout.decode('utf-8', 'replace')
    # per test: the cycles listed after "The following test left cyclic garbage behind:" / the test's name
    reports = {}
    lines = out.split('\n')
    i = 0
    while i < len(lines):
        if lines[i].strip() == 'The following test left cyclic garbage behind:' and i + 1 < len(lines):
            m = re.match(r'test_(\d+) ', lines[i + 1].strip())
            t = int(m.group(1)) if m else -1
            cyc = reports.setdefault(t, [])
            i += 2
            while i < len(lines) and (lines[i].startswith('Cycle ') or lines[i].startswith(' * ') or lines[i].startswith('   ')):
                if lines[i].startswith('Cycle '):
                    cyc.append([])
                else:
                    m = re.match(r' \*  node(\d+)$', lines[i])
                    if cyc:
                        cyc[-1].append(int(m.group(1)) if m else 9999)     # 9999: something that is not one of the world's nodes
                i += 1
            continue
        i += 1
    return {'rc': p.returncode, 'reports': [reports.get(t, []) for t in range(len(c['graphs']))], 'tail': out[-400:]}


payload = json.load(sys.stdin)
base = tempfile.mkdtemp(prefix='c20u_', dir=payload['scratch'])
try:
    res = [run(c, i, base) for i, c in enumerate(payload['cases'])]
finally:
    import shutil
    shutil.rmtree(base, ignore_errors=True)
json.dump(res, sys.stdout)
