"""Runs worlds against the implementation and canonicalises the observations."""
import hashlib
import json
import os
import re
import shutil
import subprocess

import fw


def world_module(world):
    h = hashlib.sha1(json.dumps(world, sort_keys=True).encode()).hexdigest()[:10]
    return 'vw_' + h


def run_world(world, idx=0, timeout=300, hashseed='0', extra_env=None, keep=False):
    """Materialise the world, run it in a fresh interpreter, return the observation."""
    import worldcase
    worldcase.sync_twins(world)
    mod = world.get('module') or world_module(world)
    d = os.path.join(fw.scratch(), 'w_%s_%d_%d' % (mod, idx, os.getpid()))
    shutil.rmtree(d, ignore_errors=True)
    os.makedirs(d)
    with open(os.path.join(d, mod + '.py'), 'w') as f:
        f.write('import worldlib\nglobals().update(worldlib.build(__name__))\n')
    # extra test modules that cannot be loaded: every one of them must end up as an import failure of the run
    BROKEN = {'raise': "raise ImportError('scripted import failure')\n",
              'exit0': 'import sys\nsys.exit(0)\n', 'exit': 'import sys\nsys.exit()\n',
              'syntax': 'def (:\n', 'bad_suite': 'def test_suite():\n    return 42\n',
              'suite_exit': 'import sys\n\n\ndef test_suite():\n    sys.exit(0)\n', 'empty': 'X = 1\n'}
    for k, kind in enumerate(world.get('broken', [])):
        with open(os.path.join(d, '%s_b%d.py' % (mod, k)), 'w') as f:
            f.write(BROKEN[kind])
    # doctests (C17): a top-level module `<mod>_d` and/or a module `<mod>_dd` inside the package `<mod>_pk`; each may have a module
    # docstring with an example and functions f0.. with one; every example passes or fails as scripted
    dt = world.get('doctests') or {}
    for where, spec in dt.items():
        body = ''
        if spec.get('moddoc') is not None:
            body += '"""module docstring\n\n>>> 1 + 1\n%d\n"""\n' % (2 if spec['moddoc'] else 3)
        body += 'import doctest\n\n\n'
        for k, ok in enumerate(spec.get('funcs', [])):
            body += 'def f%d():\n    """\n    >>> 2 * 2\n    %d\n    """\n\n\n' % (k, 4 if ok else 5)
        body += 'def test_suite():\n    return doctest.DocTestSuite()\n'
        if where == 'top':
            target = os.path.join(d, mod + '_d.py')
        else:
            os.makedirs(os.path.join(d, mod + '_pk'), exist_ok=True)
            open(os.path.join(d, mod + '_pk', '__init__.py'), 'w').close()
            target = os.path.join(d, mod + '_pk', mod + '_dd.py')
        with open(target, 'w') as f:
            f.write(body)
    for sub in world.get('mkdirs', []):
        os.makedirs(os.path.join(d, sub), exist_ok=True)
    wpath = os.path.join(d, 'world.json')
    json.dump(world, open(wpath, 'w'))
    trace = os.path.join(d, 'trace.jsonl')
    open(trace, 'w').close()
    # some worlds name the search path relative to the directory the run is started in and leave the children's working
    # directory to the entry point (run_internal remembers where it was started)
    args = ['--path', '.' if world.get('relpath') else d, '--tests-pattern', '^%s%s$' % (mod, r'(_b\d+|_dd?)?' if (world.get('broken') or world.get('doctests')) else '')] + list(world.get('options', []))
    if world.get('select_none'):
        # filters that leave nothing to run (-t / --layer matching nothing, --only-level 2 where every test has level 1): the model is handed the world without tests
        args += {'-t': ['-t', 'zz_no_such_test'], '--layer': ['--layer', 'zz_no_such_layer'],
                 '--only-level': ['--only-level', '2']}[world['select_none']]
    spec = {'dir': d, 'args': args, 'defaults': world.get('defaults', [])}
    if 'script_parts' in world:
        spec['script_parts'] = world['script_parts']
    if world.get('preset'):
        spec['preset'] = True
    if world.get('stdout_encoding'):
        spec['stdout_encoding'] = world['stdout_encoding']
    if world.get('mkdirs'):
        spec['mkdirs'] = world['mkdirs']
    if world.get('relpath'):
        spec['default_cwd'] = True
    if world.get('odd'):
        spec['odd'] = world['odd']
    if world.get('via'):
        spec['via'] = world['via']
    if world.get('falsy_streams'):
        spec['falsy_streams'] = True
    if world.get('warmup_run'):
        spec['warmup_run'] = True
    if world.get('warmup_world'):
        wp = os.path.join(d, 'warmup_world.json')
        json.dump(world['warmup_world'], open(wp, 'w'))
        spec['warmup_world'] = wp
    if 'warnings' in world:
        spec['warnings'] = world['warnings']
    if world.get('pre_parse'):
        spec['pre_parse'] = world['pre_parse']
    if 'child_cwd' in world:
        spec['child_cwd'] = world['child_cwd']
    env = fw.impl_env(dict(extra_env or {}, VW_WORLD=wpath, VW_TRACE=trace), hashseed)
    if world.get('pythonwarnings'):
        # the user configured the warnings of the interpreter (python -W … / PYTHONWARNINGS): sys.warnoptions is not empty
        env['PYTHONWARNINGS'] = world['pythonwarnings']
    try:
        p = subprocess.run([fw.PY, os.path.join(fw.HARNESS, 'drive_world.py')], input=json.dumps(spec), text=True,
                           stdout=subprocess.PIPE, stderr=subprocess.PIPE, env=env, timeout=timeout, cwd=d)
        if p.returncode != 0 or not p.stdout.strip():
            obs = {'driver_failed': True, 'rc': p.returncode, 'stderr_tail': p.stderr[-2000:]}
        else:
            obs = json.loads(p.stdout)
            obs['driver_stderr'] = p.stderr[-500:]
    except subprocess.TimeoutExpired:
        obs = {'driver_failed': True, 'timeout': True}
    recs = []
    for line in open(trace):
        line = line.strip()
        if line:
            recs.append(json.loads(line))
    obs['trace'] = recs
    obs['mod'] = mod
    if not keep:
        shutil.rmtree(d, ignore_errors=True)
    else:
        obs['dir'] = d
    return obs


def split_processes(obs):
    """-> (parent_events, {resume_layer_name: [events]}, [child layer names in first-seen order])."""
    parent_pid = obs.get('pid')
    procs = {}
    order = []
    names = {}
    for r in obs['trace']:
        pid = r[0]
        if pid not in procs:
            procs[pid] = []
            order.append(pid)
        if r[1] == 'imported':
            names[pid] = r[3]
        else:
            procs[pid].append(r[1:])
    parent = procs.get(parent_pid, [])
    children = {}
    child_order = []
    for pid in order:
        if pid == parent_pid:
            continue
        nm = names.get(pid, '?')
        children.setdefault(nm, []).extend(procs[pid])
        if nm not in child_order:
            child_order.append(nm)
    return parent, children, child_order


# the colourised formatter words the two lines slightly differently ("errors, N skipped") and wraps the numbers in escape codes
SUMMARY = re.compile(r'  Ran (\d+) tests? with (\d+) failures?, (\d+) errors?(?: and|,) (\d+) skipped in ')
TOTAL = re.compile(r'^Total: (\d+) tests?, (\d+) failures?, (\d+) errors?(?: and|,) (\d+) skipped', re.M)
RUNNING = re.compile(r'^Running (\S+) tests:', re.M)
ANSI = re.compile(r'\x1b\[[0-9;]*m')


def parse_listing(text, header):
    """Lines of the 'Tests with failures:' / 'Tests with errors:' listing (None when the section is absent)."""
    i = text.find('\n' + header + '\n')
    if i < 0:
        return None
    out = []
    for line in text[i + len(header) + 2:].split('\n'):
        if line.startswith('   '):
            out.append(line[3:])
        else:
            break
    return out


def parse_stdout(text):
    text = ANSI.sub('', text)
    out = {'summaries': [[int(x) for x in m.groups()] for m in SUMMARY.finditer(text)],
           'total': None, 'running': RUNNING.findall(text),
           'listed_failures': parse_listing(text, 'Tests with failures:'), 'listed_errors': parse_listing(text, 'Tests with errors:')}
    m = TOTAL.search(text)
    if m:
        out['total'] = [int(x) for x in m.groups()]
    return out


def run_worlds(worlds, **kw):
    return fw.parallel_map(lambda iw: run_world(iw[1], idx=iw[0], **kw), list(enumerate(worlds)))
