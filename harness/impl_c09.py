"""Implementation side of C09: tests_from_suite on generated trees, Filter.global_setup on layer dicts."""
import io
import json
import re
import sys
import unittest
from contextlib import redirect_stdout

from zope.testrunner.filter import UNITTEST_LAYER, Filter
from zope.testrunner.find import StartUpFailure, tests_from_suite
from zope.testrunner.layer import UnitTests
from zope.testrunner.options import get_options


class InstanceLayer:
    def __init__(self, fullname):
        self.__module__, _, self.__name__ = fullname.rpartition('.')
        self.__bases__ = ()


class T(unittest.TestCase):
    nid = 0

    def runTest(self):
        pass

    def id(self):
        return 'impl_c09.T%d.runTest' % self.nid

    def __str__(self):
        return 'runTest (impl_c09.T%d)' % self.nid


def run(c):
    names = c['layer_names']          # index 0 is the unit layer
    layers = [UnitTests] + [InstanceLayer(n) for n in names[1:]]
    argv = ['prog'] + c['argv']
    with redirect_stdout(io.StringIO()):
        options = get_options(argv, [])
    options.resume_layer = None
    ids = {}

    def build(node):
        if node['k'] == 'startup':
            s = StartUpFailure(options, 'mod%d' % node['id'], None)
            ids[id(s)] = node['id']
            return s
        if node['k'] == 'case':
            s = T()
            # test ids need not be unique (the same TestCase class loaded into several suites): without --require-unique
            # every instance is selected on its own merits
            s.nid = node['id'] % 2 if c.get('dup_ids') else node['id']
            ids[id(s)] = node['id']
        else:
            s = unittest.TestSuite([build(k) for k in node['kids']])
        if node['lvl'] is not None:
            s.level = node['lvl']
        if node['lay'] is not None:
            s.layer = names[node['lay']] if node.get('lay_str') else layers[node['lay']]
            if node.get('lay_str'):
                from zope.testrunner.find import name_from_layer
                name_from_layer(layers[node['lay']])
        return s
    root = build(c['tree'])
    items = []
    for test, lname in tests_from_suite(root, options):
        items.append([ids[id(test)], None if lname is None else names.index(lname)])
    # the same selection through find_tests (the caller that builds the per-layer suites): it must select exactly
    # what tests_from_suite yields for the suite, whatever level the suite itself declares
    import zope.testrunner.find as _find
    saved = _find.remove_stale_bytecode
    _find.remove_stale_bytecode = lambda o: None
    try:
        by_layer = _find.find_tests(options, found_suites=[root])
        via = sorted([ids[id(t)], None if ln is None else names.index(ln)] for ln, su in by_layer.items() for t in su)
        if via != sorted(items):
            # report what find_tests selected (tree order = ascending node id), so that the difference reaches the model comparison
            items = sorted(via, key=lambda it: it[0])
    finally:
        _find.remove_stale_bytecode = saved

    class R:
        pass
    r = R()
    r.options = options
    r.tests_by_layer_name = {n: object() for n in c['present']}
    r.errors = []
    r.do_run_tests = True
    with redirect_stdout(io.StringIO()):
        Filter(r).global_setup()
    pats = set([UNITTEST_LAYER, '.'])
    for p in c['layer_pats']:
        pats.add(p[1:] if p.startswith('!') else p)
    vals = list(dict.fromkeys(c['present'] + [UNITTEST_LAYER]))
    tab = [[p, n, re.compile(p).search(n) is not None] for p in sorted(pats) for n in vals]
    return {'items': items, 'kept': list(r.tests_by_layer_name), 'tab': tab,
            'post': [options.at_level, bool(options.all), options.only_level, bool(options.unit), bool(options.non_unit)]}


def aborted_parse(k):
    """A call of get_options that ends inside the option parser (--help, an unknown option), with script-supplied defaults: an
    embedding program that catches the SystemExit and goes on must find later calls unaffected."""
    import contextlib
    defaults = [['--at-level', '3'], ['--unit'], ['--non-unit', '--all'], ['--only-level', '2', '--layer', 'zzz']][k % 4]
    argv = ['prog'] + [['--no-such-option'], ['--help']][k % 2]
    try:
        with contextlib.redirect_stdout(io.StringIO()), contextlib.redirect_stderr(io.StringIO()):
            get_options(argv, list(defaults))
    except SystemExit:
        pass


cases = json.load(sys.stdin)
out = []
for k, c in enumerate(cases):
    if k % 7 == 3:
        aborted_parse(k)
    out.append(run(c))
json.dump(out, sys.stdout)
