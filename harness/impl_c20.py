"""Implementation side of C20: build DiGraph through the public API, enumerate SCCs."""
import json
import sys

from zope.testrunner.digraph import DiGraph


class Obj:
    __slots__ = ('i',)

    def __init__(self, i):
        self.i = i


def run(c):
    keyed = c['keyed']            # 'int' (make_hashable=None) | 'id' (default, identity-keyed objects)
    objs = {}

    def node(i):
        if keyed == 'int':
            return i
        if i not in objs:
            objs[i] = Obj(i)
        return objs[i]

    def back(x):
        return x if keyed == 'int' else x.i

    ops = list(c['ops'])
    first = 0
    kw = {} if keyed == 'id' else {'make_hashable': None}
    if c.get('ctor_nodes') and ops and ops[0][0] == 'nodes':
        g = DiGraph([node(i) for i in ops[0][1]], **kw)
        ops = ops[1:]
        first = 1
    else:
        g = DiGraph(**kw)
    # how the caller hands collections over: a one-shot iterator, a list/tuple/frozenset, or a set of its own that it keeps
    # using afterwards (a scratch buffer that is cleared / refilled, or one set passed for two nodes); the graph is defined by
    # the values at the time of the call
    kinds = c.get('containers') or {}
    after = c.get('after') or {}
    kept = {}

    def box(k, items):
        kind = kinds.get(str(k), 'iter')
        if kind == 'iter':
            return iter(items)
        if kind == 'list':
            return list(items)
        if kind == 'tuple':
            return tuple(items)
        if kind == 'frozenset':
            return frozenset(items)
        if kind == 'dictkeys':
            return dict.fromkeys(items).keys()
        if kind.startswith('set'):          # 'set' or 'set:<slot>' (a scratch set shared between calls)
            slot = kind[4:] or 'own%d' % k
            s = kept.setdefault(slot, set())
            s.clear()
            s.update(items)
            return s
        raise AssertionError(kind)

    def meddle(k):
        for slot, what, vals in after.get(str(k), []):
            s = kept.get(slot)
            if s is None:
                continue
            if what == 'clear':
                s.clear()
            elif what == 'add':
                s.update(node(i) for i in vals)
            elif what == 'discard':
                for i in vals:
                    s.discard(node(i))
    try:
        for k, o in enumerate(ops, first):
            if o[0] == 'nodes':
                g.add_nodes(box(k, [node(i) for i in o[1]]))
            else:
                g.add_neighbors(node(o[1]), box(k, [node(i) for i in o[2]]), o[3])
            meddle(k)
    except KeyError:
        return {'raised': True, 'nodes': [], 'adj': [], 'def': None, 'triv': None}
    res = {'raised': False}
    res['nodes'] = [back(n) for n in g.nodes()]
    res['adj'] = [[back(n), [back(m) for m in g.neighbors(n)]] for n in list(g.nodes())]
    for key, t in (('def', False), ('triv', True)):
        try:
            res[key] = [[back(n) for n in comp] for comp in g.sccs(t)]
        except Exception as e:   # noqa
            res[key] = None
            res[key + '_exc'] = repr(e)
    return res


cases = json.load(sys.stdin)
json.dump([run(c) for c in cases], sys.stdout)
