"""Implementation side of C20: build DiGraph through the public API, enumerate SCCs."""
import json
import sys

from zope.testrunner.digraph import DiGraph


class Obj:
    __slots__ = ('i',)

    def __init__(self, i):
        self.i = i


def run(c):
    keyed = c['keyed']            # 'int' (make_hashable=None) | 'id' (default, identity-keyed objects)
    objs = {}

    def node(i):
        if keyed == 'int':
            return i
        if i not in objs:
            objs[i] = Obj(i)
        return objs[i]

    def back(x):
        return x if keyed == 'int' else x.i

    ops = list(c['ops'])
    kw = {} if keyed == 'id' else {'make_hashable': None}
    if c.get('ctor_nodes') and ops and ops[0][0] == 'nodes':
        g = DiGraph([node(i) for i in ops[0][1]], **kw)
        ops = ops[1:]
    else:
        g = DiGraph(**kw)
    try:
        for o in ops:
            if o[0] == 'nodes':
                g.add_nodes(iter([node(i) for i in o[1]]))
            else:
                g.add_neighbors(node(o[1]), iter([node(i) for i in o[2]]), o[3])
    except KeyError:
        return {'raised': True, 'nodes': [], 'adj': [], 'def': None, 'triv': None}
    res = {'raised': False}
    res['nodes'] = [back(n) for n in g.nodes()]
    res['adj'] = [[back(n), [back(m) for m in g.neighbors(n)]] for n in list(g.nodes())]
    for key, t in (('def', False), ('triv', True)):
        try:
            res[key] = [[back(n) for n in comp] for comp in g.sccs(t)]
        except Exception as e:   # noqa
            res[key] = None
            res[key + '_exc'] = repr(e)
    return res


cases = json.load(sys.stdin)
json.dump([run(c) for c in cases], sys.stdout)
