# Boot file handed to seeding sub-agents (copy this directory outside /verif, e.g. to /tmp/agent_boot, and put it on PYTHONPATH):
# makes zope.interface importable in this image and, with ZTR_SRC=<worktree>/src, imports zope.testrunner from that tree.
import sys, os
try:
    import zope
    import sysconfig
    p = os.path.join(sysconfig.get_paths()['purelib'], 'zope')
    if os.path.isdir(p) and p not in list(zope.__path__):
        zope.__path__.append(p)
    alt = os.environ.get('ZTR_SRC')
    if alt and os.path.isdir(os.path.join(alt, 'zope', 'testrunner')):
        altz = os.path.join(alt, 'zope')
        rest = [q for q in zope.__path__ if not os.path.isdir(os.path.join(q, 'testrunner'))]
        zope.__path__[:] = [altz] + [q for q in rest if q != altz]
except Exception:
    pass
