"""World JSON <-> Coq `Chk_World.case` literals; world generator shared by the world-based properties."""
import re

import worldrun
from fw import g_bool, g_list, g_nats, g_opt, g_str

UNIT = 'zope.testrunner.layer.UnitTests'
HOUT = {'ok': 'HOk', 'raise': 'HRaise', 'notimpl': 'HNotImpl', 'raise_unhashable': 'HRaise'}
PO = {'ok': 'Pok', 'fail': 'Pfail', 'error': 'Perr', 'skip': 'Pskip', 'exit': 'Perr', 'raise': 'Perr', 'die': 'Pok', 'error_unhashable': 'Perr', 'kbd': 'Pok'}


ODD = ['cycle', 'ctxcycle', 'selfcause', 'deep', 'deepctx', 'badstr', 'badrepr', 'group', 'notes', 'args', 'syntaxerr']


def po(x):
    if isinstance(x, list) and x[0] == 'first_only':
        x = x[1]
    x = x[0] if isinstance(x, list) else x
    return 'Perr' if x.startswith('error_odd:') else PO[x]


def hout(x):
    return 'HRaise' if isinstance(x, str) and x.startswith('raise_odd:') else HOUT.get(x, 'HOk')
PHASE = {'t_setUp': 0, 't_body': 1, 't_sub': 2, 't_tearDown': 3, 't_cleanup': 4}


def lidx(world, j):
    """JSON layer index (None = unit) -> model layer index."""
    return 0 if j is None else j + 1


def sync_twins(world):
    """A twin is a second instance of the original's method: what the *method* carries (the expectedFailure marker) is the
    original's, whatever a generator wrote into the twin's own record afterwards."""
    ts = world['tests']
    for T in ts:
        if 'twin_of' in T:
            o = ts[T['twin_of']]
            assert 'twin_of' not in o and not o.get('deco_skip'), 'invalid twin'
            T.pop('xf', None)
            T.pop('deco_skip', None)
            if o.get('xf'):
                T['xf'] = True
            T['layer'] = o['layer']
    return world


def drop_test(ts, i):
    """tests without number i: its twins go with it, the other twins are re-pointed."""
    return [dict(T, twin_of=T['twin_of'] - (T['twin_of'] > i)) if 'twin_of' in T else T
            for k, T in enumerate(ts) if k != i and T.get('twin_of') != i]


def g_world(world, mod):
    sync_twins(world)
    names = [UNIT] + ['%s.%s' % (mod, L['name']) for L in world['layers']]
    bases = [[]] + [[b + 1 for b in L['bases']] for L in world['layers']]
    lw = '{| names := %s; bases := %s; unit_layer := Some 0%%nat |}' % (
        g_list([g_str(n) for n in names]), g_list([g_nats(b) for b in bases]))
    specs = ['{| l_setup := None; l_teardown := None; l_tsetup := false; l_tteardown := false |}']
    for L in world['layers']:
        h = L.get('hooks', {})

        def sc(k):
            return g_opt(g_list([hout(x) for x in h[k]])) if k in h else 'None'
        specs.append('{| l_setup := %s; l_teardown := %s; l_tsetup := %s; l_tteardown := %s |}' % (
            sc('setUp'), sc('tearDown'), g_bool('testSetUp' in h), g_bool('testTearDown' in h)))
    tests = []
    for T in ([] if world.get('select_none') else world['tests']):
        tests.append('{| t_layer := %d; t_deco := %s; t_xf := %s; t_su := %s; t_subs := %s; t_body := %s; t_td := %s; t_cl := %s; t_count := %d |}' % (
            lidx(world, T['layer']), g_bool(T.get('deco_skip', False)), g_bool(T.get('xf', False)),
            po(T.get('setUp', 'ok')), g_list([po(x) for x in T.get('subs', [])]), po(T.get('body', 'ok')),
            po(T.get('tearDown', 'ok')), g_list([po(x) for x in T.get('cleanups', [])]), int(T.get('count', 1))))
    return '{| lw := %s; lsp := %s; tests := %s |}' % (lw, g_list(specs), g_list(tests))


def parse_opts(world):
    o = {'x': False, 'repeat': 0, 'procs': 1}
    args = list(world.get('options', []))
    i = 0
    while i < len(args):
        a = args[i]
        if a in ('-x', '--stop-on-error'):
            o['x'] = True
        elif a == '--repeat':
            o['repeat'] = int(args[i + 1])
            i += 1
        elif a.startswith('-j'):
            o['procs'] = int(a[2:]) if len(a) > 2 else int(args[i + 1])
            if len(a) == 2:
                i += 1
        i += 1
    return o


def g_opts(world, import_errors=0):
    o = parse_opts(world)
    return '{| o_x := %s; o_repeat := %d; o_procs := %d; o_import_errors := %d |}' % (
        g_bool(o['x']), o['repeat'], o['procs'], import_errors)


def g_oev(r):
    kind = r[0]
    if kind in ('setUp', 'tearDown'):
        return '(%s %d %s)' % ('OSetUp' if kind == 'setUp' else 'OTearDown', r[1] + 1, hout(r[2]))
    if kind == 'testSetUp':
        return '(OTSetUp %d)' % (r[1] + 1)
    if kind == 'testTearDown':
        return '(OTTearDown %d)' % (r[1] + 1)
    if kind == 'stale':
        return '(OTSetUp 9999)'          # a hook of a layer object that no longer belongs to the program: never expected
    if kind in PHASE:
        return '(OPhase %d %d %d)' % (r[1], PHASE[kind], r[2] if len(r) > 2 else 0)
    return None


NAME_RES = [
    (re.compile(r'^test_(\d+) \(.*?\) \(k=(\d+)\)$'), lambda m, w, mod: 'NSub %d %d' % (int(m.group(1)), int(m.group(2)))),
    (re.compile(r'^test_(\d+) \(.*?\)$'), lambda m, w, mod: 'NTest %d' % int(m.group(1))),
]


def layer_index_by_name(world, mod, full):
    if full == UNIT:
        return 0
    for j, L in enumerate(world['layers']):
        if full == '%s.%s' % (mod, L['name']):
            return j + 1
    return None


def g_name(s, world, mod):
    for rx, f in NAME_RES:
        m = rx.match(s)
        if m:
            return '(%s)' % f(m, world, mod)
    m = re.match(r'^Layer: (.*)\.(setUp|tearDown)$', s)
    if m:
        i = layer_index_by_name(world, mod, m.group(1))
        if i is not None:
            return '(%s %d)' % ('NLayerSetUp' if m.group(2) == 'setUp' else 'NLayerTearDown', i)
    m = re.match(r'^subprocess for (.*)$', s)
    if m:
        i = layer_index_by_name(world, mod, m.group(1))
        if i is not None:
            return '(NSubprocess %d)' % i
    # an unknown name: encode as an impossible test so that it can never agree with the model
    return '(NTest 999999)'


def g_quad(q):
    return '(%d, %d, %d, %d)' % tuple(q)


def to_coq(world, obs):
    mod = obs['mod']
    if obs.get('driver_failed'):
        # the driver itself died: report as aborted with empty observation
        return ('{| w := %s; o := %s; i_parent := []; i_children := []; i_ran := 0; i_fail := []; i_err := []; i_skip := 0; '
                'i_failed := true; i_aborted := true; i_summaries := []; i_total := None; i_injected := false; i_lfail := None; i_lerr := None |}' % (g_world(world, mod), g_opts(world)))
    parent, children, order = worldrun.split_processes(obs)
    pe = [g_oev(r) for r in parent]
    ch = []
    for nm in order:
        i = layer_index_by_name(world, mod, nm)
        evs = [g_oev(r) for r in children[nm]]
        ch.append('(%d%%nat, %s)' % (999 if i is None else i, g_list([e for e in evs if e])))
    so = worldrun.parse_stdout(obs['stdout'])
    verbose = any(re.match(r'^-[a-z]*v', a) or a == '--verbose' for a in world.get('options', []))

    def listing(key):
        # the sections are printed only in verbose runs; a verbose run without the section lists nothing
        names = so[key]
        if names is None:
            return '(Some [])' if verbose else 'None'
        return '(Some %s)' % g_list([g_name(x, world, mod) for x in names])
    return ('{| w := %s; o := %s; i_parent := %s; i_children := %s; i_ran := %d; i_fail := %s; i_err := %s; i_skip := %d; '
            'i_failed := %s; i_aborted := %s; i_summaries := %s; i_total := %s; i_injected := %s; i_lfail := %s; i_lerr := %s |}' % (
                g_world(world, mod), g_opts(world, len(world['broken']) if 'broken' in world else obs.get('import_errors', 0)),
                g_list([e for e in pe if e]), g_list(ch), obs['ran'],
                g_list([g_name(s, world, mod) for s in obs['failures']]),
                g_list([g_name(s, world, mod) for s in obs['errors']]), obs['n_skipped'],
                g_bool(obs['failed']), g_bool(obs['aborted'] is not None),
                g_list([g_quad(q) for q in so['summaries']]), g_opt(None if so['total'] is None else g_quad(so['total'])),
                g_bool(bool(world.get('injected'))), listing('listed_failures'), listing('listed_errors')))


# ---------------------------------------------------------------- generator
# some names are substrings of others (a layer selected by regex search instead of equality would drag the longer one along)
# … and some are not identifiers: instance layers may be called anything, e.g. with characters that mean something in a regular
# expression ('Lb+' read as a pattern matches 'Lbb'; 'L(a)' read as a pattern does not match itself)
LNAMES = ['La', 'Lb', 'Lc', 'Ma', 'Kz', 'Zq', 'Ab', 'Lx', 'Laz', 'Abx', 'Lb+', 'Lbb', 'L(a)', 'Kz|Ma', 'L[ax]']


def gen_layers(rng, n, p_hook=0.8, faults=True):
    names = rng.sample(LNAMES, n)
    layers = []
    for i in range(n):
        cand = list(range(i))
        k = min(len(cand), rng.choice([0, 0, 1, 1, 1, 2, 2, 3]))
        bases = rng.sample(cand, k)
        hooks = {}
        if rng.random() < p_hook:
            hooks['setUp'] = rng.choice([['ok']] * 8 + ([['raise'], ['ok', 'raise'], ['raise', 'ok'], ['raise_unhashable'], ['raise_odd:' + rng.choice(ODD)]] if faults else []))
        if rng.random() < p_hook:
            hooks['tearDown'] = rng.choice([['ok']] * 7 + ([['raise'], ['notimpl'], ['notimpl'], ['notimpl', 'ok'], ['raise_unhashable'], ['raise_odd:' + rng.choice(ODD)]] if faults else []))
        if rng.random() < 0.6:
            hooks['testSetUp'] = ['ok']
        if rng.random() < 0.6:
            hooks['testTearDown'] = ['ok']
        kind = rng.choice(['class', 'class', 'instance', 'instance', 'falsy', 'alias', 'method', 'method'])
        if not names[i].isalnum():
            kind = rng.choice(['instance', 'falsy', 'method'])
        layers.append({'name': names[i], 'bases': bases, 'kind': kind, 'hooks': hooks})
    return layers


OUTS_BAD = ['fail', 'error', 'skip']


def gen_test(rng, nlayers, rich=True):
    T = {'layer': rng.choice([None] + list(range(nlayers))) if nlayers else None}
    if not rich or rng.random() < 0.45:
        r = rng.random()
        if r < 0.25:
            T['body'] = rng.choice(['fail', 'error'])
        return T
    r = rng.random()
    if r < 0.12:
        T['deco_skip'] = True
        if rng.random() < 0.2:
            T['count'] = 2
        return T
    if r < 0.3:
        T['xf'] = True
    if rng.random() < 0.15:
        T['setUp'] = rng.choice(OUTS_BAD)
    if rng.random() < 0.3:
        T['subs'] = [rng.choice(['ok', 'ok', 'fail', 'error', 'skip']) for _ in range(rng.randint(1, 3))]
    if rng.random() < 0.4:
        T['body'] = rng.choice(OUTS_BAD + ['exit', 'error_unhashable', 'error_odd:' + rng.choice(ODD)])
    if rng.random() < 0.2:
        T['tearDown'] = rng.choice(OUTS_BAD)
    if rng.random() < 0.2:
        T['cleanups'] = [rng.choice(['ok', 'ok', 'fail', 'error', 'skip']) for _ in range(rng.randint(1, 2))]
    if rng.random() < 0.1:
        T['count'] = rng.choice([2, 3, 5])      # a composite case: countTestCases() > 1
    return T


def gen_world(rng, max_layers=4, max_tests=7, opts='any', faults=True, rich=True):
    n = rng.randint(0, max_layers)
    layers = gen_layers(rng, n, faults=faults)
    chain = None
    if faults and n >= 2 and rng.random() < 0.12:
        # a tear-down pass that meets an error and then a layer that cannot be torn down: a derived layer whose tearDown raises
        # over a base whose tearDown raises NotImplementedError (the derived one is torn down first)
        cand = [i for i, L in enumerate(layers) if L['bases']]
        if cand:
            i = rng.choice(cand)
            layers[i]['hooks']['tearDown'] = ['raise']
            layers[i]['hooks'].setdefault('setUp', ['ok'])
            b = rng.choice(layers[i]['bases'])
            layers[b]['hooks']['tearDown'] = ['notimpl']
            layers[b]['hooks'].setdefault('setUp', ['ok'])
            chain = i
    tests = [gen_test(rng, n, rich) for _ in range(rng.randint(1, max_tests))]
    if chain is not None:
        # the derived layer is used, and so is every other layer (some group follows it in the run order)
        tests += [{'layer': j} for j in range(n) if j == chain or rng.random() < 0.7]
    options = []
    if opts == 'any':
        r = rng.random()
        if r < 0.2:
            options.append('-x')
        if rng.random() < 0.15:
            options += ['--repeat', '2']
        if '-x' not in options and rng.random() < 0.25:
            options.append('-j%d' % rng.choice([2, 3]))
        if rng.random() < 0.4:
            options.append(rng.choice(['-v', '-vv']))
        # options that must not change what runs or what is reported (only how it is displayed / where else it is written)
        if rng.random() < 0.25:
            options.append(rng.choice(['-c', '-p', '--buffer', '-vvv']) if rng.random() < 0.8 else '--xml=xmlout')
    elif isinstance(opts, list):
        options = list(opts)
    if rich and tests and rng.random() < 0.12:
        # an equal-but-distinct second instance of some test (same class and method: TestCase.__eq__ / __hash__ agree)
        i = rng.randrange(len(tests))
        if not tests[i].get('deco_skip'):
            tw = dict(tests[i], twin_of=i)
            if rng.random() < 0.5:
                tw['count'] = rng.choice([1, 2, 4])
            tests.append(tw)
    world = {'layers': layers, 'tests': tests, 'options': options}
    # how the run is started: the Runner class directly, or the public entry points that turn its verdict into a
    # return value (run_internal) or an exit status (run)
    r = rng.random()
    if r < 0.2:
        world['via'] = 'run_internal'
    elif r < 0.4:
        world['via'] = 'run'
    return world
