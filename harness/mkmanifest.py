#!/venv/bin/python
"""Regenerates /verif/MANIFEST.json from the table below (kept valid at all times)."""
import json
import os

VERIF = os.path.dirname(os.path.dirname(os.path.abspath(__file__)))
ALL = ['C%02d' % i for i in range(1, 21)]

import importlib
import sys
sys.path.insert(0, os.path.join(VERIF, 'harness'))

CLAIMED = {}
for _pid in ALL:
    if os.path.exists(os.path.join(VERIF, 'harness', 'props', _pid.lower() + '.py')):
        _m = importlib.import_module('props.' + _pid.lower())
        if getattr(_m, 'CLAIM', True):
            CLAIMED[_pid] = ('DESIGN.md §4 ' + _pid, _m.TECHNIQUE, _m.LEVEL_TEXT, _m.LEVEL_NOTE)


def main():
    checks = []
    for pid in ALL:
        if pid not in CLAIMED:
            continue
        ref, tech, text, note = CLAIMED[pid]
        checks.append({
            'property_id': pid,
            'quick_cmd': './check %s --quick' % pid,
            'thorough_cmd': './check %s --thorough' % pid,
            'evidence_file': 'evidence/%s.json' % pid,
            'replay_cmd_template': './check %s --replay {path}' % pid,
            'engine': 'coq-correspondence',
            'level_claimed': {'category': 'proof', 'text': text, 'design_ref': ref},
            'level_note': note,
            'technique': tech,
        })
    na = [{'property_id': pid, 'reason': 'check not built yet in this development (planned, see DESIGN.md §4 %s); not claimed until its Coq model, theorems and correspondence check exist' % pid}
          for pid in ALL if pid not in CLAIMED]
    m = {
        'version': 1,
        'setup_cmd': './check --setup',
        'hooks': {
            'guard': 'ZOPE_TESTRUNNER_VERIF',
            'enable': 'no source hooks exist; the harness sets ZOPE_TESTRUNNER_VERIF=1 and observes through generated test worlds, public APIs (run_internal, Runner(script_parts=…)) and the file system',
            'baseline_off_cmd': 'cd /repo && /venv/bin/python -m pytest -ra -q -p no:cacheprovider --timeout=900 --continue-on-collection-errors',
            'source_commits': [],
            'add_only': True,
        },
        'engines': [{'name': 'coq-correspondence', 'path': 'check',
                     'serves_properties': sorted(CLAIMED),
                     'kind_free_text': 'Coq 8.16 development in coq/ (models, *Facts.v proofs, P_Cnn.v property theorems with Print Assumptions) '
                                       'tied to /repo by a per-run correspondence check: generated cases run on the implementation and on the model inside coqc (vm_compute)'}],
        'checks': checks,
        'not_applicable': na,
        'notes': 'See DESIGN.md. known_findings.json lists open and fixed findings.',
    }
    with open(os.path.join(VERIF, 'MANIFEST.json'), 'w') as f:
        json.dump(m, f, indent=1)
        f.write('\n')


if __name__ == '__main__':
    main()
