"""Implementation side of C11: Shuffle.global_setup/report on a registered-tests dict."""
import io
import json
import random
import sys
import unittest

from zope.testrunner.shuffle import Shuffle


class T(unittest.TestCase):
    def __init__(self, i):
        super().__init__()
        self.i = i

    def runTest(self):
        pass


class Out:
    def __init__(self):
        self.msgs = []

    def info(self, m):
        self.msgs.append(m)


class O:
    pass


def go(layers, seed, noise=0):
    import io
    from contextlib import redirect_stdout
    from zope.testrunner.options import get_options

    class R:
        pass
    r = R()
    argv = ['prog', '--shuffle'] + ([] if seed is None else ['--shuffle-seed=%d' % seed])
    with redirect_stdout(io.StringIO()):
        r.options = get_options(argv, [])
    r.options.resume_layer = None
    r.options.resume_number = None
    r.options.output = Out()
    r.tests_by_layer_name = {n: unittest.TestSuite([T(i) for i in t]) for n, t in layers}
    f = Shuffle(r)
    # between the creation of the feature and its set-up the test modules are imported: whatever they do with the `random`
    # module (sample data built at import time) is none of the shuffle's business
    for _ in range(noise):
        random.random()
    if noise % 3 == 2:
        random.seed(noise)
    f.global_setup()
    f.report()
    res = [[n, [t.i for t in s]] for n, s in r.tests_by_layer_name.items()]
    rep = r.options.output.msgs[-1]
    return res, rep, f.seed


def run(c):
    seed = c['seed']
    r1, rep1, used = go(c['layers'], seed)
    r2, _, _ = go(list(reversed(c['layers'])), seed, noise=1 + len(c['layers']) % 5)
    seed_ok = (rep1 == 'Tests were shuffled using seed number %d.' % seed) and used == seed
    # an unseeded run reports a seed that reproduces it
    r3, rep3, used3 = go(c['layers'], None)
    reported = int(rep3.split('number')[1].strip(' .'))
    r4, _, _ = go(c['layers'], reported, noise=2)
    seed_ok = seed_ok and r3 == r4
    # oracle: the same generator, independently
    rng = random.Random(seed)
    rng.seed(seed, version=1)
    n = sum(max(len(t) - 1, 0) for _, t in c['layers'])
    ks = []
    for _ in range(n):
        x = rng.random() * 2 ** 53
        assert x == int(x)
        ks.append(int(x))
    return {'r1': r1, 'r2': r2, 'seed_ok': seed_ok, 'ks': ks}


cases = json.load(sys.stdin)
json.dump([run(c) for c in cases], sys.stdout)
