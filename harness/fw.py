"""Framework shared by all property checks: Coq build, case files, evidence,
known findings, violation reporting.  Python stdlib only."""
import atexit
import fcntl
import hashlib
import json
import os
import random
import re
import shutil
import subprocess
import sys
import time

VERIF = os.path.dirname(os.path.dirname(os.path.abspath(__file__)))
COQ = os.path.join(VERIF, 'coq')
HARNESS = os.path.join(VERIF, 'harness')
BOOT = os.path.join(HARNESS, 'boot')
REPO = os.environ.get('VERIF_REPO', '/repo')
REPO_SRC = os.path.join(REPO, 'src')
PY = '/venv/bin/python'
NCPU = min(16, os.cpu_count() or 4)

_scratch = None


def scratch():
    """Per-process scratch directory outside /repo and /verif; removed at exit."""
    global _scratch
    if _scratch is None:
        base = os.environ.get('VERIF_SCRATCH', '/var/tmp')
        _scratch = os.path.join(base, 'verif-%d' % os.getpid())
        shutil.rmtree(_scratch, ignore_errors=True)
        os.makedirs(_scratch)
        atexit.register(shutil.rmtree, _scratch, True)
    return _scratch


def impl_env(extra=None, hashseed='0'):
    env = {k: v for k, v in os.environ.items()
           if k not in ('ZOPE_TESTRUNNER_LOG_INI', 'PYTHONWARNINGS', 'PYTHONSTARTUP')}
    env['PYTHONPATH'] = os.pathsep.join([BOOT, HARNESS, REPO_SRC])
    env['PYTHONHASHSEED'] = str(hashseed)
    env['PYTHONWARNINGS'] = 'ignore'
    env['PYTHONDONTWRITEBYTECODE'] = '1'
    env['ZOPE_TESTRUNNER_VERIF'] = '1'
    if extra:
        env.update(extra)
    return env


# ------------------------------------------------------------------ Gallina literals
def g_nat(n):
    return '%d%%nat' % n


def g_N(n):
    return '%d%%N' % n


def g_Z(n):
    return '(%d)%%Z' % n


def g_bool(b):
    return 'true' if b else 'false'


def g_list(xs):
    return '[' + '; '.join(xs) + ']'


def g_str(s):
    """Python str -> list N of code points."""
    return '[' + '; '.join('%d' % ord(c) for c in s) + ']%N' if s else '[]'


def g_bytes(b):
    return '[' + '; '.join('%d' % c for c in b) + ']%N' if b else '[]'


def g_nats(xs):
    return '[' + '; '.join('%d' % x for x in xs) + ']%nat' if xs else '[]'


def g_bools(xs):
    return g_list([g_bool(b) for b in xs])


def g_opt(x):
    return 'None' if x is None else '(Some %s)' % x


def g_pair(*xs):
    return '(' + ', '.join(xs) + ')'


# ------------------------------------------------------------------ Coq build
class CoqError(Exception):
    pass


def _lock():
    f = open(os.path.join(COQ, '.lock'), 'w')
    fcntl.flock(f, fcntl.LOCK_EX)
    return f


def coq_build(timeout=3000):
    """Full .vo build of the development (no-op when up to date)."""
    lock = _lock()
    try:
        if not os.path.exists(os.path.join(COQ, 'Makefile')) or \
                os.path.getmtime(os.path.join(COQ, 'Makefile')) < os.path.getmtime(os.path.join(COQ, '_CoqProject')):
            subprocess.run(['coq_makefile', '-f', '_CoqProject', '-o', 'Makefile'], cwd=COQ,
                           check=True, stdout=subprocess.DEVNULL)
        p = subprocess.run(['timeout', str(timeout), 'make', '-j%d' % NCPU], cwd=COQ,
                           stdout=subprocess.PIPE, stderr=subprocess.STDOUT, text=True)
        with open(os.path.join(COQ, 'build.log'), 'a') as f:
            f.write(p.stdout)
        if p.returncode != 0:
            raise CoqError(p.stdout[-4000:])
    finally:
        lock.close()


FORBIDDEN = re.compile(r'\b(Admitted|admit|Axiom|Parameter|Conjecture|Admit Obligations)\b|Unset Guard|bypass_check|type-in-type|impredicative-set')


def coq_hygiene():
    """No Admitted/Axiom/… anywhere in the development (comments are stripped first)."""
    bad = []
    for fn in sorted(os.listdir(COQ)):
        if not fn.endswith('.v'):
            continue
        src = open(os.path.join(COQ, fn)).read()
        src = re.sub(r'\(\*.*?\*\)', '', src, flags=re.S)
        for m in FORBIDDEN.finditer(src):
            bad.append('%s: %s' % (fn, m.group(0)))
        for m in re.finditer(r'^\s*(Variable|Hypothesis|Variables|Hypotheses)\b', src, flags=re.M):
            # must be inside a Section
            before = src[:m.start()]
            if len(re.findall(r'^\s*Section\b', before, flags=re.M)) <= len(re.findall(r'^\s*End\b', before, flags=re.M)) - len(re.findall(r'^\s*Module\b', before, flags=re.M)):
                bad.append('%s: %s outside a section' % (fn, m.group(1)))
    return bad


ALLOWED_AXIOMS = ()   # none needed so far; stdlib axioms would be named here and in the evidence


def check_property_theorems(pid):
    """Re-compile P_<pid>.v into scratch and parse `Print Assumptions`.
    Returns dict(obligations, discharged, theorems=[(name, status)], axioms=[...])."""
    src_path = os.path.join(COQ, 'P_%s.v' % pid)
    src = open(src_path).read()
    src_nc = re.sub(r'\(\*.*?\*\)', '', src, flags=re.S)
    names = re.findall(r'^\s*(?:Theorem|Lemma|Corollary)\s+(\w+)', src_nc, flags=re.M)
    printed = re.findall(r'Print Assumptions\s+(\w+)\s*\.', src_nc)
    out_vo = os.path.join(scratch(), 'P_%s.vo' % pid)
    p = subprocess.run(['timeout', '600', 'coqc', '-Q', COQ, 'ZT', src_path, '-o', out_vo],
                       stdout=subprocess.PIPE, stderr=subprocess.STDOUT, text=True)
    res = {'obligations': len(names), 'discharged': 0, 'theorems': [], 'axioms': [],
           'checker_cmd': 'coqc -Q coq ZT coq/P_%s.v (after make -C coq: full .vo build)' % pid}
    if p.returncode != 0:
        res['error'] = p.stdout[-3000:]
        res['theorems'] = [(n, 'does not compile') for n in names]
        return res
    # split the output into one block per Print Assumptions
    blocks = re.split(r'(?=Closed under the global context|Axioms:)', p.stdout)
    blocks = [b for b in blocks if b.startswith('Closed under') or b.startswith('Axioms:')]
    status = {}
    for name, blk in zip(printed, blocks):
        if blk.startswith('Closed'):
            status[name] = 'closed'
        else:
            ax = re.findall(r'^(\S+)\s*:', blk, flags=re.M)
            ax = [a for a in ax if a != 'Axioms']
            res['axioms'].extend(ax)
            status[name] = 'closed' if all(a in ALLOWED_AXIOMS for a in ax) else 'axioms: ' + ', '.join(ax)
    for n in names:
        st = status.get(n, 'no Print Assumptions')
        res['theorems'].append((n, st))
        if st == 'closed':
            res['discharged'] += 1
    return res


def coqchk_property(pid):
    """Thorough tier: re-check P_<pid>.vo and everything it depends on with the independent checker coqchk and
    report the axioms it finds (must be none).  Returns (ok, text)."""
    p = subprocess.run(['timeout', '3000', 'coqchk', '-silent', '-o', '-Q', COQ, 'ZT', 'ZT.P_%s' % pid],
                       stdout=subprocess.PIPE, stderr=subprocess.STDOUT, text=True)
    out = p.stdout
    m = re.search(r'\* Axioms:\s*(.*?)\n\s*\n', out, flags=re.S)
    axioms = m.group(1).strip() if m else 'unparsed'
    bad = []
    for key in ('type-in-type', 'unsafe (co)fixpoints', 'positivity is assumed'):
        mm = re.search(re.escape(key) + r':\s*(\S+)', out)
        if not mm or mm.group(1) != '<none>':
            bad.append(key)
    ok = p.returncode == 0 and axioms == '<none>' and not bad
    return ok, 'coqchk -o ZT.P_%s: exit %d, axioms %s%s' % (pid, p.returncode, axioms, (', flagged: ' + ', '.join(bad)) if bad else '')


def run_cases(pid, chk_module, case_terms, shard=400, extra_imports=(), check_fn='check', timeout=2400, case_type=None):
    """Evaluate `check` of chk_module on every case inside Coq; return {index: code} for codes != 0.
    case_terms: list of Gallina terms of type `case`."""
    d = os.path.join(scratch(), 'cases_%s_%d' % (pid, int(time.time() * 1000) % 10**9))
    os.makedirs(d, exist_ok=True)
    files = []
    for k in range(0, len(case_terms), shard):
        fn = os.path.join(d, 'cases_%d.v' % (k // shard))
        with open(fn, 'w') as f:
            f.write('From ZT Require Import Base %s.\n' % ' '.join((chk_module,) + tuple(extra_imports)))
            f.write('Open Scope bool_scope.\n')
            f.write('Definition cases : list %s := [\n' % (case_type or chk_module + '.case'))
            f.write(';\n'.join(case_terms[k:k + shard]))
            f.write('\n].\n')
            f.write('Eval vm_compute in (codes %s.%s cases).\n' % (chk_module, check_fn))
        files.append((k, fn))
    results = {}

    def one(item):
        k, fn = item
        try:
            # large case literals (thousands of names) overflow coqc's default stack while being parsed
            p = subprocess.run(['sh', '-c', 'ulimit -s unlimited 2>/dev/null; exec timeout "$0" coqc -Q "$1" ZT "$2"', str(timeout), COQ, fn],
                               stdout=subprocess.PIPE, stderr=subprocess.STDOUT, text=True, cwd=d)
        except Exception as e:      # pragma: no cover
            raise CoqError('coqc could not run on %s: %s' % (fn, e))
        if p.returncode != 0:
            keep = os.path.join(VERIF, 'replays')
            os.makedirs(keep, exist_ok=True)
            shutil.copy(fn, os.path.join(keep, 'failed_' + pid + '_' + os.path.basename(fn)))
            raise CoqError('coqc failed (%d) on %s:\n%s' % (p.returncode, fn, p.stdout[-3000:]))
        return [(k + i, c) for i, c in parse_codes(p.stdout, fn)]

    for lst in parallel_map(one, files):
        for i, c in lst:
            results[i] = c
    shutil.rmtree(d, ignore_errors=True)
    return results


def parse_codes(out, fn='?'):
    """Strict parser for the output of `Eval vm_compute in (codes …)`: anything unexpected is an error."""
    m = re.search(r'=\s*(\[.*?\])\s*:\s*list\s*\(nat\s*\*\s*nat\)', out, flags=re.S)
    if not m:
        raise CoqError('unparsable coqc output for %s:\n%s' % (fn, out[-2000:]))
    body = re.sub(r'%nat', '', m.group(1))
    body = re.sub(r'\s+', '', body)
    if not re.fullmatch(r'\[(\(\d+,\d+\)(;\(\d+,\d+\))*)?\]', body):
        raise CoqError('unparsable code list for %s: %s' % (fn, body[:500]))
    return [(int(a), int(b)) for a, b in re.findall(r'\((\d+),(\d+)\)', body)]


# ------------------------------------------------------------------ known findings
def load_findings():
    p = os.path.join(VERIF, 'known_findings.json')
    if not os.path.exists(p):
        return {'open': [], 'fixed': []}
    return json.load(open(p))


def open_findings(pid):
    return [f for f in load_findings().get('open', []) if f['property'] == pid]


# ------------------------------------------------------------------ reporting
class Report:
    def __init__(self, pid, tier, seed):
        self.pid = pid
        self.tier = tier
        self.seed = seed
        self.t0 = time.time()
        self.violations = []       # (replay_path, suffix)
        self.known = []            # strings
        self.coverage = {}
        self.assumptions = []
        self.dist = {}
        self.notes = []

    def count(self, key, n=1):
        self.dist[key] = self.dist.get(key, 0) + n

    def violation(self, replay_obj, no_input=False):
        os.makedirs(os.path.join(VERIF, 'replays'), exist_ok=True)
        blob = json.dumps(replay_obj, sort_keys=True, default=str)
        h = hashlib.sha1(blob.encode()).hexdigest()[:12]
        path = os.path.join(VERIF, 'replays', '%s-%s.json' % (self.pid, h))
        with open(path, 'w') as f:
            json.dump(replay_obj, f, indent=1, sort_keys=True, default=str)
        self.violations.append((path, ' no-failing-input-found' if no_input else ''))

    def known_finding(self, text):
        if text not in self.known:
            self.known.append(text)

    def finish(self, proof):
        """Write evidence, print KNOWN-FINDING / VIOLATION lines, return exit status."""
        cov = dict(self.coverage)
        cov.setdefault('obligations', proof['obligations'])
        cov.setdefault('discharged', proof['discharged'])
        cov.setdefault('checker_cmd', proof['checker_cmd'])
        cov.setdefault('theorems', [list(t) for t in proof['theorems']])
        cov.setdefault('axioms_reported_by_print_assumptions', sorted(set(proof['axioms'])))
        cov.setdefault('input_distribution', self.dist)
        cov.setdefault('trusted_base', [])
        ev = {
            'property_id': self.pid, 'tier': self.tier, 'seed': self.seed, 'level': 'proof',
            'coverage': cov, 'assumptions': self.assumptions,
            'wall_s': round(time.time() - self.t0, 2), 'violations': len(self.violations),
            'known_findings_hit': self.known, 'notes': self.notes,
        }
        # mutation testing (VERIF_REPO = a scratch worktree, or VERIF_NO_EVIDENCE) must not overwrite the evidence of /repo
        if not os.environ.get('VERIF_NO_EVIDENCE') and os.path.realpath(REPO) == '/repo':
            os.makedirs(os.path.join(VERIF, 'evidence'), exist_ok=True)
            with open(os.path.join(VERIF, 'evidence', '%s.json' % self.pid), 'w') as f:
                json.dump(ev, f, indent=1, sort_keys=True, default=str)
        for k in self.known:
            print('KNOWN-FINDING: property=%s %s' % (self.pid, k))
        for path, suffix in self.violations:
            print('VIOLATION property=%s replay=%s%s' % (self.pid, path, suffix))
        sys.stdout.flush()
        return 1 if self.violations else 0


def case_hash(obj):
    return hashlib.sha1(json.dumps(obj, sort_keys=True, default=str).encode()).hexdigest()


def load_corpus(pid):
    d = os.path.join(VERIF, 'corpus', pid)
    out = []
    if os.path.isdir(d):
        for fn in sorted(os.listdir(d)):
            if fn.endswith('.json'):
                out.append(json.load(open(os.path.join(d, fn))))
    return out


def run_py(script, payload, timeout=600, hashseed='0', extra_env=None, cwd=None):
    """Run a harness script under /venv/bin/python against /repo/src with JSON in/out."""
    p = subprocess.run([PY, os.path.join(HARNESS, script)], input=json.dumps(payload), text=True,
                       stdout=subprocess.PIPE, stderr=subprocess.PIPE, env=impl_env(extra_env, hashseed),
                       timeout=timeout, cwd=cwd or scratch())
    if p.returncode != 0:
        raise RuntimeError('%s failed (%d):\n%s' % (script, p.returncode, p.stderr[-3000:]))
    return json.loads(p.stdout)


def parallel_map(fn, items, workers=NCPU):
    from concurrent.futures import ThreadPoolExecutor
    with ThreadPoolExecutor(max_workers=workers) as ex:
        return list(ex.map(fn, items))


# ------------------------------------------------------------------ standard driver
def evaluate(mod, cases, rep=None):
    """Run the implementation on `cases`, evaluate model + predicates in Coq.
    Returns (observations, {index: code})."""
    obs = mod.observe(cases)
    terms = [mod.to_coq(c, o) for c, o in zip(cases, obs)]
    codes = run_cases(mod.PID, mod.CHK, terms, shard=getattr(mod, 'SHARD', 400), extra_imports=getattr(mod, 'IMPORTS', ()), check_fn=getattr(mod, 'CHECK_FN', 'check'), case_type=getattr(mod, 'CASE_TYPE', None))
    return obs, codes


def shrink(mod, case, pred, budget=60):
    """Greedy shrinking: keep a candidate while pred(candidate) stays true."""
    cands = getattr(mod, 'shrink_candidates', None)
    if cands is None:
        return case
    improved = True
    # shrinking is a convenience: it stops after a time budget (a change that makes every run hang until its timeout would
    # otherwise keep the check busy for hours) and the case found so far is reported
    deadline = time.time() + float(os.environ.get('VERIF_SHRINK_SECONDS', '300'))
    while improved and budget > 0 and time.time() < deadline:
        improved = False
        batch = list(cands(case))[:40]
        if not batch:
            break
        budget -= 1
        try:
            _, codes = evaluate(mod, batch)
        except Exception:
            break
        for i, c in enumerate(batch):
            if pred(codes.get(i, 0)):
                case = c
                improved = True
                break
    return case


def standard_check(mod, tier, seed):
    """Main batch of `mod` plus any batches listed in mod.EXTRA (objects with the same interface; they share the
    property id, the theorems and the evidence file)."""
    rep = Report(mod.PID, tier, seed)
    rep.assumptions = list(getattr(mod, 'ASSUMPTIONS', []))
    rep.coverage['trusted_base'] = list(getattr(mod, 'TRUSTED_BASE', [])) + COMMON_TRUSTED
    try:
        coq_build()
        proof = check_property_theorems(mod.PID)
    except CoqError as e:
        proof = {'obligations': 1, 'discharged': 0, 'theorems': [], 'axioms': [], 'checker_cmd': 'make -C coq',
                 'error': str(e)}
    broken = [t for t in proof['theorems'] if t[1] != 'closed'] or ([('build', proof['error'])] if proof.get('error') else [])
    if tier == 'thorough' and not broken:
        ok, text = coqchk_property(mod.PID)
        rep.notes.append(text)
        proof['checker_cmd'] += '; coqchk -silent -o -Q coq ZT ZT.P_%s' % mod.PID
        if not ok:
            broken = [('coqchk', text)]
    batches = [mod] + list(getattr(mod, 'EXTRA_BATCHES', []))
    for k, b in enumerate(batches):
        if not hasattr(b, 'PID'):
            b.PID = mod.PID
        process_batch(b, rep, tier, seed + k, broken if k == 0 else [], label=getattr(b, 'LABEL', 'main' if k == 0 else 'extra%d' % k))
    return rep.finish(proof)


def _acc(rep, key, n):
    rep.coverage[key] = rep.coverage.get(key, 0) + n


def process_batch(mod, rep, tier, seed, broken, label='main'):
    rng = random.Random(seed)
    corpus = load_corpus(mod.PID) if label == 'main' else []
    gen = mod.generate(rng, tier, rep)
    cases = corpus + gen
    if not cases:
        return
    t0 = time.time()
    obs, codes = evaluate(mod, cases, rep)
    rep.notes.append('%s batch: %d cases, impl+coq evaluation %.1fs' % (label, len(cases), time.time() - t0))
    seen = set()
    nontrivial = 0
    for c in cases:
        h = case_hash(c)
        if h in seen:
            continue
        seen.add(h)
        if mod.nontrivial(c):
            nontrivial += 1
    _acc(rep, 'evaluations', len(cases))
    _acc(rep, 'distinct_nontrivial', nontrivial)
    _acc(rep, 'corpus_cases', len(corpus))
    _acc(rep, 'traces_validated_against_impl', len(cases))
    rep.coverage['rule'] = (rep.coverage.get('rule', '') + (' || ' if rep.coverage.get('rule') else '') + mod.RULE)
    rep.coverage.setdefault('samples', []).extend(pick_samples(mod, cases, obs))
    if getattr(mod, 'EXHAUSTIVE', {}).get(tier):
        rep.coverage['exhaustive'] = True
        rep.coverage['exhaustive_space'] = mod.EXHAUSTIVE[tier]
    mism = [i for i, c in codes.items() if c & 1]
    pfail = [i for i, c in codes.items() if c & 2]
    outside = [i for i, c in codes.items() if c & 4]
    _acc(rep, 'model_impl_mismatches', len(mism))
    _acc(rep, 'property_failures_on_impl', len(pfail))
    _acc(rep, 'cases_outside_theorem_hypotheses', len(outside))
    findings = open_findings(mod.PID)
    unexplained = []
    for i in pfail:
        f = mod.classify(cases[i], obs[i], codes[i], findings) if hasattr(mod, 'classify') else None
        if f:
            rep.known_finding(f)
        else:
            unexplained.append(i)
    if unexplained:
        i = unexplained[0]
        small = shrink(mod, cases[i], lambda code: bool(code & 2) and not (code & ~codes[i] & 0xfff8))
        o2, c2 = evaluate(mod, [small])
        view = getattr(mod, 'sample_view', lambda c, o: dict(case=c, observation=o))(small, o2[0])
        rep.violation({'property': mod.PID, 'batch': label, 'kind': 'property predicate false on implementation observation',
                       'case': small, 'observation': view.get('observation'), 'code': c2.get(0, 0),
                       'original_case': cases[i], 'how_to_replay': './check %s --replay <this file>' % mod.PID,
                       'other_failing_cases': len(unexplained) - 1})
    elif mism or broken:
        found = None
        what = {}
        if mism:
            i = mism[0]
            small = shrink(mod, cases[i], lambda code: bool(code & 1))
            o2, c2 = evaluate(mod, [small])
            view = getattr(mod, 'sample_view', lambda c, o: dict(case=c, observation=o))(small, o2[0])
            what = {'correspondence': mod.CHK + '.' + getattr(mod, 'CHECK_FN', 'check') + ' (model vs implementation)', 'case': small,
                    'observation': view.get('observation'), 'code': c2.get(0, 0), 'mismatching_cases': len(mism)}
            if c2.get(0, 0) & 2 and not (hasattr(mod, 'classify') and mod.classify(small, o2[0], c2.get(0, 0), findings)):
                # the shrunk disagreement is itself an input on which the statement fails
                found = {'case': small, 'observation': view.get('observation'), 'code': c2.get(0, 0)}
            srng = random.Random(seed + 7919)
            neigh = []
            if hasattr(mod, 'neighbours'):
                for j in mism[:5]:
                    neigh.extend(mod.neighbours(cases[j], srng))
            neigh.extend(mod.generate(srng, 'search', Report(mod.PID, tier, seed)))
            if neigh and not found:
                o3, c3 = evaluate(mod, neigh)
                for j, code in sorted(c3.items()):
                    if code & 2 and not (hasattr(mod, 'classify') and mod.classify(neigh[j], o3[j], code, findings)):
                        small = shrink(mod, neigh[j], lambda cd: bool(cd & 2))
                        o4, c4 = evaluate(mod, [small])
                        view = getattr(mod, 'sample_view', lambda c, o: dict(case=c, observation=o))(small, o4[0])
                        found = {'case': small, 'observation': view.get('observation'), 'code': c4.get(0, 0)}
                        break
                _acc(rep, 'search_cases', len(neigh))
        if found:
            found.update({'property': mod.PID, 'batch': label, 'kind': 'failing input found by search after correspondence broke',
                          'broken': what})
            rep.violation(found)
        else:
            rep.violation({'property': mod.PID, 'batch': label, 'kind': 'property no longer shown to hold',
                           'broken_theorems': broken, 'broken_correspondence': what}, no_input=True)


def pick_samples(mod, cases, obs, k=2):
    idx = [i for i, c in enumerate(cases) if mod.nontrivial(c)] or list(range(len(cases)))
    idx.sort(key=lambda i: len(json.dumps(cases[i], default=str)) + len(json.dumps(obs[i], default=str)))
    # smallest non-trivial case and a median-sized one
    chosen = [idx[0], idx[len(idx) // 2]] if len(idx) > 1 else idx[:1]
    view = getattr(mod, 'sample_view', lambda c, o: dict(case=c, observation=o))
    return [view(cases[i], obs[i]) for i in chosen[:k]]


COMMON_TRUSTED = [
    'Coq 8.16.1 kernel (coqc); vm_compute used to evaluate model and predicates on cases',
    'hand-written Gallina model tied to /repo by the correspondence harness (Python generators, observers, literal printer in /verif/harness)',
    'CPython 3.12.1 on Linux is the only interpreter executed',
]


def replay(mod, path):
    obj = json.load(open(path))
    case = obj.get('case') or obj.get('broken_correspondence', {}).get('case')
    if case is None:
        print(json.dumps(obj, indent=1))
        return 0
    coq_build()
    label = obj.get('batch', 'main')
    for b in getattr(mod, 'EXTRA_BATCHES', []):
        if getattr(b, 'LABEL', None) == label:
            if not hasattr(b, 'PID'):
                b.PID = mod.PID
            mod = b
    obs, codes = evaluate(mod, [case])
    print(json.dumps({'case': case, 'observation': obs[0], 'code': codes.get(0, 0),
                      'meaning': 'bit1=model/impl mismatch bit2=property predicate false bit4=outside hypotheses'}, indent=1))
    return 1 if codes.get(0, 0) & 3 else 0
