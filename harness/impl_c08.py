"""Implementation side of C08: call build_filtering_func on each case."""
import json
import re
import sys

from zope.testrunner.filter import build_filtering_func

cases = json.load(sys.stdin)
out = []
for c in cases:
    names = c['names']
    res = {}
    for key, ps in (('pats', c['pats']), ('perm', c['perm']),
                    ('pos', c['pats'] + [c['xpos']]), ('neg', c['pats'] + [c['xneg']])):
        try:
            f = build_filtering_func(ps)
            res[key] = [bool(f(n)) for n in names]
        except Exception as e:      # every pattern is a valid expression: an exception is itself an observation (no answers)
            res[key] = []
            res['raised'] = '%s: %s' % (type(e).__name__, e)
    # oracle: answers of `re` itself, for every pattern that may be consulted
    pset = set()
    for p in c['pats'] + c['perm'] + [c['xpos'], c['xneg']]:
        pset.add(p[1:] if p.startswith('!') else p)
    pset.add('.')
    res['tab'] = [[p, n, re.compile(p).search(n) is not None] for p in sorted(pset) for n in names]
    out.append(res)
json.dump(out, sys.stdout)
