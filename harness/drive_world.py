"""Runs one world through zope.testrunner's Runner in this process and prints a JSON observation."""
import io
import json
import os
import sys


def main():
    spec = json.load(sys.stdin)
    os.chdir(spec['dir'])
    if spec.get('cpus') and hasattr(os, 'sched_setaffinity'):
        # a runner confined to few processors (taskset, a cpuset, a small container): -j N still means N subprocesses
        os.sched_setaffinity(0, set(sorted(os.sched_getaffinity(0))[:spec['cpus']]))
    real_stdout = sys.stdout
    class FalsyStream(io.TextIOWrapper):
        """A stream object that is falsy (e.g. a recorder that reports its length): still a perfectly good sys.stdout."""
        def __bool__(self):
            return False
    Stream = FalsyStream if spec.get('falsy_streams') else io.TextIOWrapper
    # like a real stdout (file, pipe): strict; some worlds ask for a narrower encoding (LANG=C terminals)
    class SlowBytesIO(io.BytesIO):
        """A stdout that takes its time (a pipe to a slow reader, a terminal over a slow link): still takes everything."""
        def writelines(self, lines):
            lines = list(lines)
            if lines:
                import time
                time.sleep(spec['slow_stdout'])
            return io.BytesIO.writelines(self, lines)

        def flush(self):
            # flushing takes its time too: layer subprocesses may well end while the parent is busy flushing
            import time
            time.sleep(spec['slow_stdout'] / 3.0)
            return io.BytesIO.flush(self)
    cap = Stream(SlowBytesIO() if spec.get('slow_stdout') else io.BytesIO(), encoding=spec.get('stdout_encoding', 'utf-8'),
                 errors='strict', write_through=True)
    cap_err = Stream(io.BytesIO(), encoding='utf-8', errors='backslashreplace', write_through=True)
    cap._vw_orig = True
    cap_err._vw_orig = True
    from zope.testrunner.runner import Runner
    sys.path.insert(0, os.path.dirname(os.path.abspath(__file__)))
    os.environ.setdefault('VW_WORLD', os.path.join(spec['dir'], 'world.json'))
    os.environ.setdefault('VW_TRACE', os.path.join(spec['dir'], 'trace.jsonl'))
    import worldlib
    if spec.get('preset'):
        # non-default initial state, so that "restored" differs from "reset to the default"
        import gc
        import traceback
        import warnings
        gc.set_threshold(701, 11, 9)
        gc.set_debug(gc.DEBUG_UNCOLLECTABLE)
        _fe, _pe = traceback.format_exception, traceback.print_exception

        def my_format_exception(*a, **k):
            return _fe(*a, **k)

        def my_print_exception(*a, **k):
            return _pe(*a, **k)
        traceback.format_exception, traceback.print_exception = my_format_exception, my_print_exception
        warnings.simplefilter('ignore', category=ResourceWarning)
    if spec.get('pre_parse'):
        # an earlier use of the option parser in this interpreter (an embedding program that parsed another command line, an
        # earlier run with other options): what it was given must not reach the observed run
        from zope.testrunner.options import get_options as _go
        try:
            _go(['prog'] + list(spec['pre_parse']), [])
        except SystemExit:
            pass
    if spec.get('warmup_world'):
        # an earlier run, in this interpreter, of ANOTHER program state: the world's module is loaded with a different world
        # (same layer names, other base relations), run, and dropped again; what the runner remembers of it must not matter
        real_world = os.environ['VW_WORLD']
        os.environ['VW_WORLD'] = spec['warmup_world']
        for m in [m for m in sys.modules if m == 'worldlib' or m.startswith('vw_') or m.startswith('vcten')]:
            del sys.modules[m]
        wcap = io.TextIOWrapper(io.BytesIO(), encoding='utf-8', errors='backslashreplace', write_through=True)
        sys.stdout, sys.stderr = wcap, wcap
        try:
            Runner(defaults=spec.get('defaults', []), args=['prog'] + spec['args'],
                   script_parts=spec.get('script_parts', ['-m', 'zope.testrunner']), cwd=spec['dir']).run()
        except BaseException:      # noqa: only the second run is observed
            pass
        sys.stdout, sys.stderr = real_stdout, sys.__stderr__
        for m in [m for m in sys.modules if m == 'worldlib' or m.startswith('vw_') or m.startswith('vcten')]:
            del sys.modules[m]
        os.environ['VW_WORLD'] = real_world
        import importlib
        importlib.invalidate_caches()
        import worldlib
        open(os.environ['VW_TRACE'], 'w').close()
    if spec.get('warmup_run'):
        # an earlier run in the same interpreter, after which the embedding program changes the state again: whatever a
        # feature remembers must be remembered per run, not per process
        import gc
        import traceback
        import warnings
        wcap = io.TextIOWrapper(io.BytesIO(), encoding='utf-8', errors='backslashreplace', write_through=True)
        sys.stdout, sys.stderr = wcap, wcap
        try:
            Runner(defaults=spec.get('defaults', []), args=['prog'] + spec['args'],
                   script_parts=spec.get('script_parts', ['-m', 'zope.testrunner']), cwd=spec['dir']).run()
        except BaseException:      # noqa: only the second run is observed
            pass
        sys.stdout, sys.stderr = real_stdout, sys.__stderr__
        open(os.environ['VW_TRACE'], 'w').close()
        for sub in spec.get('mkdirs', []):
            # directories the options name exist when the observed run starts, whatever the earlier run did to them
            os.makedirs(os.path.join(spec['dir'], sub), exist_ok=True)
        gc.set_threshold(333, 7, 3)
        gc.set_debug(0)
        _fe2, _pe2 = traceback.format_exception, traceback.print_exception

        def second_format_exception(*a, **k):
            return _fe2(*a, **k)

        def second_print_exception(*a, **k):
            return _pe2(*a, **k)
        traceback.format_exception, traceback.print_exception = second_format_exception, second_print_exception
        warnings.simplefilter('default', category=DeprecationWarning)
    for odd in spec.get('odd', []):
        # unusual but legal state of the parent process that starting a layer subprocess must cope with
        if odd == 'syspath_pathobj':
            import pathlib
            sys.path.append(pathlib.Path(spec['dir']))          # the import system accepts path-like entries
        elif odd == 'environ_nonascii':
            os.environ['VW_ODD_ENV'] = 'caf\u00e9 \u4e2d'
        elif odd == 'argv0_empty':
            sys.argv[0] = ''
    sys.stdout, sys.stderr = cap, cap_err
    before = worldlib.snapshot()
    obs = {'aborted': None}
    kw = dict(defaults=spec.get('defaults', []), args=['prog'] + spec['args'],
              script_parts=spec.get('script_parts', ['-m', 'zope.testrunner']), cwd=spec.get('child_cwd', spec['dir']),
              **({'warnings': spec['warnings']} if 'warnings' in spec else {}))
    if spec.get('default_cwd'):
        kw.pop('cwd')           # the entry point works out where the run was started
    via = spec.get('via', 'runner')
    reported = None             # what the entry point tells its caller (return value / exit status)
    if via == 'runner':
        runner = Runner(**kw)
    else:
        # through the public entry points zope.testrunner.run_internal / run: the Runner they build is captured
        import zope.testrunner
        import zope.testrunner.runner as _rr
        created = []
        _orig_init = _rr.Runner.__init__

        def _init(self, *a, **k):
            created.append(self)
            _orig_init(self, *a, **k)
        _rr.Runner.__init__ = _init
    try:
        if via == 'runner':
            runner.run()
        elif via == 'run_internal':
            reported = bool(zope.testrunner.run_internal(**kw))
        else:
            try:
                zope.testrunner.run(**kw)
                reported = False          # run() is documented to exit the process
                obs['no_exit'] = True
            except SystemExit as e:
                reported = bool(e.code)
    except BaseException as e:      # noqa: the observation is *whether* anything escapes
        import traceback as tb
        obs['aborted'] = type(e).__name__
        obs['aborted_tb'] = tb.format_exc()[-1500:]
    if via != 'runner':
        _rr.Runner.__init__ = _orig_init
        runner = created[0]
    obs['std_restored'] = [sys.stdout is cap, sys.stderr is cap_err]
    after = worldlib.snapshot()
    sys.stdout, sys.stderr = real_stdout, sys.__stderr__
    obs['globals_before'] = before
    obs['globals_after'] = after

    def name(x):
        t = x[0] if isinstance(x, tuple) else x
        return str(t)
    obs['failed'] = bool(runner.failed) if reported is None else reported
    obs['via'] = via
    obs['ran'] = runner.ran
    obs['failures'] = [name(x) for x in runner.failures]
    obs['errors'] = [name(x) for x in runner.errors]
    obs['n_skipped'] = len(runner.skipped)
    obs['import_errors'] = len(runner.import_errors or [])
    obs['features'] = [type(f).__name__ for f in runner.features]
    obs['pid'] = os.getpid()
    obs['stdout'] = cap.buffer.getvalue().decode('utf-8', 'replace')
    obs['stderr'] = cap_err.buffer.getvalue().decode('utf-8', 'replace')
    json.dump(obs, real_stdout)


main()
