"""Runs one world through zope.testrunner's Runner in this process and prints a JSON observation."""
import io
import json
import os
import sys


def main():
    spec = json.load(sys.stdin)
    os.chdir(spec['dir'])
    real_stdout = sys.stdout
    cap = io.TextIOWrapper(io.BytesIO(), encoding='utf-8', errors='backslashreplace', write_through=True)
    cap_err = io.TextIOWrapper(io.BytesIO(), encoding='utf-8', errors='backslashreplace', write_through=True)
    cap._vw_orig = True
    cap_err._vw_orig = True
    from zope.testrunner.runner import Runner
    import gc
    import threading
    import traceback
    import warnings
    before = {
        'gc_threshold': list(gc.get_threshold()), 'gc_debug': gc.get_debug(),
        'tb_format': traceback.format_exception.__module__ + '.' + traceback.format_exception.__qualname__,
        'tb_print': traceback.print_exception.__module__ + '.' + traceback.print_exception.__qualname__,
        'trace': repr(sys.gettrace()), 'profile': repr(sys.getprofile()),
        'thr_trace': repr(getattr(threading, '_trace_hook', None)),
        'filters': [repr(f) for f in warnings.filters],
    }
    sys.stdout, sys.stderr = cap, cap_err
    obs = {'aborted': None}
    runner = Runner(defaults=spec.get('defaults', []), args=['prog'] + spec['args'],
                    script_parts=spec.get('script_parts', ['-m', 'zope.testrunner']), cwd=spec.get('child_cwd', spec['dir']),
                    **({'warnings': spec['warnings']} if 'warnings' in spec else {}))
    try:
        runner.run()
    except BaseException as e:      # noqa: the observation is *whether* anything escapes
        import traceback as tb
        obs['aborted'] = type(e).__name__
        obs['aborted_tb'] = tb.format_exc()[-1500:]
    obs['std_restored'] = [sys.stdout is cap, sys.stderr is cap_err]
    sys.stdout, sys.stderr = real_stdout, sys.__stderr__
    after = {
        'gc_threshold': list(gc.get_threshold()), 'gc_debug': gc.get_debug(),
        'tb_format': traceback.format_exception.__module__ + '.' + traceback.format_exception.__qualname__,
        'tb_print': traceback.print_exception.__module__ + '.' + traceback.print_exception.__qualname__,
        'trace': repr(sys.gettrace()), 'profile': repr(sys.getprofile()),
        'thr_trace': repr(getattr(threading, '_trace_hook', None)),
        'filters': [repr(f) for f in warnings.filters],
    }
    obs['globals_before'] = before
    obs['globals_after'] = after

    def name(x):
        t = x[0] if isinstance(x, tuple) else x
        return str(t)
    obs['failed'] = bool(runner.failed)
    obs['ran'] = runner.ran
    obs['failures'] = [name(x) for x in runner.failures]
    obs['errors'] = [name(x) for x in runner.errors]
    obs['n_skipped'] = len(runner.skipped)
    obs['import_errors'] = len(runner.import_errors or [])
    obs['features'] = [type(f).__name__ for f in runner.features]
    obs['pid'] = os.getpid()
    obs['stdout'] = cap.buffer.getvalue().decode('utf-8', 'replace')
    obs['stderr'] = cap_err.buffer.getvalue().decode('utf-8', 'replace')
    json.dump(obs, real_stdout)


main()
