"""Implementation side of C14: discovery on materialised trees (direct call or CLI run)."""
import io
import json
import os
import re
import shutil
import subprocess
import sys
import tempfile
from contextlib import redirect_stdout

import treelib

MODULE_SRC = '''import os
with open(os.environ["VW_TRACE"], "a") as _f:
    _f.write(__file__ + "\\n")
import unittest
class T(unittest.TestCase):
    def test_x(self):
        pass
'''


def fill(tree):
    out = []
    for e in tree:
        if e[0] == 'f':
            if e[1].endswith('.py') and e[1] != '__init__.py':
                out.append(['f', e[1], MODULE_SRC])
            elif e[1] == '__init__.py':
                out.append(['f', e[1], ''])
            else:
                out.append(['f', e[1], 'junk'])
        else:
            out.append(['d', e[1], fill(e[2])] + list(e[3:]))
    return out


def names_of(tree, dirs, stems):
    for e in tree:
        if e[0] == 'd':
            dirs.add(e[1])
            names_of(e[2], dirs, stems)
        else:
            for ext in ('.py', '.pyc'):
                if e[1].endswith(ext):
                    stems.add(e[1][:-len(ext)])


def run(c, idx, base):
    top = os.path.join(base, c['topname'])
    if os.path.exists(top):
        shutil.rmtree(top)
    store = os.path.join(base, 'store_%d' % idx)
    shutil.rmtree(store, ignore_errors=True)
    treelib.materialise(top, fill(c['tree']), c.get('order_seed', 0), store=store)
    argv = []
    mounts = []
    for r in c['roots']:
        kind, rel = r[0], r[1]
        # a mount is sometimes spelled with a trailing separator
        argv += [kind, os.path.join(top, *rel) + (os.sep if kind == '--package-path' and len(rel) % 2 else '')]
        if kind == '--package-path':
            argv.append(r[2])
            mounts.append((r[2], os.path.join(top, *rel)))
    argv += c['flags']
    for pk in c.get('spkgs', []):
        argv += ['-s', pk]
    res = {'found': None, 'imported': None}
    from zope.testrunner.find import identifier
    from zope.testrunner.options import get_options
    with redirect_stdout(io.StringIO()):
        options = get_options(['prog'] + argv, [])
    dirs, stems = set([c['topname']]), set()
    names_of(c['tree'], dirs, stems)
    res['ident'] = [[n, bool(identifier(n))] for n in sorted(dirs)]
    res['tpat'] = [[n, bool(options.tests_pattern(n))] for n in sorted(dirs | stems)]
    res['fpat'] = [[n, bool(options.test_file_pattern(n))] for n in sorted(stems)]
    res['ign'] = sorted(options.ignore_dir)
    res['mpats'] = list(options.module)
    # module-name oracle for every .py/.pyc file relative to every root
    mods = set()
    for rt in c['roots']:
        rootp = tuple([c['topname']] + rt[1])
        pre = rt[2] + '.' if rt[0] == '--package-path' else ''
        for p in treelib.all_files(c['tree'], (c['topname'],)):
            if p[:len(rootp)] == rootp:
                r = list(p[len(rootp):])
                for ext in ('.py', '.pyc'):
                    if r and r[-1].endswith(ext):
                        mods.add(pre + '.'.join(r[:-1] + [r[-1][:-len(ext)]]))
    pats = set(p[1:] if p.startswith('!') else p for p in options.module) | {'.'}
    res['mtab'] = [[p, m, re.compile(p).search(m) is not None] for p in sorted(pats) for m in sorted(mods)]
    if c['mode'] == 'direct':
        import types
        import zope.testrunner.find as F
        saved = F.import_name
        order = [x for x in c['roots'] if x[0] == '--test-path'] + [x for x in c['roots'] if x[0] == '--path']
        names = []

        def fake_import(name, c=c, top=top):
            # test_dirs() (--package) imports the package and walks its __path__ entries that lie below a search path: answered
            # by a stand-in whose __path__ lists the package's directory under every root that has it;
            # find_suites imports the test modules: the name is recorded and a module with an empty test_suite is handed back
            m = types.ModuleType(name)
            if sys._getframe(1).f_code.co_name == 'test_dirs':
                rel = name.split('.')
                m.__path__ = [os.path.join(top, *(r[1] + rel)) for r in order if os.path.isdir(os.path.join(top, *(r[1] + rel)))]
            else:
                names.append(name)
                if name.split('.')[-1] in c.get('bad_stems', ()):
                    # a test module whose own imports fail (a missing dependency): reported as a start-up failure of that
                    # module — and not tried again under another name
                    raise ModuleNotFoundError("No module named 'missing_dependency'")
                m.test_suite = lambda: __import__('unittest').TestSuite()
            return m
        F.import_name = fake_import
        try:
            found = [(f, pkg) for f, pkg in F.find_test_files(options)]
            from zope.testrunner.filter import build_filtering_func
            for _ in F.find_suites(options, accept=build_filtering_func(options.module)):
                pass
        finally:
            F.import_name = saved
        res['found'] = [[os.path.relpath(f, base).split(os.sep), pkg] for f, pkg in found]
        res['names'] = names
    else:
        trace = os.path.join(base, 'trace_%d' % idx)
        open(trace, 'w').close()
        env = dict(os.environ, VW_TRACE=trace)
        if mounts:
            # make the mounted directories importable under their package names (as the documented "knitting" does)
            mdir = os.path.join(base, 'mounts_%d' % idx)
            for pk, target in mounts:
                os.makedirs(os.path.join(mdir, pk))
                with open(os.path.join(mdir, pk, '__init__.py'), 'w') as f:
                    f.write('__path__.append(%r)\n' % target)
            env['PYTHONPATH'] = env.get('PYTHONPATH', '') + os.pathsep + mdir
        p = subprocess.run([sys.executable, '-m', 'zope.testrunner'] + argv + ['--list-tests'],
                           stdout=subprocess.PIPE, stderr=subprocess.STDOUT, cwd=base, timeout=120, env=env)
        res['imported'] = [os.path.relpath(l.strip(), base).split(os.sep) for l in open(trace) if l.strip()]
        res['cli_rc'] = p.returncode
        res['cli_out'] = p.stdout.decode('utf-8', 'replace')[-600:]
    shutil.rmtree(top, ignore_errors=True)
    return res


payload = json.load(sys.stdin)
base = tempfile.mkdtemp(prefix='c14_', dir=payload['scratch'])
try:
    out = [run(c, i, base) for i, c in enumerate(payload['cases'])]
finally:
    shutil.rmtree(base, ignore_errors=True)
json.dump(out, sys.stdout)
