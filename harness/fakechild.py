"""Scripted stand-in for a layer subprocess: python fakechild.py --resume-layer NAME N ...
Script: $VW_FAKE = JSON {layer_name or "*": {"stdout": hex, "stderr": hex, "end": "exit0|exit3|kill|segv", "sleep": s}}"""
import json
import os
import signal
import sys
import time

script = json.load(open(os.environ['VW_FAKE']))
layer = sys.argv[2] if len(sys.argv) > 2 else '*'
s = script.get(layer) or script.get(layer.rsplit('.', 1)[-1]) or script.get('*') or {}
if s.get('barrier'):
    # wait until the harness releases this child
    open(s['barrier'] + '.started', 'w').write(str(time.monotonic()))
    t0 = time.time()
    while not os.path.exists(s['barrier'] + '.go') and time.time() - t0 < 60:
        time.sleep(0.005)
out = bytes.fromhex(s.get('stdout', ''))
err = bytes.fromhex(s.get('stderr', ''))
order = s.get('order', 'out-first')
if order == 'out-first':
    if s.get('pause') and out.count(b'\n') >= 2:
        # the output arrives in two pieces with a pause in between
        cut = out.index(b'\n', len(out) // 2 - 1) + 1 if b'\n' in out[len(out) // 2 - 1:-1] else out.index(b'\n') + 1
        os.write(1, out[:cut])
        time.sleep(s['pause'])
        out = out[cut:]
    os.write(1, out) if out else None
    os.write(2, err) if err else None
else:
    # interleave in chunks so that both pipes fill up
    n = max(len(out), len(err))
    step = 65536
    for i in range(0, n, step):
        if out[i:i + step]:
            os.write(1, out[i:i + step])
        if err[i:i + step]:
            os.write(2, err[i:i + step])
if s.get('sleep'):
    time.sleep(s['sleep'])
if s.get('barrier'):
    open(s['barrier'] + '.ended', 'w').write(str(time.monotonic()))
if s.get('hold_stderr'):
    # a helper process inherits our stderr and keeps it open after we are gone
    import subprocess
    subprocess.Popen(['sleep', str(s['hold_stderr'])], stdin=subprocess.DEVNULL, stdout=subprocess.DEVNULL)
end = s.get('end', 'exit0')
if end == 'exit0':
    os._exit(0)
if end == 'exit3':
    os._exit(3)
if end == 'kill':
    os.kill(os.getpid(), signal.SIGKILL)
if end == 'segv':
    os.kill(os.getpid(), signal.SIGSEGV)
os._exit(0)
