"""One world, four modes: --list-tests, sequential, -j N, resumed.  Extra batch shared by C03 and C11."""
import random
import re

import fw
import worldcase
import worldrun
from fw import g_bool, g_list, g_str

CHK = 'Chk_Modes'
CASE_TYPE = 'Chk_Modes.case'
IMPORTS = ('Shuffle',)
SHARD = 20
UNIT = worldcase.UNIT


class Batch:
    CHK = CHK
    CASE_TYPE = CASE_TYPE
    IMPORTS = IMPORTS
    SHARD = SHARD
    LABEL = 'modes'

    def __init__(self, shuffle, n_quick, n_thorough):
        self.shuffle = shuffle            # 'always' | 'never' | 'mixed'
        self.n = {'quick': n_quick, 'thorough': n_thorough, 'search': max(10, n_quick // 2)}
        self.RULE = ('modes batch: fault-free worlds of 1..4 layers with 0..6 tests each, optionally --shuffle --shuffle-seed S and a '
                     '--layer filter, each run four times (--list-tests, sequential, -j2/-j3, every layer un-tearable so that later '
                     'layers are resumed in subprocesses); per-layer order of every mode compared with each other and with the model')

    def generate(self, rng, tier, rep):
        cases = []
        for _ in range(self.n[tier]):
            nl = rng.choice([1, 2, 2, 3, 3, 4])
            layers = worldcase.gen_layers(rng, nl, faults=False)
            for L in layers:
                L['hooks'].setdefault('setUp', ['ok'])
                L['hooks']['tearDown'] = ['ok']
            tests = []
            for li in [None] + list(range(nl)):
                for _ in range(rng.choice([0, 1, 2, 3, 5, 6])):
                    tests.append({'layer': li})
            for li in range(nl):
                # resumed mode needs at least two non-unit layers that own tests
                if nl >= 2 and sum(1 for T in tests if T['layer'] == li) < 2:
                    tests += [{'layer': li}, {'layer': li}, {'layer': li}]
            rng.shuffle(tests)
            if not tests:
                tests = [{'layer': 0}]
            if rng.random() < 0.3:
                # equal-but-distinct second instances of a test (parametrised cases): listed and run like any other test
                for _ in range(rng.choice([1, 1, 2])):
                    k = rng.randrange(len(tests))
                    if 'twin_of' not in tests[k]:
                        tests.append({'layer': tests[k]['layer'], 'twin_of': k})
                rep.count('modes:twins')
            opts = []
            r = rng.random()
            kind = {'always': 'seeded' if r < 0.7 else 'unseeded',
                    'mixed': 'none' if r < 0.4 else 'seeded' if r < 0.8 else 'unseeded', 'never': 'none'}[self.shuffle]
            shuffled = kind == 'seeded'
            seed = rng.choice([0, 42, -7, rng.randint(0, 10 ** 9)])
            if shuffled:
                opts += ['--shuffle', '--shuffle-seed=%d' % seed]
            elif kind == 'unseeded':
                opts += ['--shuffle']          # the seed the parent draws must reach the children
            flt = None
            if rng.random() < 0.3:
                flt = rng.choice(layers)['name']
                opts += ['--layer', flt + '$']
            cases.append({'layers': layers, 'tests': tests, 'base_options': opts, 'seed': seed if shuffled else None,
                          'filter': flt, 'j': rng.choice([2, 3])})
            rep.count('modes:shuffle=%s' % kind)
        return cases

    def observe(self, cases):
        def one(ic):
            i, c = ic
            out = {}
            for mode in ('list', 'seq', 'par', 'res'):
                w = {'layers': [dict(L, hooks=dict(L['hooks'])) for L in c['layers']], 'tests': c['tests'],
                     'options': list(c['base_options'])}
                if mode == 'list':
                    w['options'].append('--list-tests')
                    if i % 3 == 1:
                        w['options'].append('-j%d' % c['j'])        # listing is listing, however many processes a run would use
                elif mode == 'par':
                    w['options'].append('-j%d' % c['j'])
                elif mode == 'res':
                    for L in w['layers']:
                        L['hooks']['tearDown'] = ['notimpl']
                o = worldrun.run_world(w, idx=i * 4 + ('list', 'seq', 'par', 'res').index(mode))
                out[mode] = {k: o.get(k) for k in ('trace', 'stdout', 'mod', 'aborted', 'driver_failed', 'pid')}
            return out
        return fw.parallel_map(one, list(enumerate(cases)))

    def nontrivial(self, c):
        per = {}
        for T in c['tests']:
            per[T['layer']] = per.get(T['layer'], 0) + 1
        return len(per) >= 2 and max(per.values()) >= 3

    @staticmethod
    def layer_name(c, mod, li):
        return UNIT if li is None else '%s.%s' % (mod, c['layers'][li]['name'])

    def to_coq(self, c, o):
        mod = o['list']['mod']
        disc = {}
        order = []
        for i, T in enumerate(c['tests']):
            nm = self.layer_name(c, mod, T['layer'])
            if nm not in disc:
                disc[nm] = []
                order.append(nm)
            disc[nm].append(i)
        # the loader visits classes in name order, methods in name order: tests of one layer keep index order
        kept = [nm for nm in order if c['filter'] is None or re.search(c['filter'] + '$', nm)]

        def g_l(d, names):
            return g_list(['(%s, %s)' % (g_str(n), ('[' + '; '.join(str(x) for x in d[n]) + ']%N') if d[n] else '[]') for n in names])
        listed, lorder = {}, []
        cur = None
        for ln in (o['list']['stdout'] or '').splitlines():
            m = re.match(r'Listing (\S+) tests:', ln)
            if m:
                cur = m.group(1)
                if cur == '.EmptyLayer':
                    cur = None          # the placeholder layer of -j runs: not a layer of the world, lists nothing
                    continue
                listed[cur] = []
                lorder.append(cur)
                continue
            m = re.match(r'\s+test_(\d+) \(', ln)
            if m and cur is not None:
                listed[cur].append(int(m.group(1)))

        def ran(mode):
            d, names = {}, []
            for r in o[mode]['trace'] or []:
                if r[1] == 't_body':
                    nm = self.layer_name(c, mod, c['tests'][r[2]]['layer'])
                    if nm not in d:
                        d[nm] = []
                        names.append(nm)
                    d[nm].append(r[2])
            return d, names
        seq, par, res = ran('seq'), ran('par'), ran('res')
        list_ran = any(r[1] != 'imported' for r in (o['list']['trace'] or []))
        ks = []
        seeds_ok = True
        if c['seed'] is not None:
            rng = random.Random(c['seed'])
            rng.seed(c['seed'], version=1)
            for nm in sorted(disc):
                for _ in range(max(len(disc[nm]) - 1, 0)):
                    ks.append(int(rng.random() * 2 ** 53))
        for mode in ('list', 'seq', 'par', 'res'):
            seeds = set(re.findall(r'shuffled using seed number (-?\d+)', o[mode]['stdout'] or ''))
            if c['seed'] is not None and seeds != {str(c['seed'])}:
                seeds_ok = False
            if c['seed'] is None and '--shuffle' in c['base_options'] and len(seeds) > 1:
                seeds_ok = False
            if o[mode].get('aborted') or o[mode].get('driver_failed'):
                seeds_ok = False
        shuffled = c['seed'] is not None
        unseeded = c['seed'] is None and '--shuffle' in c['base_options']
        if unseeded:
            # the order is not predictable: only agreement of the processes within one run on the seed is checked
            return ('{| layers := %s; shuffled := false; ks := []; kept := %s; m_list := %s; m_seq := %s; m_par := %s; m_res := %s; '
                    'list_ran_code := %s; seeds_reported_ok := %s |}' % (
                        g_l(disc, order), g_list([g_str(n) for n in kept]), g_l(disc, [n for n in order if n in kept and disc[n]]),
                        g_l(disc, [n for n in order if n in kept and disc[n]]), g_l(disc, [n for n in order if n in kept and disc[n]]),
                        g_l(disc, [n for n in order if n in kept and disc[n]]), g_bool(list_ran), g_bool(seeds_ok)))
        return ('{| layers := %s; shuffled := %s; ks := %s; kept := %s; m_list := %s; m_seq := %s; m_par := %s; m_res := %s; '
                'list_ran_code := %s; seeds_reported_ok := %s |}' % (
                    g_l(disc, order), g_bool(shuffled), ('[' + '; '.join(str(k) for k in ks) + ']%N') if ks else '[]',
                    g_list([g_str(n) for n in kept]), g_l(listed, lorder), g_l(*seq), g_l(*par), g_l(*res),
                    g_bool(list_ran), g_bool(seeds_ok)))

    def sample_view(self, c, o):
        return {'case': c, 'observation': {m: [r[1:] for r in (o[m]['trace'] or []) if r[1] == 't_body'][:30] for m in ('seq', 'par', 'res')}}

    def shrink_candidates(self, c):
        ts = c['tests']
        for i in range(len(ts)):
            if len(ts) > 1:
                kept = worldcase.drop_test(ts, i)
                if kept:
                    yield dict(c, tests=kept)
        if c['filter']:
            yield dict(c, filter=None, base_options=[x for x in c['base_options'] if x != '--layer' and not x.endswith('$')])
