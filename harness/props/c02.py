"""C02 — the verdict."""
import worldcase
from worldprop import *          # noqa: F401,F403
from worldprop import COMMON_ASSUMPTIONS, COMMON_TRUSTED, count_dist

PID = 'C02'
CHECK_FN = 'check_C02'
RULE = ('random worlds with zero, one or several bad items (failing/erroring tests in any phase, unexpected successes, failing '
        'subtests, layer setUp/tearDown errors, tearDown NotImplementedError which is not an error) in sequential, resumed and -j modes, '
        'plus worlds in which a layer subprocess is killed (exit 0/3, SIGKILL, SIGSEGV) at import, in layer setUp, in a test, in layer '
        'tearDown or while writing its report, or cannot be started, '
        'tests writing header-like and arbitrary text to stdout/stderr; about a third of the worlds are all-green; '
        'non-trivial = at least two tests and a layer')
TRUSTED_BASE = COMMON_TRUSTED
ASSUMPTIONS = COMMON_ASSUMPTIONS + ['for worlds with an injected subprocess fault (child killed at import / layer setUp / test / layer tearDown / while '
                                    'writing its report, not startable, or left through KeyboardInterrupt / an exception out of testSetUp) only the verdict predicate is evaluated, not the run model']
NOISE = ['3 0 0\n', '1 1 1\nfoo\nbar\n', 'Ran 5 tests, 0 failures, 0 errors\n', '\x00\xff garbage', '0 0 0']


def generate(rng, tier, rep):
    n = {'quick': 260, 'thorough': 3000, 'search': 500}[tier]
    cases = []
    for i in range(n):
        green = rng.random() < 0.33
        c = worldcase.gen_world(rng, faults=not green, rich=not green)
        if green:
            for T in c['tests']:
                for k in ('body',):
                    T.pop(k, None)
            for L in c['layers']:
                if L['hooks'].get('tearDown') and rng.random() < 0.5:
                    L['hooks']['tearDown'] = ['notimpl']
        for T in c['tests']:
            if rng.random() < 0.3 and not T.get('deco_skip'):
                T['writes'] = {'body': [[rng.choice(['stdout', 'stderr']), rng.choice(NOISE)]]}
        if rng.random() < 0.12:
            # test modules that cannot be loaded (exception or SystemExit at import, broken test_suite, no tests): the
            # number of import failures the model is told about comes from the world, not from what the runner counted
            c['broken'] = [rng.choice(['raise', 'exit0', 'exit', 'syntax', 'bad_suite', 'suite_exit', 'empty'])
                           for _ in range(rng.choice([1, 1, 2]))]
        if rng.random() < (0.45 if c.get('broken') else 0.04):
            # filters that select nothing: whatever could not be imported still decides the verdict — in every mode
            c['select_none'] = rng.choice(['-t', '-t', '--layer', '--only-level', '--only-level'])
            c['options'] = [o for o in c['options'] if not o.startswith('-j')]
            if rng.random() < 0.6 and '-x' not in c['options']:
                c['options'].append('-j%d' % rng.choice([2, 3]))
            rep.count('nothing selected%s%s' % (', broken modules' if c.get('broken') else '', ', -j' if any(o.startswith('-j') for o in c['options']) else ''))
        cases.append(c)
    # injected subprocess faults: the verdict must be 'failed' whatever else happened
    m = {'quick': 40, 'thorough': 400, 'search': 0}[tier]
    for i in range(m):
        c = worldcase.gen_world(rng, faults=False, rich=False, opts=[rng.choice(['-j2', '-j3'])])
        if not c['layers']:
            c['layers'] = worldcase.gen_layers(rng, 1, faults=False)
        li = rng.randrange(len(c['layers']))
        c['tests'].append({'layer': li})
        how = rng.choice(['exit0', 'exit3', 'kill', 'segv'])
        where = ['import', 'setUp', 'body', 'tearDown', 'report', 'spawn', 'kbd_body', 'kbd_setUp', 'tsetup_raise', 'import_raise', 'spawn_nul', 'body_nonascii'][i % 12]
        if where == 'import':
            c['die_import'] = how
        elif where == 'setUp':
            c['layers'][li].setdefault('hooks', {})['setUp'] = ['die:' + how]
        elif where == 'tearDown':
            c['layers'][li].setdefault('hooks', {})['tearDown'] = ['die:' + how]
        elif where == 'body':
            c['tests'][-1]['body'] = ['die', how]
        elif where == 'report':
            c['tests'][-1].update({'body': 'fail', 'str_die': how})
            c['tests'].append({'layer': li, 'body': 'fail'})
        elif where == 'kbd_body':
            # an exception that escapes the child's test loop (not a crash of the interpreter): the child must not report success
            c['tests'][-1]['body'] = 'kbd'
            how = 'exc'
        elif where == 'kbd_setUp':
            c['layers'][li].setdefault('hooks', {})['setUp'] = ['kbd']
            how = 'exc'
        elif where == 'import_raise':
            c['import_raise_in_child'] = True
            how = 'exc'
        elif where == 'tsetup_raise':
            c['layers'][li].setdefault('hooks', {})['testSetUp'] = ['raise']
            how = 'exc'
        elif where == 'body_nonascii':
            # the child dies after writing non-ASCII text to its stderr; the parent shows it (-v) on a stdout that can only
            # encode ASCII: whatever happens while it is shown, the layer's error must have been recorded
            c['tests'][-1]['body'] = ['die', how]
            c['tests'][-1]['writes'] = {'body': [['fd2', 'caf\u00e9 \u4e2d\u6587\n']]}
            c['options'] = [o for o in c['options'] if not o.startswith('-v')] + ['-v']
            c['stdout_encoding'] = 'ascii'
        elif where == 'spawn_nul':
            # not startable for another reason than the OS refusing (an argument with a NUL in it)
            c['layers'][li]['name'] = c['layers'][li]['name'] + '\x00z'
            c['layers'][li]['kind'] = 'instance'
        else:
            c['child_cwd'] = '/nonexistent/verif/dir'
        c['injected'] = where + '/' + how
        cases.append(c)
    # something goes wrong in an early --repeat iteration only (a test that fails on a cold cache): the verdict is 'failed'
    # whatever the later iterations do  (the run model has one outcome per test: only the verdict predicate is evaluated)
    for i in range({'quick': 16, 'thorough': 160, 'search': 8}[tier]):
        c = worldcase.gen_world(rng, faults=False, rich=False, opts=['--repeat', str(rng.choice([2, 3]))] + rng.choice([[], [], ['-j2']]))
        for L in c['layers']:
            if i % 4 == 1 and L['hooks'].get('tearDown'):
                L['hooks']['tearDown'] = ['notimpl']          # later layers resumed in subprocesses
        T = rng.choice(c['tests'])
        T.pop('deco_skip', None)
        T.pop('xf', None)
        T['body'] = ['first_only', rng.choice(['fail', 'error'])]
        c['tests'] = [x for x in c['tests'] if 'twin_of' not in x]
        c['injected'] = 'first_iteration_only/' + T['body'][1]
        cases.append(c)
    # a failing test whose name reads like a report header, in a layer that runs in a subprocess: the names follow the header in the
    # child's report  (names the run model does not know: only the verdict predicate is evaluated)
    for i in range({'quick': 6, 'thorough': 40, 'search': 3}[tier]):
        c = worldcase.gen_world(rng, faults=False, rich=False, opts=[rng.choice(['-j2', '-j3'])] + rng.choice([[], ['-v']]))
        if not c['layers']:
            c['layers'] = worldcase.gen_layers(rng, 1, faults=False)
        c['tests'] = [x for x in c['tests'] if 'twin_of' not in x]
        c['tests'].append({'layer': rng.randrange(len(c['layers'])), 'body': rng.choice(['fail', 'error']),
                           'str': rng.choice(['2 0 0', '7 0 0', '1 1 1', '0 0 0'])})
        c['injected'] = 'lookalike_name/' + c['tests'][-1]['str']
        cases.append(c)
    for c in cases:
        count_dist(rep, c)
        if c.get('injected'):
            rep.count('injected:' + c['injected'].split('/')[0])
        rep.count('green' if not any(set(T) - {'layer', 'writes'} for T in c['tests']) else 'not-green-candidate')
    return cases


def nontrivial(c):
    return len(c['tests']) >= 2 and len(c['layers']) >= 1


TECHNIQUE = ('Coq model of the verdict computation across processes (Run.run) with "failed iff something went wrong" as a boolean '
             'predicate over the trace (Obs.c02_ok); theorems in P_C02.v; correspondence check on generated worlds')
LEVEL_TEXT = ('The verdict of the real runner is compared with the model and with "anything bad happened" recomputed in Coq from the '
              'trace (bad tests that started, failed layer hooks, import errors) in every mode, with tests writing header look-alikes to '
              'stdout/stderr; green worlds check that the verdict is not spuriously failed.'
              ' Whole-run theorem (RunLedger.v): verdict failed iff import errors or a bad event in some process; reported lists are the exact ledger of those events.')
LEVEL_NOTE = 'Crash points of children and report truncation are exercised in C07 (same parent code path).'
