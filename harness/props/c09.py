"""C09 — nearest declaration wins, level eligibility, unit switches."""
import itertools
import json
import sys

import fw
from fw import g_Z, g_bool, g_list, g_opt, g_str

PID = 'C09'
CHK = 'Chk_C09'
IMPORTS = ('Levels', 'Filter')
RULE = ('nested unittest.TestSuite trees (exhaustive for depth <= 2 with 3-valued level/layer attribute choice per node '
        'in quick, depth <= 3 in thorough; random trees to depth 5) with levels from {-1,0,1,2,3,maxsize}, layers as '
        'objects or names, StartUpFailure leaves; option vectors through the real get_options (--at-level incl. 0 and '
        'negatives, --all, --only-level, -u, -f, --layer patterns); layer dicts through the real Filter.global_setup; '
        'non-trivial = a tree with at least one declaration on a suite and one test below it')
EXHAUSTIVE = {'quick': 'all attribute assignments on the 4-node tree shapes of depth <= 2 x 12 option vectors',
              'thorough': 'all attribute assignments on tree shapes of depth <= 3 x 12 option vectors'}
TRUSTED_BASE = ["Python's re is an oracle for layer patterns; unittest.TestSuite iteration is the stdlib's"]
ASSUMPTIONS = ['levels are <= sys.maxsize; no other layer name contains the reserved unit-layer name as a regex match '
               '(both are evaluated per case as the boolean `hyps`; cases outside are counted, see DESIGN C09)']
UNIT = 'zope.testrunner.layer.UnitTests'
MAXSIZE = sys.maxsize
LEVELS = [None, None, 1, 2, 3, 0, -1, MAXSIZE]
OPTVECS = [[], ['--at-level=2'], ['--at-level=0'], ['--at-level=-1'], ['--all'], ['--only-level=2'],
           ['--all', '--only-level=3'], ['-u'], ['-f'], ['-u', '-f'], ['--at-level=3', '-f'], ['--only-level=1', '-u'],
           # --all means every level wherever it stands among the options
           ['--all', '--at-level=2'], ['--at-level=2', '--all'], ['--all', '--at-level=1', '-f'], ['--at-level=0', '--all']]


def case_node(i, lvl, lay, lay_str=False):
    return {'k': 'case', 'lvl': lvl, 'lay': lay, 'id': i, 'lay_str': lay_str}


def rand_tree(rng, depth, counter, nlayers):
    r = rng.random()
    if depth == 0 or r < 0.35:
        if r < 0.04:
            counter[0] += 1
            return {'k': 'startup', 'id': counter[0]}
        counter[0] += 1
        return case_node(counter[0], rng.choice(LEVELS), rng.choice([None, None] + list(range(nlayers))), rng.random() < 0.3)
    kids = [rand_tree(rng, depth - 1, counter, nlayers) for _ in range(rng.randint(0, 3))]
    return {'k': 'suite', 'lvl': rng.choice(LEVELS), 'lay': rng.choice([None, None] + list(range(nlayers))),
            'kids': kids, 'lay_str': rng.random() < 0.3}


def mk(tree, argv, names, present, pats):
    return {'tree': tree, 'argv': argv, 'layer_names': names, 'present': present, 'layer_pats': pats,
            'dup_ids': (len(json.dumps(tree)) + len(argv)) % 3 == 0}


def generate(rng, tier, rep):
    cases = []
    names = [UNIT, 'm.A', 'm.B', 'pkg.tests.Cz']
    present0 = [UNIT, 'm.A', 'm.B']
    if tier != 'search':
        # exhaustive: root suite -> [case, suite -> [case]] (quick) ; one more nesting level (thorough)
        attr = [(None, None), (2, 1), (0, 2)]
        nodes = 4 if tier == 'quick' else 6
        for combo in itertools.product(attr, repeat=nodes):
            inner = {'k': 'suite', 'lvl': combo[2][0], 'lay': combo[2][1], 'kids': [case_node(2, combo[3][0], combo[3][1])]}
            if nodes == 6:
                inner['kids'].append({'k': 'suite', 'lvl': combo[4][0], 'lay': combo[4][1],
                                      'kids': [case_node(3, combo[5][0], combo[5][1])]})
            tree = {'k': 'suite', 'lvl': combo[0][0], 'lay': combo[0][1], 'kids': [case_node(1, combo[1][0], combo[1][1]), inner]}
            for ov in (OPTVECS if tier == 'quick' else OPTVECS[:6]):
                cases.append(mk(tree, ov, names, present0, []))
    nrand = {'quick': 500, 'thorough': 5000, 'search': 1500}[tier]
    for _ in range(nrand):
        counter = [0]
        tree = rand_tree(rng, rng.randint(1, 5), counter, len(names))
        argv = list(rng.choice(OPTVECS))
        pats = []
        if rng.random() < 0.4:
            pats = rng.sample(['A', 'm', '!B', 'Unit', '^m\\.', 'tests', '!pkg', UNIT, '!Unit', 'nomatch'], rng.randint(1, 3))
            for p in pats:
                argv += ['--layer', p]
        present = [n for n in names + ['x.UnitTestsX', 'other.L'] if rng.random() < 0.7]
        rng.shuffle(present)
        if rng.random() < 0.05:
            present.append('zope_testrunner_layer_UnitTests')     # outside the unit-pattern hypothesis
        cases.append(mk(tree, argv, names, present, pats))
    for c in cases:
        rep.count('opts=' + ' '.join(a for a in c['argv'] if not a.startswith('--layer') and a not in c['layer_pats']))
    return cases


def observe(cases):
    chunks = [cases[i:i + 1500] for i in range(0, len(cases), 1500)]
    out = []
    for r in fw.parallel_map(lambda ch: fw.run_py('impl_c09.py', ch), chunks):
        out.extend(r)
    return out


def nontrivial(c):
    def walk(n, declared):
        if n['k'] == 'suite':
            d = declared or n['lvl'] is not None or n['lay'] is not None
            return any(walk(k, d) for k in n['kids'])
        return declared and n['k'] == 'case'
    return walk(c['tree'], False)


def g_tree(n):
    if n['k'] == 'startup':
        return '(StartUp %d)' % n['id']
    lvl = g_opt(None if n['lvl'] is None else g_Z(n['lvl']))
    lay = g_opt(None if n['lay'] is None else '%d%%nat' % n['lay'])
    if n['k'] == 'case':
        return '(Case %s %s %d)' % (lvl, lay, n['id'])
    return '(Suite %s %s %s)' % (lvl, lay, g_list([g_tree(k) for k in n['kids']]))


def parse_opts(argv):
    o = {'at': 1, 'all': False, 'only': None, 'u': False, 'f': False}
    for a in argv:
        if a.startswith('--at-level='):
            o['at'] = int(a.split('=')[1])
        elif a == '--all':
            o['all'] = True
        elif a.startswith('--only-level='):
            o['only'] = int(a.split('=')[1])
        elif a == '-u':
            o['u'] = True
        elif a == '-f':
            o['f'] = True
    return o


def to_coq(c, ob):
    o = parse_opts(c['argv'])
    opts = ('{| at_level := %s; all := %s; only_level := %s; unit := %s; non_unit := %s; layer_pats := %s |}' % (
        g_Z(o['at']), g_bool(o['all']), g_opt(None if o['only'] is None else g_Z(o['only'])), g_bool(o['u']), g_bool(o['f']),
        g_list([g_str(p) for p in dict.fromkeys(c['layer_pats'])])))
    tab = g_list(['(%s, %s, %s)' % (g_str(p), g_str(n), g_bool(b)) for p, n, b in ob['tab']])
    items = g_list(['(%d%%nat, %s)' % (i, g_opt(None if l is None else '%d%%nat' % l)) for i, l in ob['items']])
    return '{| tree := %s; o := %s; present := %s; tab := %s; r_items := %s; r_kept := %s |}' % (
        g_tree(c['tree']), opts, g_list([g_str(n) for n in c['present']]), tab, items,
        g_list([g_str(n) for n in ob['kept']]))


def shrink_candidates(c):
    def variants(n):
        if n['k'] == 'suite':
            for i in range(len(n['kids'])):
                yield dict(n, kids=n['kids'][:i] + n['kids'][i + 1:])
                for v in variants(n['kids'][i]):
                    yield dict(n, kids=n['kids'][:i] + [v] + n['kids'][i + 1:])
        if n.get('lvl') is not None:
            yield dict(n, lvl=None)
        if n.get('lay') is not None:
            yield dict(n, lay=None)
    for t in variants(c['tree']):
        yield dict(c, tree=t)
    for i in range(len(c['present'])):
        yield dict(c, present=c['present'][:i] + c['present'][i + 1:])


TECHNIQUE = ('Coq proofs (Levels.v, LevelsFacts.v, P_C09.v): downward inheritance = innermost declaration on the path '
             '(two independently written recursions proved equal), level rule over Z, unit-switch theorems; '
             'correspondence check against tests_from_suite, get_options and Filter.global_setup')
LEVEL_TEXT = ('Unbounded theorems over all suite trees (any depth), all integer levels and option vectors; the model is '
              'compared with the live tests_from_suite / get_options / Filter.global_setup on every run (exhaustive small '
              "trees x option vectors + random trees), and the statement's own reading (stmt_items, stmt_kept) is evaluated "
              "in Coq on the implementation's output.")
LEVEL_NOTE = ('Corners outside the hypotheses are theorems too (all_levels_refuted: levels above sys.maxsize; unit_only_refuted: '
              'the reserved layer name is a regex); cases outside are counted, not judged. re is an oracle.')
