"""C19 — threads left behind by a test are reported precisely."""
import re

import fw
import worldrun
from fw import g_bool, g_list, g_nats

PID = 'C19'
CHK = 'Chk_C19'
IMPORTS = ('Threads',)
SHARD = 30
RULE = ('in-process runs of 2..6 tests each starting 0..3 threads through threading.Thread or _thread.start_new_thread (half of the latter '
        'call threading.current_thread() and so get a _DummyThread record that threading never drops), each either '
        'parked on an event (released by a later test, or never) or finished and joined before the test ends, named so that some match '
        'an --ignore-new-thread pattern; the OS idents handed out are recorded by the world; "left new threads behind" blocks are parsed '
        'from the output; non-trivial = at least one parked thread that a later test releases or that shares a test with another thread')
TRUSTED_BASE = ['thread creation, OS ident allocation and sys._current_frames are external: the idents observed in the run are part of the case']
ASSUMPTIONS = ['threads are released/joined at deterministic points (events, join) — no sleeps decide outcomes except a 50 ms grace for low-level threads to vanish']
HDR = 'The following test left new threads behind:'


def generate(rng, tier, rep):
    n = {'quick': 150, 'thorough': 1500, 'search': 400}[tier]
    cases = []
    for i in range(n):
        tests = []
        # in some worlds thread names repeat (a pool of workers all called alike): a name is no identity either
        samenames = rng.random() < 0.3
        parked = []          # indices into the global list of started threads
        count = 0
        for t in range(rng.randint(2, 6)):
            specs = []
            for _ in range(rng.choice([0, 1, 1, 2, 3])):
                api = rng.choice(['threading', 'threading', '_thread'])
                hold = rng.random() < 0.6
                name = rng.choice(['vw-leak-%d', 'ign-%d', 'worker-%d', 'WORKER-%d', 'IGN-%d']) % count
                if samenames:
                    name = rng.choice(['vw-leak', 'vw-leak', 'worker-x', 'ign-x'])
                rel = []
                if parked and rng.random() < 0.5:
                    k = rng.choice(parked)
                    parked.remove(k)
                    rel = [k]
                specs.append({'api': api, 'name': name, 'hold': hold, 'release': rel})
                if api == 'threading' and rng.random() < 0.25:
                    specs[-1]['falsy'] = True    # a Thread subclass whose instances are falsy
                if api == '_thread' and rng.random() < 0.5:
                    specs[-1]['cur'] = True      # the thread calls threading.current_thread() (as logging does)
                if hold:
                    parked.append(count)
                count += 1
            if not specs and parked and rng.random() < 0.5:
                k = rng.choice(parked)
                parked.remove(k)
                specs.append({'api': None, 'release': [k]})
            T = {'layer': None, 'threads': specs}
            r = rng.random()
            if r < 0.15:
                T['body'] = 'skip'          # the test starts its threads and then skips itself: a leak is a leak
            elif r < 0.25:
                T['body'] = rng.choice(['fail', 'error'])
            tests.append(T)
        opts = []
        r = rng.random()
        if r < 0.25:
            # each pattern is matched on its own: an inline flag of one pattern must not leak into another
            opts += ['--ignore-new-thread', '(?i)^IGN-', '--ignore-new-thread', 'worker-[0-9]$']
        else:
            if r < 0.8:
                opts += ['--ignore-new-thread', '^ign-']
            if rng.random() < 0.2:
                opts += ['--ignore-new-thread', 'worker-1$']
        c = {'layers': [], 'tests': tests, 'options': opts}
        if rng.random() < 0.3:
            # an earlier command line parsed in the same interpreter named other thread patterns: they are not this run's
            c['pre_parse'] = ['--ignore-new-thread', rng.choice(['.', 'worker', '^w', 't-'])]
            rep.count('earlier option parse with other --ignore-new-thread patterns')
        if rng.random() < 0.2:
            # all tests in a layer whose testSetUp hook replaces a worker thread before every test
            c['layers'] = [{'name': 'La', 'bases': [], 'kind': 'instance', 'hooks': {'testSetUp': ['thread_restart']}}]
            for T in tests:
                T['layer'] = 0
            c['hook_threads'] = True
            rep.count('layer hook restarts a worker thread before every test')
        cases.append(c)
        rep.count('tests=%d' % len(tests))
        rep.count('thread names repeat' if samenames else 'thread names unique')
        rep.count('threads=%d' % count)
        rep.count('lowlevel-registered=%d' % sum(1 for T in tests for s in T['threads'] if s.get('cur')))
    return cases


def observe(cases):
    return worldrun.run_worlds(cases)


def nontrivial(c):
    n = sum(len(T.get('threads', [])) for T in c['tests'])
    return n >= 2 and any(s.get('hold') for T in c['tests'] for s in T.get('threads', []))


def ignored(name, opts):
    pats = [opts[i + 1] for i, a in enumerate(opts) if a == '--ignore-new-thread']
    return any(re.match(p, name) for p in pats)


def history(c, o):
    """Rebuild the thread history from the world and the idents it logged.
    Returns (events, {test: {OS ident: identity}}) where the map covers the threads alive at the end of that test."""
    recs = [r for r in o['trace'] if r[1] == 'thread']
    hrecs = [r for r in o['trace'] if r[1] == 'hookthread']
    k = 0                      # running index of started threads; identity = k + 10
    hist = []
    alive = {}                 # identity -> OS ident
    by_test = {}
    for t, T in enumerate(c['tests']):
        if c.get('hook_threads'):
            # the layer's per-test hook replaces its worker thread before the test begins: the old one ends, the new one exists
            # when the test starts and is nobody's leak
            if t > 0:
                hist.append('TFinish %d' % (1000 + t - 1))
            hr = hrecs[t] if t < len(hrecs) else None
            hist.append(('TSTART', 1000 + t, hr[3][1] if hr else 0, True, False, ignored('layer-worker', c['options'])))
        hist.append('TBegin %d' % t)
        for s in T.get('threads', []):
            for rel in s.get('release', []):
                hist.append('TFinish %d' % (rel + 10))
                alive.pop(rel + 10, None)
            if s.get('api') is None:
                continue
            rec = recs[k] if k < len(recs) else None
            ident = rec[3][2] if rec else 0
            name = rec[3][1] if rec else '?'
            # which object stands for the thread (threading's registry, stale _DummyThread records included) is decided by the model
            hist.append(('TSTART', k + 10, ident, s['api'] == 'threading', bool(s.get('cur')), ignored(name, c['options'])))
            alive[k + 10] = ident
            if not s.get('hold'):
                hist.append('TFinish %d' % (k + 10))
                alive.pop(k + 10, None)
            k += 1
        hist.append('TEnd %d' % t)
        by_test[t] = {idn: i for i, idn in alive.items()}
    return hist, by_test


def parse_reports(c, o, by_test):
    """(test, identities) per "left new threads behind" block; threads are told apart by the OS ident their repr shows
    (alive threads have distinct idents)."""
    out = []
    lines = o.get('stdout', '').splitlines()
    for i, ln in enumerate(lines):
        if ln.strip() == HDR and i + 2 < len(lines):
            m = re.match(r'test_(\d+) ', lines[i + 1].strip())
            t = int(m.group(1)) if m else 9999
            idents = by_test.get(t, {})
            body = lines[i + 2]
            ids = []
            for ident in re.findall(r'<\w*Thread\([^<>]*? (\d+)\)>', body):
                ids.append(idents.get(int(ident), 9998))
            for ident in re.findall(r'DummyThread (\d+), started', body):
                ids.append(idents.get(int(ident), 9997))
            out.append((t, ids))
    return out


def to_coq(c, o):
    if o.get('driver_failed') or o.get('aborted'):
        return '{| init := []; hist := [TBegin 0; TEnd 0]; r_reports := [(9999%nat, [])] |}'
    hist, names = history(c, o)
    codes = {}

    def ic(ident):
        if ident not in codes:
            codes[ident] = len(codes) + 100
        return codes[ident]
    ev = []
    for h in hist:
        if isinstance(h, tuple):
            ev.append('TStart {| th_id := %d; th_ident := %d; th_known := %s; th_cur := %s; th_ignored := %s |}' % (h[1], ic(h[2]), g_bool(h[3]), g_bool(h[4]), g_bool(h[5])))
        else:
            ev.append(h)
    reps = parse_reports(c, o, names)
    return '{| init := [{| th_id := 1; th_ident := 1; th_known := true; th_cur := false; th_ignored := false |}]; hist := %s; r_reports := %s |}' % (
        g_list(ev), g_list(['(%d%%nat, %s)' % (t, g_nats(ids)) for t, ids in reps]))


def sample_view(c, o):
    hist, names = history(c, o) if not o.get('driver_failed') else ([], {})
    return {'case': c, 'observation': {'thread_records': [r[1:] for r in o.get('trace', []) if r[1] == 'thread'],
                                       'reports': parse_reports(c, o, names) if names else None}}


def classify(case, obs, code, findings):
    if code & 8:
        for f in findings:
            if f['id'] == 'C19-lowlevel-ident-reuse':
                return f['line']
    return None


def shrink_candidates(c):
    ts = c['tests']
    for i in range(len(ts) - 1, -1, -1):
        specs = ts[i].get('threads', [])
        for j in range(len(specs) - 1, -1, -1):
            # dropping a thread shifts the indices later releases refer to: only drop the last started thread
            pass
    return []


TECHNIQUE = ('Coq proof that snapshot-and-compare reporting equals "started during the test, still alive, not ignored" for every history '
             'without low-level ident reuse (Threads.v, ThreadsFacts.v, P_C19.v) + correspondence check on real runs with recorded idents')
LEVEL_TEXT = ('Counting theorem (ThreadsOnce.v): a thread identity is named by at most as many reports as threads with it were started. Unbounded theorem over all thread histories (any number of tests, threads, APIs, release points) under an explicit, '
              'boolean freshness hypothesis, with the counter-example for the excluded case proved as well; the model is compared with the '
              '"left new threads behind" blocks of real in-process runs whose OS idents are recorded by the world.')
LEVEL_NOTE = ('OS ident allocation is an oracle recorded per case. Low-level (_thread) threads can only be told apart by ident: reuse of an '
              'ident between such a thread and a thread alive at test start is an open finding, classified by the freshness predicate.')
