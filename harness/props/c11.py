"""C11 — shuffle: correspondence of Shuffle.shuffle_all with shuffle.Shuffle.global_setup."""
import fw
from fw import g_bool, g_list, g_nats, g_str

PID = 'C11'
CHK = 'Chk_C11'
IMPORTS = ('Shuffle',)
SHARD = 12
RULE = ('registered-test dicts with 0..6 layers of 0,1,2,5,17,200 (thorough: up to 2000) tests under random names, '
        'seeds 0, 42, negative, 2**64+1 and random; each case is run with two dict insertion orders, plus an unseeded '
        'run re-run with the seed it reported; the random stream is recomputed by an independent random.Random and '
        'shipped as exact 53-bit integers; non-trivial = at least two layers one of which has >= 3 tests')
TRUSTED_BASE = ['random.Random(seed).random() is an oracle: its 53-bit outputs are part of each case (the stdlib documents them as '
                'stable across versions); only CPython 3.12.1 is executed',
                'floor(r*(i+1)) in binary64 is modelled exactly on integers (rn53) — validated by every case']
ASSUMPTIONS = ['every Python version yields the same random() floats for a seed (stdlib guarantee, not re-checked here)']


def generate(rng, tier, rep):
    n = {'quick': 160, 'thorough': 1200, 'search': 300}[tier]
    sizes = [0, 1, 2, 3, 5, 17, 60, 200] + ([2000] if tier == 'thorough' else [])
    seeds = [0, 42, -7, 2 ** 64 + 1, 1]
    cases = []
    for i in range(n):
        nl = rng.randint(0, 6) if i > 5 else i
        names = set()
        while len(names) < nl:
            names.add(rng.choice(['m', 'zope.testrunner.layer', 'a.b', 'Z']) + '.' + ''.join(rng.choice('ABab_z') for _ in range(rng.randint(1, 3))))
        names = list(names)
        rng.shuffle(names)
        layers = []
        tid = 0
        for nm in names:
            k = rng.choice(sizes if rng.random() < 0.8 else [2000 if tier == 'thorough' else 200])
            layers.append([nm, list(range(tid, tid + k))])
            tid += k
        seed = seeds[i % len(seeds)] if i < 25 else rng.choice([rng.randint(-10 ** 6, 10 ** 12), rng.getrandbits(70)])
        cases.append({'layers': layers, 'seed': seed})
        rep.count('layers=%d' % nl)
        rep.count('tests<=%d' % (10 ** len(str(max(tid, 1)))))
    return cases


def observe(cases):
    chunks = [cases[i:i + 40] for i in range(0, len(cases), 40)]
    out = []
    for r in fw.parallel_map(lambda ch: fw.run_py('impl_c11.py', ch), chunks):
        out.extend(r)
    return out


def nontrivial(c):
    return len(c['layers']) >= 2 and any(len(t) >= 3 for _, t in c['layers'])


def g_layers(ls):
    return g_list(['(%s, %s)' % (g_str(n), ('[' + '; '.join('%d' % x for x in t) + ']%N') if t else '[]') for n, t in ls])


def to_coq(c, o):
    return '{| layers := %s; ks := %s; r1 := %s; r2 := %s; seed_ok := %s |}' % (
        g_layers(c['layers']), ('[' + '; '.join('%d' % k for k in o['ks']) + ']%N') if o['ks'] else '[]',
        g_layers(o['r1']), g_layers(o['r2']), g_bool(o['seed_ok']))


def shrink_candidates(c):
    for i in range(len(c['layers'])):
        yield dict(c, layers=c['layers'][:i] + c['layers'][i + 1:])
    for i, (n, t) in enumerate(c['layers']):
        if len(t) > 1:
            yield dict(c, layers=c['layers'][:i] + [[n, t[:len(t) // 2]]] + c['layers'][i + 1:])
            yield dict(c, layers=c['layers'][:i] + [[n, t[:-1]]] + c['layers'][i + 1:])


TECHNIQUE = ('Coq proofs (Shuffle.v, ShuffleFacts.v, P_C11.v) incl. an exact integer model of the binary64 product + '
             'correspondence check against Shuffle.global_setup with the RNG stream as oracle')
LEVEL_TEXT = ('Unbounded theorems: per-layer permutation, nothing crosses layers, no layer added/lost, and '
              'floor(random()*(i+1)) <= i for every 53-bit mantissa and every length (no IndexError). The model is compared with '
              'the live Shuffle feature on every run; determinism, dict-order independence, the reported seed and re-running '
              'with the seed reported by an unseeded run are evaluated on the implementation.')
LEVEL_NOTE = ('Agreement of --list-tests / -j / resumed children / --layer on the order (seed forwarding) is an end-to-end '
              'matter checked by the world harness (see DESIGN C11); here the feature is driven directly. RNG is an oracle.')

import modes          # noqa: E402
EXTRA_BATCHES = [modes.Batch('always', 24, 300)]
