"""C01 — layer stack discipline."""
import worldcase
from worldprop import *          # noqa: F401,F403
from worldprop import COMMON_ASSUMPTIONS, COMMON_TRUSTED, count_dist

PID = 'C01'
CHECK_FN = 'check_C01'
RULE = ('random worlds: 0..4 layers (plus some fault-free worlds with up to 7 layers and up to 3 bases per layer) (+ UnitTests) as class or instance layers on random DAGs with random names, hooks present '
        'with p=0.8, setUp scripts ok / raise / ok-then-raise / raise-then-ok, tearDown scripts ok / raise / NotImplementedError / '
        'NotImplemented-then-ok, 1..7 tests on random layers; options from {-x, --repeat 2, -j2/-j3, -v}; thorough adds an '
        'exhaustive sweep over all DAGs on <= 3 layers x one fault placement per hook x 4 test placements (sequential); '
        'non-trivial = at least two layers and (a fault or a shared base)')
TRUSTED_BASE = COMMON_TRUSTED
ASSUMPTIONS = COMMON_ASSUMPTIONS


def generate(rng, tier, rep):
    n = {'quick': 260, 'thorough': 2500, 'search': 500}[tier]
    cases = [worldcase.gen_world(rng, rich=(rng.random() < 0.3)) for _ in range(n)]
    # wider and deeper layer graphs (up to 7 layers, up to 3 bases each: shared bases reached along several paths), fault-free
    # sequential runs with a test on most layers so that the order of set-ups and tear-downs between layers is exercised
    for _ in range({'quick': 40, 'thorough': 400, 'search': 60}[tier]):
        c = worldcase.gen_world(rng, max_layers=7, max_tests=3, opts=[], faults=False, rich=False)
        for li in range(len(c['layers'])):
            if rng.random() < 0.8:
                c['tests'].append({'layer': li})
        cases.append(c)
    if tier == 'thorough':
        cases += exhaustive(rng)
    for c in cases:
        count_dist(rep, c)
    return cases


def exhaustive(rng):
    import itertools
    out = []
    names = ['La', 'Lb', 'Lc']
    for n in (1, 2, 3):
        base_choices = [[[]], [[], [0]], [[], [0], [1], [0, 1], [1, 0]]][:n]
        for bases in itertools.product(*base_choices):
            for fault_layer in range(n):
                for su, td in (('ok', 'ok'), ('raise', 'ok'), ('ok', 'raise'), ('ok', 'notimpl')):
                    for placement in ([n - 1], list(range(n)), [0], [None] + list(range(n))):
                        layers = []
                        for i in range(n):
                            h = {'setUp': ['ok'], 'tearDown': ['ok']}
                            if i == fault_layer:
                                h = {'setUp': [su], 'tearDown': [td]}
                            layers.append({'name': names[i], 'bases': list(bases[i]), 'kind': 'instance', 'hooks': h})
                        out.append({'layers': layers, 'tests': [{'layer': p} for p in placement], 'options': []})
    return out


def nontrivial(c):
    faults = any(x != 'ok' for L in c['layers'] for sc in L.get('hooks', {}).values() for x in sc)
    shared = any(L['bases'] for L in c['layers'])
    return len(c['layers']) >= 2 and (faults or shared)


TECHNIQUE = ('Coq model of the whole run (Run.v) with the stack-discipline statement as a boolean predicate (Obs.c01_ok); '
             'theorems in P_C01.v; correspondence check of model vs real runner on generated worlds, predicate evaluated in Coq on the real trace')
LEVEL_TEXT = ('The run model (setup_layer, tear_down_unneeded, run_layer, the Runner loop, resumed and parallel children) is compared '
              'event-by-event with the real runner on every generated world; c01_ok (active set = test stack at every test phase, '
              'setUp only when absent and bases present, tearDown only when no derived layer is active, everything torn down at '
              'process end, nothing after NotImplementedError) is evaluated on the real traces of every process. '
              'Theorems proved so far are listed in the evidence (P_C01.v).'
              " Whole-run theorems (RunInv.v): for every world, option set and process of Run.run the discipline holds on the model's full bookkeeping.")
LEVEL_NOTE = ('Layers without a hook are invisible to the trace: predicates range over layers having both setUp and tearDown. '
              'OS process freshness is assumed.')
