"""C16 — --stop-on-error."""
import worldcase
from worldprop import *          # noqa: F401,F403
from worldprop import COMMON_ASSUMPTIONS, COMMON_TRUSTED, count_dist

PID = 'C16'
CHECK_FN = 'check_C16'
RULE = ('worlds run with -x: a grid over the position of the first bad test (first/middle/last test of first/middle/last layer) x '
        'kind (failure, error, unexpected success, failing subtest, layer setUp failure) x --repeat {1,2} x first layer '
        'un-tearable (so that later layers are resumed in subprocesses) or not, plus random worlds with -x; '
        'non-trivial = at least two tests after the first bad one or a later layer')
TRUSTED_BASE = COMMON_TRUSTED
ASSUMPTIONS = COMMON_ASSUMPTIONS + ['-x with -j N > 1: which children have started when the first failure arrives is a race; such worlds are judged by the race-independent part of the statement only (parallel batch)']
BAD = [{'body': 'fail'}, {'body': 'error'}, {'xf': True}, {'subs': ['ok', 'fail', 'ok']}, 'layer']


def generate(rng, tier, rep):
    cases = []
    if tier != 'search':
        for lpos in range(3):
            for tpos in range(3):
                for kind in BAD:
                    for rpt in ([], ['--repeat', '2']):
                        for untearable in (False, True):
                            layers = [{'name': n, 'bases': [], 'kind': 'instance',
                                       'hooks': {'setUp': ['ok'], 'tearDown': ['notimpl'] if (untearable and i == 0) else ['ok']}}
                                      for i, n in enumerate(['La', 'Lb', 'Lc'])]
                            tests = []
                            for L in range(3):
                                for T in range(3):
                                    t = {'layer': L}
                                    if L == lpos and T == tpos and kind != 'layer':
                                        t.update(kind)
                                    tests.append(t)
                            if kind == 'layer':
                                if tpos:
                                    continue
                                layers[lpos]['hooks']['setUp'] = ['raise']
                            cases.append({'layers': layers, 'tests': tests, 'options': ['-x'] + rpt})
    if tier != 'search':
        # the stop happens while a layer that cannot be torn down stands on base layers: they are torn down all the same
        for kind in BAD[:4]:
            for rpt in ([], ['--repeat', '2']):
                for later in (False, True):
                    layers = [{'name': 'La', 'bases': [], 'kind': 'instance', 'hooks': {'setUp': ['ok'], 'tearDown': ['ok']}},
                              {'name': 'Lb', 'bases': [0], 'kind': 'instance', 'hooks': {'setUp': ['ok'], 'tearDown': ['notimpl']}},
                              {'name': 'Lc', 'bases': [], 'kind': 'instance', 'hooks': {'setUp': ['ok'], 'tearDown': ['ok']}}]
                    tests = [dict({'layer': 1}, **kind), {'layer': 1}] + ([{'layer': 2}] if later else [])
                    cases.append({'layers': layers, 'tests': tests, 'options': ['-x'] + rpt})
    n = {'quick': 120, 'thorough': 1500, 'search': 400}[tier]
    for _ in range(n):
        opts = ['-x'] + (['--repeat', '2'] if rng.random() < 0.3 else []) + (['-v'] if rng.random() < 0.3 else [])
        cases.append(worldcase.gen_world(rng, opts=opts))
    for c in cases:
        count_dist(rep, c)
    return cases


def nontrivial(c):
    return len(c['tests']) >= 3


class Parallel:
    """-x with -j N: a layer fails at once while another one is in the middle of a long test."""
    CHECK_FN = 'check_C16_parallel'
    LABEL = 'parallel'
    CHK = CHK
    IMPORTS = IMPORTS
    SHARD = SHARD
    CASE_TYPE = CASE_TYPE
    RULE = ('parallel batch: -x with -j 2/3 over 3..4 layers; one layer fails in its first test while the others are in the middle of a '
            'test that takes 1.5 s, further layers waiting; only what the statement says regardless of the race is evaluated (every '
            'process tears down what it set up, verdict failed, nothing escapes)')
    EXHAUSTIVE = {}

    def generate(self, rng, tier, rep):
        cases = []
        for k in range({'quick': 6, 'thorough': 40, 'search': 4}[tier]):
            nl = rng.choice([3, 4])
            layers = [{'name': n, 'bases': [], 'kind': 'instance', 'hooks': {'setUp': ['ok'], 'tearDown': ['ok']}}
                      for n in rng.sample(worldcase.LNAMES, nl)]
            bad = rng.randrange(nl)
            tests = []
            for j in range(nl):
                if j == bad:
                    tests.append(dict({'layer': j}, **rng.choice([{'body': 'fail'}, {'body': 'error'}, {'subs': ['fail']}])))
                else:
                    tests.append({'layer': j, 'sleep': 1.5})
                tests.append({'layer': j})
            cases.append({'layers': layers, 'tests': tests, 'options': ['-x', '-j%d' % rng.choice([2, 3])] + rng.choice([[], ['-v']])})
            rep.count('parallel -x layers=%d' % nl)
        return cases

    def observe(self, cases):
        return observe(cases)

    def to_coq(self, c, o):
        return to_coq(c, o)

    def nontrivial(self, c):
        return True

    def shrink_candidates(self, c):
        return []


EXTRA_BATCHES = [Parallel()]

TECHNIQUE = ('Coq model of the run with -x (Run.run_seq / repeat_loop / parent_loop / resume_seq) and the statement as a boolean '
             'predicate (Obs.c16_ok); theorems in P_C16.v; correspondence check on generated worlds, predicate evaluated on the real traces')
LEVEL_TEXT = ('The model with --stop-on-error is compared event-by-event with the real runner over the full position x kind x repeat x '
              'resume grid and random worlds; c16_ok (no test start and no layer set-up after the first recorded failure in the '
              'sequential history of processes, leftovers torn down, summary printed, verdict failed) is evaluated on the real traces.'
              ' Whole-run theorems (RunStop.v): under -x no start/set-up after the first bad outcome in any process, no child afterwards, verdict failed.')
LEVEL_NOTE = 'With -j N > 1 which children have started when the first failure arrives is a race: only tear-down, verdict and containment are evaluated there.'
