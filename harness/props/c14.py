"""C14 — test discovery."""
import fw
import treelib
from fw import g_bool, g_list, g_opt, g_str

PID = 'C14'
CHK = 'Chk_C14'
IMPORTS = ('Tree', 'Discover')
SHARD = 60
RULE = ('random directory trees (depth <= 4): tests modules and tests packages with/without __init__.py, test files, '
        'non-identifier / ignored / node_modules / __pycache__ directories, other extensions, look-alikes; materialised in '
        'shuffled creation order; default and custom --tests-pattern/--test-file-pattern, --ignore_dir, --usecompiled; one or '
        'several (nested, duplicated, overlapping) --path/--test-path roots and --package-path mounts (often of a directory that is also a plain root); "direct" cases call find_test_files(options) and find_suites with a recording import stub, '
        '"cli" cases run --list-tests with -m filters and -s packages and record which module files executed; '
        'non-trivial = at least one file found and one candidate rejected')
TRUSTED_BASE = ["os.walk, the import system and Python's re (identifier / tests / test-file patterns are oracles on names) are external"]
ASSUMPTIONS = ['symbolic links to directories only (no links to files, no link cycles); in CLI cases distinct files map to distinct module names (generator rejects collisions of module '
               'and package names between roots: Python itself would import only one of them)']

DIRN = ['pkg', 'tests', 'ftests', 'sub', 'my-data', 'node_modules', '.git', '__pycache__', 'CVS', 't2', 'tests_more', '9lives', 'deep', 'pkg2', 'subs']
FILEN = ['tests.py', 'test_a.py', 'test_b.py', 'testing.py', 'mod.py', '__init__.py', 'ftests.py', 'tests.txt',
         'test_c.pyc', 'tests.pyc', '.py', 'test_.py', 'README', 'test_a.pyc', 'tests_x.py', '__init__.pyc']
PATS = [[], [], ['--tests-pattern', '^f?tests'], ['--test-file-pattern', '^test_[ab]'],
        ['--tests-pattern', 'tests', '--test-file-pattern', '^(test|mod)']]


def rand_dir(rng, depth, cli):
    entries = {}
    for _ in range(rng.randint(0, 6)):
        n = rng.choice(FILEN)
        if cli and (n.endswith('.pyc') or n == '.py'):
            continue
        entries[n] = ['f', n, '']
    if depth > 0:
        # some sub-directories are symbolic links to directories elsewhere: walked like directories, in their sorted position,
        # pruned by the same rules
        links = rng.random() < 0.25
        for _ in range(rng.randint(0, 3)):
            n = rng.choice(DIRN)
            if n not in entries and n + '.py' not in entries:
                entries[n] = ['d', n, rand_dir(rng, depth - 1, cli)] + (['link'] if links and rng.random() < 0.6 else [])
    return list(entries.values())


def dirs_of(tree, prefix=()):
    yield prefix
    for e in tree:
        if e[0] == 'd':
            yield from dirs_of(e[2], prefix + (e[1],))


def module_names(c):
    """module names of every .py file relative to the longest root (the generator's own copy of the rule)."""
    roots = sorted([tuple(r[1]) for r in c['roots'] if r[0] != '--package-path'], key=len, reverse=True)
    out = []
    for p in treelib.all_files(c['tree']):
        if not p[-1].endswith('.py'):
            continue
        for r in roots:
            if p[:len(r)] == r:
                rel = p[len(r):]
                out.append('.'.join(rel[:-1] + (rel[-1][:-3],)))
                break
    return out


def package_clash(c):
    """True when one dotted package name belongs to two different directories (a package under one root shadows the
    package of the same name under another: Python would import from only one of them)."""
    roots = sorted([tuple(r[1]) for r in c['roots'] if r[0] != '--package-path'], key=len, reverse=True)
    owner = {}
    for p in treelib.all_files(c['tree']):
        if not p[-1].endswith('.py'):
            continue
        for r in roots:
            if p[:len(r)] == r:
                rel = p[len(r):-1]
                for k in range(1, len(rel) + 1):
                    if owner.setdefault('.'.join(rel[:k]), p[:len(r) + k]) != p[:len(r) + k]:
                        return True
                break
    return False


def generate(rng, tier, rep):
    n = {'quick': 200, 'thorough': 2000, 'search': 500}[tier]
    ncli = {'quick': 48, 'thorough': 300, 'search': 0}[tier]
    cases = []
    # fixed --package cases: sibling packages whose names are prefixes of each other, nested packages, repeated packages
    leaf = [['f', 'tests.py', ''], ['f', '__init__.py', ''], ['f', 'test_a.py', '']]
    ptree = [['d', 'pkg', leaf + [['d', 'sub', list(leaf)], ['d', 'subs', list(leaf)]]], ['d', 'pkg2', list(leaf)], ['f', 'tests.py', '']]
    if tier != 'search':
        for k, sp in enumerate([['pkg', 'pkg2'], ['pkg2', 'pkg'], ['pkg.sub', 'pkg.subs'], ['pkg.subs', 'pkg.sub'], ['pkg', 'pkg.sub'],
                                ['pkg.sub', 'pkg'], ['pkg', 'pkg'], ['pkg2']]):
            cases.append({'tree': ptree, 'roots': [['--path', []]], 'flags': [], 'extra_ign': [], 'usecompiled': False, 'spkgs': sp,
                          'mode': 'direct', 'order_seed': k, 'mpats_given': [], 'topname': 'p%d' % k})
            rep.count('mode=direct')
            rep.count('with --package')
    if tier != 'search':
        # a linked directory among real ones (and the other way round), each holding a test module: path order all the same
        t = [['f', 'tests.py', '']]
        for k, which in enumerate([(1,), (0,), (0, 2), (1, 2), (0, 1, 2)]):
            tree = [['d', nm, [list(x) for x in t]] + (['link'] if j in which else []) for j, nm in enumerate(['pkg', 'sub', 't2'])]
            cases.append({'tree': tree, 'roots': [['--test-path', []]], 'flags': [], 'extra_ign': [], 'usecompiled': False, 'spkgs': [],
                          'mode': 'direct', 'order_seed': k, 'mpats_given': [], 'topname': 'lk%d' % k})
            rep.count('mode=direct')
    while len(cases) < n:
        i = len(cases)
        cli = i < ncli
        tree = rand_dir(rng, rng.randint(1, 4), cli)
        ds = list(dirs_of(tree))
        k = rng.choice([1, 1, 1, 2, 2, 3])
        roots = []
        for _ in range(k):
            kind = '--path' if cli else rng.choice(['--path', '--test-path'])
            roots.append([kind, list(rng.choice(ds if rng.random() < 0.6 else ds[:1]))])
        # --package-path DIR PKG: a directory mounted as package PKG — often one that is also a plain search path, or that
        # lies below / above one (a found file keeps the package of the root that found it first)
        mounted = rng.random() < 0.35
        if mounted:
            for j in range(rng.choice([1, 1, 2]) if not cli else 1):
                r = rng.random()
                d = list(rng.choice(roots)[1]) if r < 0.5 else list(rng.choice(ds))
                roots.insert(rng.randint(0, len(roots)), ['--package-path', d, 'mnt%d' % j])
        flags = list(rng.choice(PATS))
        extra = []
        if rng.random() < 0.25:
            extra = [rng.choice(['sub', 'pkg', 'deep'])]
            for e in extra:
                flags += ['--ignore_dir', e]
        usec = (not cli) and rng.random() < 0.25
        if usec:
            flags.append('--usecompiled')
        mp = []
        if (cli or mounted or rng.random() < 0.3) and rng.random() < 0.5:
            mp = rng.sample(['tests', 'pkg', '!sub', 'test_a', '^tests', '!test_b', 'ftests', 'nomatch', '^mnt', '!mnt0'], rng.randint(1, 2))
            for p in mp:
                flags += ['-m', p]
        spkgs = []
        if not cli and not mounted and rng.random() < 0.4:
            # --package / -s: restrict the walk to the directories of some packages below the search paths
            cands = sorted(set(tuple(d[len(r[1]):]) for r in roots for d in ds if len(d) > len(r[1]) and list(d[:len(r[1])]) == list(r[1])
                               and all(x.replace('_', 'a').isalnum() and not x[0].isdigit() for x in d[len(r[1]):])))
            # two packages whose directory paths are string prefixes of each other (pkg.tests / pkg.tests_more) when there are any
            pairs = [(a, b) for a in cands for b in cands if a != b and a[:-1] == b[:-1] and b[-1].startswith(a[-1])]
            if pairs and rng.random() < 0.85:
                a, b = rng.choice(pairs)
                spkgs = ['.'.join(a), '.'.join(b)]
            else:
                for rel in rng.sample(cands, min(len(cands), rng.choice([1, 1, 2]))):
                    spkgs.append('.'.join(rel))
        c = {'tree': tree, 'roots': roots, 'flags': flags, 'extra_ign': extra, 'usecompiled': usec, 'spkgs': spkgs,
             'mode': 'cli' if cli else 'direct', 'order_seed': rng.randint(0, 10 ** 6), 'mpats_given': mp,
             'topname': rng.choice(['c%d' % i, 'tests', 'c%d' % i])}
        if not cli and rng.random() < 0.3:
            c['bad_stems'] = rng.sample(['tests', 'test_a', 'ftests', 'test_b'], 2)
            rep.count('with modules whose import fails')
        if cli:
            names = module_names(c)
            pkgs = set('.'.join(x.split('.')[:k]) for x in names for k in range(1, x.count('.') + 1))
            if pkgs & set(names):
                continue      # a module of one root has the name of a package of another: Python would import only one of them
            if len(names) != len(set(names)) or package_clash(c) or {'fw', 'treelib', 'props', 'zope'} & set(x.split('.')[0] for x in names):
                continue
        cases.append(c)
        rep.count('mode=' + c['mode'])
        rep.count('roots=%d' % k)
        rep.count('--package-path mounts=%d' % sum(1 for r in roots if r[0] == '--package-path'))
        if mounted:
            plain = [tuple(r[1]) for r in roots if r[0] != '--package-path']
            rep.count('mount ' + ('is also a plain search path' if any(tuple(r[1]) in plain for r in roots if r[0] == '--package-path')
                                  else 'is a separate directory'))
        rep.count('with --package' if c['spkgs'] else 'without --package')
        rep.count('patterns=' + ' '.join(flags[:4]))
        rep.count('tree with symlinked directories' if '"link"' in __import__('json').dumps(tree) else 'tree without symlinks')
    return cases


def observe(cases):
    chunks = [cases[i:i + 13] for i in range(0, len(cases), 13)]
    out = []
    for r in fw.parallel_map(lambda ch: fw.run_py('impl_c14.py', {'cases': ch, 'scratch': fw.scratch()}), chunks):
        out.extend(r)
    return out


def nontrivial(c):
    names = [p[-1] for p in treelib.all_files(c['tree'])]
    return sum(n.endswith('.py') for n in names) >= 2 and any(e[0] == 'd' for e in c['tree'])


def g_tree(tree):
    return g_list(['(F %s)' % g_str(e[1]) if e[0] == 'f' else '(D %s %s)' % (g_str(e[1]), g_tree(e[2])) for e in tree])


def g_path(p):
    return g_list([g_str(x) for x in p])


def g_tab(t):
    return g_list(['(%s, %s)' % (g_str(n), g_bool(b)) for n, b in t])


def ordered_roots(c):
    """options.test_path: --test-path entries, then --path entries, then the --package-path mounts; (directory, package)"""
    return ([(r[1], '') for r in c['roots'] if r[0] == '--test-path'] + [(r[1], '') for r in c['roots'] if r[0] == '--path']
            + [(r[1], r[2]) for r in c['roots'] if r[0] == '--package-path'])


def g_proot(top, r):
    return '(%s, %s)' % (g_path([top] + list(r[0])), g_str(r[1]))


def to_coq(c, o):
    ordered = ordered_roots(c)
    roots = g_list([g_proot(c['topname'], r) for r in ordered])
    walk = roots
    if c.get('spkgs'):
        # test_dirs(): for every package, in option order, its directory under every search path that has it (search-path order),
        # each directory once   (-s cases have no mounts: every root carries the empty package)
        dset = set(dirs_of(c['tree']))
        wl, seen = [], set()
        for pk in c['spkgs']:
            rel = pk.split('.')
            for r in ordered:
                d = tuple(r[0] + rel)
                if d in dset and d not in seen:
                    seen.add(d)
                    wl.append((list(d), ''))
        walk = g_list([g_proot(c['topname'], r) for r in wl])
    return ('{| top := D %s %s; t_ident := %s; t_tpat := %s; t_fpat := %s; ign := %s; usecompiled := %s; '
            'walk_roots := %s; name_roots := %s; mpats := %s; mtab := %s; r_found := %s; r_names := %s; r_imported := %s |}' % (
                g_str(c['topname']), g_tree(c['tree']), g_tab(o['ident']), g_tab(o['tpat']), g_tab(o['fpat']),
                g_list([g_str(x) for x in o['ign']]), g_bool(c['usecompiled']),
                walk, roots,
                g_list([g_str(p) for p in o['mpats']]),
                g_list(['(%s, %s, %s)' % (g_str(p), g_str(m), g_bool(b)) for p, m, b in o['mtab']]),
                g_opt(None if o['found'] is None else g_list(['(%s, %s)' % (g_path(p), g_str(k)) for p, k in o['found']])),
                g_opt(None if o.get('names') is None else g_list([g_str(m) for m in o['names']])),
                g_opt(None if o['imported'] is None else g_list([g_path(p) for p in o['imported']]))))


def shrink_candidates(c):
    def variants(tree):
        for i, e in enumerate(tree):
            yield tree[:i] + tree[i + 1:]
            if e[0] == 'd':
                for v in variants(e[2]):
                    yield tree[:i] + [['d', e[1], v]] + tree[i + 1:]
    for t in variants(c['tree']):
        ds = set(dirs_of(t))
        if all(tuple(r[1]) in ds for r in c['roots']):
            yield dict(c, tree=t)
    if len(c['roots']) > 1:
        for i in range(len(c['roots'])):
            yield dict(c, roots=c['roots'][:i] + c['roots'][i + 1:])


TECHNIQUE = ('Coq proofs over a directory-tree model of find_test_files / module naming / --module filtering '
             '(Discover.v, DiscoverFacts.v, P_C14.v) + correspondence check on materialised trees (direct calls and CLI runs)')
LEVEL_TEXT = ('Unbounded theorems over all trees and regex oracles: found <=> test file of its directory reached only through '
              'identifier, non-ignored directories; NoDup over any (overlapping, repeated, mounted) search paths; repeated/reordered '
              'paths give the same set; roots carrying a package (--package-path) find the same files, each keeping the package of the '
              'root that found it first; every found file has a module name under a prefix with its package (options.prefix covers '
              'options.test_path); only --module-accepted names reach import, every found file with an accepted name is handed over, '
              'none twice; the walk is independent of the enumeration order of every directory. The model (incl. sorting, root '
              'basename rule, --usecompiled preference, longest-prefix-first naming that passes over prefixes whose name --module '
              'rejects) is compared with the live find_test_files / find_suites (stubbed import records the names) and with the import '
              'events of CLI runs on every run; the flat statement c14_ok is evaluated in Coq on the implementation\'s results.')
LEVEL_NOTE = ('--package (-s) is exercised through direct cases whose package import is answered by a stand-in; mounted packages of CLI '
              'cases are made importable by a generated knitting package on PYTHONPATH. os.walk / import system / re are external; '
              'symbolic links only as described in the assumptions.')
