"""C05 — per-test layer hooks bracket every test."""
import worldcase
from worldprop import *          # noqa: F401,F403
from worldprop import COMMON_ASSUMPTIONS, COMMON_TRUSTED, count_dist

PID = 'C05'
CHECK_FN = 'check_C05'
RULE = ('random worlds with rich test behaviours (pass, fail, error, decorator skip, skip raised in setUp/body/tearDown/subtest, '
        'expected failure, unexpected success, failing/erroring/skipping subtests, errors in tearDown and cleanups), 0..4 layers with '
        'testSetUp/testTearDown hooks (both or neither on most layers), --repeat 2 on some; all single-outcome-kind sequences of '
        'length <= 2 on a 3-level stack are enumerated; non-trivial = a layer with per-test hooks and a non-passing test')
TRUSTED_BASE = COMMON_TRUSTED
ASSUMPTIONS = COMMON_ASSUMPTIONS + ['a layer with only one of the two per-test hooks is generated only in worlds without decorator-skipped tests '
                                    '(the grouping of hook calls into tests would be ambiguous)']
KINDS = [{}, {'body': 'fail'}, {'body': 'error'}, {'deco_skip': True}, {'setUp': 'skip'}, {'body': 'skip'},
         {'xf': True, 'body': 'fail'}, {'xf': True}, {'subs': ['fail', 'ok', 'error']}, {'tearDown': 'error'},
         {'body': 'fail', 'tearDown': 'error'}, {'cleanups': ['error', 'ok']}, {'subs': ['skip'], 'body': 'exit'}]


def symmetric(c):
    for L in c['layers']:
        h = L.get('hooks', {})
        if ('testSetUp' in h) != ('testTearDown' in h):
            if any(T.get('deco_skip') for T in c['tests']):
                h.pop('testSetUp', None)
                h.pop('testTearDown', None)
    return c


def generate(rng, tier, rep):
    cases = []
    stack3 = [{'name': 'La', 'bases': [], 'kind': 'instance', 'hooks': {'testSetUp': ['ok'], 'testTearDown': ['ok']}},
              {'name': 'Lb', 'bases': [0], 'kind': 'class', 'hooks': {'setUp': ['ok'], 'tearDown': ['ok'], 'testSetUp': ['ok'], 'testTearDown': ['ok']}},
              {'name': 'Ka', 'bases': [1], 'kind': 'instance', 'hooks': {'testSetUp': ['ok'], 'testTearDown': ['ok']}}]
    if tier != 'search':
        seqs = [[a] for a in KINDS] + [[a, b] for a in KINDS for b in KINDS]
        if tier == 'thorough':
            seqs += [[a, b, c] for a in KINDS[:8] for b in KINDS[:8] for c in KINDS[:8]]
        for s in seqs:
            cases.append({'layers': stack3, 'tests': [dict(k, layer=2) for k in s], 'options': []})
    n = {'quick': 150, 'thorough': 1500, 'search': 400}[tier]
    for _ in range(n):
        opts = []
        if rng.random() < 0.3:
            opts += ['--repeat', '2']
        if rng.random() < 0.15:
            opts += ['-j2']
        c = worldcase.gen_world(rng, opts=opts, faults=(rng.random() < 0.2))
        for L in c['layers']:
            if rng.random() < 0.8:
                L['hooks']['testSetUp'] = ['ok']
                L['hooks']['testTearDown'] = ['ok']
        c = symmetric(c)
        if rng.random() < 0.12 and not any(o.startswith('-j') for o in c['options']):
            # an earlier run of the same program in this interpreter, after which the program drops and re-creates its layers
            # (same names, new objects): the second run deals with the new objects only
            import copy
            c['warmup_world'] = copy.deepcopy({k: v for k, v in c.items() if k != 'warmup_world'})
            rep.count('after an earlier run with other layer objects of the same names')
        cases.append(c)
    for c in cases:
        count_dist(rep, c)
    return cases


def nontrivial(c):
    hooks = any('testSetUp' in L.get('hooks', {}) for L in c['layers'])
    return hooks and any(set(T) - {'layer'} for T in c['tests'])


TECHNIQUE = ('Coq model of unittest protocol + zope TestResult (Run.proto, Run.run_test) with the bracket statement as a boolean '
             'predicate (Obs.c05_ok); theorems in P_C05.v; correspondence check on generated worlds, predicate evaluated on the real trace')
LEVEL_TEXT = ('Every outcome kind and every sequence is covered by theorems over the model of one test execution (hooks bases-first, '
              'mirrored, once each — reusing the order_by_bases theorems of C10), the model is compared event-by-event with the real '
              'runner, and c05_ok is evaluated on the real trace of every process (incl. decorator-skipped tests on Python 3.12.1).'
              ' Whole-run theorems (RunBracket.v): every process trace is made of layer events and complete test blocks; hooks balanced per layer.')
LEVEL_NOTE = 'Only CPython 3.12.1 is executed; both unittest behaviours for decorator skips are covered by the model (PDecoSkip path).'
