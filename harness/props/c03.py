"""C03 — selection = execution."""
import worldcase
from worldprop import *          # noqa: F401,F403
from worldprop import COMMON_ASSUMPTIONS, COMMON_TRUSTED, count_dist

PID = 'C03'
CHECK_FN = 'check_C03'
RULE = ('random worlds (1..7 tests over 0..4 layers) run sequentially, with --repeat 2, with -j2/-j3 and with un-tearable layers so that '
        'later layers are resumed in subprocesses; non-trivial = at least 3 tests over at least 2 layers')
TRUSTED_BASE = COMMON_TRUSTED
ASSUMPTIONS = COMMON_ASSUMPTIONS + ['filters (-t/-m/--layer, levels) are decided by the C08/C09 checks; here every discovered test is selected',
                                    '--list-tests agreement is checked on a sub-batch by a second invocation of the same world']


def generate(rng, tier, rep):
    n = {'quick': 220, 'thorough': 2500, 'search': 500}[tier]
    cases = []
    for _ in range(n):
        c = worldcase.gen_world(rng, rich=(rng.random() < 0.3))
        if rng.random() < 0.3 and c['layers']:
            c['layers'][0]['hooks']['tearDown'] = ['notimpl']
        cases.append(c)
    # a search path given relative to the directory the run is started in, a test that changes the working directory, and
    # layers resumed in subprocesses afterwards: the children look where the run was started
    for k in range({'quick': 8, 'thorough': 60, 'search': 4}[tier]):
        c = worldcase.gen_world(rng, faults=False, rich=False, opts=rng.choice([[], [], ['-j2'], ['--repeat', '2']]))
        if not c['layers']:
            c['layers'] = worldcase.gen_layers(rng, 2, faults=False)
        for L in c['layers']:
            L['hooks']['tearDown'] = ['notimpl'] if rng.random() < 0.7 else ['ok']
            L['hooks'].setdefault('setUp', ['ok'])
        c['tests'] = [{'layer': j} for j in range(len(c['layers']))] + [{'layer': rng.randrange(len(c['layers']))} for _ in range(2)] + [{'layer': None}]
        rng.choice(c['tests'])['meddle'] = ['chdir']
        c['relpath'] = True
        c['via'] = rng.choice(['run_internal', 'run'])
        cases.append(c)
        rep.count('relative search path, working directory changed by a test')
    for c in cases:
        count_dist(rep, c)
    return cases


def nontrivial(c):
    return len(c['tests']) >= 3 and len(c['layers']) >= 1


TECHNIQUE = ('Coq model of the run across processes (Run.run) with "every selected test exactly once per iteration, in one process, under '
             'its layer" as a boolean predicate (Obs.c03_ok); theorems in P_C03.v; correspondence check on generated worlds')
LEVEL_TEXT = ('Which tests start in which process is compared with the model and with the selection recomputed in Coq, in sequential, '
              'repeated, resumed and parallel mode.'
              ' Whole-run theorems (RunOnce.v): without -x every selected test whose layer stack can be set up starts exactly reps times over all processes, and nothing else starts.')
LEVEL_NOTE = 'Selection by patterns and levels is covered by C08/C09; discovery by C14.'

import modes          # noqa: E402
EXTRA_BATCHES = [modes.Batch('mixed', 24, 300)]
