"""C15 — stale byte-code cleanup."""
import fw
from fw import g_bool, g_list, g_str

PID = 'C15'
CHK = 'Chk_C15'
IMPORTS = ('Tree',)
RULE = ('[history cases: two in-process runs sharing one defaults list, the first with -j 2] ' + 'random directory trees (depth <= 4) mixing x.py / x.pyc / x.pyo with and without a sibling .py, look-alikes '
        '(x.pyc.bak, ".pyc", "pyc", X.PYC, x.pyo.py, directory named y.py), __pycache__, default-ignored dirs (.git, CVS, '
        '.svn …), --ignore_dir additions, non-identifier and node_modules dirs, unrelated files; materialised in shuffled '
        'creation order; options: -k / --usecompiled / neither, one or several --path / --test-path roots (nested, '
        'duplicated, the scratch root itself); files snapshotted (sha1) before and after; most cases call '
        'get_options + remove_stale_bytecode in-process (every fourth of them with modules registered in sys.modules whose __file__ is one of the compiled files), a subset runs the CLI with --list-tests; '
        'non-trivial = at least one orphan and one non-orphan compiled file, or a pruned directory containing a compiled file')
TRUSTED_BASE = ['os.walk / os.unlink / the file system are external; symlinked directories are generated and walked like directories']
ASSUMPTIONS = ['"searched source directory" = what the cleanup walk visits (test paths minus --ignore_dir and __pycache__), see DESIGN C15',
               'symbolic links to directories only; file names are unique per directory (file system)']
DEFAULT_IGN = ['.git', '.svn', 'CVS', '{arch}', '.arch-ids', '_darcs']

STEMS = ['a', 'b', 'mod', 'x', 'test_z', 'f1']
DIRN = ['pkg', 'sub', 'my-data', 'node_modules', '__pycache__', '.git', 'CVS', 'skipme', 'deep', '_darcs', 'x.py']


def rand_dir(rng, depth):
    entries = {}
    for _ in range(rng.randint(0, 6)):
        st = rng.choice(STEMS)
        r = rng.random()
        if r < 0.25:
            names = [st + '.py']
        elif r < 0.5:
            names = [st + rng.choice(['.pyc', '.pyo'])]
        elif r < 0.7:
            names = [st + '.py', st + rng.choice(['.pyc', '.pyo'])]
        elif r < 0.85:
            names = [rng.choice([st + '.pyc.bak', '.pyc', 'pyc', st.upper() + '.PYC', st + '.pyo.py', st + '.txt', '.pyo', '.py', st + '.pycc', 'c.pyc'])]
        else:
            names = [st + '.pyc', st + '.pyo']
        for n in names:
            entries[n] = ['f', n, '%s-%d' % (n, rng.randint(0, 99))]
            if n.endswith(('.pyc', '.pyo')) and rng.random() < 0.15:
                # a compiled file that is a symbolic link to a file kept elsewhere (a shared cache): an orphan like any other —
                # the link goes, what it points to stays
                entries[n].append('link')
    if depth > 0:
        for _ in range(rng.randint(0, 3)):
            n = rng.choice(DIRN)
            if n not in entries:
                entries[n] = ['d', n, rand_dir(rng, depth - 1)]
                if rng.random() < 0.12:
                    entries[n].append('link')        # a symbolic link to a directory elsewhere: walked like a directory
    return list(entries.values())


def dirs_of(tree, prefix=()):
    yield prefix
    for e in tree:
        if e[0] == 'd':
            yield from dirs_of(e[2], prefix + (e[1],))


def generate(rng, tier, rep):
    n = {'quick': 260, 'thorough': 2500, 'search': 600}[tier]
    ncli = {'quick': 30, 'thorough': 200, 'search': 0}[tier]
    cases = []
    for i in range(n):
        tree = rand_dir(rng, rng.randint(1, 4))
        ds = list(dirs_of(tree))
        k = rng.choice([1, 1, 1, 2, 2, 3])
        roots = []
        for _ in range(k):
            roots.append([rng.choice(['--path', '--test-path']), list(rng.choice(ds if rng.random() < 0.5 else ds[:1]))])
        flags = []
        r = rng.random()
        if r < 0.15:
            flags.append('-k')
        elif r < 0.3:
            flags.append('--usecompiled')
        elif r < 0.35:
            flags += ['--keepbytecode', '--usecompiled']
        extra = []
        if rng.random() < 0.3:
            extra = [rng.choice(['skipme', 'pkg', 'deep'])]
            for e in extra:
                flags += ['--ignore_dir', e]
        cases.append({'tree': tree, 'roots': roots, 'flags': flags, 'extra_ign': extra,
                      'mode': 'cli' if i < ncli else 'direct', 'order_seed': rng.randint(0, 10 ** 6)})
        rep.count('keep=%s' % bool(set(flags) & {'-k', '--usecompiled', '--keepbytecode'}))
        rep.count('roots=%d' % k)
        rep.count('mode=' + cases[-1]['mode'])
    # history: an embedding program runs the tests twice in one interpreter with the same list of default options - first
    # with -j 2 (a layer runs in a subprocess), then again after compiled files have reappeared: the second run cleans up like a first
    for k in range({'quick': 6, 'thorough': 40, 'search': 0}[tier]):
        tree = [e for e in rand_dir(rng, rng.randint(1, 3)) if e[1] != 'vhist_tests.py'] + [['f', 'vhist_tests.py', VHIST]]
        flags = [[], [], [], ['-k'], ['--ignore_dir', 'pkg']][k % 5]
        cases.append({'tree': tree, 'roots': [['--path', []]], 'flags': flags, 'extra_ign': (['pkg'] if 'pkg' in flags else []),
                      'mode': 'history', 'order_seed': rng.randint(0, 10 ** 6)})
        rep.count('mode=history')
    return cases


VHIST = '''import unittest


class HistLayer:
    @classmethod
    def setUp(cls):
        pass

    @classmethod
    def tearDown(cls):
        pass


class T(unittest.TestCase):
    layer = HistLayer

    def test_it(self):
        pass


class U(unittest.TestCase):
    def test_unit(self):
        pass
'''


def observe(cases):
    chunks = [cases[i:i + 20] for i in range(0, len(cases), 20)]
    out = []
    for r in fw.parallel_map(lambda ch: fw.run_py('impl_c15.py', {'cases': ch, 'scratch': fw.scratch()}), chunks):
        out.extend(r)
    return out


def is_keep(c):
    return bool(set(c['flags']) & {'-k', '--usecompiled', '--keepbytecode'})


def nontrivial(c):
    names = [p[-1] for p in __import__('treelib').all_files(c['tree'])]
    comp = [n for n in names if n[-4:] in ('.pyc', '.pyo')]
    return len(comp) >= 2


def g_tree(tree):
    return g_list(['(F %s)' % g_str(e[1]) if e[0] == 'f' else '(D %s %s)' % (g_str(e[1]), g_tree(e[2])) for e in tree])


def g_path(p):
    return g_list([g_str(x) for x in p])


def to_coq(c, o):
    ign = o['ign'] if o['ign'] is not None else sorted(set(DEFAULT_IGN + c['extra_ign']))
    return '{| tree := %s; roots := %s; ign := %s; keep := %s; deleted := %s; untouched := %s |}' % (
        g_tree(c['tree']), g_list([g_path(r[1]) for r in c['roots']]), g_list([g_str(x) for x in ign]),
        g_bool(is_keep(c)), g_list([g_path(p) for p in o['deleted']]), g_bool(o['untouched']))


def shrink_candidates(c):
    def variants(tree):
        for i, e in enumerate(tree):
            yield tree[:i] + tree[i + 1:]
            if e[0] == 'd':
                for v in variants(e[2]):
                    yield tree[:i] + [['d', e[1], v]] + tree[i + 1:]
    have = set(dirs_of(c['tree']))
    for t in variants(c['tree']):
        ds = set(dirs_of(t))
        if all(tuple(r[1]) in ds for r in c['roots']):
            yield dict(c, tree=t)
    if len(c['roots']) > 1:
        for i in range(len(c['roots'])):
            yield dict(c, roots=c['roots'][:i] + c['roots'][i + 1:])


TECHNIQUE = ('Coq proofs over a directory-tree model of remove_stale_bytecode (Bytecode.v, BytecodeFacts.v, BytecodeAfter.v, P_C15.v) + '
             'correspondence check on materialised trees with before/after snapshots')
LEVEL_TEXT = ('Unbounded theorems over all trees: unlinked <=> orphaned .pyc/.pyo directly in a walked, unpruned directory '
              '(both directions, so completeness too), suffix characterisation, never inside ignored/__pycache__ directories, '
              '-k/--usecompiled => nothing; a second cleanup of the tree left behind removes nothing and every non-orphan entry is kept. The model is compared with the real cleanup (in-process through get_options, and '
              'through the CLI) on every run, and the flat statement c15_ok plus "no other file removed, changed or created" is '
              'evaluated in Coq on the before/after snapshots.')
LEVEL_NOTE = ('os.walk/unlink and symlinks are outside the model; that unlink removes exactly the named file is the OS\'s contract, '
              'observed by the snapshots.')
