"""C04 — containment of exceptions."""
import worldcase
from worldprop import *          # noqa: F401,F403
from worldprop import COMMON_ASSUMPTIONS, COMMON_TRUSTED, count_dist

PID = 'C04'
CHECK_FN = 'check_C04'
RULE = ('random worlds emphasising several result events per test (body + tearDown, failing subtests, cleanup errors, errors in setUp, '
        'SystemExit in the body), layer setUp/tearDown exceptions, at every position, with --buffer on/off, -v 0..3, in-process and '
        'in children; non-trivial = a test producing at least two result events or a layer fault')
TRUSTED_BASE = COMMON_TRUSTED
ASSUMPTIONS = COMMON_ASSUMPTIONS + ['exception classes: Exception subclasses (AssertionError, KeyError, ValueError) and SystemExit inside tests; '
                                    'KeyboardInterrupt is meant to abort and is covered by C18',
                                    'the stdout of the runner is a strict UTF-8 stream (like a file or a pipe); some exception messages cannot be encoded for it']


def generate(rng, tier, rep):
    n = {'quick': 260, 'thorough': 3000, 'search': 500}[tier]
    cases = []
    for _ in range(n):
        opts = []
        if rng.random() < 0.5:
            opts.append('--buffer')
        v = rng.choice(['', '-v', '-vv', '-vvv'])
        if v:
            opts.append(v)
        if rng.random() < 0.2:
            opts.append('-j2')
        if rng.random() < 0.15:
            # every way of showing or recording a failure has to cope with whatever exception object it is handed
            opts.append(rng.choice(['--xml=xmlout', '-c', '-p']))
        c = worldcase.gen_world(rng, opts=opts)
        if any(o in opts for o in ('--xml=xmlout', '-c', '-p')):
            T = rng.choice(c['tests'])
            if not T.get('deco_skip') and not T.get('xf'):
                T[rng.choice(['body', 'setUp', 'tearDown'])] = 'error_odd:' + rng.choice(worldcase.ODD)
        for T in c['tests']:
            if rng.random() < 0.35 and not T.get('deco_skip'):
                T.pop('xf', None)
                T.update(rng.choice([{'body': 'fail', 'tearDown': 'error'}, {'subs': ['fail', 'error', 'fail']},
                                     {'body': 'error', 'cleanups': ['error', 'fail']}, {'setUp': 'error', 'cleanups': ['error']},
                                     {'body': 'exit', 'tearDown': 'fail'}, {'xf': True, 'tearDown': 'error'},
                                     {'subs': ['fail', 'ok'], 'redirect_sub': True}, {'subs': ['error'], 'redirect_sub': True, 'body': 'fail'}]))
        for T in c['tests']:
            # exception messages that the output stream cannot encode (lone surrogates) or that contain control characters
            if T.get('body') in ('fail', 'error') and rng.random() < 0.25:
                T['body'] = [T['body'], rng.choice(['\ud800 unencodable', 'nul \x00 bell \x07', 'z\udfff', 'caf\xe9 \u4e2d'])]
        for T in c['tests']:
            if rng.random() < 0.2 and not T.get('deco_skip'):
                # arbitrary bytes through sys.stdout.buffer (the capture stream has a .buffer too)
                T['writes'] = {'body': [['stdout.badbytes', 'raw bytes follow ']]}
        cases.append(c)
    if tier != 'search':
        # every way of displaying a failure x every unusual exception shape, once each
        for opt in (['-c'], ['-p'], ['--xml=xmlout'], ['-c', '-vv'], ['--buffer', '-c']):
            for shape in worldcase.ODD:
                cases.append({'layers': [], 'options': list(opt),
                              'tests': [{'layer': None}, {'layer': None, 'body': 'error_odd:' + shape}, {'layer': None}]})
    for c in cases:
        count_dist(rep, c)
        rep.count('--buffer' if '--buffer' in c['options'] else 'unbuffered')
    return cases


def nontrivial(c):
    multi = any(sum(1 for k in ('setUp', 'body', 'tearDown') if T.get(k, 'ok') not in ('ok',)) + len(T.get('subs', [])) + len(T.get('cleanups', [])) >= 2
                for T in c['tests'])
    faults = any(x != 'ok' for L in c['layers'] for sc in L.get('hooks', {}).values() for x in sc)
    return multi or faults


TECHNIQUE = ('Coq model of the run in which every exception is an explicit outcome (Run.v) with "nothing escapes, the others still run, '
             'leftovers torn down, summary produced" as a boolean predicate (Obs.c04_ok); theorems in P_C04.v; correspondence check')
LEVEL_TEXT = ('Whether anything escapes Runner.run(), which other tests still start, the final tear-down and the summaries are compared with '
              'the model and evaluated in Coq on the real observation, with --buffer on and off, all verbosities, in-process and in children.'
              ' Whole-run theorems (RunOnce.v, RunLedger.v, RunInv.v): other tests still run, everything recorded, everything torn down, for every world.')
LEVEL_NOTE = 'The formatter (text layout of failure reports) is not modelled beyond the summary lines.'
