"""C13 — buffered output attribution; std streams always restored."""
import re

import fw
import worldcase
import worldrun
from fw import g_bool, g_list, g_nats

PID = 'C13'
CHK = 'Chk_C13'
IMPORTS = ('Layers', 'Run', 'Buffer')
SHARD = 30
RULE = ('in-process runs of one layer (with testSetUp/testTearDown hooks that record the identity of sys.stdout/sys.stderr) over '
        'all single-kind sequences of length <= 2 (quick) / <= 3 (thorough) from 13 outcome kinds plus random rich tests; every test '
        'writes a unique token in each phase it reaches (with/without trailing newline, via print, via .buffer, to stderr, empty); '
        'with and without --buffer, verbosity 0..2; non-trivial = at least one failing/erroring and one non-failing test that write')
TRUSTED_BASE = ['io.TextIOWrapper/BytesIO capture streams and the formatter\'s print_std_streams are observed, not modelled in detail: '
                'only the order of tokens and failure/error headers in the real stdout / stderr is compared']
ASSUMPTIONS = ['tests write through sys.stdout / sys.stderr (objects looked up at write time), not through file descriptors',
               'the stream model (which token goes to which stream, in which order) is compared for in-process runs; for layers run in '
               'subprocesses (a child re-binds sys.stderr to its stdout by design) only the statement is evaluated, on what the parent prints']
PHN = {'setUp': (0, 0), 'body': (1, 0), 'after_nested': (1, 0), 'tearDown': (3, 0), 'after_redirect': (5, 0)}
KINDS = [{}, {'body': 'fail'}, {'body': 'error'}, {'deco_skip': True}, {'setUp': 'skip'}, {'body': 'skip'},
         {'xf': True, 'body': 'fail'}, {'xf': True}, {'subs': ['fail', 'ok', 'error']}, {'tearDown': 'error'},
         {'body': 'fail', 'tearDown': 'error'}, {'cleanups': ['error', 'ok']}, {'subs': ['skip', 'fail']}]
LAYER = [{'name': 'La', 'bases': [], 'kind': 'instance',
          'hooks': {'setUp': ['ok'], 'tearDown': ['ok'], 'testSetUp': ['ok'], 'testTearDown': ['ok']}}]
TOK = re.compile(r'TOK_(\d+)_|(?:Failure|Error) in test test_(\d+)')


def add_writes(rng, tests, buffered=True):
    tok = 1
    for i, T in enumerate(tests):
        if T.get('deco_skip'):
            continue
        wr = {}
        phases = ['setUp', 'body', 'tearDown'] + ['cleanup%d' % j for j in range(len(T.get('cleanups', [])))]
        if buffered and T.get('subs') and not T.get('xf') and rng.random() < 0.5:
            T['redirect_sub'] = True
            phases.append('after_redirect')
        if buffered and rng.random() < 0.08:
            # the test runs the test runner itself (as the runner's own tests do), in-process and with --buffer, between two of
            # its writes: what the outer test has written so far stays captured for the outer test
            T['nested_run'] = True
            phases.insert(2, 'after_nested')
        for ph in phases:
            if rng.random() < 0.8 or ph == 'after_nested' or (ph == 'body' and T.get('nested_run')):
                # contextlib.redirect_stdout re-installs sys.stdout only: what follows it is written to stdout (the model has one switch)
                stream = rng.choice(['stdout', 'stdout', 'stdout', 'print', 'stdout.buffer', 'stdout.badbytes'] + ([] if (T.get('redirect_sub') and ph not in ('setUp', 'body')) else ['stderr']))
                text = 'TOK_%d_' % tok + rng.choice(['', '\n', ' more text\n'])
                wr[ph] = [[stream, text]]
                if rng.random() < 0.15:
                    wr[ph].append(['stdout', ''])
                tok += 1
        T['writes'] = wr
    return tests


def mk(rng, kinds, opts):
    # without --buffer the runner prints through whatever sys.stdout the test has installed: redirecting tests only with --buffer
    tests = add_writes(rng, [dict(k, layer=0) for k in kinds], buffered='--buffer' in opts)
    w = {'layers': LAYER, 'tests': tests, 'options': opts}
    if rng.random() < 0.2:
        w['falsy_streams'] = True        # the original streams may be falsy objects
    return w


def generate(rng, tier, rep):
    cases = []
    if tier != 'search':
        seqs = [[a] for a in KINDS] + [[a, b] for a in KINDS for b in KINDS]
        if tier == 'thorough':
            seqs += [[a, b, c] for a in KINDS[:9] for b in KINDS[:9] for c in KINDS[:9]]
        for s in seqs:
            for buf in (True, False) if len(s) < 3 else (True,):
                cases.append(mk(rng, s, (['--buffer'] if buf else []) + rng.choice([[], ['-v'], ['-vv']])))
    n = {'quick': 80, 'thorough': 1500, 'search': 300}[tier]
    for _ in range(n):
        kinds = []
        for _ in range(rng.randint(1, 5)):
            T = worldcase.gen_test(rng, 0)
            T.pop('layer', None)
            kinds.append(T)
        # (--xml wraps the formatter: what a failing test wrote must be shown all the same)
        cases.append(mk(rng, kinds, (['--buffer'] if rng.random() < 0.75 else []) + rng.choice([[], ['-v'], ['-vv']])
                        + (['--xml=xmlout'] if rng.random() < 0.2 else [])))
    for c in cases:
        if any(T.get('nested_run') for T in c['tests']):
            rep.count('a test runs the runner in-process (nested --buffer run)')
        rep.count('buffer=%s' % ('--buffer' in c['options']))
        if '--xml=xmlout' in c['options']:
            rep.count('with --xml')
        rep.count('tests=%d' % len(c['tests']))
    return cases


def observe(cases):
    return worldrun.run_worlds(cases)


def nontrivial(c):
    fail = any(T.get('body') in ('fail', 'error') or T.get('subs') or T.get('tearDown') for T in c['tests'])
    return fail and len(c['tests']) >= 2


def scan(text):
    seq = []
    for m in TOK.finditer(text):
        if m.group(1) is not None:
            seq.append((1, int(m.group(1))))
        else:
            seq.append((0, int(m.group(2))))
    return seq


def to_coq(c, o):
    writes = []
    errt = []
    for i, T in enumerate(c['tests']):
        for ph, ws in T.get('writes', {}).items():
            code = PHN[ph] if ph in PHN else (4, int(ph[len('cleanup'):]))
            for stream, text in ws:
                m = re.match(r'TOK_(\d+)_', text)
                if not m:
                    continue
                writes.append('(%d, %d, %d, %d)' % (i, code[0], code[1], int(m.group(1))))
                if stream == 'stderr':
                    errt.append(int(m.group(1)))
    mod = o.get('mod', 'x')
    tests = worldcase.g_world(c, mod)
    # reuse the test literals only
    tl = tests[tests.index('tests := ') + len('tests := '):-3]
    if o.get('driver_failed'):
        out, err, ident, restored, aborted = [], [], False, False, True
    else:
        out = scan(o['stdout'])
        err = [t for k, t in scan(o['stderr']) if k == 1]
        ident = all(all(r[4]) for r in o['trace'] if r[1] in ('testSetUp', 'testTearDown'))
        restored = all(o['std_restored'])
        aborted = o['aborted'] is not None
    return ('{| cbuffer := %s; ctests := %s; redirects := %s; writes := %s; err_toks := %s; o_out := %s; o_err := %s; o_ident := %s; '
            'o_restored := %s; o_aborted := %s |}' % (
                g_bool('--buffer' in c['options']), tl, g_nats([i for i, T in enumerate(c['tests']) if T.get('redirect_sub')]),
                g_list(writes), g_nats(errt),
                g_list(['(%d, %d)' % e for e in out]), g_nats(err), g_bool(ident), g_bool(restored), g_bool(aborted)))


def sample_view(c, o):
    return {'case': c, 'observation': {'stdout_sequence': scan(o.get('stdout', '')), 'stderr_sequence': scan(o.get('stderr', '')),
                                       'std_restored': o.get('std_restored'), 'aborted': o.get('aborted')}}


def classify(case, obs, code, findings):
    hits = []
    for f in findings:
        if f['id'] == 'C13-late-skip-writes' and code & 8:
            hits.append(f['line'])
        if f['id'] == 'C13-output-lost-after-skip' and code & 16:
            hits.append(f['line'])
    # the statement fails only through open findings when at least one classifier bit is set
    return '; '.join(hits) if hits and (code & 24) else None


def shrink_candidates(c):
    ts = c['tests']
    for i in range(len(ts)):
        if len(ts) > 1:
            yield dict(c, tests=ts[:i] + ts[i + 1:])
    for i, T in enumerate(ts):
        for ph in list(T.get('writes', {})):
            w2 = {k: v for k, v in T['writes'].items() if k != ph}
            yield dict(c, tests=ts[:i] + [dict(T, writes=w2)] + ts[i + 1:])
        for key in ('subs', 'cleanups', 'setUp', 'tearDown', 'body', 'xf', 'redirect_sub'):
            if key in T and not (key == 'subs' and T.get('redirect_sub')):
                yield dict(c, tests=ts[:i] + [{k: v for k, v in T.items() if k != key}] + ts[i + 1:])


TECHNIQUE = ('Coq model of the capture-stream state machine of zope TestResult (Buffer.v) with theorems (BufferFacts.v, P_C13.v) + '
             'correspondence check: token/header order in the real stdout and stderr of in-process runs vs the model, statement evaluated in Coq')
LEVEL_TEXT = ('Unbounded theorems: streams are the originals at every test boundary and after the run for every history of closed tests '
              '(and every test of the unittest protocol model is closed), with and without --buffer; unbuffered runs never install capture '
              'streams; a passing/xf/skipping test is silent; a test whose first event is a failure/error has all output shown under its '
              'header. The model is compared with the real runner (order of tokens and failure headers in stdout/stderr, stream identity '
              'inside layer hooks and after the run) on exhaustive short sequences and random tests.')
LEVEL_NOTE = ('Two open findings are classified by the model itself: output written after a skip event goes to the real stream; output '
              'captured before a skip event is lost when the same test fails later.')


# ---------------------------------------------------------------------------------------------------------------
# layers run in subprocesses (-j 2, or resumed after a layer that cannot be torn down) with --buffer: the child
# re-binds sys.stderr to its stdout by design, so the model's stream split does not apply; the STATEMENT does
# (a failing test's tokens — written to either stream — appear once, under its header, in what the parent prints;
# the tokens of non-failing tests never appear).  Only the statement is evaluated (check_child: no correspondence bit).
class ChildBatch:
    CHK = CHK
    IMPORTS = IMPORTS
    SHARD = SHARD
    CHECK_FN = 'check_child'
    LABEL = 'children'
    RULE = ('children batch: two or three layers whose tests write unique tokens to stdout/stderr in every phase, run with --buffer '
            'and -j2 / -j3 or resumed in a subprocess after a layer whose tearDown raises NotImplementedError; statement evaluated on '
            'what the parent process prints')
    EXHAUSTIVE = {}

    def generate(self, rng, tier, rep):
        n = {'quick': 16, 'thorough': 200, 'search': 30}[tier]
        cases = []
        for _ in range(n):
            nl = rng.choice([2, 2, 3])
            resumed = rng.random() < 0.4
            layers = []
            for i in range(nl):
                hooks = {'setUp': ['ok'], 'tearDown': ['notimpl'] if (resumed and i == 0) else ['ok']}
                layers.append({'name': ['La', 'Lb', 'Lc'][i], 'bases': [], 'kind': 'instance', 'hooks': hooks})
            tests = []
            for i in range(nl):
                for _ in range(rng.randint(1, 3)):
                    T = dict(rng.choice(KINDS[:3] + KINDS[8:12] + [{}, {'body': 'fail'}]))
                    T['layer'] = i
                    tests.append(T)
            tests = add_writes(rng, tests, buffered=False)
            opts = ['--buffer'] + ([] if resumed else [rng.choice(['-j2', '-j3'])]) + rng.choice([[], ['-v'], ['-vv']])
            cases.append({'layers': layers, 'tests': tests, 'options': opts})
            rep.count('children_mode=%s' % ('resumed' if resumed else 'parallel'))
        return cases

    def observe(self, cases):
        return worldrun.run_worlds(cases)

    def nontrivial(self, c):
        return nontrivial(c)

    def to_coq(self, c, o):
        # every token is expected on the parent's stdout (the child merges its stderr into stdout); o_ident is not
        # meaningful in a child (stderr is re-bound there by design)
        s = to_coq(c, o)
        s = re.sub(r'err_toks := \[[^\]]*\]', 'err_toks := []', s)
        s = re.sub(r'o_ident := (true|false)', 'o_ident := true', s)
        return s

    def sample_view(self, c, o):
        return sample_view(c, o)

    def classify(self, case, obs, code, findings):
        return classify(case, obs, code, findings)

    def shrink_candidates(self, c):
        return shrink_candidates(c)


EXTRA_BATCHES = [ChildBatch()]


# ---------------------------------------------------------------------------------------------------------------
# several tests whose captured output is identical: the output of a failing test is shown for that test, however
# many other tests wrote exactly the same text
class SameTextBatch:
    CHK = CHK
    IMPORTS = IMPORTS
    SHARD = SHARD
    CHECK_FN = 'check_same'
    CASE_TYPE = 'same_case'
    LABEL = 'same-text'
    RULE = ('same-text batch: 2..6 tests that all write the same line to stdout and the same line to stderr in setUp, some of them '
            'failing or erroring, with --buffer: the number of times each line is shown equals the number of failing tests')
    EXHAUSTIVE = {}
    OUT, ERR = 'IDENTICAL-STDOUT-LINE', 'IDENTICAL-STDERR-LINE'

    def generate(self, rng, tier, rep):
        cases = []
        for _ in range({'quick': 10, 'thorough': 100, 'search': 10}[tier]):
            tests = []
            for _ in range(rng.randint(2, 6)):
                T = dict(rng.choice([{}, {}, {'body': 'fail'}, {'body': 'error'}, {'tearDown': 'error'}]), layer=0)
                T['writes'] = {'setUp': [['stdout', self.OUT + '\n'], ['stderr', self.ERR + '\n']]}
                tests.append(T)
            cases.append({'layers': LAYER, 'tests': tests, 'options': ['--buffer'] + rng.choice([[], ['-v']])})
        return cases

    def observe(self, cases):
        return worldrun.run_worlds(cases)

    def nontrivial(self, c):
        return sum(1 for T in c['tests'] if len(T) > 2) >= 2

    def to_coq(self, c, o):
        failing = sum(1 for T in c['tests'] if T.get('body') in ('fail', 'error') or T.get('tearDown') == 'error')
        if o.get('driver_failed'):
            return '{| sc_failing := %d; sc_out := 0; sc_err := 0; sc_aborted := true |}' % failing
        return '{| sc_failing := %d; sc_out := %d; sc_err := %d; sc_aborted := %s |}' % (
            failing, o['stdout'].count(self.OUT), o['stderr'].count(self.ERR), g_bool(o['aborted'] is not None))

    def sample_view(self, c, o):
        return {'case': c, 'observation': {'stdout_count': o.get('stdout', '').count(self.OUT), 'stderr_count': o.get('stderr', '').count(self.ERR)}}

    def classify(self, case, obs, code, findings):
        return None

    def shrink_candidates(self, c):
        ts = c['tests']
        for i in range(len(ts)):
            if len(ts) > 1:
                yield dict(c, tests=ts[:i] + ts[i + 1:])


EXTRA_BATCHES = [ChildBatch(), SameTextBatch()]
