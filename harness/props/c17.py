"""C17 — XML reports are well-formed and agree with the run."""
import glob
import os
import re
from xml.etree import ElementTree
from xml.parsers import expat

import fw
import worldcase
import worldrun
from fw import g_bool, g_list, g_opt, g_str

PID = 'C17'
CHK = 'Chk_C17'
IMPORTS = ('Layers', 'Run', 'Xml')
SHARD = 25
RULE = ('runs with --xml (in-process, plus some with two or three layers run in subprocesses through -j N or resumption) of 1..6 unittest cases in 1..2 classes whose class names, method names and exception messages '
        'are drawn from: ASCII, XML specials <&>" and apostrophes, ]]>, C0 controls, NUL, DEL/C1, lone surrogates, U+FFFE/U+FFFF, '
        'astral characters, CR/LF/CRLF, tabs, very long and multi-line strings; outcomes: pass, failure, error, failing/erroring '
        'subtests, unexpected success, expected failure, skip, several events per test; every report file is parsed with expat; '
        'non-trivial = at least one failure or error with a message containing a character outside printable ASCII')
TRUSTED_BASE = ["xml.etree.ElementTree's serialiser is modelled (Xml.ser_text / ser_attr) and expat is the referee for well-formedness",
                'the unittest protocol model (Run.proto) decides which result events a scripted test produces']
ASSUMPTIONS = ['class names are usable as file names (no "/" or NUL, no lone surrogates): the report file is named after the suite',
               'unittest cases and doctest.DocTestCase cases (module and function docstrings, top-level and packaged modules); the wording of doctest failures is not compared; doc-file and manuel cases are not generated',
               'time, hostname and timestamp attributes and the traceback part of the text are not compared']

ALPH = ['plain', 'a<b&c>d"e\'f', ']]>', '\x01\x02', '\x00', '\x7f\x85', '\ud800', 'z\udfff', '￾￿', '\U0001f600', 'l1\nl2',
        'cr\rlf', 'crlf\r\nend', '\ttab', 'é ü 中', '', 'x' * 300, '&amp; &#1; &lt;']
CLS = ['CPlain', 'C<w&"q\'>', 'Cé中', 'C x.y']
# class names that differ only in characters XML cannot carry: two suites, two report files
TWINS = ['Csep\x1e', 'Csep\x1f']
MSUF = ['', '', '', '_<&>"', '_é', '_\x01', '_a b', "_'q"]
PH = {'setUp': (0, 0), 'body': (1, 0), 'tearDown': (3, 0)}


def rand_msg(rng):
    return ''.join(rng.choice(ALPH) for _ in range(rng.randint(1, 3)))


def generate(rng, tier, rep):
    n = {'quick': 150, 'thorough': 2500, 'search': 400}[tier]
    cases = []
    # every alphabet element once as a failure message, as an error message and in a method name
    if tier != 'search':
        for a in ALPH:
            cases.append({'layers': [], 'options': ['--xml', 'xmlout'],
                          'tests': [{'layer': None, 'cls': 'CPlain', 'body': ['fail', a]},
                                    {'layer': None, 'cls': 'CPlain', 'body': ['error', a]},
                                    {'layer': None, 'cls': 'CPlain', 'subs': [['fail', a]]},
                                    {'layer': None, 'cls': 'CPlain'}]})
    for _ in range(n):
        tests = []
        classes = rng.sample(CLS, rng.randint(1, 2)) if rng.random() < 0.85 else list(TWINS)
        for _ in range(rng.randint(1, 6)):
            T = {'layer': None, 'cls': rng.choice(classes), 'msuffix': rng.choice(MSUF)}
            r = rng.random()
            if r < 0.2:
                pass
            elif r < 0.4:
                T['body'] = [rng.choice(['fail', 'error']), rand_msg(rng)]
            elif r < 0.55:
                T['subs'] = [rng.choice(['ok', ['fail', rand_msg(rng)], ['error', rand_msg(rng)], 'skip']) for _ in range(rng.randint(1, 3))]
            elif r < 0.65:
                T['xf'] = True
                if rng.random() < 0.5:
                    T['body'] = ['fail', rand_msg(rng)]
            elif r < 0.75:
                T['body'] = ['fail', rand_msg(rng)]
                T['tearDown'] = ['error', rand_msg(rng)]
            elif r < 0.85:
                T['setUp'] = [rng.choice(['fail', 'error']), rand_msg(rng)]
            elif r < 0.88:
                T['body'] = rng.choice(['error_odd:badstr', 'error_odd:badrepr'])     # an exception that cannot render itself
            elif r < 0.92:
                T['body'] = 'skip'
            else:
                T['deco_skip'] = True
            tests.append(T)
        opts = ['--xml', 'xmlout'] + (['--repeat', '2'] if rng.random() < 0.1 else [])
        c = {'layers': [], 'tests': tests, 'options': opts}
        if rng.random() < 0.3:
            # doctest cases beside the unittest cases: in a top-level module (its module docstring test has a name without a dot)
            # and/or in a module inside a package; passing and failing examples
            dt = {}
            for where in rng.sample(['top', 'pkg'], rng.randint(1, 2)):
                dt[where] = {'moddoc': rng.choice([None, True, True, False]), 'funcs': [rng.random() < 0.6 for _ in range(rng.randint(0, 3))]}
            c['doctests'] = dt
            rep.count('with doctests')
        if rng.random() < 0.2:
            # a test that changes the working directory and stays there: --xml names a relative directory, the reports
            # belong where that name pointed when the run was started
            rng.choice(tests)['meddle'] = ['chdir_sub']
            rep.count('with a test that changes the working directory')
        cases.append(c)
    # layers run in subprocesses (-j N, or resumed after a layer that cannot be torn down): every process writes its
    # own report files into the same folder; nothing written by one process may be lost or overwritten by another
    for k in range({'quick': 12, 'thorough': 150, 'search': 20}[tier]):
        nl = rng.choice([2, 3])
        resumed = k % 2 == 0
        layers = [{'name': ['La', 'Lb', 'Lc'][i], 'bases': [], 'kind': 'instance',
                   'hooks': {'setUp': ['ok'], 'tearDown': ['notimpl'] if resumed else ['ok']}} for i in range(nl)]
        tests = []
        for i in range(nl):
            for _ in range(rng.randint(1, 3)):
                T = {'layer': i, 'cls': 'CL%d' % i}
                r = rng.random()
                if r < 0.3:
                    T['body'] = [rng.choice(['fail', 'error']), rand_msg(rng)]
                elif r < 0.4:
                    T['subs'] = [['fail', rand_msg(rng)], 'ok']
                tests.append(T)
        if k % 3 == 1:
            rng.choice(tests)['meddle'] = ['chdir_sub']
            rep.count('with a test that changes the working directory')
        # (at every verbosity: what a process says about its reports must not keep it from writing them)
        cases.append({'layers': layers, 'tests': tests,
                      'options': ['--xml', 'xmlout'] + ([] if resumed else [rng.choice(['-j2', '-j3'])]) + [[], ['-v'], ['-vv']][k % 3]})
        rep.count('subprocess_layers=%s' % ('resumed' if resumed else 'parallel'))
    for c in cases:
        rep.count('tests=%d' % len(c['tests']))
        chars = ''.join(str(T.get(k)) for T in c['tests'] for k in ('body', 'setUp', 'tearDown', 'subs'))
        for name, rx in (('control', r'[\x00-\x08\x0b\x0c\x0e-\x1f]'), ('surrogate', r'[\ud800-\udfff]'), ('specials', r'[<&>"]'),
                         ('nonchar', r'[￾￿]'), ('astral', r'[\U00010000-\U0010ffff]'), ('cr', r'\r')):
            if re.search(rx, chars):
                rep.count('has:' + name)
    return cases


def parse_reports(d):
    """-> (all files well-formed, [suite dicts])"""
    ok = True
    suites = []
    rd = os.path.join(d, 'xmlout', 'testreports')
    # (a suite with an empty name is written to '.xml', which a glob for *.xml would not list)
    for f in sorted(os.path.join(rd, x) for x in (os.listdir(rd) if os.path.isdir(rd) else []) if x.endswith('.xml')):
        data = open(f, 'rb').read()
        p = expat.ParserCreate()
        try:
            p.Parse(data, True)
        except expat.ExpatError:
            ok = False
            continue
        root = ElementTree.fromstring(data)
        cases = []
        for tc in root.findall('testcase'):
            child = None
            for ch in tc:
                if ch.tag in ('failure', 'error'):
                    child = [0 if ch.tag == 'failure' else 1, ch.get('message'), ch.text or '']
                    if 'Failed doctest test for' in (ch.text or ''):
                        # the wording of a doctest failure is doctest's own: neither message nor text is compared
                        child = [child[0], '', '\n\n']
            cases.append([tc.get('classname'), tc.get('name'), child])
        suites.append({'name': root.get('name'), 'tests': int(root.get('tests')), 'errors': int(root.get('errors')),
                       'failures': int(root.get('failures')), 'cases': cases})
    return ok, suites


def observe(cases):
    def one(iw):
        i, w = iw
        o = worldrun.run_world(w, idx=i, keep=True)
        if 'dir' in o:
            o['xml_ok'], o['suites'] = parse_reports(o['dir'])
            import shutil
            shutil.rmtree(o['dir'], ignore_errors=True)
        else:
            o['xml_ok'], o['suites'] = False, []
        return o
    return fw.parallel_map(one, list(enumerate(cases)))


def nontrivial(c):
    s = ''.join(str(T.get(k)) for T in c['tests'] for k in ('body', 'setUp', 'tearDown', 'subs'))
    return bool(re.search(r'fail|error', s)) and bool(re.search(r'[^\x20-\x7e]', s))


def outcome(x):
    return x[0] if isinstance(x, list) else x


def msg_of(x, default):
    return x[1] if isinstance(x, list) else default


def to_coq(c, o):
    mod = o.get('mod', 'x')
    infos = []
    for i, T in enumerate(c['tests']):
        T2 = dict(T)
        msgs = []
        for ph, code in PH.items():
            if ph in T:
                out = outcome(T[ph])
                T2[ph] = out
                dflt = ('scripted failure \x01<&>' if out == 'fail' else "'scripted error'" if out == 'error'
                        else '<exception str() failed>' if out in ('error_odd:badstr', 'error_odd:badrepr') else '')
                msgs.append((code[0], code[1], msg_of(T[ph], dflt)))
        if 'subs' in T:
            T2['subs'] = [outcome(x) for x in T['subs']]
            for k, x in enumerate(T['subs']):
                out = outcome(x)
                dflt = 'scripted failure \x01<&>' if out == 'fail' else "'scripted error'" if out == 'error' else ''
                msgs.append((2, k, msg_of(x, dflt)))
        w1 = {'layers': [], 'tests': [T2]}
        tl = worldcase.g_world(w1, mod)
        tlit = tl[tl.index('tests := [') + len('tests := ['):-4]
        infos.append('{| ti_b := %s; ti_class := %s; ti_name := %s; ti_msgs := %s; ti_doc := None |}' % (
            tlit, g_str('%s.%s' % (mod, T.get('cls') or 'CUnit')), g_str('test_%04d%s' % (i, T.get('msuffix', ''))),
            g_list(['(%d%%nat, %d%%nat, %s)' % (p, k, g_str(m)) for p, k, m in msgs])))
    for where, spec in sorted((c.get('doctests') or {}).items(), key=lambda kv: kv[0] != 'pkg'):
        # discovery order: the package directory sorts before... (suites are compared as a set; cases per suite in order)
        base = ('%s_d' % mod) if where == 'top' else '%s_pk.%s_dd' % (mod, mod)
        names = ([(base, spec['moddoc'])] if spec.get('moddoc') is not None else []) + [('%s.f%d' % (base, k), ok) for k, ok in enumerate(spec.get('funcs', []))]
        for nm, ok in names:
            tl = worldcase.g_world({'layers': [], 'tests': [{'layer': None} if ok else {'layer': None, 'body': 'fail'}]}, mod)
            tlit = tl[tl.index('tests := [') + len('tests := ['):-4]
            infos.append('{| ti_b := %s; ti_class := []; ti_name := []; ti_msgs := []; ti_doc := Some %s |}' % (tlit, g_str(nm)))
    reps = worldcase.parse_opts(c)['repeat'] or 1
    infos = infos * reps
    suites = []
    for s in o.get('suites', []):
        cs = []
        for cn, nm, ch in s['cases']:
            cs.append('(%s, %s, %s)' % (g_str(cn), g_str(nm),
                                        g_opt(None if ch is None else '(%d%%nat, %s, %s)' % (ch[0], g_str(ch[1] or ''), g_str(ch[2][:3000])))))
        suites.append('{| p_name := %s; p_tests := %d; p_errors := %d; p_failures := %d; p_cases := %s |}' % (
            g_str(s['name']), s['tests'], s['errors'], s['failures'], g_list(cs)))
    return '{| infos := %s; files_wf := %s; parsed := %s; aborted := %s |}' % (
        g_list(infos), g_bool(o.get('xml_ok', False)), g_list(suites), g_bool(o.get('aborted') is not None or bool(o.get('driver_failed'))))


def sample_view(c, o):
    return {'case': c, 'observation': {'xml_wellformed': o.get('xml_ok'), 'suites': o.get('suites'), 'aborted': o.get('aborted')}}


def shrink_candidates(c):
    ts = c['tests']
    for i in range(len(ts)):
        if len(ts) > 1:
            yield dict(c, tests=ts[:i] + ts[i + 1:])
    for i, T in enumerate(ts):
        for key in ('subs', 'setUp', 'tearDown', 'body', 'xf', 'msuffix'):
            if key in T:
                yield dict(c, tests=ts[:i] + [{k: v for k, v in T.items() if k != key}] + ts[i + 1:])
        for key in ('body', 'setUp', 'tearDown'):
            if isinstance(T.get(key), list) and len(T[key][1]) > 1:
                m = T[key][1]
                for cut in (m[:len(m) // 2], m[len(m) // 2:], m[1:], m[:-1]):
                    yield dict(c, tests=ts[:i] + [dict(T, **{key: [T[key][0], cut]})] + ts[i + 1:])


TECHNIQUE = ("Coq proofs over a model of the report builder and of ElementTree's escaping (Xml.v, XmlFacts.v, P_C17.v) + correspondence "
             'check: real report files parsed by expat and compared element by element with the model')
LEVEL_TEXT = ('Theorems for ALL code-point strings: sanitised + serialised text and attribute values are well-formed and read back '
              'unchanged (and the unsanitised writer is refuted); counters = element counts; every recorded event becomes exactly one '
              'testcase of its own class/name in its own suite. The model is compared with the real report files of in-process runs '
              '(expat as referee) over the whole character-class alphabet, every outcome kind, subtests and unexpected successes.')
LEVEL_NOTE = ('The decimal rendering of character references is executable in the model and exercised by the comparison, but '
              'well-formedness is stated on tokens (raw char / entity / reference). Doc-file and manuel cases are not generated.')
