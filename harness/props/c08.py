"""C08 — filter patterns: correspondence of Filter.accept with build_filtering_func."""
import itertools

import fw
from fw import g_bools, g_list, g_str

PID = 'C08'
CHK = 'Chk_C08'
RULE = ('pattern lists over an alphabet of literals/anchors/alternations/empty/"."/negated/"!", groups with back-references, named groups and leading inline flags (length 0..5, '
        'exhaustive up to length 2 (quick) or 3 (thorough)), a shuffled copy with duplicates, one extra positive and '
        'one extra negated pattern, names incl. "" and "\\n"; non-trivial = at least two patterns or a negated one, '
        'and at least one name accepted and one rejected')
EXHAUSTIVE = {'quick': 'all pattern lists of length <= 2 over 10 patterns x 8 names',
              'thorough': 'all pattern lists of length <= 3 over 10 patterns x 8 names'}
TRUSTED_BASE = ["Python's re module is an oracle: re.compile(p).search(v) answers are shipped with each case"]
ASSUMPTIONS = ['patterns are valid regular expressions (an invalid one makes build_filtering_func raise re.error)']

ALPHA = ['a', '^a', 'b$', 'a|b', '', '.', '!a', '!b$', '!', '!.']
NAMES = ['', 'a', 'b', 'ab', 'ba', 'c', '\n', 'xay.b']
EXTRA = ['c', 'x.y', '!c', '!^x', 'a.b', '[ab]c', '!(a|c)$', 'A', '!!', '!\\.', 'test_', '!test_x']
# each pattern is a regular expression of its own: groups, back-references, named groups, a leading inline flag and an
# unbalanced-looking alternation must mean in a list what they mean alone
GROUPS = ['(a)\\1', '(a|b)\\1', '(?P<x>b)(?P=x)', '([ab])c\\1', '!(a)\\1', '!(x)y\\1', '(?i)A', '(?i)ab', '!(?i)B', 'a|', '|b', '(a)|(b)\\2']


def generate(rng, tier, rep):
    cases = []
    maxlen = {'quick': 2, 'thorough': 3, 'search': 2}[tier]
    if tier != 'search':
        for n in range(maxlen + 1):
            for ps in itertools.product(ALPHA, repeat=n):
                cases.append(mk(list(ps), rng, NAMES))
    nrand = {'quick': 400, 'thorough': 4000, 'search': 1500}[tier]
    for _ in range(nrand):
        n = rng.choice([0, 1, 2, 3, 4, 5])
        ps = [rng.choice(ALPHA + EXTRA + (GROUPS if rng.random() < 0.35 else [])) for _ in range(n)]
        names = rng.sample(NAMES, 4) + [''.join(rng.choice('abcxy._\n') for _ in range(rng.randint(0, 6))) for _ in range(4)] + rng.sample(['aa', 'bb', 'aca', 'bcb', 'xyx', 'AB', 'Bb'], 2)
        cases.append(mk(ps, rng, names))
    for c in cases:
        rep.count('len=%d' % len(c['pats']))
        rep.count('negated=%d' % sum(p.startswith('!') for p in c['pats']))
    return cases


def mk(ps, rng, names):
    perm = list(ps) + ([rng.choice(ps)] if ps and rng.random() < 0.5 else [])
    rng.shuffle(perm)
    return {'pats': ps, 'perm': perm, 'xpos': rng.choice(['a', 'c', '', '.', 'b$', 'x']),
            'xneg': rng.choice(['!a', '!c', '!', '!.', '!^a']), 'names': list(names)}


def observe(cases):
    chunks = [cases[i:i + 2000] for i in range(0, len(cases), 2000)]
    out = []
    for r in fw.parallel_map(lambda ch: fw.run_py('impl_c08.py', ch), chunks):
        out.extend(r)
    return out


def nontrivial(c):
    return len(c['pats']) >= 2 or any(p.startswith('!') for p in c['pats'])


def to_coq(c, o):
    tab = g_list(['(%s, %s, %s)' % (g_str(p), g_str(n), 'true' if b else 'false') for p, n, b in o['tab']])
    return ('{| pats := %s; perm := %s; xpos := %s; xneg := %s; names := %s; tab := %s; '
            'r_pats := %s; r_perm := %s; r_pos := %s; r_neg := %s |}' % (
                g_list([g_str(p) for p in c['pats']]), g_list([g_str(p) for p in c['perm']]),
                g_str(c['xpos']), g_str(c['xneg']), g_list([g_str(n) for n in c['names']]), tab,
                g_bools(o['pats']), g_bools(o['perm']), g_bools(o['pos']), g_bools(o['neg'])))


def shrink_candidates(c):
    for i in range(len(c['pats'])):
        d = dict(c)
        d['pats'] = c['pats'][:i] + c['pats'][i + 1:]
        d['perm'] = list(d['pats'])
        yield d
    for i in range(len(c['names'])):
        if len(c['names']) > 1:
            d = dict(c)
            d['names'] = c['names'][:i] + c['names'][i + 1:]
            yield d
    if c['perm'] != c['pats']:
        d = dict(c)
        d['perm'] = list(c['pats'])
        yield d


def neighbours(c, rng):
    out = []
    for _ in range(30):
        d = dict(c)
        ps = list(c['pats'])
        op = rng.choice(['add', 'del', 'neg'])
        if op == 'add' or not ps:
            ps.insert(rng.randint(0, len(ps)), rng.choice(ALPHA + EXTRA))
        elif op == 'del':
            ps.pop(rng.randrange(len(ps)))
        else:
            i = rng.randrange(len(ps))
            ps[i] = ps[i][1:] if ps[i].startswith('!') else '!' + ps[i]
        out.append(mk(ps, rng, c['names']))
    return out

TECHNIQUE = ('Coq proof (Filter.v, FilterFacts.v, P_C08.v) + correspondence check of build_filtering_func against the '
             'Gallina model evaluated by vm_compute')
LEVEL_TEXT = ('Theorems over ALL pattern lists, names and regex oracles: accept <-> statement (under "." matches the name), '
              'set-extensionality (order/duplicates), both monotonicity laws, plus the two documented corner refutations; '
              'the model is tied to the live build_filtering_func on every run (exhaustive small lists + random), and the '
              "property predicate c08_ok is evaluated in Coq on the implementation's own answers.")
LEVEL_NOTE = ('Trusted: Coq kernel + vm_compute; Python re as oracle (answers shipped per case); harness generators and '
              'literal printer. End-to-end use of the predicate by -t/-m/--layer is exercised by the world checks (C03).')


# ---------------------------------------------------------------------------------------------------------------
# the use sites: the same pattern semantics must hold where the runner consults the predicate — for --module in
# find_suites (on the full dotted module name, package prefix of a --package-path mount included) and for --test in
# tests_from_suite (on str(test)).  Same case type and checker as the main batch; only the way the answers are obtained differs.
class UseSites:
    CHK = CHK
    LABEL = 'use-sites'
    RULE = ('use-site batch: non-empty pattern lists (incl. patterns that mention the package prefix) given as -m options and answered '
            'by find_suites with a mounted package, and as -t options answered by tests_from_suite')
    EXHAUSTIVE = {}
    SEGS = ['a', 'b', 'ab', 'ba', 'c', 'xay.b', 'tests', 'sub.tests']

    def generate(self, rng, tier, rep):
        n = {'quick': 150, 'thorough': 1500, 'search': 200}[tier]
        alpha = [p for p in ALPHA + EXTRA if p not in ('',)] + ['^pk', 'pk\\.a', '!^pk\\.b', '^a', '!^sub', 'pk.sub']
        cases = []
        for _ in range(n):
            ps = [rng.choice(alpha) for _ in range(rng.randint(1, 4))]
            names = ['pk.' + s for s in rng.sample(self.SEGS, 5)]
            c = mk(ps, rng, names)
            c['perm'] = c['perm'] or list(ps)
            c['positional'] = rng.random() < 0.3      # the last pattern given as the deprecated positional filter
            cases.append(c)
            rep.count('use_site_len=%d' % len(ps))
        return cases

    def observe(self, cases):
        chunks = [cases[i:i + 200] for i in range(0, len(cases), 200)]
        out = []
        for r in fw.parallel_map(lambda ch: fw.run_py('impl_c08_use.py', ch), chunks):
            out.extend(r)
        return out

    def to_coq(self, c, o):
        return to_coq(c, o)

    def nontrivial(self, c):
        return nontrivial(c)

    def shrink_candidates(self, c):
        for d in shrink_candidates(c):
            if d['pats'] and d['perm']:
                yield d


EXTRA_BATCHES = [UseSites()]
