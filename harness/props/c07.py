"""C07 — subprocess result channel."""
import json
import os
import re

import fw
import worldrun
from fw import g_Z, g_bool, g_bytes, g_list, g_opt

PID = 'C07'
CHK = 'Chk_C07'
IMPORTS = ('Channel',)
SHARD = 30
RULE = ('one layer run in a subprocess (-j2): (a) scripted children writing a report of 0..40 (thorough: ..3000) names (ASCII, unicode, '
        'long, internal blanks) with stdout/stderr noise before and after (text, binary, \\r / \\r\\n line ends, header look-alikes with '
        'signs, underscores, wrong field counts), ending by exit 0/3, SIGKILL or SIGSEGV, with EVERY truncation offset of small reports and '
        'sampled offsets of large ones, multi-megabyte output on both pipes, and a stderr pipe kept open by a grandchild for 12 s (31 s) after the child exited; (b) real children killed at import, in layer setUp, in a '
        'test body, in layer tearDown (their real stderr is teed and fed to the model); (c) spawn failure; '
        'non-trivial = a report with at least one name, or a fault')
TRUSTED_BASE = ['pipes, signals, Popen and thread joins are the OS / stdlib; "no hang" is observed against a 120 s limit, not proved',
                'the parent decodes names as UTF-8: names are compared as bytes after re-encoding']
ASSUMPTIONS = ['cuts that fall inside a multi-byte character of the last name are skipped (the decoded name is not representable as bytes)']
NAMES = ['t.a', 'test_x (m.C.test_x)', 'tëst ünïcode 中', 'with  two  blanks', 'x' * 300, 'a', '1 2 3', '12 0 0 not header', '=', 'q\tq']
NOISE = [b'warning: something\n', b'Traceback (most recent call last):\n', b'1 2\n', b'1 2 3 4\n', b'1.0 2 3\n', b'0x1 2 3\n', b'\xff\xfe binary \x00\n',
         b'cr line\rmore\r\n', b'no newline at end', b'\n\n', b' \t \n', b'1_0 2 x\n']
LOOKALIKE = [b'7 0 0\n', b'+1 0_0 -0\n', b' 3 1 0 \n', b'5 0 0\r']


def report_bytes(ran, fails, errs):
    out = ('%d %d %d\n' % (ran, len(fails), len(errs))).encode()
    for n in fails + errs:
        out += n.encode('utf-8') + b'\n'
    return out


def char_boundary(b, n):
    try:
        b[:n].decode('utf-8')
        return True
    except UnicodeDecodeError:
        return False


def fake_case(rng, tier):
    nn = rng.choice([0, 0, 1, 2, 3, 5, 40] if tier != 'thorough' else [0, 0, 1, 2, 3, 5, 40, 40, 40, 200, 3000])
    # thousands of names are drawn from the short spellings only (the case literal evaluated by coqc stays small)
    pool = NAMES if nn < 1000 else ['t.a', 'a', '=', 'q\tq', 't\u00ebst']
    fails = [rng.choice(pool) for _ in range(rng.randint(0, nn))]
    errs = [rng.choice(pool) for _ in range(nn - len(fails))]
    ran = rng.choice([0, 1, len(fails) + len(errs) + 5, 12345])
    rep = report_bytes(ran, fails, errs)
    before = b''.join(rng.choice(NOISE) for _ in range(rng.choice([0, 0, 1, 3])))
    if before and not before.endswith((b'\n', b'\r')):
        before += b'\n'
    after = b''.join(rng.choice(NOISE) for _ in range(rng.choice([0, 0, 1, 2])))
    c = {'kind': 'fake', 'ran': ran, 'fails': fails, 'errs': errs, 'stdout': rng.choice(['', 'Running x tests:\n  Ran 1 tests\n', '...\n']),
         'end': rng.choice(['exit0', 'exit0', 'exit3', 'kill', 'segv']), 'intact': True, 'before': before.hex(), 'after': after.hex(), 'cut': None,
         'verbose': rng.choice(['', '', '-v', '-vv'])}
    r = rng.random()
    if r < 0.12:
        c['before'] = (before + rng.choice(LOOKALIKE)).hex()
        c['intact'] = False
    elif r < 0.22 and rng.random() < 0.5:
        c['big'] = True            # megabytes on both pipes
    return c, rep


def generate(rng, tier, rep):
    cases = []
    n = {'quick': 140, 'thorough': 1500, 'search': 300}[tier]
    for _ in range(n):
        c, _ = fake_case(rng, tier)
        cases.append(c)
    # every truncation offset of a few small reports
    for k in range({'quick': 3, 'thorough': 12, 'search': 2}[tier]):
        c, repb = fake_case(rng, 'quick')
        if len(repb) > 120 or c.get('big'):
            c, repb = dict(c, fails=c['fails'][:1], errs=c['errs'][:1], big=False), None
            c['fails'] = [f if len(f) < 30 else 't.long' for f in c['fails']]
            c['errs'] = [f if len(f) < 30 else 't.long' for f in c['errs']]
            repb = report_bytes(c['ran'], c['fails'], c['errs'])
        c['intact'] = True
        c['before'] = c['before'] if not any(x in bytes.fromhex(c['before']) for x in LOOKALIKE) else ''
        last_name_start = len(repb) - (len((c['fails'] + c['errs'])[-1].encode()) + 1) if (c['fails'] or c['errs']) else len(repb)
        for cut in range(len(repb)):
            if cut > last_name_start and not char_boundary(repb, cut):
                continue
            cases.append(dict(c, cut=cut, after='', intact=False))
    # a child that dies without any report after writing undecodable bytes to stderr, with the parent showing the child's stderr (-v / -vv)
    for k, end in enumerate(['exit0', 'exit3', 'kill', 'segv'][:{'quick': 4, 'thorough': 4, 'search': 1}[tier]]):
        c, _ = fake_case(rng, 'quick')
        c.update({'fails': [], 'errs': [], 'ran': 2, 'before': (b'\xff\xfe binary \x00\n' * (1 + k) + b'caf\xe9 latin-1\n').hex(), 'after': '', 'intact': False,
                  'cut': 0, 'big': False, 'end': end, 'verbose': ['-v', '-vv'][k % 2]})
        cases.append(c)
    # the same with a parent whose stdout can only encode ASCII and a child whose (valid UTF-8) stderr is not ASCII: whatever
    # happens while the parent shows the child's stderr, the error for the layer must have been recorded
    for k, end in enumerate(['exit0', 'exit3', 'kill', 'segv'][:{'quick': 4, 'thorough': 4, 'search': 1}[tier]]):
        c, _ = fake_case(rng, 'quick')
        c.update({'fails': [], 'errs': [], 'ran': 2, 'before': ('caf\u00e9 \u4e2d\u6587 \u2603\n' * (1 + k)).encode('utf-8').hex(), 'after': '', 'intact': False,
                  'cut': 0, 'big': False, 'end': end, 'verbose': ['-v', '-vv'][k % 2], 'stdout_encoding': 'ascii'})
        cases.append(c)
    # a complete report whose stderr pipe stays open (held by a grandchild) long after the child has exited
    for hold in {'quick': [12], 'thorough': [12, 31], 'search': []}[tier]:
        c, _ = fake_case(rng, 'quick')
        c.update({'fails': ['t.late_eof'], 'errs': [], 'ran': 3, 'before': '', 'after': '', 'intact': True, 'cut': None, 'big': False,
                  'end': 'exit0', 'hold_stderr': hold})
        cases.append(c)
    # multi-byte names that straddle the offsets at which a reader working in blocks would cut the child's stderr: ASCII noise pads
    # the stream so that a power-of-two offset falls inside a character of a name in the middle of the report
    for B in {'quick': [1024, 4096, 8192, 65536, 131072, 1048576], 'thorough': [2 ** k for k in range(9, 23)], 'search': [8192, 65536]}[tier]:
        c, _ = fake_case(rng, 'quick')
        names = ['\u6d4b\u8bd5\u7528\u4f8b' * rng.randint(2, 5) + ' (\u6a21\u5757.\u7c7b.t%d)' % i for i in range(12)]
        c.update({'fails': names[:6], 'errs': names[6:], 'ran': 20, 'before': '', 'after': '', 'intact': True, 'cut': None, 'big': False,
                  'end': 'exit0', 'stdout': '', 'verbose': ''})
        repb = report_bytes(c['ran'], c['fails'], c['errs'])
        conts = [i for i in range(len(repb)) if 0x80 <= repb[i] <= 0xBF and i < B]
        c['pad'] = B - conts[len(conts) // 2]
        cases.append(c)
    # real children dying at crash points, and spawn failure
    m = {'quick': 24, 'thorough': 200, 'search': 0}[tier]
    for i in range(m):
        how = ['exit0', 'exit3', 'kill', 'segv'][i % 4]
        where = ['import', 'setUp', 'body', 'tearDown', 'none', 'spawn'][(i // 4) % 6]
        c = {'kind': 'real', 'how': how, 'where': where, 'ntests': 1 + i % 3, 'bad': i % 2}
        if where == 'spawn' and i % 2 == 1:
            c['where'] = 'spawn_nul'       # not startable for another reason than the OS refusing: an argument with a NUL in it
        if where == 'none':
            # a parent process in an unusual but legal state: the child must be started and read as ever
            c['odd'] = [['syspath_pathobj'], ['environ_nonascii'], ['syspath_pathobj', 'environ_nonascii'], []][i % 4]
        cases.append(c)
    # real children that end because an exception escapes the run (KeyboardInterrupt in a test, SystemExit in a layer hook):
    # no report is due, the parent records the error
    for i, where in enumerate(['kbd_body', 'exit_setUp', 'exit_tearDown', 'kbd_body'][:{'quick': 4, 'thorough': 4, 'search': 0}[tier]]):
        cases.append({'kind': 'real', 'how': 'exc', 'where': where, 'ntests': 1 + i % 3, 'bad': i % 2})
    # real children that finish normally and report the same failing name more than once (--repeat)
    for i in range({'quick': 3, 'thorough': 12, 'search': 0}[tier]):
        cases.append({'kind': 'real', 'how': 'exit0', 'where': 'none', 'ntests': 1 + i % 3, 'bad': 1, 'repeat': 2 + i % 2})
    for c in cases:
        rep.count('kind=%s' % c['kind'])
        if c['kind'] == 'fake':
            rep.count('end=%s' % c['end'])
            rep.count('cut' if c['cut'] is not None else ('intact' if c['intact'] else 'lookalike'))
            rep.count('names<=%d' % (10 ** len(str(len(c['fails']) + len(c['errs'])))))
            if c.get('pad'):
                rep.count('multi-byte name straddling a power-of-two offset of the stream')
        else:
            rep.count('crash=%s/%s' % (c['where'], c['how']))
    return cases


def world_of(c):
    layer = {'name': 'La', 'bases': [], 'kind': 'instance', 'hooks': {'setUp': ['ok'], 'tearDown': ['ok']}}
    if c['kind'] == 'fake':
        w = {'layers': [layer], 'tests': [{'layer': 0}], 'options': ['-j2'] + ([c['verbose']] if c.get('verbose') else []),
             'script_parts': [os.path.join(fw.HARNESS, 'fakechild.py')]}
        if c.get('stdout_encoding'):
            w['stdout_encoding'] = c['stdout_encoding']
        return w
    weird = ['we\rird\nname (x)', 'tëst \x0b vt', 'trailing blank ', 'two\r\nlines', 'x' * 200, '\x85 nel']
    w = {'layers': [layer], 'tests': [dict({'layer': 0, 'body': 'fail' if (c['bad'] and i == 0) else 'ok'},
                                           **({'str': weird[(i + c['ntests']) % len(weird)], 'body': ['fail', 'error'][i % 2]}
                                              if c['where'] == 'none' else {}))
                                      for i in range(c['ntests'])],
         'options': ['-j2'] + (['--repeat', str(c['repeat'])] if c.get('repeat') else []), 'script_parts': [os.path.join(fw.HARNESS, 'teechild.py')]}
    if c['where'] == 'import':
        w['die_import'] = c['how']
    elif c['where'] == 'setUp':
        layer['hooks']['setUp'] = ['die:' + c['how']]
    elif c['where'] == 'tearDown':
        layer['hooks']['tearDown'] = ['die:' + c['how']]
    elif c['where'] == 'body':
        w['tests'][-1]['body'] = ['die', c['how']]
    elif c['where'] == 'kbd_body':
        w['tests'][-1]['body'] = 'kbd'
    elif c['where'] == 'exit_setUp':
        layer['hooks']['setUp'] = ['sysexit']
    elif c['where'] == 'exit_tearDown':
        layer['hooks']['tearDown'] = ['sysexit']
    elif c['where'] == 'spawn':
        w['child_cwd'] = '/nonexistent/verif/dir'
    elif c['where'] == 'spawn_nul':
        layer['name'] = 'La\x00z'
    if c.get('odd'):
        w['odd'] = c['odd']
    return w


def child_stderr(c):
    rep = report_bytes(c['ran'], c['fails'], c['errs'])
    if c['cut'] is not None:
        rep = rep[:c['cut']]
    big = (b'stderr noise line that is not a header\n' * 60000) if c.get('big') else b''
    pad = c.get('pad') or 0
    if pad:
        # exactly `pad` bytes of ASCII lines none of which reads as a header
        big += (b'x' * 63 + b'\n') * (pad // 64) + (b'y' * (pad % 64 - 1) + b'\n' if pad % 64 else b'')
    return big + bytes.fromhex(c['before']) + rep + bytes.fromhex(c['after'])


def observe(cases):
    def one(ic):
        i, c = ic
        w = world_of(c)
        env = {}
        d = os.path.join(fw.scratch(), 'c07_%d' % i)
        os.makedirs(d, exist_ok=True)
        if c['kind'] == 'fake':
            script = {'*': {'stdout': ((b'stdout noise\n' * 150000) if c.get('big') else c['stdout'].encode()).hex(),
                            'stderr': child_stderr(c).hex(), 'end': c['end'], 'order': 'interleave' if c.get('big') else 'out-first',
                            'hold_stderr': c.get('hold_stderr')}}
            p = os.path.join(d, 'fake.json')
            json.dump(script, open(p, 'w'))
            env['VW_FAKE'] = p
        else:
            env['VW_TEE'] = os.path.join(d, 'tee')
        o = worldrun.run_world(w, idx=i, extra_env=env, timeout=120)
        o['tee'] = None
        if c['kind'] == 'real':
            f = os.path.join(d, 'tee.La')
            o['tee'] = open(f, 'rb').read().hex() if os.path.exists(f) else ''
        import shutil
        shutil.rmtree(d, ignore_errors=True)
        return {k: o.get(k) for k in ('aborted', 'failed', 'ran', 'failures', 'errors', 'driver_failed', 'timeout', 'tee', 'mod')}
    return fw.parallel_map(one, list(enumerate(cases)))


def nontrivial(c):
    return c['kind'] == 'real' or bool(c['fails'] or c['errs']) or c['cut'] is not None


def to_coq(c, o):
    hung = bool(o.get('timeout'))
    if o.get('driver_failed') and not hung:
        return ('{| stderr_bytes := []; spawned := true; truth := None; intact := false; r_ran := 0%Z; r_fail := []; r_err := []; '
                'r_comm := false; r_failed := false; r_hung := true |}')
    errors = o.get('errors') or []
    comm = any(e.startswith('subprocess for ') for e in errors)
    errs = [e for e in errors if not e.startswith('subprocess for ')]
    if c['kind'] == 'fake':
        # the constant ASCII noise of big / padded cases is left out of the model's input (none of its lines reads as a header)
        sb = child_stderr(c) if not (c.get('big') or c.get('pad')) else bytes.fromhex(c['before']) + child_stderr(dict(c, big=False, pad=0, before=''))
        truth = '(Some (%s, %s, %s))' % (g_Z(c['ran']), g_list([g_bytes(n.encode()) for n in c['fails']]), g_list([g_bytes(n.encode()) for n in c['errs']]))
        intact = c['intact'] and c['cut'] is None
        spawned = True
    else:
        sb = bytes.fromhex(o['tee'] or '')
        truth, intact, spawned = 'None', False, c['where'] not in ('spawn', 'spawn_nul')
        if c['where'] == 'none':
            # the child ran to completion: the truth is what its tests are called (line breaks become blanks) and did
            w = world_of(c)

            def norm(s):
                return ' '.join(s.strip().splitlines()).encode('utf-8')
            fl = [norm(T['str']) for T in w['tests'] if T['body'] == 'fail']
            el = [norm(T['str']) for T in w['tests'] if T['body'] == 'error']
            fl, el = fl * c.get('repeat', 1), el * c.get('repeat', 1)      # every iteration reports its failures again
            truth = '(Some (%s, %s, %s))' % (g_Z(len(w['tests'])), g_list([g_bytes(x) for x in fl]), g_list([g_bytes(x) for x in el]))
            intact = True
    return ('{| stderr_bytes := %s; spawned := %s; truth := %s; intact := %s; r_ran := %s; r_fail := %s; r_err := %s; '
            'r_comm := %s; r_failed := %s; r_hung := %s |}' % (
                g_bytes(sb), g_bool(spawned), truth, g_bool(intact), g_Z(o.get('ran') or 0),
                g_list([g_bytes(n.encode('utf-8', 'surrogateescape')) for n in (o.get('failures') or [])]),
                g_list([g_bytes(n.encode('utf-8', 'surrogateescape')) for n in errs]),
                g_bool(comm), g_bool(bool(o.get('failed'))), g_bool(hung)))


def sample_view(c, o):
    cc = dict(c)
    for k in ('before', 'after'):
        if k in cc:
            cc[k] = bytes.fromhex(cc[k]).decode('latin-1')
    return {'case': cc, 'observation': {k: o.get(k) for k in ('ran', 'failures', 'errors', 'failed', 'timeout')}}


def classify(case, obs, code, findings):
    # open findings: header look-alike lines ahead of the report; a cut inside the last name or after the last needed line
    ids = {f['id']: f for f in findings}
    if case['kind'] == 'fake' and not (code & 1):
        if not case['intact'] and case['cut'] is None and 'C07-lookalike-header' in ids:
            return ids['C07-lookalike-header']['line']
        if case['cut'] is not None and 'C07-undetectable-truncation' in ids:
            return ids['C07-undetectable-truncation']['line']
    return None


def shrink_candidates(c):
    if c['kind'] != 'fake':
        return
    for key in ('fails', 'errs'):
        for i in range(len(c[key])):
            yield dict(c, **{key: c[key][:i] + c[key][i + 1:]})
    if c['before']:
        yield dict(c, before='', intact=(c['cut'] is None))
    if c['after']:
        yield dict(c, after='')
    if c.get('big'):
        yield dict(c, big=False)
    if c.get('pad'):
        yield dict(c, pad=0)


TECHNIQUE = ('Coq model of the byte-level report protocol (Channel.v) with a round-trip theorem over bytes incl. decimal rendering, '
             'truncation and totality theorems (ChannelFacts.v, P_C07.v) + correspondence check: the real parent fed by scripted children '
             '(every truncation offset, noise, look-alikes, MB volumes, all exit modes) and by real children killed at crash points')
LEVEL_TEXT = ('Unbounded theorems: parse(noise ++ encode(r) ++ trailing) = r for every count < 10^40, any number and spelling of names, any '
              'header-free noise; a report whose names stop early is rejected as a whole; the reader is total and only a complete report '
              'contributes data; the two residual weaknesses are proved as refutations. The real parent is compared with the model on the '
              'bytes the child actually wrote (scripted, or teed from a real child that was killed at import / layer setUp / test / layer '
              'tearDown), and the statement c07_ok is evaluated on what the parent recorded, including its termination.')
LEVEL_NOTE = ('Termination under full pipes and reaping of dead children is observed (MB-sized output on both pipes, all kill modes), not proved. '
              'Open findings: three-integer look-alike lines ahead of the report; truncation that leaves a syntactically complete report.')
