"""C10 — layer run order: correspondence of Layers.order_by_bases with runner.order_by_bases."""
import itertools

import fw
from fw import g_list, g_nats, g_opt, g_str

PID = 'C10'
CHK = 'Chk_C10'
IMPORTS = ('Layers',)
SHARD = 500
RULE = ('layer DAGs with ordered base tuples (exhaustive on <= 3 layers quick / <= 4 thorough: every DAG x every '
        'requested subset x every discovery order x 3 namings; random DAGs up to 9 layers with class and instance '
        'layers, random names, duplicates in the request, UnitTests present or not); each case is evaluated under two '
        'PYTHONHASHSEEDs and two discovery orders; non-trivial = at least 2 requested layers and at least one base edge')
EXHAUSTIVE = {'quick': 'all ordered-base DAGs on <= 3 layers x subsets x input orders x 3 namings',
              'thorough': 'all ordered-base DAGs on <= 4 layers x subsets x input orders x 3 namings'}
TRUSTED_BASE = ['layers are real Python classes / instance objects built by the harness; names are module.name strings compared by code point']
ASSUMPTIONS = ['layer names are distinct; __bases__ is acyclic (Python defines bases before the class)',
               'hash-seed independence is observed for 2 seeds per case (the model contains no hash-ordered container)']

LETTERS = 'abcdefghij'


def ordered_subsets(xs):
    for k in range(len(xs) + 1):
        for comb in itertools.permutations(xs, k):
            yield list(comb)


def all_dags(n):
    choices = [list(ordered_subsets(list(range(i)))) for i in range(n)]
    for combo in itertools.product(*choices):
        yield [list(b) for b in combo]


def namings(n):
    yield ['m.%s' % LETTERS[i] for i in range(n)]
    yield ['m.%s' % LETTERS[n - 1 - i] for i in range(n)]
    yield ['%s.L%s' % ('zy'[i % 2], LETTERS[(i * 3) % 7]) + str(i) for i in range(n)]


def mk(names, bases, unit, ls, ls2, kinds=None, as_dict=False):
    layers = [{'name': names[i], 'bases': bases[i], 'kind': (kinds[i] if kinds else 'instance')} for i in range(len(names))]
    return {'world': {'layers': layers, 'unit': unit}, 'ls': ls, 'ls2': ls2, 'as_dict': as_dict}


def generate(rng, tier, rep):
    cases = []
    maxn = {'quick': 3, 'thorough': 4, 'search': 3}[tier]
    for n in range(1, maxn + 1):
        for bases in all_dags(n):
            for names in namings(n):
                for k in range(1, n + 1):
                    for sub in itertools.combinations(range(n), k):
                        perms = list(itertools.permutations(sub))
                        for p in perms:
                            cases.append(mk(names, bases, None, list(p), list(rng.choice(perms)),
                                            kinds=[rng.choice(['class', 'instance']) for _ in range(n)]))
    nrand = {'quick': 800, 'thorough': 8000, 'search': 2500}[tier]
    for _ in range(nrand):
        n = rng.randint(2, 9)
        unit = rng.choice([None, 0, 0, rng.randrange(n)])
        names, bases = [], []
        used = set()
        for i in range(n):
            while True:
                nm = rng.choice(['m', 'pkg.tests', 'a.b', 'zope.x']) + '.' + ''.join(rng.choice('ABCab_Z') for _ in range(rng.randint(1, 4)))
                if nm not in used:
                    used.add(nm)
                    break
            names.append('zope.testrunner.layer.UnitTests' if unit == i else nm)
            cand = [j for j in range(i) if j != unit or rng.random() < 0.1]
            k = min(len(cand), rng.choice([0, 1, 1, 2, 2, 3]))
            bases.append([] if unit == i else rng.sample(cand, k))
        if unit is not None:
            bases[unit] = []
        m = rng.randint(1, n)
        ls = rng.sample(range(n), m)
        if rng.random() < 0.3:
            ls = ls + [rng.choice(ls)]
        ls2 = list(ls)
        rng.shuffle(ls2)
        cases.append(mk(names, bases, unit, ls, ls2, kinds=[rng.choice(['class', 'instance']) for _ in range(n)],
                        as_dict=rng.random() < 0.4))
    for c in cases:
        rep.count('layers=%d' % len(c['world']['layers']))
        rep.count('requested=%d' % len(c['ls']))
        rep.count('unit=%s' % (c['world']['unit'] is not None))
    return cases


def observe(cases):
    chunks = [cases[i:i + 3000] for i in range(0, len(cases), 3000)]

    def one(ch):
        a = fw.run_py('impl_c10.py', {'cases': ch}, hashseed='0')
        b = fw.run_py('impl_c10.py', {'cases': ch}, hashseed='4242')
        return [{'r1': x['ls'], 'r2': y['ls2'], 'kinds': x['kinds']} for x, y in zip(a, b)]
    out = []
    for r in fw.parallel_map(one, chunks):
        out.extend(r)
    return out


def nontrivial(c):
    return len(set(c['ls'])) >= 2 and any(l['bases'] for l in c['world']['layers'])


def g_world(wd):
    return '{| names := %s; bases := %s; unit_layer := %s |}' % (
        g_list([g_str(l['name']) for l in wd['layers']]), g_list([g_nats(l['bases']) for l in wd['layers']]),
        g_opt(None if wd['unit'] is None else '%d%%nat' % wd['unit']))


def to_coq(c, o):
    return '{| w := %s; ls := %s; ls2 := %s; r1 := %s; r2 := %s |}' % (
        g_world(c['world']), g_nats(c['ls']), g_nats(c['ls2']), g_nats(o['r1']), g_nats(o['r2']))


def shrink_candidates(c):
    for i in range(len(c['ls'])):
        if len(c['ls']) > 1:
            ls = c['ls'][:i] + c['ls'][i + 1:]
            yield dict(c, ls=ls, ls2=list(reversed(ls)))
    wd = c['world']
    for i, l in enumerate(wd['layers']):
        for j in range(len(l['bases'])):
            layers = [dict(x) for x in wd['layers']]
            layers[i]['bases'] = l['bases'][:j] + l['bases'][j + 1:]
            yield dict(c, world=dict(wd, layers=layers))


class Runs:
    """Whole runs: the order of the 'Running <layer> tests:' headers, after an earlier run of a different program state in the same
    interpreter and in a fresh interpreter."""
    CHK = CHK
    LABEL = 'runs'
    IMPORTS = IMPORTS
    SHARD = 40
    RULE = ('runs batch: worlds of 2..5 layers run twice - in a fresh interpreter, and in an interpreter that has just run ANOTHER world '
            'with the same layer names and different base relations (module dropped and re-imported in between); the order of the '
            '"Running <layer> tests:" headers of both is compared with the model and with each other')
    EXHAUSTIVE = {}

    def generate(self, rng, tier, rep):
        import worldcase
        n = {'quick': 24, 'thorough': 240, 'search': 24}[tier]
        cases = []
        for k in range(n):
            nl = rng.randint(2, 5)
            names = rng.sample(worldcase.LNAMES, nl)

            def graph():
                ls = []
                for i in range(nl):
                    cand = list(range(i))
                    ls.append({'name': None, 'bases': rng.sample(cand, min(len(cand), rng.choice([0, 1, 1, 2]))), 'kind': 'instance',
                               'hooks': {'setUp': ['ok'], 'tearDown': ['ok']}})
                return ls
            a, b = graph(), graph()
            # the same names, attached to the nodes in a different order
            pa, pb = list(names), list(names)
            rng.shuffle(pa)
            rng.shuffle(pb)
            for i in range(nl):
                a[i]['name'], b[i]['name'] = pa[i], pb[i]
            tests_b = [{'layer': j} for j in rng.sample(range(nl), rng.randint(2, nl))]
            tests_b += [{'layer': T['layer']} for T in list(tests_b) for _ in range(rng.randint(0, 3))]     # layers of different sizes
            resumed_seq = False
            if k % 3 == 2:
                # no layer can be torn down: after the first one the others are resumed in subprocesses, one after the other
                for L in b:
                    L['hooks']['tearDown'] = ['notimpl']
                tests_b = [{'layer': j} for j in range(nl) for _ in range(rng.randint(1, 4))]      # every layer owns tests, of different numbers
                resumed_seq = True
            tests_a = [{'layer': j} for j in range(nl)]
            cases.append({'module': 'vcten_%d_%d' % (k, rng.randint(0, 10 ** 6)),
                          'a': {'layers': a, 'tests': tests_a, 'options': []},
                          # half of the observed runs spread the layers over subprocesses: one group per layer there as well
                          'b': {'layers': b, 'tests': tests_b, 'options': [] if resumed_seq else rng.choice([[], ['-j2']])}})
            rep.count('runs layers=%d' % nl)
        return cases

    def observe(self, cases):
        import worldrun

        def one(ic):
            i, c = ic
            fresh = worldrun.run_world(dict(c['b'], module=c['module']), idx=2 * i)
            # the earlier run in the same interpreter is a run of another world under the same module name — or, every other
            # case, of this very world (the same layer objects are met again: what a run leaves behind about them must not matter)
            warm = worldrun.run_world(dict(c['b'], module=c['module'], **({'warmup_world': c['a']} if i % 2 == 0 else {'warmup_run': True})), idx=2 * i + 1)

            def order(o):
                if not any(x.startswith('-j') for x in c['b']['options']):
                    # without -j the processes of a run work one after the other: the order in which the layers' tests were
                    # actually executed is the order of first appearance in the (append-only) trace
                    seen = []
                    for r in o.get('trace', []):
                        if r[1] == 't_setUp' and r[2] < len(c['b']['tests']):
                            L = c['b']['tests'][r[2]]['layer']
                            if L not in seen:
                                seen.append(L)
                    return seen
                names = worldrun.parse_stdout(o.get('stdout', ''))['running']
                idx = {'%s.%s' % (c['module'], L['name']): j for j, L in enumerate(c['b']['layers'])}
                # (the unit-test layer and the placeholder layer of -j runs are not layers of the world)
                return [idx.get(nm, 99) for nm in names if nm in idx or not (nm.endswith('UnitTests') or nm == '.EmptyLayer')]
            return {'r_warm': order(warm), 'r_fresh': order(fresh), 'aborted': [warm.get('aborted'), fresh.get('aborted')]}
        return fw.parallel_map(one, list(enumerate(cases)))

    def to_coq(self, c, o):
        wd = {'layers': [{'name': '%s.%s' % (c['module'], L['name']), 'bases': L['bases']} for L in c['b']['layers']], 'unit': None}
        # discovery order of the layers that own tests: the order in which the test classes are found (class names C000, C001, …)
        ls = sorted(set(T['layer'] for T in c['b']['tests']))
        return '{| w := %s; ls := %s; ls2 := %s; r1 := %s; r2 := %s |}' % (
            g_world(wd), g_nats(ls), g_nats(ls), g_nats(o['r_warm']), g_nats(o['r_fresh']))

    def nontrivial(self, c):
        return any(L['bases'] for L in c['b']['layers'])

    def shrink_candidates(self, c):
        return []


EXTRA_BATCHES = [Runs()]

TECHNIQUE = ('Coq proofs about a Gallina transcription of gather_layers/layer_sort_key/order_by_bases '
             '(LayersFacts.v, P_C10.v) + correspondence check against runner.order_by_bases')
LEVEL_TEXT = ('Unbounded theorems: permutation invariance of the result (under distinct sort keys, themselves proved from '
              'distinct names), NoDup + exactly the requested layers, every requested transitive base precedes its '
              'derived layer, UnitTests first. The model is compared with the live order_by_bases on every run '
              '(exhaustive small DAGs x subsets x input orders x namings, random larger DAGs, two hash seeds), and c10_ok '
              "is evaluated in Coq on the implementation's own output.")
LEVEL_NOTE = ('Trusted: Coq kernel/vm_compute, the harness that builds real class/instance layers. "Run exactly once as one '
              'contiguous group" at the level of a whole run is observed by the world checks (C01/C03), not here.')
