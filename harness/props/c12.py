"""C12 — counts and lists."""
import worldcase
from worldprop import *          # noqa: F401,F403
from worldprop import COMMON_ASSUMPTIONS, COMMON_TRUSTED, count_dist

PID = 'C12'
CHECK_FN = 'check_C12'
RULE = ('random worlds with rich outcomes (several events per test, failing subtests, unexpected successes, skips of every kind, layer '
        'setUp/tearDown failures), verbosity 0..2, sequential / resumed / -j runs, every outcome kind under --repeat 2/3; expected numbers and names are recomputed from the '
        "world's own trace; non-trivial = at least one failure or error and one skip or two layers")
TRUSTED_BASE = COMMON_TRUSTED + ['expected counts per test come from the unittest protocol model applied to the scripted behaviour; which tests ran comes from the trace']
ASSUMPTIONS = COMMON_ASSUMPTIONS + ['with -x the statement is evaluated for worlds without decorator-skipped tests and without --repeat; with --repeat n the "tests run" total is taken as the count of one iteration of each layer '
                                    '(documented upstream output, see DESIGN §6 #15); failures, errors, skips, listed names and the per-iteration '
                                    'summaries are evaluated over all iterations']


def generate(rng, tier, rep):
    n = {'quick': 260, 'thorough': 3000, 'search': 500}[tier]
    cases = []
    for _ in range(n):
        opts = []
        if rng.random() < 0.3:
            opts.append('-j%d' % rng.choice([2, 3]))
        if rng.random() < 0.5:
            opts.append(rng.choice(['-v', '-vv']))
        if rng.random() < 0.15 and not any(o.startswith('-j') for o in opts):
            # (sequential runs only: with -j N which layers are still started after the first problem is a race)
            # the run stops at the first problem: what was executed until then is counted and listed like anything else —
            # including the later problems of the very test that stopped the run (further failing subtests, a tearDown error)
            opts.append('-x')
        c = worldcase.gen_world(rng, opts=opts)
        if '-x' in opts:
            for T in c['tests']:
                if T.pop('deco_skip', None) and rng.random() < 0.5:
                    T['subs'] = [rng.choice(['fail', 'error', 'ok']) for _ in range(3)]
            worldcase.sync_twins(c)
        for T in c['tests']:
            if rng.random() < 0.12 and not T.get('deco_skip'):
                # a test (or a library it uses) writes a line that ends in three numbers to the process's stderr: in a layer
                # subprocess that is the report channel, and the line is no header
                T['writes'] = {'body': [['fd2', rng.choice(['progress: 4 0 0\n', 'pool 12 1 0 \n', 'x=1 2 3\n'])]]}
        # make "its tests ran" observable for layers with decorator-skipped tests
        for T in list(c['tests']):
            if T.get('deco_skip') and not any(not U.get('deco_skip') and U['layer'] == T['layer'] for U in c['tests']):
                c['tests'].append({'layer': T['layer']})
        cases.append(c)
    # --repeat with every outcome kind (under --repeat the "tests run" total counts one iteration, everything else all iterations:
    # nothing may leak from one iteration into the next and nothing recorded in an iteration may vanish)
    kinds = [{}, {'body': 'fail'}, {'body': 'error'}, {'deco_skip': True}, {'body': 'skip'}, {'xf': True, 'body': 'fail'}, {'xf': True},
             {'subs': ['fail', 'ok', 'error']}, {'tearDown': 'error'}, {'subs': ['skip']}]
    layer = {'name': 'La', 'bases': [], 'kind': 'instance', 'hooks': {'setUp': ['ok'], 'tearDown': ['ok']}}
    for i, k in enumerate(kinds if tier != 'search' else kinds[:3]):
        for opts in (['--repeat', '3'], ['--repeat', '2', '-j2']):
            cases.append({'layers': [layer], 'tests': [dict(k, layer=0), {'layer': 0}, dict(kinds[(i + 3) % len(kinds)], layer=None)], 'options': opts})
    # a child report of more than 8 KiB / 64 KiB: many failing and erroring tests in one layer that runs in a subprocess
    for nt in ({'quick': [230], 'thorough': [230, 1700], 'search': []}[tier]):
        layer = {'name': 'La', 'bases': [], 'kind': 'instance', 'hooks': {'setUp': ['ok'], 'tearDown': ['ok']}}
        cases.append({'layers': [layer], 'options': ['-j2'],
                      'tests': [{'layer': 0, 'body': 'fail' if i % 3 else 'error'} for i in range(nt)] + [{'layer': None}]})
    # a layer subprocess dying while it writes its report: the lists must show an error for that layer
    for i in range({'quick': 12, 'thorough': 100, 'search': 0}[tier]):
        c = worldcase.gen_world(rng, faults=False, rich=False, opts=[rng.choice(['-j2', '-j3'])])
        if not c['layers']:
            c['layers'] = worldcase.gen_layers(rng, 1, faults=False)
        li = rng.randrange(len(c['layers']))
        c['tests'] += [{'layer': li, 'body': 'fail', 'str_die': rng.choice(['exit0', 'exit3', 'kill', 'segv'])}, {'layer': li, 'body': 'fail'}]
        c['injected'] = 'report'
        cases.append(c)
    for c in cases:
        count_dist(rep, c)
        if c.get('injected'):
            rep.count('injected:report-death')
    return cases


def nontrivial(c):
    return any(set(T) - {'layer'} for T in c['tests']) and len(c['tests']) >= 2


def classify(case, obs, code, findings):
    if code & 8:
        for f in findings:
            if f['id'] == 'C12-child-skips':
                return f['line']
    return None


TECHNIQUE = ('Coq model of result counting and accumulation (Run.v) with the statement as a boolean predicate recomputed from the trace '
             '(Obs.c12_ok); theorems in P_C12.v; correspondence check on generated worlds')
LEVEL_TEXT = ('Reported ran / failures / errors / skipped, the per-layer summary lines, the Total line and the listed names are compared '
              'with the model and, independently, with numbers recomputed in Coq from the trace of what actually executed, in '
              'sequential, resumed and parallel mode.'
              ' Whole-run theorem (RunLedger.v): reported lists and counts are the exact ledger of the events of all processes (skips: parent only, open finding).')
LEVEL_NOTE = ('Open finding: skips recorded in subprocess layers are not included in the totals (classified by Obs.c12_skip_finding). '
              'with -x the statement is evaluated when no test is skipped by decorator and the run is not repeated; under --repeat n the "tests run" total is one iteration\'s count.')
