"""C06 — -j N: ordered contiguous output, at most N alive, up to N progressing; equivalence with sequential runs."""
import itertools
import json
import os
import re
import shutil
import subprocess
import time

import fw
import worldcase
import worldrun
from fw import g_bool, g_list, g_nats

PID = 'C06'
CHK = 'Chk_C06'
IMPORTS = ('Parallel',)
CHECK_FN = 'check_sched'
CASE_TYPE = 'Chk_C06.sched_case'
SHARD = 20
RULE = ('the real parent with k = 2..4 scripted children (each blocks on a barrier file until the harness releases it, then prints its '
        'unique lines, dot lines and its report): every N in 1..k+1, every order of releasing the children that are alive (all k! '
        'completion orders for k <= 3 in quick, k <= 4 in thorough), verbosity 0 / -v / -vv (immediate, deferred and keep-alive '
        'collectors); the set of children alive is sampled before each release; plus real worlds run both sequentially and with -j N '
        '(equivalence batch); non-trivial = k >= 3 and 1 < N < k')
EXHAUSTIVE = {'quick': 'all N in 1..k+1 x all feasible release orders for k <= 3 scripted children', 'thorough': 'the same for k <= 4'}
TRUSTED_BASE = ['thread start latency, is_alive races and the 10 ms poll are runtime: the model step is one loop iteration and the harness '
                'waits for quiescence (a child started or a 5 s limit) before sampling which children are alive',
                'children are scripted processes (harness/fakechild.py) started by the real resume_tests through script_parts']
ASSUMPTIONS = ['"alive" is sampled at quiescent points, not continuously']
LNAMES = ['La', 'Lb', 'Lc', 'Ld']
TOK = re.compile(r'TOK_(\d+)_')
TOKLINE = re.compile(r'TOK_(\d+)_|^( {4,})\.\.\.$', re.M)


def generate(rng, tier, rep):
    cases = []
    ks = {'quick': [2, 3], 'thorough': [2, 3, 4], 'search': [3]}[tier]
    for k in ks:
        for N in range(1, k + 2):
            # release choices: at each step the rank (among the alive children, sorted) of the one to release
            ranks = [list(r) for r in itertools.product(*[range(min(N, k - j)) for j in range(k)])]
            for rk in ranks:
                v = rng.choice(['', '-v', '-vv'])
                cases.append({'kind': 'sched', 'k': k, 'N': N, 'ranks': rk, 'verbosity': v,
                              'lines': [rng.randint(0, 3) for _ in range(k)], 'dots': rng.random() < 0.5, 'indented': rng.random() < 0.4,
                              # a slow stdout and children whose output arrives in pieces (real time only widens windows;
                              # what is printed must not depend on it)
                              'slow': rng.random() < 0.35,
                              # the first of the k layers is the unit-test layer (a layer like any other under -j N)
                              'unit_first': N > 1 and rng.random() < 0.4,
                              # one of the layers runs no test at all (its set-up failed in the child): its block is printed like any other
                              'zero_child': rng.randrange(k) if rng.random() < 0.3 else None,
                              # the runner is confined to fewer processors than -j names
                              'cpus': rng.choice([1, 2]) if N >= 2 and rng.random() < 0.3 else None})
    for c in cases:
        rep.count('k=%d' % c['k'])
        rep.count('N=%d' % c['N'])
        rep.count('slow stdout' if c['slow'] else 'prompt stdout')
        rep.count('confined to %s processors' % (c.get('cpus') or 'all'))
        rep.count('unit-test layer among the k layers' if c.get('unit_first') else 'named layers only')
        rep.count('collector=%s' % ('immediate' if c['N'] == 1 else 'keepalive' if c['verbosity'] == '-vv' else 'deferred'))
    return cases


def run_sched(i, c):
    k, N = c['k'], c['N']
    uf = bool(c.get('unit_first')) and N > 1
    names = (['UnitTests'] + LNAMES[1:k]) if uf else LNAMES[:k]
    world = {'layers': [{'name': LNAMES[j], 'bases': [], 'kind': 'instance', 'hooks': {}} for j in range(1 if uf else 0, k)],
             'tests': ([{'layer': None}] + [{'layer': j - 1} for j in range(1, k)]) if uf else [{'layer': j} for j in range(k)],
             'options': ['-j%d' % N] + ([c['verbosity']] if c['verbosity'] else []),
             'script_parts': [os.path.join(fw.HARNESS, 'fakechild.py')]}
    if N == 1:
        # -j1 resumes only after a layer that cannot be torn down: put an un-tearable first layer in front
        world['layers'].insert(0, {'name': 'Aa', 'bases': [], 'kind': 'instance', 'hooks': {'setUp': ['ok'], 'tearDown': ['notimpl']}})
        world['tests'] = [{'layer': 0}] + [{'layer': j + 1} for j in range(k)]
    mod = worldrun.world_module(world)
    d = os.path.join(fw.scratch(), 'c06_%d_%d' % (i, os.getpid()))
    shutil.rmtree(d, ignore_errors=True)
    os.makedirs(d)
    with open(os.path.join(d, mod + '.py'), 'w') as f:
        f.write('import worldlib\nglobals().update(worldlib.build(__name__))\n')
    json.dump(world, open(os.path.join(d, 'world.json'), 'w'))
    open(os.path.join(d, 'trace.jsonl'), 'w').close()
    script = {}
    tokens = {}
    t = 0
    for j in range(k):
        toks = []
        out = b''
        for _ in range(c['lines'][j]):
            t += 1
            toks.append(t)
            if c.get('indented') and t % 2 == 0:
                # a line of real output that consists of blanks and dots only (an ELLIPSIS line of a doctest report): it is
                # not a keep-alive mark (those start in column 0); the token number is carried by the indentation
                out += (' ' * (3 + t) + '...\n').encode()
            else:
                out += ('  line TOK_%d_ of child %d\n' % (t, j)).encode()
            if c['dots']:
                out += b'..\n'
        tokens[j] = toks
        script[names[j]] = {'barrier': os.path.join(d, 'b%d' % j), 'stdout': out.hex(), 'stderr': (b'0 0 0\n' if c.get('zero_child') == j else b'1 0 0\n').hex(), 'end': 'exit0'}
        if c.get('slow'):
            script[names[j]]['pause'] = 0.06
    json.dump(script, open(os.path.join(d, 'fake.json'), 'w'))
    spec = {'dir': d, 'args': ['--path', d, '--tests-pattern', '^%s$' % mod] + world['options'], 'script_parts': world['script_parts']}
    if c.get('slow'):
        spec['slow_stdout'] = 0.15
    if c.get('cpus'):
        spec['cpus'] = c['cpus']
    env = fw.impl_env({'VW_WORLD': os.path.join(d, 'world.json'), 'VW_TRACE': os.path.join(d, 'trace.jsonl'),
                       'VW_FAKE': os.path.join(d, 'fake.json')})
    p = subprocess.Popen([fw.PY, os.path.join(fw.HARNESS, 'drive_world.py')], stdin=subprocess.PIPE, stdout=subprocess.PIPE,
                         stderr=subprocess.PIPE, env=env, cwd=d, text=True)
    p.stdin.write(json.dumps(spec))
    p.stdin.close()
    p.stdin = None
    released = []
    alive_log = []
    order = []

    def alive_now():
        return sorted(j for j in range(k) if os.path.exists(os.path.join(d, 'b%d.started' % j)) and j not in released)
    hung = False
    for step in range(k):
        want = min(N, k - step)
        t0 = time.time()
        while time.time() - t0 < 8 and len(alive_now()) < want and p.poll() is None:
            time.sleep(0.01)
        time.sleep(0.25)          # would an extra child start?
        a = alive_now()
        alive_log.append(a)
        if not a:
            hung = True
            break
        r = a[min(c['ranks'][step], len(a) - 1)]
        open(os.path.join(d, 'b%d.go' % r), 'w').close()
        released.append(r)
        order.append(r)
    try:
        out, err = p.communicate(timeout=60)
    except subprocess.TimeoutExpired:
        p.kill()
        out, err = p.communicate()
        hung = True
    obs = {'hung': hung, 'alive': alive_log, 'release': order, 'tokens': tokens}
    try:
        o = json.loads(out)
        obs['stdout_tokens'] = [int(m.group(1)) if m.group(1) else len(m.group(2)) - 3 for m in TOKLINE.finditer(o['stdout'])]
        obs['ran'] = o['ran']
        obs['failed'] = o['failed']
        obs['stdout_tail'] = o['stdout'][-1500:]
    except Exception:
        obs.update({'stdout_tokens': [], 'ran': -1, 'hung': True, 'driver_err': err[-500:]})
    shutil.rmtree(d, ignore_errors=True)
    return obs


def observe(cases):
    return fw.parallel_map(lambda ic: run_sched(ic[0], ic[1]), list(enumerate(cases)), workers=8)


def nontrivial(c):
    return c['k'] >= 3 and 1 < c['N'] < c['k'] + 1


def to_coq(c, o):
    k = c['k']
    lines = g_list(['(%d%%nat, %s)' % (j, g_nats(o['tokens'].get(j, o['tokens'].get(str(j), [])))) for j in range(k)])
    return ('{| n_procs := %d; n_layers := %d; child_lines := %s; release := %s; o_tokens := %s; o_alive := %s; '
            'o_ran := %d; o_expected_ran := %d; o_hung := %s |}' % (
                c['N'], k, lines, g_nats(o['release']), g_nats(o['stdout_tokens']),
                g_list([g_nats(a) for a in o['alive']]), max(o['ran'], 0), k + (1 if c['N'] == 1 else 0) - (1 if c.get('zero_child') is not None else 0), g_bool(o['hung'])))


def sample_view(c, o):
    return {'case': c, 'observation': {k: o.get(k) for k in ('alive', 'release', 'stdout_tokens', 'ran', 'hung')}}


def shrink_candidates(c):
    return []


TECHNIQUE = ('Coq transition-system model of the resume_tests scheduler with invariants proved for every schedule (Parallel.v, '
             'ParallelFacts.v, P_C06.v) + correspondence check: the real parent driven through forced completion orders of scripted children')
LEVEL_TEXT = ('Unbounded theorems for every N, every number of layers and EVERY interleaving of child lines and completions: never more than '
              'N alive, start phase saturates N, printed output is always a sequence of whole per-layer blocks in layer order, and all blocks '
              'are out once all children have finished. The real parent is driven through all release orders for small k (barrier files, no '
              'sleeps deciding outcomes) and its printed token order and the sets of children alive at each quiescent point are compared '
              'with the model; equality of totals/verdict with sequential runs is covered by the world model shared with C03/C12.')
LEVEL_NOTE = ('Real concurrency below the granularity of a loop iteration (thread start latency, is_alive vs done) is outside the model; '
              'keep-alive marks are checked only for not splitting a block.')

# "a -j N run executes the same tests with the same outcomes as the sequential run": the four-mode batch
# (list / sequential / -j N / resumed children, with and without --shuffle) compares the modes with each other
import modes          # noqa: E402
import worldprop      # noqa: E402


class OutOfOrder:
    """Layers with failures that finish in another order than they were started in."""
    CHK = worldprop.CHK
    CASE_TYPE = worldprop.CASE_TYPE
    IMPORTS = worldprop.IMPORTS
    SHARD = worldprop.SHARD
    CHECK_FN = 'check_C12'
    LABEL = 'out-of-order'
    RULE = ('out-of-order batch: 3..4 layers under -j N, every one with failing and erroring tests, the earlier ones slowed down by a '
            'test that takes 1..1.5 s so that later layers finish first; the reported lists, totals and verdict are compared with the '
            'run model (which is the sequential run for these worlds)')
    EXHAUSTIVE = {}

    def generate(self, rng, tier, rep):
        cases = []
        for k in range({'quick': 5, 'thorough': 30, 'search': 3}[tier]):
            nl = rng.choice([3, 4])
            layers = [{'name': n, 'bases': [], 'kind': 'instance', 'hooks': {'setUp': ['ok'], 'tearDown': ['ok']}}
                      for n in sorted(rng.sample(['La', 'Lb', 'Lc', 'Ma', 'Kz'], nl))]
            tests = []
            for j in range(nl):
                if j < nl - 1:
                    tests.append({'layer': j, 'sleep': 1.5 - 0.5 * j})
                tests.append({'layer': j, 'body': rng.choice(['fail', 'error'])})
                tests.append({'layer': j, 'body': rng.choice(['fail', 'error', 'ok'])})
            cases.append({'layers': layers, 'tests': tests, 'options': ['-j%d' % rng.choice([nl, nl + 1, 2])] + rng.choice([[], ['-v'], ['-vv']])})
            rep.count('out-of-order layers=%d' % nl)
        return cases

    def observe(self, cases):
        return worldprop.observe(cases)

    def to_coq(self, c, o):
        return worldprop.to_coq(c, o)

    def nontrivial(self, c):
        return True

    def shrink_candidates(self, c):
        return []


EXTRA_BATCHES = [modes.Batch('mixed', 12, 150), OutOfOrder()]
