"""C18 — interpreter-global state restored after an in-process run."""
import gc
import itertools

import fw
import worldrun
from fw import g_list, g_nats, g_opt

PID = 'C18'
CHK = 'Chk_C18'
IMPORTS = ('Restore', 'RestorePhases')
SHARD = 40
OPTS = ['gc', 'G', 'coverage', 'profile', 'buffer', 'warnings', 'D']
ENDINGS = ['normal', 'failing', 'hook_raise', 'kbd', 'stop']
RULE = ('in-process runs in fresh interpreters for subsets of {--gc a [b c], -G flag, --coverage, --profile cProfile, --buffer, '
        'warnings argument, -D} x endings {normal, failing tests, exception escaping from a layer per-test hook, KeyboardInterrupt in a '
        'test, stop-on-error}: quick = pairwise covering sample plus random subsets, thorough = all 2^7 x 5 (with -D only where no '
        'result event would start the debugger); a probe test records the state during the test phase; some worlds add a test that itself meddles with sys.path and (where the matching option is active) gc thresholds, gc flags and warnings filters; non-trivial = at least two options active')
EXHAUSTIVE = {'thorough': 'all 128 option subsets x 5 endings (-D restricted to failure-free endings)'}
TRUSTED_BASE = ['gc, traceback, sys.settrace/threading trace hook, sys.monitoring profiler slot, warnings.filters, sys.stdout/err are '
                'observed through a canonical snapshot taken before / during (inside a test) / after Runner.run()']
ASSUMPTIONS = ['the trace and profile hooks are unset before the run (a hook installed beforehand would be reset to None by '
               'TestTrace.stop(), see DESIGN C18)', 'only endings once the test phase has begun are considered']
FIELDS = list(range(11))


def mk(subset, ending, meddle=False):
    opts = []
    world = {'layers': [{'name': 'La', 'bases': [], 'kind': 'instance',
                         'hooks': {'setUp': ['ok'], 'tearDown': ['ok'], 'testSetUp': ['ok'], 'testTearDown': ['ok']}}]}
    if 'gc' in subset:
        opts += ['--gc', '500', '--gc', '7'] if len(subset) % 2 else ['--gc', '0']
    if 'G' in subset:
        opts += ['-G', 'DEBUG_UNCOLLECTABLE']
    if 'coverage' in subset:
        opts += ['--coverage', 'covdir']
    if 'profile' in subset:
        opts += ['--profile', 'cProfile']
    if 'buffer' in subset:
        opts += ['--buffer']
    if 'warnings' in subset:
        world['warnings'] = 'always'
    if 'D' in subset and ending in ('normal', 'hook_raise', 'kbd'):
        # -D (post-mortem) wherever no test outcome would start the debugger: an exception out of a layer's per-test hook and a
        # KeyboardInterrupt leave the run without a result event
        opts += ['-D']
    tests = [{'layer': 0, 'probe': True}, {'layer': 0}]
    if meddle:
        # a test that itself changes state the runner manages or relies on; the features must still restore what they changed
        acts = ['syspath_remove']
        if 'gc' in subset:
            acts.append('gc_threshold')
        if 'G' in subset:
            acts.append('gc_debug')
        if 'warnings' in subset:
            acts.append('warn_reset')
        else:
            # no warnings argument: the runner still brackets the run with warnings.catch_warnings(); sometimes the
            # interpreter's warnings were configured by the user (sys.warnoptions not empty)
            acts.append('warn_filter')
            if len(subset) % 2 == 0:
                world['pythonwarnings'] = 'ignore::ImportWarning'
        if 'profile' in subset:
            # the directory the profiler is to write its data to disappears during the run: the run ends with an exception
            # from the feature that cannot finish, but whatever the other features changed is restored all the same
            acts.append('rm_profile_dir')
            opts += ['--profile-directory', 'profdir']
            world['mkdirs'] = ['profdir']
        tests.append({'layer': 0, 'meddle': acts})
    if meddle and 'buffer' in subset and ending in ('normal', 'failing', 'stop'):
        # test code that puts a saved stream back after the result event (redirect_stdout around a failing subtest), as the
        # last thing the run does
        world['redirect_last'] = True
    if ending == 'failing':
        tests += [{'layer': 0, 'body': 'fail'}, {'layer': 0, 'body': 'error', 'tearDown': 'error'}]
    elif ending == 'hook_raise':
        world['layers'][0]['hooks']['testSetUp'] = ['ok', 'ok', 'raise']
        tests += [{'layer': 0}, {'layer': 0}]
    elif ending == 'kbd':
        tests += [{'layer': 0, 'body': 'kbd'}, {'layer': 0}]
    elif ending == 'stop':
        opts += ['-x']
        tests += [{'layer': 0, 'body': 'fail'}, {'layer': 0}]
    if meddle:
        # a second layer after the meddling test: whatever a feature does when a layer starts happens in the changed state
        world['layers'].append({'name': 'Lb', 'bases': [], 'kind': 'instance', 'hooks': {'setUp': ['ok'], 'tearDown': ['ok']}})
        tests += [{'layer': 1}, {'layer': 1}]
    if world.get('redirect_last'):
        tests.append({'layer': 0, 'subs': ['fail'], 'redirect_sub': True})
    world['tests'] = tests
    world['options'] = opts
    world['subset'] = sorted(subset)
    world['ending'] = ending
    return world


def generate(rng, tier, rep):
    cases = []
    if tier == 'thorough':
        for k in range(len(OPTS) + 1):
            for sub in itertools.combinations(OPTS, k):
                for e in ENDINGS:
                    cases.append(mk(set(sub), e))
                cases.append(mk(set(sub), ENDINGS[k % 5], meddle=True))
    else:
        # all pairs of options, each with every ending, plus singletons, empty and full sets, plus random subsets
        subsets = [set(), set(OPTS)] + [{a} for a in OPTS] + [{a, b} for a, b in itertools.combinations(OPTS, 2)]
        for i, sub in enumerate(subsets):
            for e in (ENDINGS if len(sub) <= 1 or i % 3 == 0 else [ENDINGS[i % 5], ENDINGS[(i + 2) % 5]]):
                cases.append(mk(sub, e))
        # --buffer with -D (no result event ever restores the streams when an exception leaves the run) under every ending
        for sub in ({'buffer', 'D'}, {'buffer', 'D', 'gc', 'coverage'}):
            for e in ENDINGS:
                cases.append(mk(sub, e))
        for _ in range(40 if tier == 'quick' else 200):
            sub = set(o for o in OPTS if rng.random() < 0.5)
            cases.append(mk(sub, rng.choice(ENDINGS)))
        for i, sub in enumerate(subsets):
            if i % 2 == 0:
                cases.append(mk(sub, ENDINGS[i % 5], meddle=True))
    for i, c in enumerate(cases):
        c['preset'] = bool(i % 2)
        # the streams in effect before the run may be any objects, falsy ones included
        c['falsy_streams'] = (i % 3 == 0)
        # a previous run in the same interpreter, followed by other changes of the global state
        c['warmup_run'] = (i % 4 == 1)
    for c in cases:
        rep.count('preset=%s' % c['preset'])
        rep.count('ending=' + c['ending'])
        rep.count('n_options=%d' % len(c['subset']))
        rep.count('meddling_test=%s' % any(T.get('meddle') for T in c['tests']))
    return cases


def observe(cases):
    return worldrun.run_worlds(cases)


def nontrivial(c):
    return len(c['subset']) >= 2


def expected_features(c, before):
    """(field, installed value string) per active feature, in set-up order (outermost first)."""
    feats = []
    sub = set(c['subset'])
    opts = c['options']
    if 'warnings' in sub:
        feats.append([(7, None)])
    if 'coverage' in sub:
        feats.append([(10, 'replaced'), (4, 'TestTrace.globaltrace_lt'), (5, 'TestTrace.globaltrace_lt')])
    if 'profile' in sub:
        feats.append([(6, 'None/cProfile')])
    if 'gc' in sub:
        vals = [int(opts[i + 1]) for i, a in enumerate(opts) if a == '--gc']
        old = eval(before['0'])
        new = tuple(vals) + tuple(old[len(vals):])
        feats.append([(0, repr(new))])
    if 'G' in sub:
        feats.append([(1, str(gc.DEBUG_UNCOLLECTABLE))])
    feats.append([(2, 'zope.testrunner.tb_format.format_exception'), (3, 'zope.testrunner.tb_format.print_exception')])
    if 'buffer' in sub:
        feats.append([(8, 'BufferedStandardStream'), (9, 'BufferedStandardStream')])
    return feats


def to_coq(c, o):
    if o.get('driver_failed'):
        return '{| feats := []; feats3 := []; g_before := [(0%nat, 1%nat)]; g_probe := None; probe_fields := []; g_after := [(0%nat, 2%nat)]; all_fields := [0%nat] |}'
    table = {}

    def code(f, s):
        key = (f, s)
        if key not in table:
            table[key] = len(table) + 1
        return table[key]

    def g(snap):
        return g_list(['(%d%%nat, %d%%nat)' % (f, code(f, snap[str(f)])) for f in FIELDS])
    before, after = o['globals_before'], o['globals_after']
    probe = [r[3] for r in o['trace'] if r[1] == 'probe']
    feats = expected_features(c, before)
    fl = []
    for ws in feats:
        fl.append(g_list(['(%d%%nat, %d%%nat)' % (f, code(f, v if v is not None else (probe[0][str(f)] if probe else '?')))
                          for f, v in ws]))
    pf = [f for f in FIELDS if f != 7]
    # phase in which each field is written / undone: the tracer is started in global_setup and stopped in early_teardown, the
    # profiler is enabled in late_setup and disabled in early_teardown, the capture streams live inside the test phase
    late = {6, 8, 9}
    early = {4, 5, 10, 6, 8, 9}
    f3 = []
    for ws in feats:
        f3.append(g_list(['{| w_field := %d%%nat; w_val := %d%%nat; w_late := %s; w_early := %s |}' % (
            f, code(f, v if v is not None else (probe[0][str(f)] if probe else '?')), 'true' if f in late else 'false',
            'true' if f in early else 'false') for f, v in ws]))
    return '{| feats := %s; feats3 := %s; g_before := %s; g_probe := %s; probe_fields := %s; g_after := %s; all_fields := %s |}' % (
        g_list(fl), g_list(f3), g(before), g_opt(g(probe[0]) if probe else None), g_nats(pf), g(after), g_nats(FIELDS))


def sample_view(c, o):
    return {'case': {k: c[k] for k in ('subset', 'ending', 'options')},
            'observation': {'before': o.get('globals_before'), 'after': o.get('globals_after'), 'aborted': o.get('aborted'),
                            'probe': [r[3] for r in o.get('trace', []) if r[1] == 'probe'][:1]}}


def shrink_candidates(c):
    for x in c['subset']:
        yield dict(mk(set(c['subset']) - {x}, c['ending']), preset=c.get('preset', False))
    if c['ending'] != 'normal':
        yield mk(set(c['subset']), 'normal')


TECHNIQUE = ('Coq proofs that the set-up/tear-down schedule of Runner.run (global/late set-up, early/global tear-down; RestorePhases.v) restores every managed field whatever the tests do, and that nested save/install/restore brackets give back the global state for every feature list and every '
             'restoring test phase (Restore.v, RestoreFacts.v, P_C18.v) + correspondence check on snapshots of the real interpreter state '
             'before / during / after in-process runs')
LEVEL_TEXT = ('Theorem over all feature subsets, orders and endings; the configuration space of the real runner is finite and is '
              'enumerated completely in the thorough tier (pairwise-covering in quick): the snapshot after the run must equal the one '
              'before (predicate) and the snapshot taken by a test during the run must show exactly the values the model installs '
              '(correspondence).')
LEVEL_NOTE = ('The model is abstract (fields and values); which fields each feature writes is taken from reading the code and is validated '
              'by the in-phase probe. Initial hooks are unset; pre-installed trace hooks are outside the quantifier (documented).')
