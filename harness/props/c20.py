"""C20 — SCC enumeration: correspondence of Digraph.sccs with DiGraph.sccs."""
import itertools

import fw
from fw import g_bool, g_list, g_nats, g_opt

PID = 'C20'
CHK = 'Chk_C20'
IMPORTS = ('Digraph',)
SHARD = 150
RULE = ('digraphs built through add_nodes/add_neighbors histories: exhaustive over all digraphs with self-loops on '
        '<= 3 nodes (quick) / <= 4 nodes (thorough) with int and identity-keyed nodes, plus random graphs up to 12 '
        '(quick) / 24 (thorough) nodes with shuffled insertion order, repeated add_neighbors calls, edges to unknown '
        'nodes, nodes without neighbour entries and ignore_unknown=False; collections handed over as iterators, lists, tuples, '
        'frozensets, dict views or sets the caller keeps and clears / refills / extends afterwards (the graph is defined by the values '
        'at call time); non-trivial = at least 2 nodes and 1 edge')
EXHAUSTIVE = {'quick': 'all digraphs (self-loops allowed) on <= 3 nodes', 'thorough': 'all digraphs (self-loops allowed) on <= 4 nodes'}
TRUSTED_BASE = ['iteration order of Python sets is not modelled: outputs are compared as sets of sets, and the theorems '
                'quantify over every root order and every adjacency order']
ASSUMPTIONS = ['node keys are hashable and make_hashable is injective (ints, or id() of live objects)']


def graph_case(n, edges, rng, keyed='int', split=False, unknown=False, noentry=False):
    order = list(range(n))
    rng.shuffle(order)
    ops = [['nodes', order]]
    nodes = list(range(n))
    rng.shuffle(nodes)
    for x in nodes:
        nb = [b for (a, b) in edges if a == x]
        rng.shuffle(nb)
        if noentry and not nb and rng.random() < 0.7:
            continue
        if unknown:
            nb = nb + [n + rng.randint(0, 3) for _ in range(rng.randint(0, 2))]
            rng.shuffle(nb)
        if split and len(nb) > 1:
            k = rng.randint(1, len(nb) - 1)
            ops.append(['nbrs', x, nb[:k] + nb[:1], True])
            ops.append(['nbrs', x, nb[k:], True])
        else:
            ops.append(['nbrs', x, nb, True])
    return {'keyed': keyed, 'ops': ops, 'ctor_nodes': rng.random() < 0.5}


def aliasing(c, rng):
    """How the caller hands its collections over (never part of the graph's definition): iterators, lists, tuples, frozensets,
    dict views, or sets of its own which it goes on using — a scratch set cleared and refilled for the next call, the same set
    passed for two nodes, members added or dropped after the call."""
    kinds, after = {}, {}
    shared = rng.random() < 0.6
    for k, o in enumerate(c['ops']):
        r = rng.random()
        if r < 0.45:
            slot = 'scratch' if shared and rng.random() < 0.8 else 'own%d' % k
            kinds[str(k)] = 'set:' + slot
            if rng.random() < 0.7:
                what = rng.choice(['clear', 'add', 'add', 'discard'])
                after[str(k)] = [[slot, what, [rng.randint(0, 6) for _ in range(rng.randint(1, 3))]]]
        elif r < 0.9:
            kinds[str(k)] = rng.choice(['list', 'tuple', 'frozenset', 'dictkeys', 'iter'])
    c['containers'] = kinds
    if after:
        c['after'] = after
    return c


def generate(rng, tier, rep):
    cases = []
    maxn = {'quick': 3, 'thorough': 4, 'search': 3}[tier]
    for n in range(maxn + 1):
        pairs = [(a, b) for a in range(n) for b in range(n)]
        for mask in range(1 << len(pairs)):
            edges = [p for i, p in enumerate(pairs) if mask >> i & 1]
            cases.append(graph_case(n, edges, rng, keyed='int' if mask % 2 else 'id', noentry=True))
    nrand, maxnodes = {'quick': (600, 12), 'thorough': (3000, 24), 'search': (2000, 10)}[tier]
    for _ in range(nrand):
        n = rng.randint(1, maxnodes) if rng.random() < 0.8 else 4
        dens = rng.choice([0.05, 0.1, 0.2, 0.35, 0.6])
        edges = [(a, b) for a in range(n) for b in range(n) if rng.random() < dens]
        c = graph_case(n, edges, rng, keyed=rng.choice(['int', 'id']), split=rng.random() < 0.4,
                       unknown=rng.random() < 0.3, noentry=rng.random() < 0.5)
        r = rng.random()
        if r < 0.08:      # strict mode: may raise KeyError
            i = rng.randrange(len(c['ops']))
            if c['ops'][i][0] == 'nbrs':
                c['ops'][i][3] = False
        elif r < 0.12:    # neighbours for a node that is not in the graph
            c['ops'].append(['nbrs', n + 5, [0], rng.random() < 0.5])
        elif r < 0.2:     # nodes added late
            c['ops'].append(['nodes', [n, n + 1]])
            c['ops'].append(['nbrs', n, [0, n + 1, n], True])
        if rng.random() < 0.5:
            aliasing(c, rng)
        cases.append(c)
    for c in cases:
        rep.count('containers=' + ('plain' if not c.get('containers') else 'kept-sets' if c.get('after') else 'mixed'))
        n = len(set(x for o in c['ops'] if o[0] == 'nodes' for x in o[1]))
        rep.count('nodes=%s' % (n if n < 5 else '5-12' if n <= 12 else '13+'))
        rep.count('keyed=' + c['keyed'])
    return cases


def observe(cases):
    chunks = [cases[i:i + 4000] for i in range(0, len(cases), 4000)]
    out = []
    for r in fw.parallel_map(lambda ch: fw.run_py('impl_c20.py', ch), chunks):
        out.extend(r)
    return out


def nontrivial(c):
    ns = set(x for o in c['ops'] if o[0] == 'nodes' for x in o[1])
    return len(ns) >= 2 and any(o[0] == 'nbrs' and o[2] for o in c['ops'])


def g_op(o):
    if o[0] == 'nodes':
        return 'AddNodes %s' % g_nats(o[1])
    return 'AddNeighbors %d %s %s' % (o[1], g_nats(o[2]), g_bool(o[3]))


def g_comps(r):
    return g_opt(None if r is None else g_list([g_nats(c) for c in r]))


def to_coq(c, o):
    return ('{| ops := %s; raised := %s; g_nodes := %s; g_adj := %s; r_def := %s; r_triv := %s |}' % (
        g_list([g_op(x) for x in c['ops']]), g_bool(o['raised']), g_nats(o['nodes']),
        g_list(['(%d%%nat, %s)' % (n, g_nats(l)) for n, l in o['adj']]), g_comps(o['def']), g_comps(o['triv'])))


def drop_op(c, i):
    ops = c['ops']
    new = dict(c, ops=ops[:i] + ops[i + 1:])
    for key in ('containers', 'after'):
        if c.get(key):
            new[key] = {str(int(k) - (int(k) > i)): v for k, v in c[key].items() if int(k) != i}
    return new


def shrink_candidates(c):
    ops = c['ops']
    if c.get('after'):
        yield {k: v for k, v in c.items() if k != 'after'}
        for k in c['after']:
            yield dict(c, after={a: b for a, b in c['after'].items() if a != k})
    if c.get('containers'):
        yield {k: v for k, v in c.items() if k not in ('after', 'containers')}
    for i in range(len(ops)):
        if len(ops) > 1:
            yield drop_op(c, i)
    for i, o in enumerate(ops):
        lst = o[1] if o[0] == 'nodes' else o[2]
        for j in range(len(lst)):
            new = list(o)
            if o[0] == 'nodes':
                new[1] = lst[:j] + lst[j + 1:]
            else:
                new[2] = lst[:j] + lst[j + 1:]
            yield dict(c, ops=ops[:i] + [new] + ops[i + 1:])


def neighbours(c, rng):
    out = []
    for _ in range(40):
        ops = [list(o) for o in c['ops']]
        i = rng.randrange(len(ops))
        if ops[i][0] == 'nbrs':
            ops[i][2] = list(ops[i][2]) + [rng.randint(0, 5)]
        else:
            ops.append(['nbrs', rng.randint(0, 5), [rng.randint(0, 5)], True])
        out.append(dict(c, ops=ops))
    return out

class UseSite:
    """The per-test cycle report of the runner on real object graphs."""
    CHK = CHK
    LABEL = 'use-site'
    CHECK_FN = 'check_use'
    IMPORTS = IMPORTS
    SHARD = 60
    RULE = ('use-site batch: CLI runs with --gc-after-test -vvvv whose tests build random digraphs (<= 8 nodes, out-degree <= 5, self-loops, '
            'several components, acyclic parts hanging off cycles) out of slotted objects and drop them; the "left cyclic garbage behind" '
            'report of every test is parsed and compared with the cyclic components of that test\'s graph')
    EXHAUSTIVE = {}

    def generate(self, rng, tier, rep):
        n = {'quick': 40, 'thorough': 400, 'search': 40}[tier]
        cases = []
        for _ in range(n):
            graphs = []
            for _ in range(rng.randint(1, 4)):
                k = rng.randint(1, 8)
                p = rng.choice([0.1, 0.2, 0.35])
                adj = []
                for a in range(k):
                    succ = [b for b in range(k) if rng.random() < p][:5]
                    if succ:
                        adj.append([a, succ])
                graphs.append({'nodes': list(range(k)), 'adj': adj})
            cases.append({'graphs': graphs, 'options': rng.choice([[], [], ['--buffer'], ['--repeat', '2']])})
            rep.count('use-site tests=%d' % len(graphs))
        return cases

    def observe(self, cases):
        chunks = [cases[i:i + 3] for i in range(0, len(cases), 3)]
        out = []
        for r in fw.parallel_map(lambda ch: fw.run_py('impl_c20_use.py', {'cases': ch, 'scratch': fw.scratch()}), chunks):
            out.extend(r)
        return out

    def to_coq(self, c, o):
        # one Coq case per run: the graphs of its tests are put side by side (disjoint node numbers), the reports likewise;
        # under --repeat every iteration reports again: the iterations must agree and are folded into one
        ops, comps, off = [], [], 0
        ok = True
        for g, rep_ in zip(c['graphs'], o['reports']):
            ops.append('(AddNodes %s)' % g_nats([off + x for x in g['nodes']]))
            for a, succ in g['adj']:
                ops.append('(AddNeighbors %d %s true)' % (off + a, g_nats([off + b for b in succ])))
            reps = 2 if '--repeat' in c.get('options', []) else 1
            if len(rep_) % reps:
                ok = False
            per = len(rep_) // reps if reps else 0
            first = rep_[:per] if ok else rep_
            for r in range(1, reps):
                if sorted(sorted(x) for x in rep_[r * per:(r + 1) * per]) != sorted(sorted(x) for x in first):
                    ok = False
            comps += [[off + x if x != 9999 else 9999 for x in cyc] for cyc in (first if ok else rep_)]
            off += len(g['nodes'])
        return ('{| ops := %s; raised := false; g_nodes := []; g_adj := []; r_def := %s; r_triv := None |}' % (
            g_list(ops), g_comps(comps if o['rc'] == 0 else None)))

    def nontrivial(self, c):
        return any(g['adj'] for g in c['graphs'])

    def shrink_candidates(self, c):
        gs = c['graphs']
        for i in range(len(gs)):
            if len(gs) > 1:
                yield dict(c, graphs=gs[:i] + gs[i + 1:])
        for i, g in enumerate(gs):
            for j in range(len(g['adj'])):
                yield dict(c, graphs=gs[:i] + [dict(g, adj=g['adj'][:j] + g['adj'][j + 1:])] + gs[i + 1:])
        if c.get('options'):
            yield dict(c, options=[])


EXTRA_BATCHES = [UseSite()]

TECHNIQUE = ('Coq proof by complete enumeration lifted with forallb_forall (bound stated in the theorem) over a step-machine '
             'model of the iterative Tarjan + correspondence check against DiGraph with the C20 predicate evaluated in Coq '
             "on the implementation's components")
LEVEL_TEXT = ('C20_sccs_correct (Tarjan.v): UNBOUNDED — for every digraph (any size, every root order, every adjacency order), '
              'both modes: the iterative machine terminates within its fuel without error, components are disjoint, each is '
              'exactly a mutual-reachability class, coverage = all nodes (trivial) / nodes on a cycle (default); proved by a '
              'machine invariant over the explicit DFS frames.  C20_every_built_graph: every graph reachable through '
              'add_nodes/add_neighbors meets the hypotheses.  C20_executable_statement_is_the_spec: the boolean c20_ok evaluated '
              'on the implementation output is equivalent to the relational statement.  The model (construction API incl. unknown '
              'nodes/KeyError, set semantics, Tarjan machine) is compared with the live DiGraph on every run (exhaustive <= 3 nodes '
              'quick / <= 4 thorough, random to 24 nodes).')
LEVEL_NOTE = ('Graphs beyond 24 nodes are covered only by the theorem about the model, not by the comparison with the live code: a change that '
              'acts only on big graphs (seed C20s: a bound on the DFS work stack above 1000 pending visits) is not detected. '
              'The bounded theorem (<= 3 nodes, by evaluation) is kept as a cross-check. '
              'Set iteration order is abstracted: outputs compared as sets of sets.')
