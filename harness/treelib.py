"""Materialise JSON trees on disk and snapshot them.  Tree: list of entries,
entry = ["f", name, content] | ["d", name, [entries]]."""
import hashlib
import os
import random


def materialise(root, tree, order_seed=0, store=None):
    """Create the tree under `root`; creation order is shuffled (file-system enumeration order
    must not matter).  A directory entry with a fourth element "link" is created as a symbolic link to a real
    directory with that content kept in `store` (a directory outside the tree)."""
    rng = random.Random(order_seed)
    os.makedirs(root, exist_ok=True)
    entries = list(tree)
    rng.shuffle(entries)
    for e in entries:
        p = os.path.join(root, e[1])
        if e[0] == 'f':
            if len(e) > 3 and e[3] == 'link' and store is not None:
                # a file entry with a fourth element "link": a symbolic link to a real file kept outside the tree
                os.makedirs(store, exist_ok=True)
                real = os.path.join(store, 'f%d_%s' % (len(os.listdir(store)), e[1]))
                with open(real, 'wb') as f:
                    f.write(e[2].encode('utf-8') if isinstance(e[2], str) else bytes(e[2]))
                os.symlink(real, p)
                continue
            with open(p, 'wb') as f:
                f.write(e[2].encode('utf-8') if isinstance(e[2], str) else bytes(e[2]))
        elif len(e) > 3 and e[3] == 'link' and store is not None:
            os.makedirs(store, exist_ok=True)
            real = os.path.join(store, 'd%d' % len(os.listdir(store)))
            materialise(real, e[2], rng.random(), store)
            os.symlink(real, p)
        else:
            materialise(p, e[2], rng.random(), store)


def snapshot(root):
    out = {}
    for dirpath, dirs, files in os.walk(root, followlinks=True):
        for f in files:
            p = os.path.join(dirpath, f)
            rel = os.path.relpath(p, root)
            if os.path.islink(p) and not os.path.exists(p):
                # the link is there, what it pointed to is gone
                out[rel] = 'dangling link'
                continue
            with open(p, 'rb') as fh:
                out[rel] = hashlib.sha1(fh.read()).hexdigest()
    return out


def all_files(tree, prefix=()):
    for e in tree:
        if e[0] == 'f':
            yield prefix + (e[1],)
        else:
            yield from all_files(e[2], prefix + (e[1],))
