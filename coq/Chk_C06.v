(* Chk_C06.v — case types and checkers for C06 (-j N). *)
From ZT Require Import Base Parallel.

(* --- forced schedules against the real parent with scripted children --- *)
Record sched_case := {
  n_procs : nat;                         (* N *)
  n_layers : nat;                        (* k: children 0..k-1 in layer order *)
  child_lines : list (nat * list nat);   (* tokens each child prints (non-dot lines), in its own order *)
  release : list nat;                    (* the order in which the harness lets the children finish *)
  o_tokens : list nat;                   (* tokens in the parent's stdout, in order of appearance *)
  o_alive : list (list nat);             (* children alive (started, not yet released) observed before each release and at the end *)
  o_ran : nat; o_expected_ran : nat;
  o_hung : bool
}.

Definition order_of (c : sched_case) : list nat := seq 0 (n_layers c).

(* the schedule the harness forces: first iteration, then for each released child: its lines, its completion, two iterations *)
Definition schedule (c : sched_case) : list act :=
  Tick :: flat_map (fun i => map (Line i) (lines_of i (child_lines c)) ++ [Done i; Tick; Tick]) (release c).

(* running sets: after the first Tick, and after each release block *)
Fixpoint stages (c : sched_case) (s : pst) (rel : list nat) : list (list nat) :=
  match rel with
  | [] => []
  | i :: r =>
    let alive := filter (fun j => negb (mem j (fin s))) (running s) in
    let s' := fold_left (pstep (n_procs c) (order_of c)) (map (Line i) (lines_of i (child_lines c)) ++ [Done i; Tick; Tick]) s in
    alive :: stages c s' r
  end.
Definition model_alive (c : sched_case) : list (list nat) :=
  stages c (pstep (n_procs c) (order_of c) (p_init (order_of c)) Tick) (release c).

Definition nats_eqb := list_eqb Nat.eqb.
Definition agree_sched (c : sched_case) : bool :=
  negb (o_hung c)
  && nats_eqb (printed (prun (n_procs c) (order_of c) (schedule c))) (o_tokens c)
  && list_eqb (fun a b => seteq a b && Nat.eqb (length a) (length b)) (model_alive c) (o_alive c).

(* the statement *)
Fixpoint contiguous_in_order (order : list nat) (lines : list (nat * list nat)) (toks : list nat) : bool :=
  match order with
  | [] => match toks with [] => true | _ => false end
  | i :: r => let l := lines_of i lines in
              nats_eqb (firstn (length l) toks) l && contiguous_in_order r lines (skipn (length l) toks)
  end.
Definition c06_sched_ok (c : sched_case) : bool :=
  negb (o_hung c)
  && contiguous_in_order (order_of c) (child_lines c) (o_tokens c)
  (* at no observation point more than N children alive; and N alive while N or more remain *)
  && forallb (fun a => Nat.leb (length a) (n_procs c)) (o_alive c)
  && (fix wc (al : list (list nat)) (remaining : nat) : bool :=
        match al with
        | [] => true
        | a :: r => Nat.eqb (length a) (Nat.min (n_procs c) remaining) && wc r (pred remaining)
        end) (o_alive c) (n_layers c)
  && Nat.eqb (o_ran c) (o_expected_ran c).

Definition check_sched (c : sched_case) : nat := bit (negb (agree_sched c)) 1 + bit (negb (c06_sched_ok c)) 2.
