(* Tree.v — file-system trees shared by C14 (discovery) and C15 (byte-code cleanup). *)
From ZT Require Import Base.

Inductive entry :=
| F (name : str)
| D (name : str) (kids : list entry).

Definition path := list str.

Definition file_names (kids : list entry) : list str :=
  flat_map (fun e => match e with F n => [n] | D _ _ => [] end) kids.

Fixpoint find_dir (n : str) (kids : list entry) : option (list entry) :=
  match kids with
  | [] => None
  | D m sub :: r => if str_eqb n m then Some sub else find_dir n r
  | F _ :: r => find_dir n r
  end.
Fixpoint subtree (kids : list entry) (p : path) : option (list entry) :=
  match p with
  | [] => Some kids
  | n :: r => match find_dir n kids with Some sub => subtree sub r | None => None end
  end.

Lemma str_eqb_eq a b : str_eqb a b = true <-> a = b.
Proof.
  revert b. induction a as [|x a IH]; destruct b as [|y b]; simpl; split; try discriminate; auto.
  - rewrite andb_true_iff, N.eqb_eq, IH. intros [-> ->]. reflexivity.
  - intros E. injection E as -> ->. rewrite N.eqb_refl. simpl. apply IH. reflexivity.
Qed.
Lemma smem_In x l : smem x l = true <-> In x l.
Proof.
  unfold smem. rewrite existsb_exists. split.
  - intros [y [Hy E]]. apply str_eqb_eq in E. now subst.
  - intros H. exists x. split; [exact H | apply str_eqb_eq; reflexivity].
Qed.

Lemma in_file_names f kids : In f (file_names kids) <-> In (F f) kids.
Proof.
  unfold file_names. rewrite in_flat_map. split.
  - intros [e [He Hf]]. destruct e as [n|n s]; [|destruct Hf]. destruct Hf as [<-|[]]. exact He.
  - intros H. exists (F f). split; [exact H | now left].
Qed.

(* every file path below a directory, including those in pruned directories *)
Fixpoint all_files_e (e : entry) : list path :=
  match e with
  | F n => [[n]]
  | D n kids => map (cons n) ((fix go ks := match ks with [] => [] | k :: r => all_files_e k ++ go r end) kids)
  end.
Definition all_files (kids : list entry) : list path := flat_map all_files_e kids.
