(* ChannelNoise.v — which lines on the child's stderr can be taken for the report header, exactly: a line is a header iff, stripped
   and split at white space, it consists of exactly three fields each of which is an integer literal.  Consequently a line
   that merely ENDS in three integers ("cache statistics: 7 0 0", "1 2 3 4"), or has a non-numeric field, is never a header, and
   the hypothesis "no noise line reads as three integers" of the round-trip theorems is decided by a boolean on the noise. *)
From ZT Require Import Base Channel ChannelFacts.

Definition is_int (f : bytes) : bool := match parse_int f with Some _ => true | None => false end.
Definition looks_like_header (l : bytes) : bool :=
  match split (strip l) with [a; b; c] => is_int a && is_int b && is_int c | _ => false end.

Theorem header_iff_three_integers l : header l <> None <-> looks_like_header l = true.
Proof.
  unfold header, looks_like_header, is_int.
  destruct (split (strip l)) as [|a [|b [|c [|d r]]]]; try (split; [intros H; now contradiction H | discriminate]).
  destruct (parse_int a), (parse_int b), (parse_int c); simpl; split; intros H; try discriminate; try reflexivity;
    try (now contradiction H).
Qed.

Corollary not_three_fields_not_header l : length (split (strip l)) <> 3%nat -> header l = None.
Proof.
  intros H. unfold header.
  destruct (split (strip l)) as [|a [|b [|c [|d r]]]]; try reflexivity. now contradiction H.
Qed.

Corollary non_integer_field_not_header l f : In f (split (strip l)) -> parse_int f = None -> header l = None.
Proof.
  intros Hin Hf. unfold header.
  destruct (split (strip l)) as [|a [|b [|c [|d r]]]]; try reflexivity.
  destruct Hin as [<-|[<-|[<-|[]]]]; rewrite Hf; try reflexivity.
  - destruct (parse_int a); reflexivity.
  - destruct (parse_int a), (parse_int b); reflexivity.
Qed.

(* the round trip with the noise hypothesis as a boolean: any lines, before the report, none of which consists of exactly three
   integer fields *)
Theorem roundtrip_lines_bool noise h ran fails errs trailing :
  forallb (fun l => negb (looks_like_header l)) noise = true ->
  header h = Some (ran, Z.of_nat (length fails), Z.of_nat (length errs)) ->
  parse_lines (noise ++ h :: fails ++ errs ++ trailing) = Report ran (map strip fails) (map strip errs).
Proof.
  intros Hn Hh. apply roundtrip_lines; [|exact Hh].
  intros l Hl. rewrite forallb_forall in Hn. specialize (Hn l Hl).
  destruct (header l) eqn:E; [|reflexivity].
  assert (H : looks_like_header l = true) by (apply header_iff_three_integers; rewrite E; discriminate).
  now rewrite H in Hn.
Qed.

(* lines that end in three integers after other words — the shape a search at the end of the line would take for a header *)
Example trailing_numbers_are_not_a_header :
  let s := fun (t : list N) => t in
  (* "stats: 7 0 0"  and  "1 2 3 4" *)
  header (s [115; 116; 97; 116; 115; 58; 32; 55; 32; 48; 32; 48]%N) = None /\
  header (s [49; 32; 50; 32; 51; 32; 52]%N) = None /\
  header (s [55; 32; 48; 32; 48]%N) = Some (7, 0, 0)%Z.
Proof. vm_compute. repeat split. Qed.
