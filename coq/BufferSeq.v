(* BufferSeq.v — attribution over a whole sequence of tests: the runner's output is the concatenation, in test order, of
   segments each of which is a function of ONE test's own steps (its writes and result events) and of nothing else. *)
From ZT Require Import Base Layers Run RunFacts Buffer BufferFacts.

Section S.
Variable buffer : bool.
Notation step := (bstep_apply buffer).

(* the streams part of the state evolves independently of what has been logged; the log only grows, by an increment that
   depends on the streams part alone *)
Lemma core_step t x s s' : cur s = cur s' -> buf s = buf s' ->
  cur (step t s x) = cur (step t s' x) /\ buf (step t s x) = buf (step t s' x) /\
  exists d, log (step t s x) = log s ++ d /\ log (step t s' x) = log s' ++ d.
Proof.
  intros Hc Hb. destruct x as [| |tok| |r|]; simpl; unfold restore.
  - repeat split; auto. exists []. now rewrite !app_nil_r.
  - repeat split; auto. exists []. now rewrite !app_nil_r.
  - rewrite <- Hc. destruct (cur s); simpl.
    + repeat split; [now rewrite Hb|]. exists []. now rewrite !app_nil_r.
    + repeat split; auto. exists [Direct tok]. auto.
  - repeat split; auto. exists []. now rewrite !app_nil_r.
  - destruct buffer; destruct (reports r); simpl; repeat split; auto.
    + exists [Report t (Some (buf s))]. rewrite Hb. auto.
    + exists []. now rewrite !app_nil_r.
    + exists [Report t None]. auto.
    + exists []. now rewrite !app_nil_r.
  - destruct buffer; simpl; repeat split; auto; exists []; now rewrite !app_nil_r.
Qed.

Lemma core_fold t xs : forall s s', cur s = cur s' -> buf s = buf s' ->
  cur (fold_left (step t) xs s) = cur (fold_left (step t) xs s') /\
  buf (fold_left (step t) xs s) = buf (fold_left (step t) xs s') /\
  exists d, log (fold_left (step t) xs s) = log s ++ d /\ log (fold_left (step t) xs s') = log s' ++ d.
Proof.
  induction xs as [|x xs IH]; simpl; intros s s' Hc Hb.
  - repeat split; auto. exists []. now rewrite !app_nil_r.
  - destruct (core_step t x s s' Hc Hb) as [Hc1 [Hb1 [d1 [Hl1 Hl1']]]].
    destruct (IH _ _ Hc1 Hb1) as [Hc2 [Hb2 [d2 [Hl2 Hl2']]]].
    repeat split; auto. exists (d1 ++ d2). rewrite Hl2, Hl2', Hl1, Hl1', <- !app_assoc. auto.
Qed.

(* between tests nothing is pending: the original streams are installed and the capture buffers are empty *)
Definition idle (s : bstate) : Prop := cur s = false /\ buf s = [].

Lemma nobuf_step t x s : buffer = false -> idle s -> idle (step t s x).
Proof.
  intros Eb [Hc Hb]. destruct x as [| |tok| |r|]; simpl; unfold restore; rewrite ?Eb, ?Hc; simpl;
    try destruct (reports r); simpl; split; auto.
Qed.
Lemma nobuf_fold t xs : forall s, buffer = false -> idle s -> idle (fold_left (step t) xs s).
Proof. induction xs as [|x xs IH]; simpl; intros s Eb H; [exact H | apply IH; [exact Eb | now apply nobuf_step]]. Qed.

Lemma test_ends_idle t xs s : closed xs -> idle s -> idle (fold_left (step t) xs s).
Proof.
  intros [mid [Hxs _]] Hi. destruct (Bool.bool_dec buffer true) as [Eb|Eb].
  - assert (Hlast : forall first q, idle (fold_left (step t) (first :: mid ++ [BStop]) q)).
    { intros first q. simpl. rewrite fold_left_app. simpl. unfold restore. rewrite Eb. simpl. split; reflexivity. }
    destruct Hxs as [->| ->]; apply Hlast.
  - apply Bool.not_true_is_false in Eb. now apply nobuf_fold.
Qed.

Definition out_of (it : nat * list bstep) : list (nat * nat) := flatten_log (log (run_one buffer b_init it)).

Lemma run_one_from_idle it s : idle s ->
  flatten_log (log (run_one buffer s it)) = flatten_log (log s) ++ out_of it.
Proof.
  intros [Hc Hb]. unfold out_of, run_one.
  destruct (core_fold (fst it) (snd it) s b_init Hc Hb) as [_ [_ [d [H1 H2]]]].
  rewrite H1, H2. simpl. apply flatten_app.
Qed.

(* C13, attribution: whatever the sequence of tests and outcomes, the runner's output is the concatenation in test order of
   one segment per test, and the segment of a test is determined by that test's own steps alone *)
Theorem output_is_per_test (ts : list (nat * list bstep)) :
  Forall (fun it => closed (snd it)) ts ->
  flatten_log (log (run_tests buffer ts)) = flat_map out_of ts.
Proof.
  unfold run_tests.
  assert (H : forall s, idle s -> Forall (fun it => closed (snd it)) ts ->
              flatten_log (log (fold_left (run_one buffer) ts s)) = flatten_log (log s) ++ flat_map out_of ts).
  { induction ts as [|it r IH]; simpl; intros s Hi Hall; [now rewrite app_nil_r|].
    inversion Hall as [|? ? Hx Hr]; subst.
    rewrite IH; [|apply test_ends_idle; assumption | exact Hr].
    rewrite run_one_from_idle by exact Hi. now rewrite app_assoc. }
  intros Hall. rewrite H; [reflexivity | split; reflexivity | exact Hall].
Qed.
End S.

(* with --buffer the segment of a test that only passes / skips / fails as expected is empty, and the segment of a test whose
   first result event is a failure or an error is its header followed by everything it wrote, in order *)
Corollary silent_segment t toks r : reports r = false ->
  out_of true (t, BStart :: map BWrite toks ++ [BRes r; BStop]) = [].
Proof.
  intros Hr. unfold out_of, run_one. simpl fst. simpl snd.
  rewrite (passing_test_is_silent t toks r b_init eq_refl Hr). reflexivity.
Qed.

Corollary failing_segment t pre r rest : reports r = true -> Forall is_mid rest ->
  out_of true (t, BStart :: map BWrite pre ++ BRes r :: rest ++ [BStop]) =
  (0, t) :: map (fun k => (1, k)) pre ++ flat_map (vis t) rest.
Proof.
  intros Hr Hm. unfold out_of, run_one. simpl fst. simpl snd.
  rewrite (failing_test_output_complete t pre r rest b_init eq_refl eq_refl Hr Hm). reflexivity.
Qed.
