(* P_C14.v — property theorems for C14 only. *)
From ZT Require Import Base Tree Filter Discover DiscoverFacts.

(* A file is yielded iff it is a test file of its directory (name matches the tests pattern, or the
   test-file pattern inside a package directory whose name matches the tests pattern and that has
   __init__.py) and every directory on the way down is an identifier and not ignored. *)
Theorem C14_found_iff : forall ident tpat fpat ign usecompiled e p,
  In p (walk_e ident tpat fpat ign usecompiled e) <-> is_found ident tpat fpat ign usecompiled e p.
Proof. exact walk_spec. Qed.
Print Assumptions C14_found_iff.

Theorem C14_test_file_rule : forall tpat fpat usecompiled d files f,
  In f (dir_winners tpat fpat usecompiled d files) <-> is_test_file tpat fpat usecompiled d files f.
Proof. exact (dir_winners_spec (fun _ => true)). Qed.
Print Assumptions C14_test_file_rule.

(* Each file once, even when search paths overlap or repeat. *)
Theorem C14_found_once : forall ident tpat fpat ign usecompiled top roots,
  NoDup (found_all ident tpat fpat ign usecompiled top roots).
Proof. exact found_once. Qed.
Print Assumptions C14_found_once.

Theorem C14_repeated_paths_irrelevant : forall ident tpat fpat ign usecompiled top roots roots',
  (forall r, In r roots <-> In r roots') ->
  forall p, In p (found_all ident tpat fpat ign usecompiled top roots) <-> In p (found_all ident tpat fpat ign usecompiled top roots').
Proof. exact found_all_same_set. Qed.
Print Assumptions C14_repeated_paths_irrelevant.

(* Search roots may carry a package (--package-path DIR PKG mounts DIR as PKG; plain search paths carry ''): the files found
   are those of the plain paths, each once, however mounted and plain paths overlap or repeat. *)
From ZT Require Import DiscoverPk.
Theorem C14_mounts_found_once : forall ident tpat fpat ign usecompiled top roots,
  map fst (found_all_pk ident tpat fpat ign usecompiled top roots) = found_all ident tpat fpat ign usecompiled top (map fst roots)
  /\ NoDup (map fst (found_all_pk ident tpat fpat ign usecompiled top roots)).
Proof. intros. split; [apply found_all_pk_paths | apply found_pk_once]. Qed.
Print Assumptions C14_mounts_found_once.

(* Only modules accepted by --module are handed to import: the name is the file's name relative to a search root that carries
   the file's package (the longest such root whose name --module accepts), and --module accepts it. *)
Theorem C14_import_only_accepted : forall ident tpat fpat ign usecompiled top search walk_roots name_roots mpats fp m,
  In (fp, m) (imported_pk ident tpat fpat ign usecompiled top search walk_roots name_roots mpats) ->
  exists k r, In (fp, k) (found_all_pk ident tpat fpat ign usecompiled top walk_roots) /\ In r name_roots /\ snd r = k /\
              name_under usecompiled r fp = Some m /\ accept search mpats m = true.
Proof. exact imported_only_accepted. Qed.
Print Assumptions C14_import_only_accepted.

(* Exactly the matching modules are loaded: every found file has a name (the prefixes cover what is walked), every found file
   with an accepted name is handed to import, and no file is handed over twice. *)
Theorem C14_every_found_file_is_named : forall ident tpat fpat ign usecompiled top walk_roots name_roots p k,
  (forall r, In r walk_roots -> In r name_roots) ->
  In (p, k) (found_all_pk ident tpat fpat ign usecompiled top walk_roots) ->
  exists r m, In r name_roots /\ snd r = k /\ name_under usecompiled r p = Some m /\ module_name_pk usecompiled name_roots p k <> None.
Proof. exact every_found_file_is_named. Qed.
Print Assumptions C14_every_found_file_is_named.

Theorem C14_accepted_file_is_imported_once : forall ident tpat fpat ign usecompiled top search walk_roots name_roots mpats,
  (forall p k r m, In (p, k) (found_all_pk ident tpat fpat ign usecompiled top walk_roots) -> In r name_roots -> snd r = k ->
     name_under usecompiled r p = Some m -> accept search mpats m = true ->
     exists m', In (p, m') (imported_pk ident tpat fpat ign usecompiled top search walk_roots name_roots mpats))
  /\ NoDup (map fst (imported_pk ident tpat fpat ign usecompiled top search walk_roots name_roots mpats)).
Proof. intros. split; [apply accepted_found_file_is_imported | apply imported_once]. Qed.
Print Assumptions C14_accepted_file_is_imported_once.

(* discovery (and hence the default execution order) does not depend on the order in which the file system
   enumerates directory entries: trees that differ only by permuting children, at any depth, are walked alike *)
From ZT Require Import DiscoverPerm.
Theorem C14_enumeration_order_irrelevant : forall ident tpat fpat ign usecompiled e e',
  nd e -> eperm e e' ->
  walk_e ident tpat fpat ign usecompiled (normalize e) = walk_e ident tpat fpat ign usecompiled (normalize e').
Proof. exact walk_enumeration_independent. Qed.
Print Assumptions C14_enumeration_order_irrelevant.
