(* P_C14.v — property theorems for C14 only. *)
From ZT Require Import Base Tree Filter Discover DiscoverFacts.

(* A file is yielded iff it is a test file of its directory (name matches the tests pattern, or the
   test-file pattern inside a package directory whose name matches the tests pattern and that has
   __init__.py) and every directory on the way down is an identifier and not ignored. *)
Theorem C14_found_iff : forall ident tpat fpat ign usecompiled e p,
  In p (walk_e ident tpat fpat ign usecompiled e) <-> is_found ident tpat fpat ign usecompiled e p.
Proof. exact walk_spec. Qed.
Print Assumptions C14_found_iff.

Theorem C14_test_file_rule : forall tpat fpat usecompiled d files f,
  In f (dir_winners tpat fpat usecompiled d files) <-> is_test_file tpat fpat usecompiled d files f.
Proof. exact (dir_winners_spec (fun _ => true)). Qed.
Print Assumptions C14_test_file_rule.

(* Each file once, even when search paths overlap or repeat. *)
Theorem C14_found_once : forall ident tpat fpat ign usecompiled top roots,
  NoDup (found_all ident tpat fpat ign usecompiled top roots).
Proof. exact found_once. Qed.
Print Assumptions C14_found_once.

Theorem C14_repeated_paths_irrelevant : forall ident tpat fpat ign usecompiled top roots roots',
  (forall r, In r roots <-> In r roots') ->
  forall p, In p (found_all ident tpat fpat ign usecompiled top roots) <-> In p (found_all ident tpat fpat ign usecompiled top roots').
Proof. exact found_all_same_set. Qed.
Print Assumptions C14_repeated_paths_irrelevant.

(* Only modules accepted by --module are handed to import. *)
Theorem C14_import_only_accepted : forall ident tpat fpat ign usecompiled top search walk_roots name_roots mpats fp m,
  In (fp, m) (imported ident tpat fpat ign usecompiled top search walk_roots name_roots mpats) ->
  In fp (found_all ident tpat fpat ign usecompiled top walk_roots) /\
  module_name usecompiled name_roots fp = Some m /\ accept search mpats m = true.
Proof. exact imported_only_accepted. Qed.
Print Assumptions C14_import_only_accepted.

(* discovery (and hence the default execution order) does not depend on the order in which the file system
   enumerates directory entries: trees that differ only by permuting children, at any depth, are walked alike *)
From ZT Require Import DiscoverPerm.
Theorem C14_enumeration_order_irrelevant : forall ident tpat fpat ign usecompiled e e',
  nd e -> eperm e e' ->
  walk_e ident tpat fpat ign usecompiled (normalize e) = walk_e ident tpat fpat ign usecompiled (normalize e').
Proof. exact walk_enumeration_independent. Qed.
Print Assumptions C14_enumeration_order_irrelevant.
