(* P_C11.v — property theorems for C11 only. *)
From ZT Require Import Base Shuffle ShuffleFacts.
From Coq Require Import Permutation.

(* Inside one layer the shuffle is a permutation: nothing dropped, nothing duplicated. *)
Theorem C11_layer_permutation : forall (A : Type) (l l' : list A) ks ks',
  shuffle_layer l ks = Some (l', ks') -> Permutation l l'.
Proof. exact @shuffle_layer_perm. Qed.
Print Assumptions C11_layer_permutation.

(* Never across layers: every layer keeps its name and receives a permutation of its own tests. *)
Theorem C11_within_layers : forall (A : Type) (ls ls' : list (str * list A)) ks,
  shuffle_all ls ks = Some ls' ->
  forall n t, In (n, t) ls -> exists t', In (n, t') ls' /\ Permutation t t'.
Proof. exact @shuffle_all_within. Qed.
Print Assumptions C11_within_layers.

Theorem C11_no_layer_added_or_lost : forall (A : Type) (ls ls' : list (str * list A)) ks,
  shuffle_all ls ks = Some ls' -> length ls' = length ls /\ Permutation (map fst ls') (map fst ls).
Proof. exact @shuffle_all_nothing_else. Qed.
Print Assumptions C11_no_layer_added_or_lost.

(* floor(random() * (i+1)) computed in double precision never exceeds i — for every 53-bit
   mantissa and every list length, so the exchange loop cannot raise IndexError. *)
Theorem C11_pick_in_range : forall k i, (k < 2^53)%N -> (pick k i <= i)%nat.
Proof. exact pick_in_range. Qed.
Print Assumptions C11_pick_in_range.

Theorem C11_no_error : forall (A : Type) (l : list A) ks,
  (length l - 1 <= length ks)%nat -> (forall k, In k ks -> (k < 2^53)%N) ->
  exists r, shuffle_layer l ks = Some r.
Proof. exact @shuffle_layer_no_error. Qed.
Print Assumptions C11_no_error.

(* With the same seed and the same discovered tests the order is identical whatever order the layers were discovered in … *)
From ZT Require Import ShuffleOrder.
Theorem C11_independent_of_discovery_order : forall (A : Type) (ls ls' : list (str * list A)) ks,
  NoDup (map fst ls) -> Permutation ls ls' -> shuffle_all ls ks = shuffle_all ls' ks.
Proof. exact @shuffle_independent_of_discovery_order. Qed.
Print Assumptions C11_independent_of_discovery_order.

(* … and in every process of a run: each one shuffles all it discovered and narrows down afterwards (--layer, the layer of a
   resumed or -j child, --list-tests), so a layer kept by two processes has the same order in both. *)
Theorem C11_same_order_in_every_process : forall (A : Type) keep1 keep2 (ls : list (str * list A)) ks v1 v2 n,
  process_view keep1 ls ks = Some v1 -> process_view keep2 ls ks = Some v2 ->
  keep1 n = true -> keep2 n = true -> alookup n v1 = alookup n v2.
Proof. exact @kept_layer_has_the_unfiltered_order. Qed.
Print Assumptions C11_same_order_in_every_process.

(* (a process that shuffled only its own layer would not: the numbers a layer receives depend on the layers before it) *)
Theorem C11_shuffling_only_the_own_layer_refuted :
  let ls := [([65%N], [1; 2; 3]%N); ([66%N], [4; 5; 6]%N)] in
  let ks := [2 ^ 52; 0; 2 ^ 52 + 2 ^ 51; 1]%N in
  exists a b, shuffle_all ls ks = Some a /\ shuffle_all (filter (fun p => str_eqb (fst p) [66%N]) ls) ks = Some b /\
              alookup [66%N] a <> alookup [66%N] b.
Proof. exact shuffling_only_the_own_layer_differs. Qed.
Print Assumptions C11_shuffling_only_the_own_layer_refuted.
