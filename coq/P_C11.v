(* P_C11.v — property theorems for C11 only. *)
From ZT Require Import Base Shuffle ShuffleFacts.
From Coq Require Import Permutation.

(* Inside one layer the shuffle is a permutation: nothing dropped, nothing duplicated. *)
Theorem C11_layer_permutation : forall (A : Type) (l l' : list A) ks ks',
  shuffle_layer l ks = Some (l', ks') -> Permutation l l'.
Proof. exact @shuffle_layer_perm. Qed.
Print Assumptions C11_layer_permutation.

(* Never across layers: every layer keeps its name and receives a permutation of its own tests. *)
Theorem C11_within_layers : forall (A : Type) (ls ls' : list (str * list A)) ks,
  shuffle_all ls ks = Some ls' ->
  forall n t, In (n, t) ls -> exists t', In (n, t') ls' /\ Permutation t t'.
Proof. exact @shuffle_all_within. Qed.
Print Assumptions C11_within_layers.

Theorem C11_no_layer_added_or_lost : forall (A : Type) (ls ls' : list (str * list A)) ks,
  shuffle_all ls ks = Some ls' -> length ls' = length ls /\ Permutation (map fst ls') (map fst ls).
Proof. exact @shuffle_all_nothing_else. Qed.
Print Assumptions C11_no_layer_added_or_lost.

(* floor(random() * (i+1)) computed in double precision never exceeds i — for every 53-bit
   mantissa and every list length, so the exchange loop cannot raise IndexError. *)
Theorem C11_pick_in_range : forall k i, (k < 2^53)%N -> (pick k i <= i)%nat.
Proof. exact pick_in_range. Qed.
Print Assumptions C11_pick_in_range.

Theorem C11_no_error : forall (A : Type) (l : list A) ks,
  (length l - 1 <= length ks)%nat -> (forall k, In k ks -> (k < 2^53)%N) ->
  exists r, shuffle_layer l ks = Some r.
Proof. exact @shuffle_layer_no_error. Qed.
Print Assumptions C11_no_error.
