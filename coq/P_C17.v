(* P_C17.v — property theorems for C17 only. *)
From ZT Require Import Base Xml XmlFacts.

(* Whatever characters occur in names, messages and tracebacks, what is written as element text and as attribute
   values is well-formed XML content … *)
Theorem C17_text_wellformed : forall s, wf_toks false (ser_text (xml_safe s)) = true.
Proof. exact text_wellformed. Qed.
Print Assumptions C17_text_wellformed.
Theorem C17_attr_wellformed : forall s, wf_toks true (ser_attr (xml_safe s)) = true.
Proof. exact attr_wellformed. Qed.
Print Assumptions C17_attr_wellformed.

(* … which is false without the sanitiser (the defect that was repaired) … *)
Theorem C17_unsanitised_refuted : exists s, wf_toks false (ser_text s) = false.
Proof. exact text_wellformed_unsanitised_refuted. Qed.
Print Assumptions C17_unsanitised_refuted.

(* … and a parser reads back exactly the (sanitised) string. *)
Theorem C17_text_roundtrip : forall s, map unser (ser_text s) = s.
Proof. exact text_roundtrip. Qed.
Print Assumptions C17_text_roundtrip.
Theorem C17_attr_roundtrip : forall s, map unser (ser_attr s) = s.
Proof. exact attr_roundtrip. Qed.
Print Assumptions C17_attr_roundtrip.

(* Each suite's tests / errors / failures attributes equal the numbers of its testcase, error and failure elements. *)
Theorem C17_counts : forall sc, let r := report sc in
  s_tests r = length (s_cases r)
  /\ s_errors r = length (filter (fun c => match snd c with Some (XErr, _, _) => true | _ => false end) (s_cases r))
  /\ s_failures r = length (filter (fun c => match snd c with Some (XFail, _, _) => true | _ => false end) (s_cases r)).
Proof. exact report_counts. Qed.
Print Assumptions C17_counts.

(* Every recorded event (pass, failure, error) becomes exactly one testcase, with its own class and name, in the
   suite of its class, in event order: a passing test appears exactly once per iteration. *)
Theorem C17_each_event_one_testcase : forall evs k,
  cases_of k (record evs) =
  map (fun e => {| c_class := x_class e; c_name := x_name e; c_kind := x_kind e; c_msg := x_msg e |})
      (filter (fun e => str_eqb k (x_suite e)) evs).
Proof. exact record_cases. Qed.
Print Assumptions C17_each_event_one_testcase.
