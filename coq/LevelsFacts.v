From ZT Require Import Base Filter FilterFacts Levels.
Open Scope Z_scope.

(* induction principle for the nested type *)
Section SuiteInd.
Variable P : suite -> Prop.
Hypothesis HC : forall lv ly id, P (Case lv ly id).
Hypothesis HS : forall lv ly kids, Forall P kids -> P (Suite lv ly kids).
Hypothesis HU : forall id, P (StartUp id).
Fixpoint suite_ind' (s : suite) : P s :=
  match s with
  | Case lv ly id => HC lv ly id
  | Suite lv ly kids => HS lv ly kids
      ((fix go (ks : list suite) : Forall P ks :=
          match ks with [] => Forall_nil _ | k :: r => Forall_cons k (suite_ind' k) (go r) end) kids)
  | StartUp id => HU id
  end.
End SuiteInd.

Lemma nearest_snoc {A} (l : list (option A)) o d : nearest (l ++ [o]) d = dflt o (nearest l d).
Proof. revert d. induction l as [|x l IH]; simpl; intros d; [reflexivity | apply IH]. Qed.

(* "the nearest declaration wins": tests_from_suite's downward inheritance computes, for every
   test, the innermost declaration on its path (default level 1 / unit layer are dl / dly) *)
Theorem nearest_wins_gen : forall s p dl dly,
  map (resolve dl dly) (leaves p s) = flatten (nearest (map fst p) dl) (nearest (map snd p) dly) s.
Proof.
  induction s as [lv ly id | lv ly kids IH | id] using suite_ind'; intros p dl dly; simpl.
  - unfold resolve. simpl. rewrite !map_app. simpl. rewrite !nearest_snoc. reflexivity.
  - induction IH as [|k r Hk _ IHr]; simpl; [reflexivity|].
    rewrite map_app. rewrite IHr. f_equal.
    rewrite Hk. rewrite !map_app. simpl. rewrite !nearest_snoc. reflexivity.
  - reflexivity.
Qed.

Theorem nearest_wins s dl dly : flatten dl dly s = map (resolve dl dly) (leaves [] s).
Proof. rewrite nearest_wins_gen. reflexivity. Qed.

(* every test is listed exactly once, in tree order, whatever the declarations *)
Fixpoint ids (s : suite) : list nat :=
  match s with
  | Case _ _ id => [id]
  | Suite _ _ kids => (fix go ks := match ks with [] => [] | k :: r => ids k ++ go r end) kids
  | StartUp id => [id]
  end.
Theorem flatten_ids : forall s dl dly, map (fun it : item => fst (fst it)) (flatten dl dly s) = ids s.
Proof.
  induction s as [lv ly id | lv ly kids IH | id] using suite_ind'; intros dl dly; simpl; try reflexivity.
  induction IH as [|k r Hk _ IHr]; simpl; [reflexivity|]. rewrite map_app, Hk, IHr. reflexivity.
Qed.

(* ---- level eligibility ---- *)
Theorem eligible_spec o lvl :
  eligible (post o) lvl = true <->
  match only_level o with
  | Some k => lvl = k
  | None => if all o then (lvl <= maxsize) else (at_level o <= 0 \/ lvl <= at_level o)
  end.
Proof.
  unfold eligible, post. simpl. destruct (only_level o) as [k|].
  - apply Z.eqb_eq.
  - destruct (all o); rewrite orb_true_iff, !Z.leb_le; unfold maxsize; lia.
Qed.

Corollary all_any_level o lvl :
  all o = true -> only_level o = None -> lvl <= maxsize -> eligible (post o) lvl = true.
Proof. intros Ha Ho Hl. apply eligible_spec. rewrite Ho, Ha. exact Hl. Qed.

Corollary at_level_nonpositive_any_level o lvl :
  all o = false -> only_level o = None -> at_level o <= 0 -> eligible (post o) lvl = true.
Proof. intros Ha Ho Hl. apply eligible_spec. rewrite Ho, Ha. now left. Qed.

(* with --all, "any level" stops at sys.maxsize: documented corner *)
Theorem all_levels_refuted :
  exists o lvl, all o = true /\ only_level o = None /\ eligible (post o) lvl = false.
Proof.
  exists {| at_level := 1; all := true; only_level := None; unit := false; non_unit := false; layer_pats := [] |},
         (maxsize + 1). repeat split; reflexivity.
Qed.

(* ---- unit switches ---- *)
Section U.
Variable search : str -> str -> bool.
(* the reserved name used as a pattern (search mode, unescaped dots) matches exactly itself *)
Definition unit_pat_exact (present : list str) : Prop :=
  forall n, In n present -> (search unit_name n = true <-> n = unit_name).

Lemma str_eqb_eq a b : str_eqb a b = true <-> a = b.
Proof.
  revert b. induction a as [|x a IH]; destruct b as [|y b]; simpl; split; try discriminate; auto.
  - rewrite andb_true_iff, N.eqb_eq, IH. intros [-> ->]. reflexivity.
  - intros E. injection E as -> ->. rewrite N.eqb_refl. simpl. apply IH. reflexivity.
Qed.

Lemma is_neg_unit : is_neg unit_name = false. Proof. reflexivity. Qed.

Lemma accept_single p n : is_neg p = false -> accept search [p] n = search p n.
Proof.
  intros Hp. unfold accept, selected', selected, unselected. simpl. rewrite Hp. simpl.
  rewrite orb_false_r, andb_true_r. reflexivity.
Qed.

(* -u keeps only the unit-test layer *)
Theorem unit_only o present :
  unit o = true -> non_unit o = false -> unit_pat_exact present ->
  forall n, In n (keep_layers search (post o) present) <-> (In n present /\ n = unit_name).
Proof.
  intros Hu Hf Hex n. unfold keep_layers, post. simpl. rewrite Hu, Hf. simpl.
  destruct (negb (accept search [unit_name] unit_name)) eqn:Ea.
  - rewrite filter_In, filter_In, accept_single by reflexivity. rewrite negb_true_iff.
    split.
    + intros [[H1 H2] H3]. split; [exact H1|]. apply Hex; assumption.
    + intros [H1 ->]. exfalso. rewrite negb_true_iff, accept_single in Ea by reflexivity.
      assert (search unit_name unit_name = true) by (apply Hex; auto). congruence.
  - rewrite filter_In, accept_single by reflexivity. split.
    + intros [H1 H2]. split; [exact H1|]. apply Hex; assumption.
    + intros [H1 ->]. split; [exact H1|]. apply Hex; auto.
Qed.

(* -f drops exactly the unit-test layer (no --layer given) *)
Theorem non_unit_drops_unit o present :
  non_unit o = true -> unit o = false -> layer_pats o = [] ->
  forall n, In n (keep_layers search (post o) present) <-> (In n present /\ n <> unit_name).
Proof.
  intros Hf Hu Hl n. unfold keep_layers, post. simpl. rewrite Hu, Hf, Hl. simpl.
  rewrite filter_In, negb_true_iff. rewrite <- not_true_iff_false, str_eqb_eq. tauto.
Qed.

(* -u -f together keep everything (no --layer given) *)
Theorem both_keep_everything o present :
  unit o = true -> non_unit o = true -> layer_pats o = [] ->
  keep_layers search (post o) present = present.
Proof. intros Hu Hf Hl. unfold keep_layers, post. simpl. rewrite Hu, Hf, Hl. reflexivity. Qed.

(* neither switch, no --layer: everything *)
Theorem neither_keep_everything o present :
  unit o = false -> non_unit o = false -> layer_pats o = [] ->
  keep_layers search (post o) present = present.
Proof. intros Hu Hf Hl. unfold keep_layers, post. simpl. rewrite Hu, Hf, Hl. reflexivity. Qed.

(* --layer P: exactly the names the C08 predicate accepts (the unit layer like any other) *)
Theorem layer_patterns o present :
  unit o = false -> non_unit o = false -> layer_pats o <> [] ->
  forall n, In n (keep_layers search (post o) present) <-> (In n present /\ accept search (layer_pats o) n = true).
Proof.
  intros Hu Hf Hl n. unfold keep_layers, post. simpl. rewrite Hu, Hf. simpl.
  destruct (layer_pats o) as [|p ps] eqn:E; [congruence|].
  destruct (negb (accept search (p :: ps) unit_name)) eqn:Ea; rewrite !filter_In; [|tauto].
  rewrite negb_true_iff in Ea |- *. split; [tauto|]. intros [H1 H2]. split; [split; [exact H1|]|exact H2].
  destruct (str_eqb n unit_name) eqn:En; [|reflexivity]. apply str_eqb_eq in En. subst n. congruence.
Qed.
(* -f together with --layer P: the names P accepts, never the unit-test layer — whatever P says about it *)
Theorem non_unit_with_layer_patterns o present :
  non_unit o = true -> unit o = false ->
  forall n, In n (keep_layers search (post o) present) <->
            (In n present /\ n <> unit_name /\ (layer_pats o = [] \/ accept search (layer_pats o) n = true)).
Proof.
  intros Hf Hu n. unfold keep_layers, post. simpl. rewrite Hu, Hf. simpl.
  destruct (layer_pats o) as [|p ps] eqn:E.
  - rewrite filter_In, negb_true_iff. rewrite <- not_true_iff_false, str_eqb_eq. tauto.
  - rewrite !filter_In, negb_true_iff. rewrite <- not_true_iff_false, str_eqb_eq.
    split; [intros [[H1 H2] H3]; auto|]. intros [H1 [H2 [H3|H3]]]; [discriminate | auto].
Qed.
End U.

(* documented corner: the reserved name is used as a regex in search mode *)
Definition ex_search2 (p v : str) : bool :=
  (* toy oracle: p matches v when p is a prefix of some suffix of v, '.' matching anything *)
  let fix pre (p v : str) : bool :=
    match p, v with
    | [], _ => true
    | _ :: _, [] => false
    | a :: p', b :: v' => (N.eqb a 46 || N.eqb a b) && pre p' v'
    end in
  let fix anywhere (v : str) : bool :=
    pre p v || match v with [] => false | _ :: v' => anywhere v' end in
  anywhere v.
Theorem unit_only_refuted :
  exists present n, In n (keep_layers ex_search2
      (post {| at_level := 1; all := false; only_level := None; unit := true; non_unit := false; layer_pats := [] |})
      present) /\ n <> unit_name.
Proof.
  exists [unit_name ++ [88%N]], (unit_name ++ [88%N]). split; [vm_compute; auto | discriminate].
Qed.

Example nearest_example :
  flatten 1 0 (Suite (Some 2) (Some 5%nat) [Case None None 7%nat; Suite None (Some 6%nat) [Case (Some 3) None 8%nat]])
  = [(7%nat, 2, Some 5%nat); (8%nat, 3, Some 6%nat)].
Proof. reflexivity. Qed.
