From ZT Require Import Base Tree Filter Discover BytecodeFacts.

Section D.
Variables ident tpat fpat : str -> bool.
Variable ign : list str.
Variable usecompiled : bool.
Notation stem := (stem usecompiled).
Notation walk_e := (walk_e ident tpat fpat ign usecompiled).
Notation dir_winners := (dir_winners tpat fpat usecompiled).

(* a file of directory d (with file names `files`) is a test file *)
Definition is_test_file (d : str) (files : list str) (f : str) : Prop :=
  In f files /\
  (exists s, stem f = Some s /\ s <> [] /\
     (tpat s = true \/ (fpat s = true /\ tpat d = true /\ contains_init usecompiled files = true))) /\
  (* with --usecompiled, x.pyc is shadowed by x.py *)
  ~ (ends_with s_pyc' f = true /\ ends_with s_py f = false /\ In (chop 4 f ++ s_py) files).

Lemma nonempty_spec s : nonempty s = true <-> s <> [].
Proof. destruct s; simpl; split; congruence. Qed.

Lemma dir_winners_spec d files f : In f (dir_winners d files) <-> is_test_file d files f.
Proof.
  unfold Discover.dir_winners, is_test_file. rewrite filter_In, andb_true_iff, negb_true_iff.
  rewrite <- not_true_iff_false, !andb_true_iff, negb_true_iff, smem_In.
  split.
  - intros [Hin [Hc Hn]]. split; [exact Hin|]. split; [|tauto].
    destruct (stem f) as [s|]; [|discriminate]. exists s. split; [reflexivity|].
    apply andb_true_iff in Hc. destruct Hc as [Hne Hp]. split; [apply nonempty_spec; exact Hne|].
    apply orb_true_iff in Hp. destruct Hp as [Hp|Hp]; [left; exact Hp|right].
    rewrite !andb_true_iff in Hp. tauto.
  - intros [Hin [[s [Hs [Hne Hp]]] Hn]]. split; [exact Hin|]. split; [|tauto].
    rewrite Hs. apply andb_true_iff. split; [apply nonempty_spec; exact Hne|].
    apply orb_true_iff. destruct Hp as [Hp|[H1 [H2 H3]]]; [left; exact Hp|right]. rewrite H1, H2, H3. reflexivity.
Qed.

(* reached through directories whose names are identifiers and not ignored *)
Inductive is_found : entry -> path -> Prop :=
| found_here n kids f : is_test_file n (file_names kids) f -> is_found (D n kids) [n; f]
| found_down n kids m sub q : In (D m sub) kids -> descend ident ign m = true ->
    is_found (D m sub) q -> is_found (D n kids) (n :: q).

Lemma go_spec (W : entry -> list path) kids q :
  In q ((fix go ks := match ks with
                      | [] => []
                      | k :: r => (match k with D m _ => if descend ident ign m then W k else [] | F _ => [] end) ++ go r
                      end) kids)
  <-> exists m sub, In (D m sub) kids /\ descend ident ign m = true /\ In q (W (D m sub)).
Proof.
  induction kids as [|k r IH]; simpl.
  - split; [tauto | intros [m [sub [[] _]]]].
  - rewrite in_app_iff, IH. split.
    + intros [H|[m [sub [H1 H2]]]].
      * destruct k as [n|m sub]; [destruct H|]. destruct (descend ident ign m) eqn:Ed; [|destruct H].
        exists m, sub. auto.
      * exists m, sub. tauto.
    + intros [m [sub [[->|H1] [H2 H3]]]].
      * left. rewrite H2. exact H3.
      * right. exists m, sub. auto.
Qed.

Theorem walk_spec : forall e p, In p (walk_e e) <-> is_found e p.
Proof.
  induction e as [n|n kids IH] using entry_ind'; intros p.
  - simpl. split; [tauto | intros H; inversion H].
  - simpl. rewrite in_map_iff. split.
    + intros [q [<- Hq]]. apply in_app_iff in Hq. destruct Hq as [Hq|Hq].
      * apply in_map_iff in Hq. destruct Hq as [f [<- Hf]]. apply found_here. apply dir_winners_spec. exact Hf.
      * apply go_spec in Hq. destruct Hq as [m [sub [H1 [H2 H3]]]].
        eapply found_down; eauto. rewrite Forall_forall in IH. apply (IH _ H1). exact H3.
    + intros H. inversion H as [n0 k0 f Hf|n0 k0 m sub q H1 H2 H3]; subst.
      * exists [f]. split; [reflexivity|]. apply in_app_iff. left. apply in_map_iff. exists f.
        split; [reflexivity | apply dir_winners_spec; exact Hf].
      * exists q. split; [reflexivity|]. apply in_app_iff. right. apply go_spec. exists m, sub.
        split; [exact H1|]. split; [exact H2|]. rewrite Forall_forall in IH. apply (IH _ H1). exact H3.
Qed.
End D.

(* ---- each file once, however the search paths overlap or repeat ---- *)
Lemma path_eqb_eq a b : path_eqb a b = true <-> a = b.
Proof.
  unfold path_eqb. revert b. induction a as [|x a IH]; destruct b as [|y b]; simpl; split; try discriminate; auto.
  - rewrite andb_true_iff, str_eqb_eq, IH. intros [-> ->]. reflexivity.
  - intros E. injection E as -> ->. rewrite andb_true_iff, IH. split; [apply str_eqb_eq|]; reflexivity.
Qed.
Lemma pmem_In p l : existsb (path_eqb p) l = true <-> In p l.
Proof.
  rewrite existsb_exists. split.
  - intros [q [Hq E]]. apply path_eqb_eq in E. now subst.
  - intros H. exists p. split; [exact H | apply path_eqb_eq; reflexivity].
Qed.

Lemma dedup_paths_in p : forall l seen, In p (dedup_paths l seen) <-> In p l /\ ~ In p seen.
Proof.
  induction l as [|a l IH]; simpl; intros seen; [tauto|].
  destruct (existsb (path_eqb a) seen) eqn:E.
  - apply pmem_In in E. rewrite IH. split; [tauto|]. intros [[->|H] Hn]; tauto.
  - assert (Hn : ~ In a seen) by (rewrite <- pmem_In; congruence).
    simpl. rewrite IH. simpl. split.
    + intros [->|[H1 H2]]; tauto.
    + intros [[->|H1] H2]; [now left|]. destruct (list_eq_dec (list_eq_dec N.eq_dec) a p); [now left | right; tauto].
Qed.
Lemma dedup_paths_nodup : forall l seen, NoDup (dedup_paths l seen).
Proof.
  induction l as [|a l IH]; simpl; intros seen; [constructor|].
  destruct (existsb (path_eqb a) seen); [apply IH|]. constructor; [|apply IH].
  rewrite dedup_paths_in. simpl. tauto.
Qed.

Section R.
Variables ident tpat fpat : str -> bool.
Variable ign : list str.
Variable usecompiled : bool.
Variable top : entry.
Notation found_all := (found_all ident tpat fpat ign usecompiled top).
Notation found_root := (found_root ident tpat fpat ign usecompiled top).

Theorem found_once roots : NoDup (found_all roots).
Proof. apply dedup_paths_nodup. Qed.

Theorem found_all_in roots p : In p (found_all roots) <-> exists r, In r roots /\ In p (found_root r).
Proof. unfold Discover.found_all. rewrite dedup_paths_in, in_flat_map. simpl. tauto. Qed.

(* repeating or reordering search paths changes nothing but (possibly) the order *)
Corollary found_all_same_set roots roots' :
  (forall r, In r roots <-> In r roots') -> forall p, In p (found_all roots) <-> In p (found_all roots').
Proof.
  intros H p. rewrite !found_all_in. split; intros [r [H1 H2]]; exists r; split; auto; apply H; auto.
Qed.

End R.
