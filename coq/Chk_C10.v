(* Chk_C10.v — case type and checker for C10 (layer run order). *)
From ZT Require Import Base Layers.

Record case := {
  w : world;
  ls : list nat;          (* requested layers, in discovery order (duplicates possible) *)
  ls2 : list nat;         (* the same layers in another order *)
  r1 : list nat;          (* implementation: order_by_bases(ls), hash seed A *)
  r2 : list nat           (* implementation: order_by_bases(ls2), hash seed B *)
}.

Definition nats_eqb := list_eqb Nat.eqb.
Definition strict_base (w : world) (l b : nat) : bool :=
  negb (Nat.eqb l b) && mem b (gather_layers w l).

(* every strict base of x that occurs in the list occurs before x *)
Fixpoint bases_first (w : world) (seen rest : list nat) (all : list nat) : bool :=
  match rest with
  | [] => true
  | x :: r => forallb (fun b => negb (strict_base w x b) || mem b seen) all && bases_first w (x :: seen) r all
  end.

Fixpoint nodupb (l : list nat) : bool :=
  match l with [] => true | x :: r => negb (mem x r) && nodupb r end.

Definition unit_ok (w : world) (ls r : list nat) : bool :=
  match unit_layer w with
  | Some u => if mem u ls then match r with x :: _ => Nat.eqb x u | [] => false end else true
  | None => true
  end.

Definition c10_ok (c : case) : bool :=
  nodupb (r1 c) && seteq (r1 c) (ls c)
  && bases_first (w c) [] (r1 c) (r1 c)
  && unit_ok (w c) (ls c) (r1 c)
  && nats_eqb (r1 c) (r2 c).

(* hypotheses of the theorems: well-formed DAG, distinct names, unit layer without bases *)
Fixpoint strs_nodup (l : list str) : bool :=
  match l with [] => true | x :: r => negb (smem x r) && strs_nodup r end.
Definition hyps (c : case) : bool :=
  wf_world (w c) && strs_nodup (names (w c))
  && forallb (fun x => Nat.ltb x (nlayers (w c))) (ls c)
  && match unit_layer (w c) with Some u => match bases_of (w c) u with [] => true | _ => false end | None => true end.

Definition check (c : case) : nat :=
  bit (negb (nats_eqb (order_by_bases (w c) (ls c)) (r1 c) && nats_eqb (order_by_bases (w c) (ls2 c)) (r2 c))) 1
  + bit (negb (c10_ok c)) 2
  + bit (negb (hyps c)) 4.
