(* Chk_C18.v — case type and checker for C18 (interpreter-global state restored). *)
From ZT Require Import Base Restore RestorePhases RestoreTagged.

Record case := {
  feats : list (list (nat * nat));   (* active features in set-up order: (field, installed value code) *)
  feats3 : list feature3;            (* the same writes with the phase in which each is made and undone (RestorePhases.run3) *)
  g_before : gstate;                 (* observed before Runner.run() *)
  g_probe : option gstate;           (* observed by a test body during the test phase, when one ran *)
  probe_fields : list nat;           (* fields whose in-phase value the model predicts *)
  g_after : gstate;                  (* observed after Runner.run() returned or raised *)
  all_fields : list nat
}.

Definition during (c : case) : gstate :=
  fold_left (fun g ws => fst (install ws g)) (feats c) (g_before c).

Definition same_on (fs : list nat) (a b : gstate) : bool := forallb (fun f => Nat.eqb (gget a f) (gget b f)) fs.

Definition check (c : case) : nat :=
  bit (negb (match g_probe c with Some p => same_on (probe_fields c) (during c) p | None => true end
             && same_on (all_fields c)
                  (with_features (map (fun ws => {| f_writes := ws |}) (feats c)) (fun g => g) (g_before c)) (g_after c)
             && match g_probe c with Some p => same_on (probe_fields c) (during3 (feats3 c) (g_before c)) p | None => true end
             && same_on (all_fields c) (run3 (feats3 c) (fun g => g) (g_before c)) (g_after c)
             && same_on (all_fields c) (run4 (feats3 c) (fun g => g) (g_before c)) (g_after c)
             && list_eqb (list_eqb (fun a b => Nat.eqb (fst a) (fst b) && Nat.eqb (snd a) (snd b))) (feats c) (map wpairs (feats3 c)))) 1
  + bit (negb (disjoint_writes (feats3 c))) 4
  + bit (negb (same_on (all_fields c) (g_before c) (g_after c))) 2.
