From ZT Require Import Base Shuffle.
From Coq Require Import Permutation.

Section L.
Context {A : Type}.

Lemma set_nth_length (l : list A) n x : length (set_nth l n x) = length l.
Proof. revert n. induction l as [|y r IH]; intros [|n]; simpl; auto. Qed.

Lemma nth_error_set_nth_eq (l : list A) n x : (n < length l)%nat -> nth_error (set_nth l n x) n = Some x.
Proof. revert n. induction l as [|y r IH]; intros [|n]; simpl; intros H; try lia; auto; try (apply IH; lia). Qed.

Lemma nth_error_set_nth_ne (l : list A) n m x : n <> m -> nth_error (set_nth l n x) m = nth_error l m.
Proof.
  revert n m. induction l as [|y r IH]; intros [|n] [|m]; simpl; intros H; auto; try congruence;
    try (apply IH; congruence).
Qed.

(* a swap is a permutation *)
Lemma swap_perm (l l' : list A) i j : swap l i j = Some l' -> Permutation l l'.
Proof.
  unfold swap. destruct (nth_error l i) as [a|] eqn:Ei; [|discriminate].
  destruct (nth_error l j) as [b|] eqn:Ej; [|discriminate]. intros E. injection E as <-.
  revert i j a b Ei Ej. induction l as [|x l IH]; intros i j a b Ei Ej; [destruct i; discriminate|].
  destruct i as [|i]; destruct j as [|j]; simpl in *.
  - injection Ei as ->. injection Ej as ->. apply Permutation_refl.
  - injection Ei as ->.
    (* x at 0, b at S j :  b :: set_nth l j x *)
    clear IH. revert j Ej. induction l as [|y l IHl]; intros j Ej; [destruct j; discriminate|].
    destruct j as [|j]; simpl in *.
    + injection Ej as ->. apply perm_swap.
    + specialize (IHl j Ej).
      eapply perm_trans; [apply perm_swap|]. eapply perm_trans; [apply perm_skip; exact IHl|]. apply perm_swap.
  - injection Ej as ->.
    clear IH. revert i Ei. induction l as [|y l IHl]; intros i Ei; [destruct i; discriminate|].
    destruct i as [|i]; simpl in *.
    + injection Ei as ->. apply perm_swap.
    + specialize (IHl i Ei).
      eapply perm_trans; [apply perm_swap|]. eapply perm_trans; [apply perm_skip; exact IHl|]. apply perm_swap.
  - apply perm_skip. apply IH; assumption.
Qed.

Lemma loop_perm : forall i (l l' : list A) ks ks', loop i l ks = Some (l', ks') -> Permutation l l'.
Proof.
  induction i as [|i IH]; simpl; intros l l' ks ks' E.
  - injection E as <- _. apply Permutation_refl.
  - destruct ks as [|k ks0]; [discriminate|].
    destruct (swap l (S i) (pick k (S i))) as [l1|] eqn:Es; [|discriminate].
    eapply perm_trans; [eapply swap_perm; exact Es | eapply IH; exact E].
Qed.

(* within one layer: a permutation — nothing dropped, nothing duplicated *)
Theorem shuffle_layer_perm (l l' : list A) ks ks' :
  shuffle_layer l ks = Some (l', ks') -> Permutation l l'.
Proof. apply loop_perm. Qed.

(* number of random numbers consumed: max(len - 1, 0), whatever their values *)
Lemma loop_consumes : forall i (l l' : list A) ks ks', loop i l ks = Some (l', ks') ->
  exists used, ks = used ++ ks' /\ length used = i.
Proof.
  induction i as [|i IH]; simpl; intros l l' ks ks' E.
  - injection E as _ <-. exists []. auto.
  - destruct ks as [|k ks0]; [discriminate|].
    destruct (swap l (S i) (pick k (S i))) as [l1|]; [|discriminate].
    destruct (IH _ _ _ _ E) as [u [-> Hu]]. exists (k :: u). simpl. auto.
Qed.

(* across layers: layer names and their order are untouched, each layer is permuted within itself *)
Theorem shuffle_layers_within : forall (ls ls' : list (str * list A)) ks,
  shuffle_layers ls ks = Some ls' ->
  Forall2 (fun a b => fst a = fst b /\ Permutation (snd a) (snd b)) ls ls'.
Proof.
  induction ls as [|[n t] r IH]; simpl; intros ls' ks E.
  - injection E as <-. constructor.
  - destruct (shuffle_layer t ks) as [[t' ks1]|] eqn:E1; [|discriminate].
    destruct (shuffle_layers r ks1) as [r'|] eqn:E2; [|discriminate]. injection E as <-.
    constructor; [split; [reflexivity | eapply shuffle_layer_perm; exact E1] | eapply IH; exact E2].
Qed.

(* no IndexError as long as every pick stays in range and the oracle is long enough *)
Lemma swap_some (l : list A) i j : (i < length l)%nat -> (j < length l)%nat -> exists l', swap l i j = Some l' /\ length l' = length l.
Proof.
  intros Hi Hj. unfold swap.
  destruct (nth_error l i) as [a|] eqn:Ei; [|apply nth_error_None in Ei; lia].
  destruct (nth_error l j) as [b|] eqn:Ej; [|apply nth_error_None in Ej; lia].
  eexists. split; [reflexivity|]. now rewrite !set_nth_length.
Qed.

Theorem loop_no_error : forall i (l : list A) ks,
  (i < length l)%nat -> (i <= length ks)%nat ->
  (forall m k, (m <= i)%nat -> In k ks -> (pick k m <= m)%nat) ->
  exists r, loop i l ks = Some r.
Proof.
  induction i as [|i IH]; simpl; intros l ks Hl Hk Hp; [eauto|].
  destruct ks as [|k ks0]; [simpl in Hk; lia|].
  assert (Hj : (pick k (S i) <= S i)%nat) by (apply Hp; [lia | now left]).
  destruct (swap_some l (S i) (pick k (S i))) as [l1 [E1 L1]]; [lia | lia |]. rewrite E1.
  apply IH; [lia | simpl in Hk; lia |]. intros m k' Hm Hin. apply Hp; [lia | now right].
Qed.
End L.

(* sorting by name only reorders the layers *)
Lemma insert_by_name_perm {A} (x : str * A) l : Permutation (insert_by_name x l) (x :: l).
Proof.
  induction l as [|y r IH]; simpl; [auto|].
  destruct (str_cmp (fst x) (fst y)); auto; (eapply perm_trans; [apply perm_skip; exact IH | apply perm_swap]).
Qed.
Lemma sort_by_name_perm {A} (l : list (str * A)) : Permutation (sort_by_name l) l.
Proof. induction l as [|x l IH]; simpl; [auto|]. eapply perm_trans; [apply insert_by_name_perm | apply perm_skip; exact IH]. Qed.

(* every layer of the input is found in the output, under its own name, with a permutation of its own tests *)
Theorem shuffle_all_within {A} (ls ls' : list (str * list A)) ks :
  shuffle_all ls ks = Some ls' ->
  forall n t, In (n, t) ls -> exists t', In (n, t') ls' /\ Permutation t t'.
Proof.
  unfold shuffle_all. intros E n t Hin.
  apply shuffle_layers_within in E.
  assert (Hin' : In (n, t) (sort_by_name ls)) by (eapply Permutation_in; [apply Permutation_sym, sort_by_name_perm | exact Hin]).
  clear Hin. induction E as [|a b l1 l2 [Hab Hp] _ IH]; [destruct Hin'|].
  destruct Hin' as [->|H].
  - destruct b as [n' t']. simpl in *. subst n'. exists t'. split; [now left | exact Hp].
  - destruct (IH H) as [t' [H1 H2]]. exists t'. split; [now right | exact H2].
Qed.
Theorem shuffle_all_nothing_else {A} (ls ls' : list (str * list A)) ks :
  shuffle_all ls ks = Some ls' -> length ls' = length ls /\ Permutation (map fst ls') (map fst ls).
Proof.
  unfold shuffle_all. intros E. apply shuffle_layers_within in E.
  assert (H : map fst (sort_by_name ls) = map fst ls' /\ length (sort_by_name ls) = length ls').
  { induction E as [|a b l1 l2 [Hab _] _ [IH1 IH2]]; simpl; [auto|]. split; congruence. }
  destruct H as [H1 H2]. split.
  - rewrite <- H2. apply Permutation_length, sort_by_name_perm.
  - rewrite <- H1. apply Permutation_map, sort_by_name_perm.
Qed.

Section Range.
Open Scope N_scope.
Lemma rn53_bound n m : 0 < m -> n <= (2^53 - 1) * m -> rn53 n < 2^53 * m.
Proof.
  intros Hm Hn. unfold rn53.
  destruct (N.size n <=? 53) eqn:Eb.
  - nia.
  - apply N.leb_gt in Eb.
    set (b := N.size n) in *. set (sh := b - 53).
    assert (Hsh : 1 <= sh) by (unfold sh; lia).
    assert (Hn0 : n <> 0) by (intros ->; unfold b in Eb; simpl in Eb; lia).
    assert (Hlo : 2 ^ (N.pred b) <= n).
    { unfold b. rewrite N.size_log2 by exact Hn0. rewrite N.pred_succ. apply N.log2_spec. lia. }
    assert (Hb : N.pred b = sh + 52) by (unfold sh; lia).
    rewrite Hb in Hlo.
    rewrite N.shiftr_div_pow2, N.land_ones, !N.shiftl_mul_pow2. rewrite N.mul_1_l.
    set (P := 2 ^ sh) in *.
    assert (HP : P = 2 * 2 ^ (sh - 1)).
    { unfold P. replace sh with (N.succ (sh - 1)) at 1 by lia. apply N.pow_succ_r'. }
    set (H := 2 ^ (sh - 1)) in *.
    assert (HH : 0 < H) by (unfold H; apply N.neq_0_lt_0, N.pow_nonzero; lia).
    assert (Hpow : 2 ^ (sh + 52) = P * 2 ^ 52) by (unfold P; apply N.pow_add_r).
    pose proof (N.div_mod n P ltac:(lia)) as Hdm.
    pose proof (N.mod_lt n P ltac:(lia)) as Hr.
    set (q := n / P) in *. set (r := n mod P) in *.
    (* m > H *)
    assert (HmH : H < m).
    { assert (P * 2^52 < 2^53 * m) by nia. assert (E53 : 2^53 = 2 * 2^52) by reflexivity.
      rewrite E53, HP in H0. assert (0 < 2^52) by reflexivity. nia. }
    destruct ((H <? r) || ((r =? H) && N.odd q)) eqn:Eup.
    + assert (Hrh : H <= r).
      { apply orb_true_iff in Eup. destruct Eup as [E|E]; [apply N.ltb_lt in E; lia|].
        apply andb_true_iff in E. destruct E as [E _]. apply N.eqb_eq in E. lia. }
      nia.
    + nia.
Qed.

(* floor(random() * (i + 1)) never exceeds i: for EVERY 53-bit k and EVERY list length *)
Theorem pick_in_range k i : k < 2^53 -> (pick k i <= i)%nat.
Proof.
  intros Hk. unfold pick.
  assert (H : rn53 (k * N.of_nat (S i)) < 2^53 * N.of_nat (S i)) by (apply rn53_bound; nia).
  rewrite N.shiftr_div_pow2.
  assert (Hd : rn53 (k * N.of_nat (S i)) / 2^53 < N.of_nat (S i)) by (apply N.div_lt_upper_bound; [discriminate | exact H]).
  lia.
Qed.
End Range.

Theorem shuffle_layer_no_error {A} (l : list A) ks :
  (length l - 1 <= length ks)%nat -> (forall k, In k ks -> (k < 2^53)%N) ->
  exists r, shuffle_layer l ks = Some r.
Proof.
  intros Hk Hr. unfold shuffle_layer. destruct l as [|x l]; [simpl; eauto|].
  apply loop_no_error; [simpl; lia | exact Hk |]. intros m k _ Hin. apply pick_in_range. auto.
Qed.

(* rn53 sanity: the double product of small integers is exact *)
Example rn53_small : rn53 12345 = 12345%N /\ rn53 (2^53 + 1) = (2^53)%N /\ rn53 (2^53 + 3) = (2^53 + 4)%N.
Proof. vm_compute. auto. Qed.
Example pick_example : pick (2^52) 9 = 5%nat. Proof. vm_compute. reflexivity. Qed.
