(* P_C10.v — property theorems for C10 only. *)
From ZT Require Import Base Layers LayersFacts LayersStable.
From Coq Require Import Permutation.

(* The order depends only on the set of requested layers, not on their discovery order. *)
Theorem C10_order_independent_of_discovery : forall w ls ls',
  keys_inj w ls -> Permutation ls ls' -> order_by_bases w ls = order_by_bases w ls'.
Proof. exact obb_perm_invariant. Qed.
Print Assumptions C10_order_independent_of_discovery.

(* … and the premise holds whenever layer names are distinct (and UnitTests has no bases). *)
Theorem C10_distinct_names_give_distinct_keys : forall w ls,
  (forall x y, In x ls -> In y ls -> name_of w x = name_of w y -> x = y) ->
  (forall u, unit_layer w = Some u -> bases_of w u = []) ->
  keys_inj w ls.
Proof. exact keys_inj_names. Qed.
Print Assumptions C10_distinct_names_give_distinct_keys.

(* Each requested layer occurs exactly once, and nothing else occurs. *)
Theorem C10_once_each : forall w ls, NoDup (order_by_bases w ls) /\ forall x, In x (order_by_bases w ls) <-> In x ls.
Proof. intros w ls. exact (conj (obb_nodup w ls) (obb_in w ls)). Qed.
Print Assumptions C10_once_each.

(* A layer never comes before one of its own (transitive) base layers that is also requested. *)
Theorem C10_bases_first : forall w, wf w -> forall ls l b R1 R2,
  tb w l b -> in_range w ls -> In b ls -> order_by_bases w ls = R1 ++ l :: R2 -> In b R1.
Proof. exact obb_bases_first. Qed.
Print Assumptions C10_bases_first.

(* The unit-test layer comes first. *)
Theorem C10_unit_first : forall w u ls,
  unit_layer w = Some u -> bases_of w u = [] -> In u ls -> exists r, order_by_bases w ls = u :: r.
Proof. exact obb_unit_first. Qed.
Print Assumptions C10_unit_first.

(* Repeated use on the same layers (run after run in one interpreter; a caller that hands back a list it was given): the order is a
   fixed point, and the reversed result — what tear_down_unneeded makes of it — as a request gives the same order again. *)
Theorem C10_order_is_a_fixed_point : forall w ls, keys_inj w ls -> NoDup ls ->
  order_by_bases w (order_by_bases w ls) = order_by_bases w ls.
Proof. exact obb_idempotent. Qed.
Print Assumptions C10_order_is_a_fixed_point.

Theorem C10_reversed_result_as_request : forall w ls, keys_inj w ls -> NoDup ls ->
  order_by_bases w (rev (order_by_bases w ls)) = order_by_bases w ls.
Proof. exact obb_of_reversed_result. Qed.
Print Assumptions C10_reversed_result_as_request.

Theorem C10_reversed_request : forall w ls, keys_inj w ls -> order_by_bases w (rev ls) = order_by_bases w ls.
Proof. exact obb_reversed_request. Qed.
Print Assumptions C10_reversed_request.
