(* Chk_World.v — case type shared by the world-based properties (C01–C05, C12, C16) and the
   correspondence check between Run.run and an observed run of the real runner. *)
From ZT Require Import Base Layers Run.

(* what a world can observe of a process: hook calls and test phases *)
Inductive oev :=
| OSetUp (l : nat) (o : hout) | OTearDown (l : nat) (o : hout)
| OTSetUp (l : nat) | OTTearDown (l : nat)
| OPhase (t ph k : nat).

Record case := {
  w : rworld; o : ropts;
  i_parent : list oev;                    (* parent process *)
  i_children : list (nat * list oev);     (* (resumed layer, events), in the order the children first appear *)
  i_ran : nat; i_fail : list name; i_err : list name; i_skip : nat;
  i_failed : bool;                        (* the verdict *)
  i_aborted : bool;                       (* an exception escaped Runner.run() *)
  i_summaries : list (nat * nat * nat * nat);   (* "Ran N tests with F failures, E errors and S skipped" lines, in order *)
  i_total : option (nat * nat * nat * nat);     (* the "Total:" line *)
  i_injected : bool;                            (* the harness made a layer subprocess die / fail to start / cut its report *)
  i_lfail : option (list name);                 (* the printed "Tests with failures:" listing (None: not verbose, nothing is listed) *)
  i_lerr : option (list name)                   (* the printed "Tests with errors:" listing *)
}.

Definition hout_eqb (a b : hout) : bool :=
  match a, b with HOk, HOk | HRaise, HRaise | HNotImpl, HNotImpl => true | _, _ => false end.
Definition oev_eqb (a b : oev) : bool :=
  match a, b with
  | OSetUp l x, OSetUp m y => Nat.eqb l m && hout_eqb x y
  | OTearDown l x, OTearDown m y => Nat.eqb l m && hout_eqb x y
  | OTSetUp l, OTSetUp m => Nat.eqb l m
  | OTTearDown l, OTTearDown m => Nat.eqb l m
  | OPhase t p k, OPhase t' p' k' => Nat.eqb t t' && Nat.eqb p p' && Nat.eqb k k'
  | _, _ => false
  end.
Definition name_eqb (a b : name) : bool :=
  match a, b with
  | NTest t, NTest u => Nat.eqb t u
  | NSub t k, NSub u j => Nat.eqb t u && Nat.eqb k j
  | NLayerSetUp l, NLayerSetUp m => Nat.eqb l m
  | NLayerTearDown l, NLayerTearDown m => Nat.eqb l m
  | NSubprocess l, NSubprocess m => Nat.eqb l m
  | _, _ => false
  end.

(* the observable part of a model trace: hooks of layers that have the hook, test phases *)
Definition observe (w : rworld) (e : ev) : list oev :=
  match e with
  | ESetUp l x => match l_setup (spec_of w l) with Some _ => [OSetUp l x] | None => [] end
  | ETearDown l x => match l_teardown (spec_of w l) with Some _ => [OTearDown l x] | None => [] end
  | ETSetUp l => [OTSetUp l]
  | ETTearDown l => [OTTearDown l]
  | EPhase t p k => [OPhase t p k]
  | _ => []
  end.
Definition observed (w : rworld) (es : list ev) : list oev := flat_map (observe w) es.
Definition summaries (es : list ev) : list (nat * nat * nat * nat) :=
  flat_map (fun e => match e with ESummary _ a b c d => [(a, b, c, d)] | _ => [] end) es.

Definition q_eqb (a b : nat * nat * nat * nat) : bool :=
  let '(a1, a2, a3, a4) := a in let '(b1, b2, b3, b4) := b in
  Nat.eqb a1 b1 && Nat.eqb a2 b2 && Nat.eqb a3 b3 && Nat.eqb a4 b4.

(* multiset equality of name lists (parallel runs append in completion order) *)
Fixpoint remove_name (x : name) (l : list name) : option (list name) :=
  match l with
  | [] => None
  | y :: r => if name_eqb x y then Some r else match remove_name x r with Some r' => Some (y :: r') | None => None end
  end.
Fixpoint names_perm (a b : list name) : bool :=
  match a with
  | [] => match b with [] => true | _ => false end
  | x :: r => match remove_name x b with Some b' => names_perm r b' | None => false end
  end.

Definition children_agree (parallel : bool) (m : list report) (i : list (nat * list oev)) (w : rworld) : bool :=
  if parallel then
    (* children run concurrently: match them by layer *)
    Nat.eqb (length m) (length i)
    && forallb (fun c => existsb (fun ic => Nat.eqb (fst ic) (c_layer c) && list_eqb oev_eqb (observed w (c_ev c)) (snd ic)) i) m
  else
    list_rel (fun c ic => Nat.eqb (c_layer c) (fst ic) && list_eqb oev_eqb (observed w (c_ev c)) (snd ic)) m i.

Definition model (c : case) : result := run (w c) (o c).

Definition agree (c : case) : bool :=
  let r := model c in
  let parallel := Nat.ltb 1 (o_procs (o c)) in
  negb (i_aborted c)
  && list_eqb oev_eqb (observed (w c) (r_parent r)) (i_parent c)
  && children_agree parallel (r_children r) (i_children c) (w c)
  && Nat.eqb (r_ran r) (i_ran c)
  && (if parallel then names_perm (r_fail r) (i_fail c) && names_perm (r_err r) (i_err c)
      else list_eqb name_eqb (r_fail r) (i_fail c) && list_eqb name_eqb (r_err r) (i_err c))
  && Nat.eqb (r_skip r) (i_skip c)
  && Bool.eqb (r_failed r) (i_failed c)
  && list_eqb q_eqb (summaries (r_parent r) ++ flat_map (fun ch => summaries (c_ev ch)) (r_children r)) (i_summaries c)
  && opt_eqb q_eqb
       (if Nat.eqb (r_layers_run r) 1 then None
        else Some (r_ran r, length (r_fail r), length (r_err r) + o_import_errors (o c), r_skip r))
       (i_total c).

(* well-formedness of a world: DAG, every index in range, layer 0 is UnitTests without hooks *)
Definition wf_case (c : case) : bool :=
  wf_world (lw (w c))
  && Nat.eqb (length (lsp (w c))) (nlayers (lw (w c)))
  && forallb (fun t => Nat.leb 1 (t_count t)) (tests (w c))
  && forallb (fun t => Nat.ltb (t_layer t) (nlayers (lw (w c)))) (tests (w c)).

Definition check_corr (c : case) : nat := bit (negb (agree c)) 1 + bit (negb (wf_case c)) 4.
