From ZT Require Import Base Xml.
Open Scope N_scope.

Ltac Zify.zify_post_hook ::= idtac.

Lemma xml_safe_char c : xml_char (if xml_char c then c else 65533) = true.
Proof. destruct (xml_char c) eqn:E; [exact E | reflexivity]. Qed.

Lemma xml_safe_all s : forallb xml_char (xml_safe s) = true.
Proof. induction s as [|c s IH]; simpl; [reflexivity|]. now rewrite xml_safe_char, IH. Qed.

Lemma ser_text_wf_char c : xml_char c = true -> wf_tok false (ser_text_char c) = true.
Proof.
  intros H. unfold ser_text_char.
  destruct (c =? 38) eqn:E1; [reflexivity|]. destruct (c =? 60) eqn:E2; [reflexivity|].
  destruct (c =? 62) eqn:E3; [reflexivity|]. destruct (c <? 128); simpl; [|exact H].
  rewrite H, E1, E2. reflexivity.
Qed.
Lemma ser_attr_wf_char c : xml_char c = true -> wf_tok true (ser_attr_char c) = true.
Proof.
  intros H. unfold ser_attr_char.
  destruct (c =? 38) eqn:E1; [reflexivity|]. destruct (c =? 60) eqn:E2; [reflexivity|].
  destruct (c =? 62) eqn:E3; [reflexivity|]. destruct (c =? 34) eqn:E4; [reflexivity|].
  destruct (c =? 13); [reflexivity|]. destruct (c =? 10); [reflexivity|]. destruct (c =? 9); [reflexivity|].
  destruct (c <? 128); simpl; [|exact H]. rewrite H, E1, E2, E4. reflexivity.
Qed.

(* C17: whatever characters occur, the sanitised and serialised strings are well-formed XML content *)
Theorem text_wellformed s : wf_toks false (ser_text (xml_safe s)) = true.
Proof.
  unfold wf_toks, ser_text. rewrite forallb_forall. intros t Ht. apply in_map_iff in Ht. destruct Ht as [c [<- Hc]].
  apply ser_text_wf_char. pose proof (xml_safe_all s) as H. rewrite forallb_forall in H. auto.
Qed.
Theorem attr_wellformed s : wf_toks true (ser_attr (xml_safe s)) = true.
Proof.
  unfold wf_toks, ser_attr. rewrite forallb_forall. intros t Ht. apply in_map_iff in Ht. destruct Ht as [c [<- Hc]].
  apply ser_attr_wf_char. pose proof (xml_safe_all s) as H. rewrite forallb_forall in H. auto.
Qed.

(* without the sanitiser the statement is false *)
Theorem text_wellformed_unsanitised_refuted : exists s, wf_toks false (ser_text s) = false.
Proof. exists [1]. reflexivity. Qed.

(* a parser reads back exactly the sanitised string *)
Lemma unser_text_char c : unser (ser_text_char c) = c.
Proof.
  unfold ser_text_char.
  destruct (c =? 38) eqn:E1; [apply N.eqb_eq in E1; now subst|].
  destruct (c =? 60) eqn:E2; [apply N.eqb_eq in E2; now subst|].
  destruct (c =? 62) eqn:E3; [apply N.eqb_eq in E3; now subst|].
  destruct (c <? 128); reflexivity.
Qed.
Theorem text_roundtrip s : map unser (ser_text s) = s.
Proof. unfold ser_text. rewrite map_map. rewrite <- (map_id s) at 2. apply map_ext. apply unser_text_char. Qed.
Lemma unser_attr_char c : unser (ser_attr_char c) = c.
Proof.
  unfold ser_attr_char.
  destruct (c =? 38) eqn:E1; [apply N.eqb_eq in E1; now subst|].
  destruct (c =? 60) eqn:E2; [apply N.eqb_eq in E2; now subst|].
  destruct (c =? 62) eqn:E3; [apply N.eqb_eq in E3; now subst|].
  destruct (c =? 34) eqn:E4; [apply N.eqb_eq in E4; now subst|].
  destruct (c =? 13) eqn:E5; [apply N.eqb_eq in E5; now subst|].
  destruct (c =? 10) eqn:E6; [apply N.eqb_eq in E6; now subst|].
  destruct (c =? 9) eqn:E7; [apply N.eqb_eq in E7; now subst|].
  destruct (c <? 128); reflexivity.
Qed.
Theorem attr_roundtrip s : map unser (ser_attr s) = s.
Proof. unfold ser_attr. rewrite map_map. rewrite <- (map_id s) at 2. apply map_ext. apply unser_attr_char. Qed.
Close Scope N_scope.

(* ---------------- structure ---------------- *)
Lemma sassoc_add_cases k v m : forall k',
  match (fix look (m : list (str * list xcase)) := match m with [] => [] | (a, l) :: r => if str_eqb k' a then l else look r end) (sassoc_add k v m) with
  | l => True end.
Proof. trivial. Qed.

(* the counters of a suite equal the numbers of its testcase / error / failure elements *)
Theorem report_counts sc :
  let r := report sc in
  s_tests r = length (s_cases r)
  /\ s_errors r = length (filter (fun c => match snd c with Some (XErr, _, _) => true | _ => false end) (s_cases r))
  /\ s_failures r = length (filter (fun c => match snd c with Some (XFail, _, _) => true | _ => false end) (s_cases r)).
Proof.
  destruct sc as [name cases]. simpl. rewrite map_length. split; [reflexivity|]. split.
  - induction cases as [|c cases IH]; simpl; [reflexivity|]. unfold is_err at 1. destruct (c_kind c); simpl; rewrite ?IH; reflexivity.
  - induction cases as [|c cases IH]; simpl; [reflexivity|]. unfold is_fail at 1. destruct (c_kind c); simpl; rewrite ?IH; reflexivity.
Qed.

(* every recorded event becomes exactly one testcase, with its own class and name, in its own suite *)
Fixpoint cases_of (k : str) (m : list (str * list xcase)) : list xcase :=
  match m with [] => [] | (a, l) :: r => if str_eqb k a then l else cases_of k r end.

Lemma str_eqb_refl a : str_eqb a a = true.
Proof. induction a as [|x a IH]; simpl; [reflexivity|]. now rewrite N.eqb_refl, IH. Qed.
Lemma str_eqb_true a b : str_eqb a b = true -> a = b.
Proof.
  revert b. induction a as [|x a IH]; destruct b as [|y b]; simpl; try discriminate; auto.
  intros H. apply andb_true_iff in H. destruct H as [H1 H2]. apply N.eqb_eq in H1. apply IH in H2. congruence.
Qed.

Lemma cases_of_add k v m k' :
  cases_of k' (sassoc_add k v m) = if str_eqb k' k then cases_of k' m ++ [v] else cases_of k' m.
Proof.
  induction m as [|[a l] r IH]; simpl.
  - destruct (str_eqb k' k); reflexivity.
  - destruct (str_eqb k a) eqn:Eka; simpl.
    + apply str_eqb_true in Eka. subst a. destruct (str_eqb k' k) eqn:E; reflexivity.
    + destruct (str_eqb k' a) eqn:Ea.
      * apply str_eqb_true in Ea. subst a. destruct (str_eqb k' k) eqn:E; [|reflexivity].
        apply str_eqb_true in E. subst k'. rewrite str_eqb_refl in Eka. discriminate.
      * exact IH.
Qed.

Theorem record_cases evs k :
  cases_of k (record evs) =
  map (fun e => {| c_class := x_class e; c_name := x_name e; c_kind := x_kind e; c_msg := x_msg e |})
      (filter (fun e => str_eqb k (x_suite e)) evs).
Proof.
  unfold record.
  assert (H : forall m, cases_of k (fold_left (fun m e => sassoc_add (x_suite e)
                 {| c_class := x_class e; c_name := x_name e; c_kind := x_kind e; c_msg := x_msg e |} m) evs m)
            = cases_of k m ++ map (fun e => {| c_class := x_class e; c_name := x_name e; c_kind := x_kind e; c_msg := x_msg e |})
                                  (filter (fun e => str_eqb k (x_suite e)) evs)).
  { induction evs as [|e evs IH]; simpl; intros m; [now rewrite app_nil_r|].
    rewrite IH, cases_of_add. destruct (str_eqb k (x_suite e)); simpl; [now rewrite <- app_assoc | reflexivity]. }
  rewrite H. reflexivity.
Qed.
