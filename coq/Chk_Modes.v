(* Chk_Modes.v — one world run in four modes (--list-tests, sequential, -j N, layers resumed in subprocesses):
   every mode must list / execute the same tests per layer in the same order (C03), and with --shuffle that order is
   the one the Shuffle model computes from the seed (C11). *)
From ZT Require Import Base Shuffle.

Record case := {
  layers : list (str * list N);       (* discovered tests per layer (dict order), ids *)
  shuffled : bool;                    (* --shuffle --shuffle-seed S given *)
  ks : list N;                        (* random stream of that seed (oracle), when shuffled *)
  kept : list str;                    (* layers selected by --layer (all when not given) *)
  m_list : list (str * list N);       (* --list-tests: per layer, in listing order *)
  m_seq : list (str * list N);        (* sequential run: per layer, in execution order *)
  m_par : list (str * list N);        (* -j N run *)
  m_res : list (str * list N);        (* run whose layers cannot be torn down (later layers resumed in subprocesses) *)
  list_ran_code : bool;               (* the listing run executed a hook or a test *)
  seeds_reported_ok : bool            (* every process of every mode reported the seed that was given *)
}.

Definition ids_eqb := list_eqb N.eqb.
Fixpoint slookup {A} (n : str) (l : list (str * A)) : option A :=
  match l with [] => None | (k, v) :: r => if str_eqb k n then Some v else slookup n r end.
Definition same_layers (a b : list (str * list N)) : bool :=
  Nat.eqb (length a) (length b) &&
  forallb (fun '(n, t) => match slookup n b with Some t' => ids_eqb t t' | None => false end) a.
Definition restrict (keep : list str) (l : list (str * list N)) := filter (fun p => smem (fst p) keep) l.

Definition model_orders (c : case) : option (list (str * list N)) :=
  if shuffled c then match shuffle_all (layers c) (ks c) with Some m => Some (restrict (kept c) m) | None => None end
  else Some (restrict (kept c) (layers c)).

(* layers without tests do not show up anywhere *)
Definition nonempty_layers (l : list (str * list N)) := filter (fun p => match snd p with [] => false | _ => true end) l.

Definition agree (c : case) : bool :=
  match model_orders c with
  | Some m => same_layers (nonempty_layers m) (m_list c)
  | None => false
  end.

Definition modes_ok (c : case) : bool :=
  negb (list_ran_code c) && seeds_reported_ok c
  && same_layers (m_list c) (m_seq c) && same_layers (m_list c) (m_par c) && same_layers (m_list c) (m_res c)
  (* exactly the selected tests, once each: every listed layer is a kept discovered layer with the same multiset of tests *)
  && forallb (fun '(n, t) => smem n (kept c) &&
                match slookup n (layers c) with
                | Some t0 => Nat.eqb (length t) (length t0) && forallb (fun x => existsb (N.eqb x) t0) t
                             && forallb (fun x => existsb (N.eqb x) t) t0
                | None => false end) (m_list c)
  && Nat.eqb (length (m_list c)) (length (nonempty_layers (restrict (kept c) (layers c)))).

Definition check (c : case) : nat := bit (negb (agree c)) 1 + bit (negb (modes_ok c)) 2.
