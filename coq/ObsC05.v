(* ObsC05.v — C05 at observation level: the predicate Obs.c05_ok (the hook calls seen by the layers, grouped into
   test executions, are those of the test's own stack: exact, once, bases first, mirrored) holds of the model's
   observation of every run — under the hypothesis that makes the grouping unambiguous: every layer defines
   both per-test hooks or neither, or no test is skipped by decorator (the generator only produces such worlds). *)
From ZT Require Import Base Layers LayersFacts TarjanBase Run RunFacts RunBracket RunBlocks Chk_World Obs WorldHyps ObsC01 ModelCase ObsC02 ObsC03.

Section C.
Variable w0 : rworld.
Hypothesis Hwf : wf (lw w0).

Notation TL := (test_layers w0).
Definition tsu (x : nat) : bool := l_tsetup (spec_of w0 x).
Definition ttd (x : nat) : bool := l_tteardown (spec_of w0 x).

(* ---------------- boolean list facts ---------------- *)
Lemma list_eqb_nat_refl (l : list nat) : list_eqb Nat.eqb l l = true.
Proof. induction l as [|x l IH]; simpl; [reflexivity|]. now rewrite Nat.eqb_refl, IH. Qed.

Lemma nodupb_spec' l : NoDup l -> Obs.nodupb l = true.
Proof.
  induction 1 as [|x l Hn _ IH]; simpl; [reflexivity|]. rewrite IH, andb_true_r. apply negb_true_iff. apply mem_false. exact Hn.
Qed.

Lemma forallb_filter_sub {A} (P f : A -> bool) l : forallb P l = true -> forallb P (filter f l) = true.
Proof. rewrite !forallb_forall. intros H x Hx. apply filter_In in Hx. apply H. tauto. Qed.

Lemma bases_first_filter f l : bases_first w0 l = true -> bases_first w0 (filter f l) = true.
Proof.
  induction l as [|x l IH]; simpl; [auto|]. intros H. apply andb_prop in H. destruct H as [H1 H2].
  destruct (f x); simpl; [|auto]. rewrite (forallb_filter_sub _ f l H1), (IH H2). reflexivity.
Qed.

Lemma in_range_gather L : L < nlayers (lw w0) -> forall x, In x (gather_layers (lw w0) L) -> x < nlayers (lw w0).
Proof.
  intros HL x Hx. apply (gather_layers_spec (lw w0) Hwf L x HL) in Hx. destruct Hx as [->|Hx]; [exact HL|].
  apply (tb_lt (lw w0) Hwf) in Hx. lia.
Qed.

Lemma TL_bases_first L : L < nlayers (lw w0) -> bases_first w0 (TL L) = true.
Proof.
  intros HL.
  assert (Hnd : NoDup (TL L)) by apply obb_nodup.
  assert (Hprop : forall A x B, TL L = A ++ x :: B -> forall y, In y B -> strict_base w0 x y = false).
  { intros A x B E y Hy. unfold strict_base. destruct (Nat.eqb x y) eqn:Exy; [reflexivity|]. cbn [negb andb].
    destruct (mem y (stack w0 x)) eqn:Em; [|reflexivity]. exfalso.
    assert (Hx : In x (TL L)) by (rewrite E; apply in_or_app; right; now left).
    assert (HyT : In y (TL L)) by (rewrite E; apply in_or_app; right; now right).
    unfold test_layers in Hx, HyT. apply obb_in in Hx. apply obb_in in HyT.
    assert (Hxr : x < nlayers (lw w0)) by (apply (in_range_gather L HL); exact Hx).
    apply mem_In in Em. unfold stack in Em. apply (gather_layers_spec (lw w0) Hwf x y Hxr) in Em.
    destruct Em as [->|Htb]; [apply Nat.eqb_neq in Exy; congruence|].
    assert (HinA : In y A).
    { eapply (obb_bases_first (lw w0) Hwf (gather_layers (lw w0) L) x y A B Htb); [intros z Hz; apply (in_range_gather L HL); exact Hz | exact HyT | exact E]. }
    rewrite E in Hnd. destruct (NoDup_app_inv _ _ Hnd) as [_ [_ Hd]]. apply (Hd y HinA). now right. }
  revert Hprop. generalize (TL L). induction l as [|x l IH]; intros Hp; simpl; [reflexivity|].
  apply andb_true_intro. split.
  - apply forallb_forall. intros y Hy. apply negb_true_iff. apply (Hp [] x l eq_refl y Hy).
  - apply IH. intros A x' B E y Hy. apply (Hp (x :: A) x' B); [simpl; now rewrite E | exact Hy].
Qed.

Lemma seteq_filter_TL (f : nat -> bool) L : seteq (filter f (TL L)) (filter f (stack w0 L)) = true.
Proof.
  apply RunInv.seteq_of_incl; intros x Hx; apply filter_In in Hx; apply filter_In; destruct Hx as [Hx Hf]; split; auto;
    [apply (test_layers_in w0 L x); exact Hx | apply (test_layers_in w0 L x); exact Hx].
Qed.

Lemma seteq_rev_l a b : seteq a b = true -> seteq (rev a) b = true.
Proof.
  unfold seteq, subset. rewrite !andb_true_iff, !forallb_forall. intros [H1 H2]. split.
  - intros x Hx. apply H1. apply in_rev. exact Hx.
  - intros x Hx. specialize (H2 x Hx). apply mem_In. apply mem_In in H2. apply in_rev in H2. exact H2.
Qed.

(* the group of hook calls around one test of layer L *)
Definition block_group (L : nat) (t : option nat) : group :=
  {| g_ups := filter tsu (TL L); g_test := t; g_downs := filter ttd (rev (TL L)) |}.

Lemma block_group_ok L t : L < nlayers (lw w0) -> group_ok_for w0 L (block_group L t) = true.
Proof.
  intros HL. unfold group_ok_for, block_group. cbn [g_ups g_downs].
  assert (Hnd : NoDup (TL L)) by apply obb_nodup.
  assert (H1 : seteq (filter tsu (TL L)) (filter (fun x => l_tsetup (spec_of w0 x)) (stack w0 L)) = true) by apply seteq_filter_TL.
  assert (H2 : Obs.nodupb (filter tsu (TL L)) = true) by (apply nodupb_spec'; apply NoDup_filter; exact Hnd).
  assert (H3 : bases_first w0 (filter tsu (TL L)) = true) by (apply bases_first_filter; apply TL_bases_first; exact HL).
  assert (H4 : seteq (filter ttd (rev (TL L))) (filter (fun x => l_tteardown (spec_of w0 x)) (stack w0 L)) = true)
    by (rewrite filter_rev; apply seteq_rev_l; apply seteq_filter_TL).
  assert (H5 : Obs.nodupb (filter ttd (rev (TL L))) = true) by (apply nodupb_spec'; apply NoDup_filter; apply NoDup_rev; exact Hnd).
  assert (H6 : bases_first w0 (rev (filter ttd (rev (TL L)))) = true)
    by (rewrite filter_rev, rev_involutive; apply bases_first_filter; apply TL_bases_first; exact HL).
  assert (H7 : mirrored w0 (filter tsu (TL L)) (filter ttd (rev (TL L))) = true).
  { unfold mirrored. pose proof (hooks_mirrored w0 L) as Hm. cbv zeta in Hm. unfold ttd, tsu. rewrite Hm, rev_involutive. apply list_eqb_nat_refl. }
  rewrite H1, H2, H3, H4, H5, H6, H7. reflexivity.
Qed.

(* ---------------- the grouping parser on a trace of layer events and test blocks ---------------- *)
Definition pst := (list group * list nat * option nat * list nat * nat)%type.
Definition done' (st : pst) : list group :=
  let '(done, ups, t, downs, _) := st in
  match ups, t, downs with [], None, [] => done | _, _, _ => {| g_ups := ups; g_test := t; g_downs := downs |} :: done end.
(* between blocks the parser is either clean or holds one complete group *)
Definition bnd (st : pst) : Prop :=
  let '(done, ups, t, downs, m) := st in
  (ups = [] /\ t = None /\ downs = [] /\ m = 0) \/ ((m = 1 \/ m = 2) /\ (t <> None \/ downs <> [])).

Lemma groups_done evs : groups evs = rev (done' (fold_left g_step evs ([], [], None, [], 0))).
Proof. unfold groups, done'. destruct (fold_left g_step evs ([], [], None, [], 0)) as [[[[d u] t] dn] m]. reflexivity. Qed.

Lemma step_layer st e : (match e with OSetUp _ _ | OTearDown _ _ => True | _ => False end) -> bnd st ->
  g_step st e = (done' st, [], None, [], 0).
Proof.
  destruct st as [[[[d u] t] dn] m]. intros He Hb. destruct e; try contradiction; simpl;
    (destruct Hb as [[-> [-> [-> ->]]]|[Hm Hc]]; [reflexivity|]);
    (destruct u; [destruct t; [reflexivity | destruct dn; [destruct Hc as [Hc|Hc]; congruence | reflexivity]] | reflexivity]).
Qed.

Lemma ups_more : forall us D acc, fold_left g_step (map OTSetUp us) (D, acc, None, [], 0) = (D, acc ++ us, None, [], 0).
Proof. induction us as [|x us IH]; intros D acc; simpl; [now rewrite app_nil_r|]. rewrite IH, <- app_assoc. reflexivity. Qed.

Lemma ups_first st u us : bnd st -> fold_left g_step (map OTSetUp (u :: us)) st = (done' st, u :: us, None, [], 0).
Proof.
  intros Hb. cbn [map fold_left].
  assert (H1 : g_step st (OTSetUp u) = (done' st, [u], None, [], 0)).
  { destruct st as [[[[d us'] t] dn] m]. destruct Hb as [[-> [-> [-> ->]]]|[Hm Hc]]; [reflexivity|].
    destruct Hm as [->| ->]; simpl; (destruct us'; [destruct t; [reflexivity | destruct dn; [destruct Hc as [Hc|Hc]; congruence | reflexivity]] | reflexivity]). }
  rewrite H1, ups_more. reflexivity.
Qed.

Lemma phase0_bnd st t k : bnd st -> g_step st (OPhase t 0 k) = (done' st, [], Some t, [], 1).
Proof.
  destruct st as [[[[d us] tt] dn] m]. intros [[-> [-> [-> ->]]]|[Hm Hc]]; [reflexivity|].
  destruct Hm as [->| ->]; simpl; (destruct us; [destruct tt; [reflexivity | destruct dn; [destruct Hc as [Hc|Hc]; congruence | reflexivity]] | reflexivity]).
Qed.

Lemma downs_more : forall ds D us tt dn m, ds <> [] ->
  fold_left g_step (map OTTearDown ds) (D, us, tt, dn, m) = (D, us, tt, dn ++ ds, 2).
Proof.
  induction ds as [|x ds IH]; intros D us tt dn m Hne; [congruence|]. cbn [map fold_left g_step].
  destruct ds as [|y ds']; [reflexivity|]. rewrite IH by discriminate. rewrite <- app_assoc. reflexivity.
Qed.

Lemma obs_ups L : observed w0 (hooks_up w0 L) = map OTSetUp (filter tsu (TL L)).
Proof. unfold hooks_up, observed. fold tsu. induction (filter tsu (TL L)) as [|x r IH]; simpl; [reflexivity | now rewrite IH]. Qed.
Lemma obs_downs L : observed w0 (hooks_down w0 L) = map OTTearDown (filter ttd (rev (TL L))).
Proof. unfold hooks_down, observed. fold ttd. induction (filter ttd (rev (TL L))) as [|x r IH]; simpl; [reflexivity | now rewrite IH]. Qed.

Lemma quiet_mid l t : forall mid st, forallb inner mid = true -> sum_ph0 mid = 0 ->
  fold_left g_step (observed w0 (flat_map (p_ev w0 l t) mid)) st = st.
Proof.
  induction mid as [|p mid IH]; intros st Hin Hs; [reflexivity|].
  simpl in Hin. apply andb_prop in Hin. destruct Hin as [Hp Hm].
  unfold sum_ph0 in Hs. simpl in Hs. fold (sum_ph0 mid) in Hs.
  cbn [flat_map]. rewrite observed_app', fold_left_app.
  destruct p as [| |ph k|r k|]; simpl in Hp; try discriminate.
  - destruct ph as [|ph]; [simpl in Hs; lia|]. cbn [p_ev observed flat_map observe app fold_left].
    assert (Hq : g_step st (OPhase t (S ph) k) = st) by (destruct st as [[[[d u] tt] dn] m]; reflexivity).
    rewrite Hq. apply IH; [exact Hm | simpl in Hs; lia].
  - cbn [p_ev observed flat_map observe app fold_left]. apply IH; [exact Hm | simpl in Hs; lia].
Qed.

(* the effect of one test block on a parser at a boundary *)
Lemma block_parse L t b st : nth_error (tests w0) t = Some b -> t_layer b = L -> bnd st ->
  ((forall x, tsu x = ttd x) \/ t_deco b = false) ->
  let st' := fold_left g_step (observed w0 (flat_map (p_ev w0 L t) (proto b))) st in
  bnd st' /\ (st' = st \/ done' st' = block_group L (if t_deco b then None else Some t) :: done' st).
Proof.
  intros Hn HL Hb Hsym. pose proof (proto_ph0 b) as Hph.
  destruct (proto_shape b) as [[Hd E]|[Hd [mid [E Hin]]]]; rewrite Hd in *; rewrite E.
  - (* skipped by decorator: only hook calls *)
    destruct Hsym as [Hsym|Hnd]; [|congruence].
    cbn [flat_map p_ev]. rewrite app_nil_r. rewrite !observed_app', !fold_left_app, obs_ups, obs_downs.
    change (observed w0 [EStart t; EResult t RSkip 0]) with (@nil oev). change (observed w0 [EStop t]) with (@nil oev). cbn [fold_left].
    assert (Hrev : filter ttd (rev (TL L)) = rev (filter tsu (TL L))).
    { rewrite filter_rev. f_equal. apply filter_ext. intros x. symmetry. apply Hsym. }
    destruct (filter tsu (TL L)) as [|u us] eqn:EU.
    + rewrite Hrev. simpl. split; [exact Hb | now left].
    + assert (Hne : filter ttd (rev (TL L)) <> []).
      { rewrite Hrev. simpl. intros H. apply app_eq_nil in H. destruct H as [_ H]. discriminate. }
      rewrite ups_first by exact Hb. rewrite downs_more by exact Hne.
      split; [right; split; [now right | right; exact Hne]|].
      right. unfold done', block_group. rewrite EU. cbn [app]. reflexivity.
  - (* an executed test *)
    rewrite E in Hph. unfold sum_ph0 in Hph. simpl in Hph. fold (sum_ph0 (mid ++ [PStop])) in Hph. rewrite sum_ph0_app in Hph.
    change (PStart :: PPhase 0 0 :: mid ++ [PStop]) with ([PStart] ++ [PPhase 0 0] ++ mid ++ [PStop]).
    rewrite !flat_map_app. cbn [flat_map p_ev]. rewrite !app_nil_r. rewrite !observed_app', !fold_left_app, obs_ups, obs_downs.
    change (observed w0 [EStart t]) with (@nil oev). change (observed w0 [EStop t]) with (@nil oev).
    change (observed w0 [EPhase t 0 0]) with [OPhase t 0 0]. cbn [fold_left].
    set (U := filter tsu (TL L)). set (Dn := filter ttd (rev (TL L))).
    assert (H1 : g_step (fold_left g_step (map OTSetUp U) st) (OPhase t 0 0) = (done' st, U, Some t, [], 1)).
    { destruct U as [|u us]; [simpl; apply phase0_bnd; exact Hb|]. rewrite ups_first by exact Hb. reflexivity. }
    rewrite H1. rewrite (quiet_mid L t mid) by (exact Hin || lia).
    destruct Dn as [|d ds] eqn:ED.
    + simpl. split; [right; split; [now left | left; discriminate]|]. right. unfold done', block_group. fold U. fold Dn. rewrite ED.
      destruct U; reflexivity.
    + rewrite downs_more by discriminate. cbn [app].
      split; [right; split; [now right | left; discriminate]|]. right. unfold done', block_group. fold U. fold Dn. rewrite ED.
      destruct U; reflexivity.
Qed.

Hypothesis Hrange : forall b, In b (tests w0) -> t_layer b < nlayers (lw w0).
Hypothesis Hsym : (forall x, tsu x = ttd x) \/ (forall b, In b (tests w0) -> t_deco b = false).

Lemma block_group_is_ok L t b : nth_error (tests w0) t = Some b -> t_layer b = L ->
  group_ok w0 (block_group L (if t_deco b then None else Some t)) = true.
Proof.
  intros Hn HL. assert (Hin : In b (tests w0)) by (eapply nth_error_In; eauto).
  assert (HLr : L < nlayers (lw w0)) by (rewrite <- HL; apply Hrange; exact Hin).
  unfold group_ok. destruct (t_deco b) eqn:Ed; cbn [block_group g_test].
  - apply existsb_exists. exists b. split; [exact Hin|]. rewrite Ed, HL. apply block_group_ok. exact HLr.
  - unfold layer_of. rewrite Hn, HL. apply block_group_ok. exact HLr.
Qed.

Lemma wbp_parse : forall tr, wbp w0 tr -> forall st, bnd st -> forallb (group_ok w0) (done' st) = true ->
  let st' := fold_left g_step (observed w0 tr) st in bnd st' /\ forallb (group_ok w0) (done' st') = true.
Proof.
  induction 1 as [|e r [He Hhook] Hr IH|l t b r Hn Hl Hr IH]; intros st Hb Hok; [simpl; auto| |].
  - change (observed w0 (e :: r)) with (observe w0 e ++ observed w0 r). rewrite fold_left_app.
    assert (Hclean : bnd (done' st, [], None, [], 0) /\ forallb (group_ok w0) (done' (done' st, @nil nat, @None nat, @nil nat, 0)) = true).
    { split; [left; auto | exact Hok]. }
    destruct e as [l out|l out| | | | | | |l a b c d|l]; simpl in He; try discriminate; cbn [observe].
    + destruct (l_setup (spec_of w0 l)); [|apply IH; assumption].
      cbn [fold_left]. rewrite (step_layer st (OSetUp l out) I Hb). apply IH; tauto.
    + destruct (l_teardown (spec_of w0 l)); [|apply IH; assumption].
      cbn [fold_left]. rewrite (step_layer st (OTearDown l out) I Hb). apply IH; tauto.
    + apply IH; assumption.
    + apply IH; assumption.
  - rewrite observed_app', fold_left_app.
    assert (Hs : (forall x, tsu x = ttd x) \/ t_deco b = false).
    { destruct Hsym as [H|H]; [now left | right; apply H; eapply nth_error_In; eauto]. }
    destruct (block_parse l t b st Hn Hl Hb Hs) as [B1 B2]. apply IH; [exact B1|].
    destruct B2 as [->|E]; [exact Hok|]. rewrite E. cbn [forallb]. rewrite Hok, (block_group_is_ok l t b Hn Hl). reflexivity.
Qed.

Theorem c05_proc_model tr : wbp w0 tr -> c05_proc w0 (observed w0 tr) = true.
Proof.
  intros Hw. unfold c05_proc. rewrite groups_done.
  assert (H0 : bnd ([], [], None, [], 0)) by (left; auto).
  destruct (wbp_parse tr Hw _ H0 eq_refl) as [_ H].
  rewrite forallb_forall in *. intros g Hg. apply H. apply in_rev. exact Hg.
Qed.
End C.

Theorem c05_ok_model w0 o0 :
  wf (lw w0) -> (forall b, In b (tests w0) -> t_layer b < nlayers (lw w0)) ->
  ((forall x, l_tsetup (spec_of w0 x) = l_tteardown (spec_of w0 x)) \/ (forall b, In b (tests w0) -> t_deco b = false)) ->
  c05_ok w0 (observed w0 (r_parent (run w0 o0))) (map (fun c => (c_layer c, observed w0 (c_ev c))) (r_children (run w0 o0))) = true.
Proof.
  intros Hwf Hr Hsym. destruct (run_wbp w0 o0) as [Wp Wc]. unfold c05_ok.
  rewrite (c05_proc_model w0 Hwf Hr Hsym _ Wp). simpl.
  apply forallb_forall. intros ch Hch. apply in_map_iff in Hch. destruct Hch as [c [<- Hc]]. simpl.
  apply (c05_proc_model w0 Hwf Hr Hsym). apply Wc. exact Hc.
Qed.

(* the hypothesis as a boolean on a case (Obs.sym_case); the generator only produces cases for which it is true *)
Lemma sym_case_spec c : sym_case c = true ->
  (forall x, l_tsetup (spec_of (w c) x) = l_tteardown (spec_of (w c) x)) \/ (forall b, In b (tests (w c)) -> t_deco b = false).
Proof.
  unfold sym_case. intros H. apply orb_prop in H. destruct H as [H|H]; [left | right].
  - intros x. unfold spec_of. rewrite forallb_forall in H.
    destruct (nth_in_or_default x (lsp (w c)) {| l_setup := None; l_teardown := None; l_tsetup := false; l_tteardown := false |}) as [Hin|E].
    + apply Bool.eqb_prop. apply H. exact Hin.
    + rewrite E. reflexivity.
  - intros b Hb. rewrite forallb_forall in H. apply negb_true_iff. apply H. exact Hb.
Qed.

Theorem c05_check_sound c : agree c = true -> wf_case c = true -> Nat.ltb 1 (o_procs (o c)) = false -> sym_case c = true ->
  c05_ok (w c) (i_parent c) (i_children c) = true.
Proof.
  intros Ha Hw Hp Hs. destruct (wf_case_hyps c Hw) as [Hwf Ht].
  pose proof (agree_is_model c Ha Hp) as E. rewrite E. cbn [w i_parent i_children model_case].
  apply c05_ok_model; [exact Hwf | exact Ht | apply sym_case_spec; exact Hs].
Qed.
