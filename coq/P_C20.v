(* P_C20.v — property theorems for C20 only. *)
From ZT Require Import Base Digraph DigraphEnum DigraphFacts.

(* For every digraph on at most 3 nodes, every root (set-iteration) order and every order of every
   adjacency list, and both modes: the enumeration terminates within its fuel without error, yields
   every strongly connected component exactly once, the components partition the nodes (trivial mode),
   and default mode yields exactly the classes with more than one node or a self-loop. *)
Theorem C20_sccs_correct_le3 : forall n g, n <= 3 -> In g (all_graphs n) ->
  forall trivial, exists comps, sccs g trivial = Ok comps /\ c20_ok g trivial comps = true.
Proof. intros n g Hn Hg t. apply c20_holds_spec. exact (sccs_correct_le3 n g Hn Hg t). Qed.
Print Assumptions C20_sccs_correct_le3.
