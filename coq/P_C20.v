(* P_C20.v — property theorems for C20 only. *)
From ZT Require Import Base Digraph DigraphEnum DigraphFacts TarjanBase Tarjan TarjanGraph TarjanSpec.

(* UNBOUNDED.  For every directed graph — any number of nodes, every root (set-iteration) order, every order of
   every adjacency list — whose node list is duplicate-free and whose edges end in nodes, in both modes: the
   iterative enumeration of digraph.sccs terminates within its fuel without error; the emitted components are
   pairwise disjoint; each is non-empty, consists of nodes and is exactly a mutual-reachability class (so every
   strongly connected component is yielded at most once, whole); and a node is covered iff the mode is `trivial`
   or the node lies on a cycle (self-loop, or a second node in its class): in trivial mode the components
   partition the nodes, in default mode exactly the components containing a cycle are yielded. *)
Theorem C20_sccs_correct : forall g trivial,
  NoDup (nodes g) -> (forall x y, In y (adj g x) -> In y (nodes g)) ->
  exists comps, sccs g trivial = Ok comps /\
    NoDup (concat comps) /\
    (forall c, In c comps -> c <> [] /\ forall x, In x c -> In x (nodes g) /\ forall y, In y c <-> (reach g x y /\ reach g y x)) /\
    (forall x, In x (nodes g) -> (In x (concat comps) <-> (trivial = true \/ cyc g x))).
Proof. exact sccs_correct. Qed.
Print Assumptions C20_sccs_correct.

(* every graph DiGraph can hold (add_nodes / add_neighbors in any order, unknown neighbours ignored or rejected)
   meets those hypotheses *)
Theorem C20_every_built_graph : forall os g trivial, apply_ops empty_graph os = Some g ->
  exists comps, sccs g trivial = Ok comps /\
    NoDup (concat comps) /\
    (forall c, In c comps -> c <> [] /\ forall x, In x c -> In x (nodes g) /\ forall y, In y c <-> (reach g x y /\ reach g y x)) /\
    (forall x, In x (nodes g) -> (In x (concat comps) <-> (trivial = true \/ cyc g x))).
Proof. exact sccs_correct_built. Qed.
Print Assumptions C20_every_built_graph.

(* the executable statement c20_ok that the correspondence check evaluates on the IMPLEMENTATION's output decides
   exactly that relational statement (the fuelled closure computes reachability) … *)
Theorem C20_executable_statement_is_the_spec : forall g, NoDup (nodes g) -> (forall x y, In y (adj g x) -> In y (nodes g)) ->
  forall trivial comps, c20_ok g trivial comps = true <-> c20_spec g trivial comps.
Proof. exact c20_ok_iff_spec. Qed.
Print Assumptions C20_executable_statement_is_the_spec.

(* … and the model satisfies it for every graph, unbounded. *)
Theorem C20_model_satisfies_statement : forall os g trivial, apply_ops empty_graph os = Some g -> c20_holds g trivial = true.
Proof. exact c20_holds_built. Qed.
Print Assumptions C20_model_satisfies_statement.

(* Bounded cross-check kept from the first version (proved by evaluation over a complete enumeration): all graphs
   on at most 3 nodes with every root order and every adjacency order. *)
Theorem C20_sccs_correct_le3 : forall n g, n <= 3 -> In g (all_graphs n) ->
  forall trivial, exists comps, sccs g trivial = Ok comps /\ c20_ok g trivial comps = true.
Proof. intros n g Hn Hg t. apply c20_holds_spec. exact (sccs_correct_le3 n g Hn Hg t). Qed.
Print Assumptions C20_sccs_correct_le3.

(* the check evaluates the statement with the reachability sets computed once per graph: the same boolean *)
From ZT Require Import DigraphFast.
Theorem C20_fast_statement_is_the_statement : forall g trivial comps,
  c20_ok_fast g trivial comps = c20_ok g trivial comps.
Proof. exact c20_ok_fast_eq. Qed.
Print Assumptions C20_fast_statement_is_the_statement.
