(* WorldHyps.v — the hypotheses of the whole-run theorems are implied by the boolean `wf_case` that the
   correspondence check evaluates on every generated case (bit 4 of the check code when it is false). *)
From ZT Require Import Base Layers LayersFacts Run Chk_World.

Lemma wf_world_wf lw0 : wf_world lw0 = true -> wf lw0.
Proof.
  unfold wf_world, wf. intros H l b Hb.
  apply andb_prop in H. destruct H as [H _]. apply andb_prop in H. destruct H as [Hlen Hall].
  apply Nat.eqb_eq in Hlen.
  destruct (Nat.lt_ge_cases l (nlayers lw0)) as [Hl|Hl].
  - rewrite forallb_forall in Hall. specialize (Hall l). rewrite in_seq in Hall.
    assert (Hl' : 0 <= l < 0 + nlayers lw0) by lia. specialize (Hall Hl').
    rewrite forallb_forall in Hall. apply Nat.ltb_lt. apply Hall. exact Hb.
  - unfold bases_of in Hb. unfold nlayers in Hl. rewrite nth_overflow in Hb; [destruct Hb | lia].
Qed.

Lemma wf_case_hyps c : wf_case c = true ->
  wf (lw (w c)) /\ (forall t, In t (tests (w c)) -> t_layer t < nlayers (lw (w c))).
Proof.
  unfold wf_case. intros H. apply andb_prop in H. destruct H as [H Ht]. apply andb_prop in H. destruct H as [H _].
  apply andb_prop in H. destruct H as [Hw _].
  split; [apply wf_world_wf; exact Hw|].
  intros t Hin. rewrite forallb_forall in Ht. apply Nat.ltb_lt. apply Ht. exact Hin.
Qed.
