(* Xml.v — model of the XML report writer (XMLOutputFormattingWrapper._record / writeXMLReports) and of
   ElementTree's serialisation of text and attribute values (us-ascii with character references). *)
From ZT Require Import Base.
Open Scope N_scope.

(* XML 1.0 Char production *)
Definition xml_char (c : N) : bool :=
  (c =? 9) || (c =? 10) || (c =? 13) || ((32 <=? c) && (c <=? 55295))
  || ((57344 <=? c) && (c <=? 65533)) || ((65536 <=? c) && (c <=? 1114111)).

(* formatter._xml_safe: what XML cannot represent becomes U+FFFD *)
Definition xml_safe (s : str) : str := map (fun c => if xml_char c then c else 65533) s.

(* serialised character data as tokens *)
Inductive tok := Raw (c : N) | Ent (name : nat) (* 0 amp 1 lt 2 gt 3 quot *) | Ref (n : N).

(* _escape_cdata, then .encode('us-ascii', 'xmlcharrefreplace') *)
Definition ser_text_char (c : N) : tok :=
  if c =? 38 then Ent 0 else if c =? 60 then Ent 1 else if c =? 62 then Ent 2
  else if c <? 128 then Raw c else Ref c.
Definition ser_text (s : str) : list tok := map ser_text_char s.
(* _escape_attrib *)
Definition ser_attr_char (c : N) : tok :=
  if c =? 38 then Ent 0 else if c =? 60 then Ent 1 else if c =? 62 then Ent 2 else if c =? 34 then Ent 3
  else if c =? 13 then Ref 13 else if c =? 10 then Ref 10 else if c =? 9 then Ref 9
  else if c <? 128 then Raw c else Ref c.
Definition ser_attr (s : str) : list tok := map ser_attr_char s.

(* well-formed character data / attribute value content: raw characters are Chars other than '<' and '&'
   (and the double quote inside an attribute), references denote Chars *)
Definition wf_tok (in_attr : bool) (t : tok) : bool :=
  match t with
  | Raw c => xml_char c && negb (c =? 60) && negb (c =? 38) && negb (in_attr && (c =? 34))
  | Ent _ => true
  | Ref n => xml_char n
  end.
Definition wf_toks (in_attr : bool) (l : list tok) : bool := forallb (wf_tok in_attr) l.

(* what an XML parser gives back *)
Definition unser (t : tok) : N :=
  match t with Raw c => c | Ent 0 => 38 | Ent 1 => 60 | Ent 2 => 62 | Ent _ => 34 | Ref n => n end.

(* the byte rendering, for comparison with the real file *)
Fixpoint digits (fuel : nat) (n : N) (acc : str) : str :=
  match fuel with
  | O => acc
  | S f => let acc' := (48 + n mod 10) :: acc in if n / 10 =? 0 then acc' else digits f (n / 10) acc'
  end.
Definition render_tok (attr_style : bool) (t : tok) : str :=
  match t with
  | Raw c => [c]
  | Ent 0 => [38;97;109;112;59] | Ent 1 => [38;108;116;59] | Ent 2 => [38;103;116;59] | Ent _ => [38;113;117;111;116;59]
  | Ref n => (* ElementTree writes &#13; &#10; &#09; for attribute whitespace *)
             if attr_style && (n =? 9) then [38;35;48;57;59] else [38;35] ++ digits 8 n [] ++ [59]
  end.
Definition render (attr_style : bool) (l : list tok) : str := flat_map (render_tok attr_style) l.

Close Scope N_scope.

(* ---------------- report structure ---------------- *)
Inductive xkind := XPass | XFail | XErr.
Record xevent := { x_suite : str; x_class : str; x_name : str; x_kind : xkind; x_msg : str }.
Record xcase := { c_class : str; c_name : str; c_kind : xkind; c_msg : str }.

Fixpoint sassoc_add (k : str) (v : xcase) (m : list (str * list xcase)) : list (str * list xcase) :=
  match m with
  | [] => [(k, [v])]
  | (k', l) :: r => if str_eqb k k' then (k', l ++ [v]) :: r else (k', l) :: sassoc_add k v r
  end.
(* _record: suites in first-seen order, cases in event order *)
Definition record (evs : list xevent) : list (str * list xcase) :=
  fold_left (fun m e => sassoc_add (x_suite e) {| c_class := x_class e; c_name := x_name e; c_kind := x_kind e; c_msg := x_msg e |} m) evs [].

Definition first_line (s : str) : str :=
  (fix go (l : str) : str := match l with [] => [] | c :: r => if N.eqb c 10 then [] else c :: go r end) s.

(* the <testsuite> element as data: attributes tests / errors / failures and the list of testcases *)
Record xsuite := {
  s_name : str; s_tests : nat; s_errors : nat; s_failures : nat;
  s_cases : list (str * str * option (xkind * str * str))   (* classname, name, child (kind, message attr, text prefix) *)
}.
Definition is_err (c : xcase) := match c_kind c with XErr => true | _ => false end.
Definition is_fail (c : xcase) := match c_kind c with XFail => true | _ => false end.
Definition report (sc : str * list xcase) : xsuite :=
  let '(name, cases) := sc in
  {| s_name := xml_safe name;
     s_tests := length cases;
     s_errors := length (filter is_err cases);
     s_failures := length (filter is_fail cases);
     s_cases := map (fun c => (xml_safe (c_class c), xml_safe (c_name c),
                               match c_kind c with
                               | XPass => None
                               | k => Some (k, first_line (xml_safe (c_msg c)), xml_safe (c_msg c) ++ [10; 10]%N)
                               end)) cases |}.
