(* ShuffleOrder.v — the shuffled order is a function of the seed and of the SET of discovered layers (with their tests in
   discovery order inside each layer), not of the order in which layers were discovered; and whatever a process filters
   afterwards (--layer, a resumed child's own layer, --list-tests), a layer it keeps has the order of the unfiltered run. *)
From ZT Require Import Base Tree Shuffle ShuffleFacts LayersFacts.
From Coq Require Import Permutation Sorted.

Section O.
Context {A : Type}.
Definition nle (a b : str * A) : Prop := str_cmp (fst a) (fst b) <> Gt.

Lemma cmp_gt_lt a b : str_cmp a b = Gt -> str_cmp b a = Lt.
Proof. intros H. rewrite str_antisym, H. reflexivity. Qed.

Lemma nle_trans a b c : nle a b -> nle b c -> nle a c.
Proof.
  unfold nle. intros H1 H2 H3. apply cmp_gt_lt in H3.
  destruct (str_cmp (fst a) (fst b)) eqn:E1; [|clear H1|congruence].
  - apply str_eq in E1. rewrite E1 in H3. apply H2. rewrite str_antisym, H3. reflexivity.
  - destruct (str_cmp (fst b) (fst c)) eqn:E2; [|clear H2|congruence].
    + apply str_eq in E2. rewrite <- E2 in H3. rewrite str_antisym, E1 in H3. discriminate.
    + pose proof (str_trans _ _ _ H3 E1) as H4. rewrite str_antisym, E2 in H4. discriminate.
Qed.

Lemma insert_sorted (x : str * A) l : StronglySorted nle l -> StronglySorted nle (insert_by_name x l).
Proof.
  induction l as [|y r IH]; simpl; intros H; [repeat constructor|].
  inversion H as [|? ? Hs Hy]; subst.
  destruct (str_cmp (fst x) (fst y)) eqn:E.
  - constructor; [apply IH; exact Hs|]. rewrite Forall_forall in *. intros z Hz.
    apply (Permutation_in _ (insert_by_name_perm x r)) in Hz. destruct Hz as [<-|Hz]; [|apply Hy; exact Hz].
    unfold nle. rewrite str_antisym, E. discriminate.
  - constructor; [exact H|]. constructor; [unfold nle; rewrite E; discriminate|].
    rewrite Forall_forall in *. intros z Hz. eapply nle_trans; [|apply Hy; exact Hz]. unfold nle. rewrite E. discriminate.
  - constructor; [apply IH; exact Hs|]. rewrite Forall_forall in *. intros z Hz.
    apply (Permutation_in _ (insert_by_name_perm x r)) in Hz. destruct Hz as [<-|Hz]; [|apply Hy; exact Hz].
    unfold nle. rewrite str_antisym, E. discriminate.
Qed.
Lemma sort_sorted (l : list (str * A)) : StronglySorted nle (sort_by_name l).
Proof. induction l as [|x l IH]; simpl; [constructor | apply insert_sorted; exact IH]. Qed.

Lemma sorted_unique : forall l1 l2 : list (str * A), NoDup (map fst l1) ->
  StronglySorted nle l1 -> StronglySorted nle l2 -> Permutation l1 l2 -> l1 = l2.
Proof.
  induction l1 as [|a l1 IH]; intros l2 Hnd H1 H2 HP.
  - apply Permutation_nil in HP. auto.
  - destruct l2 as [|b l2]; [apply Permutation_sym, Permutation_nil in HP; discriminate|].
    inversion H1 as [|? ? Hs1 Ha]; subst. inversion H2 as [|? ? Hs2 Hb]; subst.
    rewrite Forall_forall in Ha, Hb. simpl in Hnd. inversion Hnd as [|? ? Hna Hnd1]; subst.
    assert (Hin_b : In b (a :: l1)) by (eapply Permutation_in; [apply Permutation_sym; exact HP | now left]).
    assert (Hin_a : In a (b :: l2)) by (eapply Permutation_in; [exact HP | now left]).
    assert (Hab : a = b).
    { destruct Hin_b as [E|Hb1]; [exact E|]. destruct Hin_a as [E|Ha2]; [auto|].
      specialize (Ha b Hb1). specialize (Hb a Ha2). unfold nle in Ha, Hb. exfalso.
      destruct (str_cmp (fst a) (fst b)) eqn:E; [|apply Hb; rewrite str_antisym, E; reflexivity | congruence].
      apply str_eq in E. apply Hna. rewrite E. apply in_map. exact Hb1. }
    subst b. f_equal. apply IH; auto. eapply Permutation_cons_inv; eauto.
Qed.

Lemma sort_perm_invariant (l l' : list (str * A)) :
  NoDup (map fst l) -> Permutation l l' -> sort_by_name l = sort_by_name l'.
Proof.
  intros Hnd HP. apply sorted_unique.
  - eapply Permutation_NoDup; [|exact Hnd]. apply Permutation_map. apply Permutation_sym. apply sort_by_name_perm.
  - apply sort_sorted.
  - apply sort_sorted.
  - eapply perm_trans; [apply sort_by_name_perm|]. eapply perm_trans; [exact HP | apply Permutation_sym, sort_by_name_perm].
Qed.
End O.

(* the discovery (dict insertion) order of the layers is irrelevant: with distinct layer names the whole result — every layer's
   order — is the same for every arrangement of the same layers *)
Theorem shuffle_independent_of_discovery_order {A} (ls ls' : list (str * list A)) ks :
  NoDup (map fst ls) -> Permutation ls ls' -> shuffle_all ls ks = shuffle_all ls' ks.
Proof. intros Hnd HP. unfold shuffle_all. now rewrite (sort_perm_invariant ls ls' Hnd HP). Qed.

(* every process shuffles everything it discovered and only afterwards narrows down to the layers it keeps (--layer, the
   layer of a resumed / -j child, nothing for --list-tests): the order of a kept layer is its order in the unfiltered run *)
Fixpoint alookup {A} (n : str) (l : list (str * A)) : option A :=
  match l with [] => None | (k, v) :: r => if str_eqb k n then Some v else alookup n r end.
Definition process_view {A} (keep : str -> bool) (ls : list (str * list A)) (ks : list N) : option (list (str * list A)) :=
  match shuffle_all ls ks with
  | Some r => Some (filter (fun p => keep (fst p)) r)
  | None => None
  end.

Lemma alookup_filter {A} (keep : str -> bool) n (l : list (str * A)) :
  keep n = true -> alookup n (filter (fun p => keep (fst p)) l) = alookup n l.
Proof.
  intros Hk. induction l as [|[k v] l IH]; simpl; [reflexivity|].
  destruct (keep k) eqn:Ek; simpl.
  - destruct (str_eqb k n); [reflexivity | exact IH].
  - destruct (str_eqb k n) eqn:E; [|exact IH]. apply str_eqb_eq in E. subst k. congruence.
Qed.

Theorem kept_layer_has_the_unfiltered_order {A} keep1 keep2 (ls : list (str * list A)) ks v1 v2 n :
  process_view keep1 ls ks = Some v1 -> process_view keep2 ls ks = Some v2 ->
  keep1 n = true -> keep2 n = true -> alookup n v1 = alookup n v2.
Proof.
  unfold process_view. destruct (shuffle_all ls ks) as [r|]; [|discriminate].
  intros E1 E2 H1 H2. injection E1 as <-. injection E2 as <-. now rewrite !alookup_filter.
Qed.

(* the opposite design — a process that shuffles only the layer it is going to run — does not have this property: the random
   numbers a layer receives then depend on which other layers were shuffled before it *)
Example shuffling_only_the_own_layer_differs :
  let ls := [([65%N], [1; 2; 3]%N); ([66%N], [4; 5; 6]%N)] in
  let ks := [2 ^ 52; 0; 2 ^ 52 + 2 ^ 51; 1]%N in
  exists a b, shuffle_all ls ks = Some a /\ shuffle_all (filter (fun p => str_eqb (fst p) [66%N]) ls) ks = Some b /\
              alookup [66%N] a <> alookup [66%N] b.
Proof. vm_compute. eexists. eexists. split; [reflexivity|]. split; [reflexivity|]. discriminate. Qed.
