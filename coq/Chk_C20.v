(* Chk_C20.v — case type and checker for C20 (strongly connected components). *)
From ZT Require Import Base Digraph DigraphFast.

Record case := {
  ops : list op;                         (* construction history (after DiGraph()) *)
  raised : bool;                         (* implementation: construction raised KeyError *)
  g_nodes : list nat;                    (* implementation: list(g.nodes()) *)
  g_adj : list (nat * list nat);         (* implementation: list(g.neighbors(n)) for each node *)
  r_def : option (list (list nat));      (* implementation: list(g.sccs())      ; None = raised *)
  r_triv : option (list (list nat))      (* implementation: list(g.sccs(True))  ; None = raised *)
}.

(* set-of-sets equality *)
Definition comps_eq (a b : list (list nat)) : bool :=
  Nat.eqb (length a) (length b)
  && forallb (fun c => existsb (seteq c) b) a
  && forallb (fun c => existsb (seteq c) a) b.

Definition same_graph (g : graph) (c : case) : bool :=
  seteq (nodes g) (g_nodes c) && Nat.eqb (length (nodes g)) (length (g_nodes c))
  && forallb (fun n => let a := adj g n in let b := match alookup n (g_adj c) with Some l => l | None => [] end in
                       seteq a b && Nat.eqb (length a) (length b)) (nodes g).

Definition agree_run (g : graph) (t : bool) (r : option (list (list nat))) : bool :=
  match sccs g t, r with
  | Ok m, Some i => comps_eq m i
  | Raised, None => true
  | _, _ => false
  end.

Definition impl_graph (c : case) : graph := {| nodes := g_nodes c; nbrs := g_adj c |}.

Definition check (c : case) : nat :=
  match apply_ops empty_graph (ops c) with
  | None => bit (negb (raised c)) 1
  | Some g =>
    if raised c then 1 else
    bit (negb (same_graph g c && agree_run g false (r_def c) && agree_run g true (r_triv c))) 1
    (* the statement, evaluated on the implementation's components: against the graph the implementation reports AND against
       the graph that the construction history describes (what the caller's collections held at the time of each call) *)
    + bit (negb (match r_def c, r_triv c with
                 | Some d, Some t => c20_ok_fast (impl_graph c) false d && c20_ok_fast (impl_graph c) true t
                                     && c20_ok_fast g false d && c20_ok_fast g true t
                 | _, _ => false end)) 2
  end.

(* use-site batch: the runner's per-test cyclic-garbage report (--gc-after-test -vvvv) on object graphs built by a test.
   The graph handed to DiGraph there is the part of the test's graph that the collector found (everything reachable from a
   cycle); its cyclic components are those of the whole graph, which is what the report has to list. *)
Definition check_use (c : case) : nat :=
  match apply_ops empty_graph (ops c) with
  | None => 1
  | Some g => bit (negb (agree_run g false (r_def c))) 1
              + bit (negb (match r_def c with Some d => c20_ok_fast g false d | None => false end)) 2
  end.
