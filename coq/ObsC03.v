(* ObsC03.v — C03 and C04 at observation level: the predicates Obs.c03_ok / Obs.c04_ok hold of the model's
   observation of every run. *)
From ZT Require Import Base Layers LayersFacts Run RunFacts RunLedger RunOnce RunAtMost RunBracket RunBlocks RunInv
                       Chk_World Obs WorldHyps ObsC01 ModelCase ObsC02.

(* ---------------- the setUp phase marker occurs exactly once in the protocol of a started test ---------------- *)
Definition ph0 (p : pev) : nat := match p with PPhase 0 _ => 1 | _ => 0 end.
Definition sum_ph0 (ps : list pev) : nat := fold_right (fun p a => ph0 p + a) 0 ps.
Lemma sum_ph0_app a b : sum_ph0 (a ++ b) = sum_ph0 a + sum_ph0 b.
Proof. induction a as [|x a IH]; simpl; [reflexivity|]. unfold sum_ph0 in *. simpl. rewrite IH. lia. Qed.

Lemma part_ph0 p : sum_ph0 (fst (part p)) = 0.
Proof. destruct p; reflexivity. Qed.
Lemma subs_ph0 xf : forall l k succ ef, sum_ph0 (fst (fst (fst (subs_proto xf k l succ ef)))) = 0.
Proof.
  induction l as [|p r IH]; intros k succ ef; simpl; [reflexivity|].
  destruct p.
  - destruct (succ && ef); [reflexivity|].
    specialize (IH (S k) succ ef). destruct (subs_proto xf (S k) r succ ef) as [[[e s] ef'] st]. simpl in *. exact IH.
  - destruct xf.
    + destruct succ; [reflexivity|].
      specialize (IH (S k) false true). destruct (subs_proto true (S k) r false true) as [[[e s] ef'] st]. simpl in *. exact IH.
    + specialize (IH (S k) false ef). destruct (subs_proto false (S k) r false ef) as [[[e s] ef'] st]. simpl in *. exact IH.
  - destruct xf.
    + destruct succ; [reflexivity|].
      specialize (IH (S k) false true). destruct (subs_proto true (S k) r false true) as [[[e s] ef'] st]. simpl in *. exact IH.
    + specialize (IH (S k) false ef). destruct (subs_proto false (S k) r false ef) as [[[e s] ef'] st]. simpl in *. exact IH.
  - specialize (IH (S k) false ef). destruct (subs_proto xf (S k) r false ef) as [[[e s] ef'] st]. simpl in *. exact IH.
Qed.
Lemma cleanups_ph0 : forall l succ, sum_ph0 (fst (cleanups_proto l succ)) = 0.
Proof.
  induction l as [|[k p] r IH]; intros succ; simpl; [reflexivity|].
  pose proof (part_ph0 p) as Hp. destruct (part p) as [e1 s1]. simpl in Hp.
  specialize (IH (succ && s1)). destruct (cleanups_proto r (succ && s1)) as [e2 s2]. simpl in *.
  change (sum_ph0 (PPhase 4 k :: e1 ++ e2)) with (0 + sum_ph0 (e1 ++ e2)). rewrite sum_ph0_app, Hp, IH. reflexivity.
Qed.

Lemma proto_ph0 b : sum_ph0 (proto b) = if t_deco b then 0 else 1.
Proof.
  unfold proto. destruct (t_deco b); [reflexivity|].
  pose proof (part_ph0 (t_su b)) as Hsu. destruct (part (t_su b)) as [e_su ok_su]. simpl in Hsu.
  destruct ok_su.
  - pose proof (subs_ph0 (t_xf b) (t_subs b) 0 true false) as Hsub.
    destruct (subs_proto (t_xf b) 0 (t_subs b) true false) as [[[e_sub s1] ef1] stopped]. simpl in Hsub.
    pose proof (part_ph0 (t_td b)) as Htd. destruct (part (t_td b)) as [e_td ok_td]. simpl in Htd.
    set (body := if stopped then ([], s1, ef1) else
        match t_body b with
        | Pok => ([], s1, ef1)
        | Pskip => ([PRes RSkip 0], false, ef1)
        | Pfail => if t_xf b then ([], s1, true) else ([PRes RFail 0], false, ef1)
        | Perr => if t_xf b then ([], s1, true) else ([PRes RErr 0], false, ef1)
        end).
    assert (Hbody : sum_ph0 (fst (fst body)) = 0).
    { unfold body. destruct stopped; [reflexivity|]. destruct (t_body b); try reflexivity; destruct (t_xf b); reflexivity. }
    destruct body as [[e_body s2] ef2]. simpl in Hbody.
    pose proof (cleanups_ph0 (rev (index_from 0 (t_cl b))) (s2 && ok_td)) as Hcl.
    destruct (cleanups_proto (rev (index_from 0 (t_cl b))) (s2 && ok_td)) as [e_cl succ2]. simpl in Hcl.
    set (final := if succ2 then if t_xf b then if ef2 then [PRes RXF 0] else [PRes RUS 0] else [PRes RSuccess 0] else []).
    assert (Hfin : sum_ph0 final = 0) by (unfold final; destruct succ2; [destruct (t_xf b); [destruct ef2|]|]; reflexivity).
    change (sum_ph0 (PStart :: PPhase 0 0 :: e_su ++ (PPhase 1 0 :: e_sub ++ e_body ++ PPhase 3 0 :: e_td) ++ e_cl ++ final ++ [PStop]))
      with (1 + sum_ph0 (e_su ++ (PPhase 1 0 :: e_sub ++ e_body ++ PPhase 3 0 :: e_td) ++ e_cl ++ final ++ [PStop])).
    rewrite !sum_ph0_app.
    change (sum_ph0 (PPhase 1 0 :: e_sub ++ e_body ++ PPhase 3 0 :: e_td)) with (0 + sum_ph0 (e_sub ++ e_body ++ PPhase 3 0 :: e_td)).
    rewrite !sum_ph0_app. change (sum_ph0 (PPhase 3 0 :: e_td)) with (0 + sum_ph0 e_td).
    rewrite Hsu, Hsub, Hbody, Htd, Hcl, Hfin. reflexivity.
  - pose proof (cleanups_ph0 (rev (index_from 0 (t_cl b))) false) as Hcl.
    destruct (cleanups_proto (rev (index_from 0 (t_cl b))) false) as [e_cl succ2]. simpl in Hcl.
    set (final := if succ2 then if t_xf b then [PRes RUS 0] else [PRes RSuccess 0] else []).
    assert (Hfin : sum_ph0 final = 0) by (unfold final; destruct succ2; [destruct (t_xf b)|]; reflexivity).
    change (sum_ph0 (PStart :: PPhase 0 0 :: e_su ++ [] ++ e_cl ++ final ++ [PStop]))
      with (1 + sum_ph0 (e_su ++ [] ++ e_cl ++ final ++ [PStop])).
    rewrite !sum_ph0_app, Hsu, Hcl, Hfin. reflexivity.
Qed.

Section C.
Variable w0 : rworld.

(* starts seen by the observer: one per setUp-phase marker *)
Lemma count_app x a b : count_nat x (a ++ b) = count_nat x a + count_nat x b.
Proof. induction a as [|y a IH]; simpl; [reflexivity|]. rewrite IH. lia. Qed.

Lemma pev_started l t p x :
  count_nat x (started (observed w0 (p_ev w0 l t p))) = (if Nat.eqb x t then ph0 p else 0).
Proof.
  assert (Hup : started (observed w0 (hooks_up w0 l)) = []) by apply (hooks_up_obs w0 l).
  assert (Hdn : started (observed w0 (hooks_down w0 l)) = []) by apply (hooks_down_obs w0 l).
  destruct p as [| |ph k|r k|]; simpl.
  - rewrite observed_app', started_app, Hup. simpl. destruct (Nat.eqb x t); reflexivity.
  - rewrite observed_app', started_app, Hup. simpl. destruct (Nat.eqb x t); reflexivity.
  - destruct ph; simpl; destruct (Nat.eqb x t); reflexivity.
  - destruct (Nat.eqb x t); reflexivity.
  - rewrite observed_app', started_app, Hdn. simpl. destruct (Nat.eqb x t); reflexivity.
Qed.
Lemma block_started l t x : forall ps,
  count_nat x (started (observed w0 (flat_map (p_ev w0 l t) ps))) = (if Nat.eqb x t then sum_ph0 ps else 0).
Proof.
  induction ps as [|p ps IH]; simpl; [destruct (Nat.eqb x t); reflexivity|].
  rewrite observed_app', started_app, count_app, pev_started, IH. unfold sum_ph0. simpl. destruct (Nat.eqb x t); reflexivity.
Qed.

Definition deco (t : nat) : bool := match nth_error (tests w0) t with Some b => t_deco b | None => false end.

Lemma wbp_started x : forall tr, wbp w0 tr ->
  count_nat x (started (observed w0 tr)) = (if deco x then 0 else total (ns x) tr) /\
  (forall y, In y (started (observed w0 tr)) -> y < length (tests w0)).
Proof.
  induction 1 as [|e r [He Hhook] Hr [IH1 IH2]|l t b r Hn Hl Hr [IH1 IH2]].
  - simpl. split; [destruct (deco x); reflexivity | intros y []].
  - change (observed w0 (e :: r)) with (observe w0 e ++ observed w0 r). rewrite started_app, count_app.
    assert (Hst : started (observe w0 e) = []).
    { destruct e; simpl in He; try discriminate; simpl; [destruct (l_setup _) | destruct (l_teardown _) | |]; reflexivity. }
    rewrite Hst. simpl. split; [|exact IH2].
    rewrite IH1. destruct (deco x); [reflexivity|]. destruct e; simpl in He; try discriminate; reflexivity.
  - rewrite observed_app', started_app, count_app, block_started, proto_ph0, total_app, (flat_ns w0 x l t), proto_runs_once, IH1.
    split.
    + unfold hit. rewrite (Nat.eqb_sym t x). destruct (Nat.eqb x t) eqn:E.
      * apply Nat.eqb_eq in E. subst x. unfold deco. rewrite Hn. destruct (t_deco b); lia.
      * destruct (deco x); lia.
    + intros y Hy. apply in_app_or in Hy. destruct Hy as [Hy|Hy]; [|apply IH2; exact Hy].
      destruct (block_obs w0 l t (proto b)) as [_ [_ [B3 _]]]. apply B3 in Hy. subst y. apply nth_error_Some. congruence.
Qed.
End C.

Lemma count_flat x (ls : list (list nat)) : count_nat x (concat ls) = fold_right (fun l a => count_nat x l + a) 0 ls.
Proof. induction ls as [|l ls IH]; simpl; [reflexivity|]. rewrite count_app, IH. reflexivity. Qed.

(* the observer's count of starts of a non-decorated test equals the ghost count over all processes *)
Lemma model_started_count w0 o0 inj x :
  count_nat x (flat_map started (all_procs (model_case w0 o0 inj))) =
  if deco w0 x then 0 else starts_of x (run w0 o0).
Proof.
  destruct (run_wbp w0 o0) as [Wp Wc]. unfold all_procs, model_case. cbn [i_parent i_children]. rewrite map_map. cbn [flat_map map].
  rewrite count_app. destruct (wbp_started w0 x _ Wp) as [Hp _]. rewrite Hp. unfold starts_of.
  assert (Hch : forall cs, (forall c, In c cs -> wbp w0 (c_ev c)) ->
            count_nat x (flat_map started (map (fun c => observed w0 (c_ev c)) cs)) =
            if deco w0 x then 0 else sum_children (ns x) cs).
  { induction cs as [|c cs IH]; intros Hc; simpl; [destruct (deco w0 x); reflexivity|].
    rewrite count_app. destruct (wbp_started w0 x _ (Hc c (or_introl eq_refl))) as [H1 _]. rewrite H1.
    rewrite IH by (intros c' Hc'; apply Hc; now right). destruct (deco w0 x); reflexivity. }
  cbn [snd]. rewrite (Hch _ Wc). destruct (deco w0 x); reflexivity.
Qed.

Lemma script_all_ok sc n : forallb (fun h => match h with HOk => true | _ => false end) sc = true -> script_at sc n = HOk.
Proof.
  intros H. rewrite forallb_forall in H. unfold script_at.
  assert (Hl : last sc HOk = HOk).
  { destruct sc as [|a sc]; [reflexivity|]. assert (Hin : In (last (a :: sc) HOk) (a :: sc)).
    { clear. revert a. induction sc as [|b sc IH]; intros a; [now left|]. right. apply (IH b). }
    specialize (H _ Hin). destruct (last (a :: sc) HOk); try discriminate; reflexivity. }
  rewrite Hl. destruct (nth_in_or_default n sc HOk) as [Hin|E]; [|exact E].
  specialize (H _ Hin). destruct (nth n sc HOk); try discriminate; reflexivity.
Qed.

Lemma reliable_good c l : wf (lw (w c)) -> l < nlayers (lw (w c)) -> stack_reliable c l = true -> good (w c) l.
Proof.
  intros Hwf Hl H x sc n Hx E. unfold stack_reliable in H. rewrite forallb_forall in H.
  assert (Hin : In x (stack (w c) l)) by (apply gather_layers_spec; assumption).
  specialize (H x Hin). rewrite E in H. apply script_all_ok. exact H.
Qed.

Theorem c03_ok_model w0 o0 inj :
  wf (lw w0) -> (forall t, In t (tests w0) -> t_layer t < nlayers (lw w0)) ->
  c03_ok (model_case w0 o0 inj) = true.
Proof.
  intros Hwf Ht. unfold c03_ok.
  set (mc := model_case w0 o0 inj).
  assert (Hreps : reps_of mc = reps o0) by reflexivity.
  apply andb_true_intro. split; [apply andb_true_intro; split; [apply andb_true_intro; split|]|].
  - apply forallb_forall. intros t Hin. apply Nat.ltb_lt.
    destruct (run_wbp w0 o0) as [Wp Wc]. unfold mc, all_procs, model_case in Hin. cbn [i_parent i_children] in Hin. rewrite map_map in Hin.
    apply in_flat_map in Hin. destruct Hin as [evs [[<-|Hevs] Hin]].
    + apply (proj2 (wbp_started w0 t _ Wp)). exact Hin.
    + apply in_map_iff in Hevs. destruct Hevs as [c [<- Hc]]. apply (proj2 (wbp_started w0 t _ (Wc c Hc))). exact Hin.
  - apply forallb_forall. intros t _. apply Nat.leb_le. rewrite Hreps. unfold mc. rewrite model_started_count.
    destruct (deco w0 t); [lia|]. pose proof (starts_at_most w0 o0 t) as H. destruct (Nat.ltb t (length (tests w0))); lia.
  - change (o mc) with o0. destruct (o_x o0) eqn:Ex; [reflexivity|]. cbn [orb]. apply forallb_forall. intros t _.
    unfold behaviour. change (w mc) with w0. destruct (nth_error (tests w0) t) as [b|] eqn:En; [|reflexivity].
    destruct (t_deco b) eqn:Ed; [reflexivity|]. cbn [orb].
    destruct (stack_reliable mc (t_layer b)) eqn:Er; [cbn [negb orb] | reflexivity].
    apply Nat.eqb_eq. rewrite Hreps. unfold mc. rewrite model_started_count. unfold deco. rewrite En, Ed.
    apply (each_test_started_once_per_iteration w0 o0 Hwf Ex Ht t b En).
    apply (reliable_good mc (t_layer b) Hwf); [apply Ht; eapply nth_error_In; eauto | exact Er].
  - pose proof (c01_ok_model w0 o0 Hwf Ht) as H. unfold c01_ok in H. apply andb_prop in H. destruct H as [H1 H2].
    change (w mc) with w0. change (all_procs mc) with (observed w0 (r_parent (run w0 o0)) :: map snd (map (fun c => (c_layer c, observed w0 (c_ev c))) (r_children (run w0 o0)))).
    cbn [forallb]. rewrite H1. cbn [andb].
    rewrite forallb_forall in *. intros evs Hevs. apply in_map_iff in Hevs. destruct Hevs as [ch [<- Hch]]. apply H2. exact Hch.
Qed.

Theorem c03_check_sound c : agree c = true -> wf_case c = true -> Nat.ltb 1 (o_procs (o c)) = false -> c03_ok c = true.
Proof.
  intros Ha Hw Hp. destruct (wf_case_hyps c Hw) as [Hwf Ht]. rewrite (agree_is_model c Ha Hp). apply c03_ok_model; assumption.
Qed.

(* ---------------- C04: a summary is printed in every process in which a test started ---------------- *)
Definition nsum (e : ev) : nat := match e with ESummary _ _ _ _ _ => 1 | _ => 0 end.

Section S.
Variable w0 : rworld.
Variable o0 : ropts.

Definition sp (tr : list ev) : Prop := 0 < total nstart_ev tr -> 0 < total nsum tr.

Lemma setup_layer_q2 (f : ev -> nat) : (forall l h, f (ESetUp l h) = 0) ->
  forall fuel l p, total f (ps_ev (fst (setup_layer w0 fuel l p))) = total f (ps_ev p).
Proof.
  intros F0. induction fuel as [|fu IH]; intros l p; [reflexivity|]. cbn [setup_layer].
  destruct (mem l (ps_setup p)); [reflexivity|].
  set (F := fun (acc : pstate * bool) b => let '(q, x) := acc in if x then (q, x) else setup_layer w0 fu b q).
  assert (Hfold : forall bs q x, total f (ps_ev (fst (fold_left F bs (q, x)))) = total f (ps_ev q)).
  { induction bs as [|b bs IHb]; intros q x; simpl; [reflexivity|].
    destruct x; [apply IHb|]. specialize (IH b q). destruct (setup_layer w0 fu b q) as [q1 x1]. simpl in IH.
    rewrite IHb. exact IH. }
  specialize (Hfold (bases_of (lw w0) l) p false).
  destruct (fold_left F (bases_of (lw w0) l) (p, false)) as [p1 exc]. simpl in Hfold.
  destruct exc; [exact Hfold|]. cbn [fst ps_ev]. rewrite total_app. simpl. rewrite F0, Hfold. apply Nat.add_0_r.
Qed.

Lemma repeat_loop_sp : forall n l p, sp (ps_ev p) -> sp (ps_ev (repeat_loop w0 o0 n l p)).
Proof.
  intros n l p Hp. destruct n as [|n]; [exact Hp|]. simpl.
  set (rs := run_seq w0 o0 l (tests_of w0 l) rs_init).
  set (p1 := {| ps_setup := ps_setup p; ps_att_su := ps_att_su p; ps_att_td := ps_att_td p; ps_ran := rs_run rs;
                ps_fail := ps_fail p ++ rs_fail rs ++ rs_us rs; ps_err := ps_err p ++ rs_err rs; ps_skip := ps_skip p + rs_skip rs;
                ps_ev := ps_ev p ++ rs_ev rs ++ [ESummary l (rs_run rs) (length (rs_fail rs) + length (rs_us rs))
                                                          (length (rs_err rs) + o_import_errors o0) (rs_skip rs)] |}).
  assert (H1 : 0 < total nsum (ps_ev p1)) by (unfold p1; cbn [ps_ev]; rewrite !total_app; simpl; lia).
  destruct (rs_stop rs); [intros _; exact H1|].
  destruct (repeat_loop_ext w0 o0 n l p1) as [ext E]. intros _. rewrite E, total_app. lia.
Qed.

Lemma run_layer_sp l p : sp (ps_ev p) -> sp (ps_ev (fst (run_layer w0 o0 l p))).
Proof.
  intros Hp. unfold run_layer, tear_down_unneeded.
  pose proof (td_loop_quiet w0 nstart_ev (fun _ _ => eq_refl) (fun _ => eq_refl)
                (rev (order_by_bases (lw w0) (filter (fun x => negb (mem x (gather_layers (lw w0) l))) (ps_setup p)))) false p) as T1.
  pose proof (td_loop_quiet w0 nsum (fun _ _ => eq_refl) (fun _ => eq_refl)
                (rev (order_by_bases (lw w0) (filter (fun x => negb (mem x (gather_layers (lw w0) l))) (ps_setup p)))) false p) as T2.
  destruct (td_loop w0 _ false p) as [p1 cannot]. simpl in T1, T2.
  assert (H1 : sp (ps_ev p1)) by (unfold sp; rewrite T1, T2; exact Hp).
  destruct cannot; [exact H1|].
  pose proof (setup_layer_q2 nstart_ev (fun _ _ => eq_refl) (S (nlayers (lw w0))) l p1) as S1.
  pose proof (setup_layer_q2 nsum (fun _ _ => eq_refl) (S (nlayers (lw w0))) l p1) as S2.
  destruct (setup_layer w0 (S (nlayers (lw w0))) l p1) as [p2 exc]. simpl in S1, S2.
  assert (H2 : sp (ps_ev p2)) by (unfold sp; rewrite S1, S2; exact H1).
  destruct exc; [exact H2|]. cbn [fst]. apply repeat_loop_sp. exact H2.
Qed.

Lemma parent_loop_sp : forall ls p ran n, sp (ps_ev p) -> sp (ps_ev (fst (fst (fst (fst (parent_loop w0 o0 ls p ran n)))))).
Proof.
  induction ls as [|l ls IH]; intros p ran n Hp; simpl; [exact Hp|].
  pose proof (run_layer_sp l p Hp) as Hl. destruct (run_layer w0 o0 l p) as [p1 cannot]. simpl in Hl.
  destruct cannot; [exact Hl|].
  destruct (o_x o0 && match ps_fail p1, ps_err p1 with [], [] => false | _, _ => true end); [exact Hl|].
  apply IH. exact Hl.
Qed.

Lemma child_sp l : sp (c_ev (child_run w0 o0 l)).
Proof.
  unfold child_run. assert (H0 : sp (ps_ev ps_init)) by (unfold sp; simpl; lia).
  pose proof (run_layer_sp l ps_init H0) as H. destruct (run_layer w0 o0 l ps_init) as [p1 c1].
  simpl in H. unfold tear_down_unneeded.
  pose proof (td_loop_quiet w0 nstart_ev (fun _ _ => eq_refl) (fun _ => eq_refl)
                (rev (order_by_bases (lw w0) (filter (fun x => negb (mem x [])) (ps_setup p1)))) true p1) as T1.
  pose proof (td_loop_quiet w0 nsum (fun _ _ => eq_refl) (fun _ => eq_refl)
                (rev (order_by_bases (lw w0) (filter (fun x => negb (mem x [])) (ps_setup p1)))) true p1) as T2.
  destruct (td_loop w0 _ true p1) as [p2 c2]. simpl in T1, T2. cbn [c_ev]. unfold sp. rewrite T1, T2. exact H.
Qed.

Lemma run_sp : sp (r_parent (run w0 o0)) /\ forall c, In c (r_children (run w0 o0)) -> sp (c_ev c).
Proof.
  unfold run.
  set (A := if 1 <? o_procs o0 then _ else _).
  assert (HA : sp (ps_ev (fst (fst (fst (fst A)))))).
  { unfold A. destruct (1 <? o_procs o0).
    - simpl. unfold sp. intros H. exfalso. revert H. induction (reps o0) as [|k IHk]; simpl; [lia | exact IHk].
    - apply parent_loop_sp. unfold sp. simpl. lia. }
  destruct A as [[[[p1 ran1] rest] resume] n1]. simpl in HA.
  set (B := if resume then _ else _).
  assert (HB : forall c, In c (fst (fst (fst B))) -> exists l, c = child_run w0 o0 l).
  { unfold B. destruct resume; [apply RunBracket.resume_seq_children | intros c []]. }
  destruct B as [[[cs ran2] f2] e2]. simpl in HB.
  unfold tear_down_unneeded.
  match goal with |- context [td_loop w0 ?ord true ?p2] =>
    pose proof (td_loop_quiet w0 nstart_ev (fun _ _ => eq_refl) (fun _ => eq_refl) ord true p2) as T1;
    pose proof (td_loop_quiet w0 nsum (fun _ _ => eq_refl) (fun _ => eq_refl) ord true p2) as T2;
    destruct (td_loop w0 ord true p2) as [p3 c3] end.
  simpl in T1, T2. cbn [r_parent r_children]. split; [unfold sp; rewrite T1, T2; exact HA|].
  intros c Hc. destruct (HB c Hc) as [l ->]. apply child_sp.
Qed.
End S.

Lemma summaries_len tr : length (summaries tr) = total nsum tr.
Proof. induction tr as [|e tr IH]; simpl; [reflexivity|]. rewrite app_length, IH. destruct e; reflexivity. Qed.

Lemma started_nstart w0 tr : wbp w0 tr -> started (observed w0 tr) <> [] -> 0 < total nstart_ev tr.
Proof.
  intros Hw Hne. destruct (started (observed w0 tr)) as [|x r] eqn:E; [congruence|].
  destruct (wbp_started w0 x tr Hw) as [Hc _]. rewrite E in Hc. simpl in Hc. rewrite Nat.eqb_refl in Hc.
  destruct (deco w0 x); [discriminate|].
  assert (Hle : forall l, total (ns x) l <= total nstart_ev l).
  { induction l as [|e l IH]; simpl; [lia|]. destruct e; simpl; try lia. destruct (Nat.eqb t x); lia. }
  specialize (Hle tr). lia.
Qed.

Theorem c04_ok_model w0 o0 inj :
  wf (lw w0) -> (forall t, In t (tests w0) -> t_layer t < nlayers (lw w0)) ->
  c04_ok (model_case w0 o0 inj) = true.
Proof.
  intros Hwf Ht. pose proof (c03_ok_model w0 o0 inj Hwf Ht) as H3. unfold c03_ok in H3.
  apply andb_prop in H3. destruct H3 as [H3 Hc01]. apply andb_prop in H3. destruct H3 as [H3 Hcount]. apply andb_prop in H3. destruct H3 as [_ Hle].
  unfold c04_ok. set (mc := model_case w0 o0 inj) in *.
  apply andb_true_intro. split; [apply andb_true_intro; split; [apply andb_true_intro; split; [reflexivity|]|exact Hc01]|].
  - destruct (o_x (o mc)) eqn:Ex; [reflexivity|]. cbn [orb] in *. rewrite forallb_forall in *. intros t Hin. specialize (Hcount t Hin).
    destruct (behaviour mc t) as [b|]; [|reflexivity].
    destruct (t_deco b); [reflexivity|]. cbn [orb] in *. destruct (negb (stack_reliable mc (t_layer b))); [reflexivity|]. cbn [orb] in *.
    apply Nat.eqb_eq in Hcount. apply Nat.leb_le. rewrite Hcount. change (reps_of mc) with (reps o0). unfold reps. destruct (o_repeat o0); lia.
  - apply Nat.leb_le. destruct (run_wbp w0 o0) as [Wp Wc]. destruct (run_sp w0 o0) as [Sp Sc].
    change (all_procs mc) with (observed w0 (r_parent (run w0 o0)) :: map snd (map (fun c => (c_layer c, observed w0 (c_ev c))) (r_children (run w0 o0)))).
    change (i_summaries mc) with (summaries (r_parent (run w0 o0)) ++ flat_map (fun ch => summaries (c_ev ch)) (r_children (run w0 o0))).
    rewrite map_map. cbn [snd]. rewrite app_length.
    assert (Hone : forall tr, wbp w0 tr -> sp tr ->
              length (filter (fun evs => match started evs with [] => false | _ => true end) [observed w0 tr]) <= length (summaries tr)).
    { intros tr Hw Hs. simpl. destruct (started (observed w0 tr)) eqn:E; simpl; [lia|].
      rewrite summaries_len. assert (0 < total nstart_ev tr) by (apply (started_nstart w0 tr Hw); rewrite E; discriminate). specialize (Hs H). lia. }
    cbn [filter]. pose proof (Hone _ Wp Sp) as H1. simpl in H1.
    assert (Hch : forall cs, (forall c, In c cs -> wbp w0 (c_ev c)) -> (forall c, In c cs -> sp (c_ev c)) ->
              length (filter (fun evs => match started evs with [] => false | _ => true end) (map (fun c => observed w0 (c_ev c)) cs))
              <= length (flat_map (fun ch => summaries (c_ev ch)) cs)).
    { induction cs as [|c cs IH]; intros Hw Hs; simpl; [lia|].
      rewrite app_length. pose proof (Hone _ (Hw c (or_introl eq_refl)) (Hs c (or_introl eq_refl))) as Hc. simpl in Hc.
      specialize (IH (fun c' Hc' => Hw c' (or_intror Hc')) (fun c' Hc' => Hs c' (or_intror Hc'))).
      destruct (started (observed w0 (c_ev c))); simpl in *; lia. }
    specialize (Hch _ Wc Sc).
    destruct (started (observed w0 (r_parent (run w0 o0)))); simpl in *; lia.
Qed.

Theorem c04_check_sound c : agree c = true -> wf_case c = true -> Nat.ltb 1 (o_procs (o c)) = false -> c04_ok c = true.
Proof.
  intros Ha Hw Hp. destruct (wf_case_hyps c Hw) as [Hwf Ht]. rewrite (agree_is_model c Ha Hp). apply c04_ok_model; assumption.
Qed.
