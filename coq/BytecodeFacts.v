From ZT Require Import Base Tree Bytecode.

Section EntryInd.
Variable P : entry -> Prop.
Hypothesis HF : forall n, P (F n).
Hypothesis HD : forall n kids, Forall P kids -> P (D n kids).
Fixpoint entry_ind' (e : entry) : P e :=
  match e with
  | F n => HF n
  | D n kids => HD n kids
      ((fix go (ks : list entry) : Forall P ks :=
          match ks with [] => Forall_nil _ | k :: r => Forall_cons k (entry_ind' k) (go r) end) kids)
  end.
End EntryInd.

Section B.
Variable ign : list str.

(* the statement: an orphaned compiled file directly in a walked directory *)
Definition orphan (kids : list entry) (f : str) : Prop :=
  In (F f) kids /\ compiled f = true /\ ~ In (F (drop1 f)) kids.

Inductive is_stale : list entry -> path -> Prop :=
| st_here kids f : orphan kids f -> is_stale kids [f]
| st_down kids n sub p : In (D n sub) kids -> pruned ign n = false -> is_stale sub p -> is_stale kids (n :: p).

Lemma orphan_filter kids f :
  In f (filter (fun f => compiled f && negb (smem (drop1 f) (file_names kids))) (file_names kids)) <-> orphan kids f.
Proof.
  rewrite filter_In, andb_true_iff, negb_true_iff, in_file_names. unfold orphan.
  rewrite <- not_true_iff_false, smem_In, in_file_names. tauto.
Qed.

Lemma go_flat (ks : list entry) :
  (fix go ks := match ks with [] => [] | k :: r => stale_e ign k ++ go r end) ks = flat_map (stale_e ign) ks.
Proof. induction ks as [|k r IH]; simpl; [reflexivity | now rewrite IH]. Qed.

Lemma stale_e_D n kids : stale_e ign (D n kids) = if pruned ign n then [] else map (cons n) (stale_dir ign kids).
Proof. simpl. destruct (pruned ign n); [reflexivity|]. rewrite go_flat. reflexivity. Qed.

Theorem stale_spec : forall kids p, In p (stale_dir ign kids) <-> is_stale kids p.
Proof.
  assert (He : forall e, forall p, In p (stale_e ign e) <->
                match e with F _ => False | D n sub => pruned ign n = false /\ exists q, p = n :: q /\ is_stale sub q end).
  { induction e as [n|n kids IH] using entry_ind'; intros p; [simpl; tauto|].
    rewrite stale_e_D. destruct (pruned ign n) eqn:Ep; [simpl; split; [tauto | intros [H _]; discriminate]|].
    rewrite in_map_iff. unfold stale_dir.
    assert (Hdir : forall q, In q (map (fun f => [f]) (filter (fun f => compiled f && negb (smem (drop1 f) (file_names kids))) (file_names kids))
                          ++ flat_map (stale_e ign) kids) <-> is_stale kids q).
    { intros q. rewrite in_app_iff, in_map_iff, in_flat_map. split.
      - intros [[f [<- Hf]]|[e [He Hq]]].
        + apply st_here. apply orphan_filter. exact Hf.
        + rewrite Forall_forall in IH. apply (IH e He) in Hq. destruct e as [m|m sub]; [destruct Hq|].
          destruct Hq as [Hp [q' [-> Hs]]]. eapply st_down; eauto.
      - intros H. inversion H as [k f Ho|k m sub q' Hin Hp Hs]; subst.
        + left. exists f. split; [reflexivity | apply orphan_filter; exact Ho].
        + right. exists (D m sub). split; [exact Hin|]. rewrite Forall_forall in IH. apply (IH _ Hin). eauto. }
    split.
    - intros [q [<- Hq]]. split; [reflexivity|]. exists q. split; [reflexivity | apply Hdir; exact Hq].
    - intros [_ [q [-> Hq]]]. exists q. split; [reflexivity | apply Hdir; exact Hq]. }
  intros kids p. unfold stale_dir. rewrite in_app_iff, in_map_iff, in_flat_map. split.
  - intros [[f [<- Hf]]|[e [Hin Hq]]].
    + apply st_here. apply orphan_filter. exact Hf.
    + apply He in Hq. destruct e as [m|m sub]; [destruct Hq|]. destruct Hq as [Hp [q [-> Hs]]]. eapply st_down; eauto.
  - intros H. inversion H as [k f Ho|k m sub q Hin Hp Hs]; subst.
    + left. exists f. split; [reflexivity | apply orphan_filter; exact Ho].
    + right. exists (D m sub). split; [exact Hin|]. apply He. eauto.
Qed.

(* consequences spelled out as in the statement *)
Corollary deleted_is_compiled kids p : In p (stale_dir ign kids) -> exists d f, p = d ++ [f] /\ compiled f = true.
Proof.
  rewrite stale_spec. induction 1 as [kids f [_ [Hc _]]|kids n sub p _ _ _ [d [f [-> Hc]]]].
  - exists [], f. auto.
  - exists (n :: d), f. auto.
Qed.

Corollary never_below_pruned kids p : In p (stale_dir ign kids) ->
  forall d n r, p = d ++ n :: r -> r <> [] -> pruned ign n = false.
Proof.
  rewrite stale_spec. induction 1 as [kids f _|kids n sub p _ Hp _ IH]; intros d m r E Hr.
  - destruct d as [|x d]; simpl in E; injection E as E0 E'; subst; [congruence | destruct d; discriminate].
  - destruct d as [|x d]; simpl in E; injection E as E0 E'; subst; [exact Hp | eapply IH; eauto].
Qed.
End B.

Theorem keep_means_nothing ign tree root : cleanup_root ign true tree root = [].
Proof. reflexivity. Qed.

(* compiled: exactly the names ending in ".pyc" / ".pyo" *)
Lemma last4_app (a : str) (b : str) : length b = 4%nat -> last4 (a ++ b) = b.
Proof.
  intros Hb. unfold last4. rewrite app_length, Hb. replace (length a + 4 - 4)%nat with (length a + 0)%nat by lia.
  rewrite skipn_app, skipn_all2 by lia. replace (length a + 0 - length a)%nat with 0%nat by lia. reflexivity.
Qed.
Theorem compiled_spec f : compiled f = true <-> exists a, f = a ++ s_pyc \/ f = a ++ s_pyo.
Proof.
  unfold compiled. rewrite orb_true_iff, !str_eqb_eq. split.
  - intros H. exists (firstn (length f - 4) f). unfold last4 in H.
    destruct H as [H|H]; [left|right]; rewrite <- H; symmetry; apply firstn_skipn.
  - intros [a [-> | ->]]; rewrite last4_app by reflexivity; auto.
Qed.

Example stale_example :
  stale_dir [[46;103;105;116]%N]
    [F [97;46;112;121;99]%N; F [98;46;112;121;99]%N; F [98;46;112;121]%N;
     D [112]%N [F [120;46;112;121;111]%N]; D s_pycache [F [97;46;112;121;99]%N]; D [46;103;105;116]%N [F [122;46;112;121;99]%N]]
  = [[[97;46;112;121;99]]; [[112]; [120;46;112;121;111]]]%N.
Proof. vm_compute. reflexivity. Qed.
