(* Chk_C08.v — case type and checker for C08 (filter patterns). *)
From ZT Require Import Base Filter.

(* search oracle shipped with the case: ((pattern, value), answer) *)
Definition table := list (str * str * bool).
Fixpoint lookup (t : table) (p v : str) : bool :=
  match t with
  | [] => false
  | (p', v', b) :: r => if str_eqb p p' && str_eqb v v' then b else lookup r p v
  end.

Record case := {
  pats : list str;           (* the pattern list *)
  perm : list str;           (* a permutation of it with duplicates added (chosen by the harness) *)
  xpos : str;                (* an extra positive pattern *)
  xneg : str;                (* an extra negated pattern, including the '!' *)
  names : list str;
  tab : table;               (* re.search answers for every (pattern, name) pair used *)
  r_pats : list bool;        (* implementation: build_filtering_func(pats)(name) for each name *)
  r_perm : list bool;
  r_pos : list bool;         (* … (pats ++ [xpos]) *)
  r_neg : list bool          (* … (pats ++ [xneg]) *)
}.

Definition model (c : case) (ps : list str) : list bool :=
  map (accept (lookup (tab c)) ps) (names c).

Definition bools_eqb := list_eqb Bool.eqb.

(* the statement of C08, as a boolean over the oracle, written independently of `accept` *)
Definition spec_b (s : str -> str -> bool) (ps : list str) (v : str) : bool :=
  let pos := existsb (fun p => negb (is_neg p) && s p v) ps in
  let anypos := existsb (fun p => negb (is_neg p)) ps in
  let anyneg := existsb is_neg ps in
  let neg := existsb (fun p => is_neg p && s (tl p) v) ps in
  (pos || (negb anypos && anyneg)) && negb neg.

Fixpoint zip3ok (f : str -> bool -> bool -> bool -> bool -> bool) (ns : list str) (a b c d : list bool) : bool :=
  match ns, a, b, c, d with
  | [], [], [], [], [] => true
  | n :: ns', x :: a', y :: b', z :: c', w :: d' => f n x y z w && zip3ok f ns' a' b' c' d'
  | _, _, _, _, _ => false
  end.

Definition c08_ok (c : case) : bool :=
  let s := lookup (tab c) in
  let anypos := existsb (fun p => negb (is_neg p)) (pats c) in
  zip3ok (fun n x y z w =>
      (* iff with the statement (names on which '.' matches; see DESIGN C08) *)
      (negb (s dot_pat n) || Bool.eqb x (spec_b s (pats c) n))
      (* order / duplicates *)
      && Bool.eqb x y
      (* adding a positive pattern (one already present) never deselects *)
      && (negb (anypos && x) || z)
      (* adding a negated pattern never selects *)
      && (match pats c with [] => true | _ => x || negb w end))
    (names c) (r_pats c) (r_perm c) (r_pos c) (r_neg c).

Definition outside (c : case) : bool :=
  existsb (fun n => negb (lookup (tab c) dot_pat n)) (names c).

Definition check (c : case) : nat :=
  bit (negb (bools_eqb (model c (pats c)) (r_pats c)
             && bools_eqb (model c (perm c)) (r_perm c)
             && bools_eqb (model c (pats c ++ [xpos c])) (r_pos c)
             && bools_eqb (model c (pats c ++ [xneg c])) (r_neg c))) 1
  + bit (negb (c08_ok c)) 2
  + bit (outside c) 4.
