(* Tarjan.v — unbounded correctness of the iterative Tarjan machine of Digraph.v (zope.testrunner.digraph.sccs):
   for EVERY graph (any number of nodes, any root order, any adjacency order), in both modes, the machine
   terminates within its fuel without error and emits exactly the strongly connected components (default mode:
   exactly those containing a cycle), each once.  Proof by a machine invariant over the explicit DFS frames. *)
From ZT Require Import Base LayersFacts Digraph TarjanBase.

Section T.
Variable g : graph.
Variable trivial : bool.
Hypothesis Gnodup : NoDup (nodes g).
Hypothesis Gadj : forall x y, In y (adj g x) -> In y (nodes g).

Definition E (x y : nat) : Prop := In y (adj g x).
Inductive reach : nat -> nat -> Prop :=
| r_refl x : reach x x
| r_step x y z : E x y -> reach y z -> reach x z.
Lemma reach_edge x y : E x y -> reach x y.
Proof. intros H. eapply r_step; [exact H | constructor]. Qed.
Lemma reach_trans x y z : reach x y -> reach y z -> reach x z.
Proof. induction 1 as [|x y' y He _ IH]; [auto|]. intros H. eapply r_step; [exact He | auto]. Qed.
Definition cyc (x : nat) : Prop := E x x \/ exists y, y <> x /\ reach x y /\ reach y x.

(* a set closed under edges is closed under reachability *)
Lemma closed_reach (S : nat -> Prop) : (forall x y, S x -> E x y -> S y) -> forall x y, reach x y -> S x -> S y.
Proof. intros Hc x y H. induction H as [|x y z He _ IH]; [auto|]. intros Hx. apply IH. eapply Hc; eauto. Qed.

(* ---------------- frames ---------------- *)
(* one DFS frame: ancestor a, its processed (P) and pending (F) neighbours, the finished nodes stacked above it
   (seg), the stack below it, and its tree parent *)
Record frame_ok (m : smap) (a : nat) (P F seg below : list nat) (parent : option nat) : Prop := {
  f_adj : rev (adj g a) = P ++ F;
  f_vis : forall x, In x (a :: seg) -> vis m x = true;
  f_pvis : forall y, In y P -> vis m y = true;
  f_below_lt : forall y, In y below -> dfs m y < dfs m a;
  f_seg_gt : forall x, In x seg -> dfs m a < dfs m x;
  f_parent : match parent with Some p => E p a | None => True end;
  f_seg_up : forall x, In x seg -> reach x a;
  f_seg_down : forall x, In x seg -> reach a x;
  f_below_up : forall y, In y below -> reach y a;
  f_K : forall x y, (x = a /\ In y P) \/ In x seg -> E x y -> In y below -> low m a <= dfs m y;
  f_seg_fin : forall x y, In x seg -> E x y -> vis m y = true
}.

Inductive cfg (m : smap) : list nat -> list visit -> list nat -> Prop :=
| cfg_nil : cfg m [] [] []
| cfg_cons a anc P F seg vs below :
    cfg m anc vs below -> frame_ok m a P F seg below (hd_error anc) ->
    cfg m (a :: anc) (map VNode F ++ VRtn :: vs) (seg ++ a :: below).

Lemma cfg_vis m anc vs stk : cfg m anc vs stk -> forall x, In x stk -> vis m x = true.
Proof.
  induction 1 as [|a anc P F seg vs below Hc IH Hf]; intros x Hx; [destruct Hx|].
  apply in_app_or in Hx. destruct Hx as [Hx|[<-|Hx]].
  - apply (f_vis _ _ _ _ _ _ _ Hf). now right.
  - apply (f_vis _ _ _ _ _ _ _ Hf). now left.
  - apply IH. exact Hx.
Qed.

Lemma cfg_anc_in_stack m anc vs stk : cfg m anc vs stk -> forall a, In a anc -> In a stk.
Proof.
  induction 1 as [|a anc P F seg vs below Hc IH Hf]; intros x Hx; [destruct Hx|].
  apply in_or_app. right. destruct Hx as [<-|Hx]; [now left | right; apply IH; exact Hx].
Qed.

Lemma frame_mono m m' a P F seg below parent :
  (forall x, vis m x = true -> vis m' x = true /\ dfs m' x = dfs m x) -> low m' a <= low m a ->
  (forall x, In x below -> vis m x = true) ->
  frame_ok m a P F seg below parent -> frame_ok m' a P F seg below parent.
Proof.
  intros Hm Hl Hb Hf. destruct Hf as [A1 A2 A3 A4 A5 A6 A7 A8 A9 A10 A11].
  assert (Hva : vis m a = true) by (apply A2; now left).
  constructor; auto.
  - intros x Hx. apply Hm. apply A2. exact Hx.
  - intros y Hy. apply Hm. apply A3. exact Hy.
  - intros y Hy. destruct (Hm y (Hb y Hy)) as [_ ->]. destruct (Hm a Hva) as [_ ->]. apply A4. exact Hy.
  - intros x Hx. assert (Hvx : vis m x = true) by (apply A2; now right).
    destruct (Hm x Hvx) as [_ ->]. destruct (Hm a Hva) as [_ ->]. apply A5. exact Hx.
  - intros x y Hc He Hy. destruct (Hm y (Hb y Hy)) as [_ ->]. specialize (A10 x y Hc He Hy). lia.
  - intros x y Hx He. apply Hm. eapply A11; eauto.
Qed.

Lemma cfg_mono m m' : (forall x, vis m x = true -> vis m' x = true /\ dfs m' x = dfs m x) ->
  (forall x, vis m x = true -> low m' x <= low m x) ->
  forall anc vs stk, cfg m anc vs stk -> cfg m' anc vs stk.
Proof.
  intros Hm Hl anc vs stk H. induction H as [|a anc P F seg vs below Hc IH Hf]; [constructor|].
  econstructor; [exact IH|]. eapply frame_mono; eauto.
  - apply Hl. apply (f_vis _ _ _ _ _ _ _ Hf). now left.
  - apply (cfg_vis _ _ _ _ Hc).
Qed.

(* ---------------- the invariant ---------------- *)
Record Inv (s : tstate) : Prop := {
  i_U_nodup : NoDup (unvisited s);
  i_vis : forall x, vis (states s) x = true <-> (In x (nodes g) /\ ~ In x (unvisited s));
  i_U_nodes : forall x, In x (unvisited s) -> In x (nodes g);
  i_dfs_lt : forall x, vis (states s) x = true -> dfs (states s) x < counter s;
  i_stk : forall x, stkd (states s) x = true <-> In x (stack s);
  i_stk_nodup : NoDup (stack s);
  i_low_le : forall x, In x (stack s) -> low (states s) x <= dfs (states s) x;
  i_cfg : cfg (states s) (ancestors s) (visits s) (stack s) \/
          (ancestors s = [] /\ stack s = [] /\ exists n, visits s = [VNode n] /\ In n (unvisited s));
  i_L : forall x, In x (stack s) -> exists z, In z (stack s) /\ dfs (states s) z = low (states s) x /\ reach x z;
  i_pop_closed : forall x y, vis (states s) x = true -> stkd (states s) x = false -> E x y ->
                 vis (states s) y = true /\ stkd (states s) y = false;
  i_out : forall c, In c (out s) -> c <> [] /\ forall x, In x c ->
          vis (states s) x = true /\ stkd (states s) x = false /\ forall y, In y c <-> (reach x y /\ reach y x);
  i_out_nodup : NoDup (concat (out s));
  i_out_cover : forall x, vis (states s) x = true -> stkd (states s) x = false ->
                (In x (concat (out s)) <-> (trivial = true \/ cyc x))
}.

Lemma inv_init : Inv (init g).
Proof.
  constructor; simpl.
  - exact Gnodup.
  - intros x. unfold vis. simpl. split; [discriminate | tauto].
  - auto.
  - intros x. unfold vis. simpl. discriminate.
  - intros x. unfold stkd. simpl. split; [discriminate | tauto].
  - constructor.
  - intros x [].
  - left. constructor.
  - intros x [].
  - intros x y. unfold vis. simpl. discriminate.
  - intros c [].
  - constructor.
  - intros x. unfold vis. simpl. discriminate.
Qed.

Definition mk U m anc stk vs c o : tstate :=
  {| unvisited := U; states := m; ancestors := anc; stack := stk; visits := vs; counter := c; out := o |}.

(* ---------------- inversion of the frame structure ---------------- *)
Lemma cfg_inv_nil m anc stk : cfg m anc [] stk -> anc = [] /\ stk = [].
Proof.
  intros H. inversion H as [|a anc' P F seg vs below Hc Hf E1 E2 E3]; [auto|].
  destruct F; discriminate.
Qed.

Lemma cfg_inv_vnode m anc n vs0 stk : cfg m anc (VNode n :: vs0) stk ->
  exists a anc' P F' seg vs1 below, anc = a :: anc' /\ vs0 = map VNode F' ++ VRtn :: vs1 /\ stk = seg ++ a :: below /\
    cfg m anc' vs1 below /\ frame_ok m a P (n :: F') seg below (hd_error anc').
Proof.
  intros H. inversion H as [|a anc' P F seg vs below Hc Hf E1 E2 E3].
  destruct F as [|n' F']; simpl in E2; [discriminate|]. injection E2 as En Evs. subst.
  exists a, anc', P, F', seg, vs, below. auto 10.
Qed.

Lemma cfg_inv_vrtn m anc vs1 stk : cfg m anc (VRtn :: vs1) stk ->
  exists a anc' P seg below, anc = a :: anc' /\ stk = seg ++ a :: below /\
    cfg m anc' vs1 below /\ frame_ok m a P [] seg below (hd_error anc').
Proof.
  intros H. inversion H as [|a anc' P F seg vs below Hc Hf E1 E2 E3].
  destruct F as [|n' F']; simpl in E2; [|discriminate]. injection E2 as Evs. subst.
  exists a, anc', P, seg, below. auto 10.
Qed.

Lemma cfg_top_reach m a anc vs stk : cfg m (a :: anc) vs stk -> forall y, In y stk -> reach y a.
Proof.
  intros H. inversion H as [|a' anc' P F seg vs' below Hc Hf E1 E2 E3]. subst.
  intros y Hy. apply in_app_or in Hy. destruct Hy as [Hy|[<-|Hy]].
  - apply (f_seg_up _ _ _ _ _ _ _ Hf). exact Hy.
  - constructor.
  - apply (f_below_up _ _ _ _ _ _ _ Hf). exact Hy.
Qed.

(* consuming the head neighbour of the top frame *)
Lemma cfg_advance m a anc P n F seg vs below :
  cfg m anc vs below -> frame_ok m a P (n :: F) seg below (hd_error anc) ->
  vis m n = true -> (In n below -> low m a <= dfs m n) ->
  cfg m (a :: anc) (map VNode F ++ VRtn :: vs) (seg ++ a :: below).
Proof.
  intros Hc Hf Hv Hk. apply cfg_cons with (P := P ++ [n]); [exact Hc|].
  destruct Hf as [A1 A2 A3 A4 A5 A6 A7 A8 A9 A10 A11]. constructor; auto.
  - rewrite A1, <- app_assoc. reflexivity.
  - intros y Hy. apply in_app_or in Hy. destruct Hy as [Hy|[<-|[]]]; [apply A3; exact Hy | exact Hv].
  - intros x y [[-> Hy]|Hx] He Hb.
    + apply in_app_or in Hy. destruct Hy as [Hy|[<-|[]]]; [apply (A10 a y); auto | apply Hk; exact Hb].
    + apply (A10 x y); auto.
Qed.

(* ---------------- preservation, case by case ---------------- *)
Lemma inv_root n U m anc stk c o :
  Inv (mk (n :: U) m anc stk [] c o) -> Inv (mk (n :: U) m anc stk [VNode n] c o).
Proof.
  intros H. destruct H as [H1 H2 H3 H4 H5 H6 H7 H8 H9 H10 H11 H12 H13]. simpl in *.
  assert (Hnil : anc = [] /\ stk = []).
  { destruct H8 as [Hc|[Ha [Hs [n' [Hv _]]]]]; [apply (cfg_inv_nil _ _ _ Hc) | discriminate]. }
  destruct Hnil as [-> ->].
  constructor; simpl; auto.
  right. repeat split; auto. exists n. split; [reflexivity | now left].
Qed.

Lemma inv_set_low U m anc stk vs c o p v :
  Inv (mk U m anc stk vs c o) -> In p stk -> v <= low m p ->
  (exists z, In z stk /\ dfs m z = v /\ reach p z) ->
  Inv (mk U (set_low p v m) anc stk vs c o).
Proof.
  intros H Hp Hv [z [Hz [Hdz Hrz]]]. destruct H as [H1 H2 H3 H4 H5 H6 H7 H8 H9 H10 H11 H12 H13]. simpl in *.
  assert (Hvp : vis m p = true) by (apply stkd_vis; apply H5; exact Hp).
  assert (Hlow : forall x, low (set_low p v m) x <= low m x).
  { intros x. destruct (Nat.eq_dec x p) as [->|Hne]; [rewrite set_low_low_eq by exact Hvp; exact Hv | rewrite set_low_low_neq by exact Hne; lia]. }
  constructor; simpl.
  - exact H1.
  - intros x. rewrite set_low_vis. apply H2.
  - exact H3.
  - intros x. rewrite set_low_vis, set_low_dfs. apply H4.
  - intros x. rewrite set_low_stkd. apply H5.
  - exact H6.
  - intros x Hx. rewrite set_low_dfs. specialize (Hlow x). specialize (H7 x Hx). lia.
  - destruct H8 as [Hc|Hpend]; [left | right; exact Hpend].
    eapply cfg_mono; [| |exact Hc].
    + intros x Hx. rewrite set_low_vis, set_low_dfs. auto.
    + intros x _. apply Hlow.
  - intros x Hx. destruct (Nat.eq_dec x p) as [->|Hne].
    + exists z. rewrite set_low_dfs, set_low_low_eq by exact Hvp. auto.
    + destruct (H9 x Hx) as [z' [Hz' [Hd' Hr']]]. exists z'. rewrite set_low_dfs, set_low_low_neq by exact Hne. auto.
  - intros x y. rewrite !set_low_vis, !set_low_stkd. apply H10.
  - intros c0 Hc0. destruct (H11 c0 Hc0) as [Hne Hall]. split; [exact Hne|]. intros x Hx.
    rewrite set_low_vis, set_low_stkd. apply Hall. exact Hx.
  - exact H12.
  - intros x. rewrite set_low_vis, set_low_stkd. apply H13.
Qed.

(* a visited neighbour at the head of the top frame is consumed *)
Lemma inv_advance U m a anc P n F seg vs below c o :
  Inv (mk U m (a :: anc) (seg ++ a :: below) (map VNode (n :: F) ++ VRtn :: vs) c o) ->
  cfg m anc vs below -> frame_ok m a P (n :: F) seg below (hd_error anc) ->
  vis m n = true -> (In n below -> low m a <= dfs m n) ->
  Inv (mk U m (a :: anc) (seg ++ a :: below) (map VNode F ++ VRtn :: vs) c o).
Proof.
  intros H Hc Hf Hv Hk. destruct H as [H1 H2 H3 H4 H5 H6 H7 H8 H9 H10 H11 H12 H13]. simpl in *.
  constructor; simpl; auto.
  left. eapply cfg_advance; eauto.
Qed.

(* entering an unvisited node *)
Lemma inv_new U m anc stk node vs0 c o :
  Inv (mk U m anc stk (VNode node :: vs0) c o) -> vis m node = false ->
  Inv (mk (remove1 node U) (aupdate node {| st_dfs := c; st_low := c; st_stacked := true |} m)
          (node :: anc) (node :: stk) (map VNode (rev (adj g node)) ++ VRtn :: vs0) (S c) o).
Proof.
  intros H Hnv. pose proof H as HI. destruct H as [H1 H2 H3 H4 H5 H6 H7 H8 H9 H10 H11 H12 H13]. simpl in *.
  set (nst := {| st_dfs := c; st_low := c; st_stacked := true |}).
  set (m' := aupdate node nst m).
  assert (Hold : forall x, vis m x = true -> x <> node) by (intros x Hx ->; congruence).
  assert (Hnstk : ~ In node stk) by (intros Hin; apply H5 in Hin; apply stkd_vis in Hin; congruence).
  assert (Hnodes : In node (nodes g)).
  { destruct H8 as [Hc|[_ [_ [n' [Hv Hn']]]]].
    - destruct (cfg_inv_vnode _ _ _ _ _ Hc) as [a [anc' [P [F' [seg [vs1 [below [-> [-> [-> [Hc' Hf]]]]]]]]]]].
      apply (Gadj a). apply in_rev. rewrite (f_adj _ _ _ _ _ _ _ Hf). apply in_or_app. right. now left.
    - injection Hv as <- _. apply H3. exact Hn'. }
  assert (HnodeU : In node U).
  { destruct (in_dec Nat.eq_dec node U) as [Hi|Hni]; [exact Hi|]. exfalso.
    assert (vis m node = true) by (apply H2; split; assumption). congruence. }
  assert (Evis : forall x, vis m' x = if Nat.eqb x node then true else vis m x) by (intros x; apply new_vis).
  assert (Edfs : forall x, dfs m' x = if Nat.eqb x node then c else dfs m x) by (intros x; apply new_dfs).
  assert (Elow : forall x, low m' x = if Nat.eqb x node then c else low m x) by (intros x; apply new_low).
  assert (Estk : forall x, stkd m' x = if Nat.eqb x node then true else stkd m x) by (intros x; apply new_stkd).
  assert (Hsame : forall x, x <> node -> vis m' x = vis m x /\ dfs m' x = dfs m x /\ low m' x = low m x /\ stkd m' x = stkd m x).
  { intros x Hne. apply Nat.eqb_neq in Hne. rewrite Evis, Edfs, Elow, Estk, Hne. auto. }
  assert (Hmono1 : forall x, vis m x = true -> vis m' x = true /\ dfs m' x = dfs m x).
  { intros x Hx. destruct (Hsame x (Hold x Hx)) as [E1 [E2 _]]. rewrite E1, E2. auto. }
  assert (Hmono2 : forall x, vis m x = true -> low m' x <= low m x).
  { intros x Hx. destruct (Hsame x (Hold x Hx)) as [_ [_ [E3 _]]]. rewrite E3. lia. }
  assert (Hnode' : vis m' node = true /\ dfs m' node = c /\ low m' node = c /\ stkd m' node = true).
  { rewrite Evis, Edfs, Elow, Estk, Nat.eqb_refl. auto. }
  destruct Hnode' as [N1 [N2 [N3 N4]]].
  constructor; simpl; fold nst; fold m'.
  - apply remove1_nodup. exact H1.
  - intros x. rewrite (remove1_in node U x H1). destruct (Nat.eq_dec x node) as [->|Hne].
    + rewrite N1. split; [intros _; split; [exact Hnodes | tauto] | auto].
    + destruct (Hsame x Hne) as [E1 _]. rewrite E1, H2. tauto.
  - intros x Hx. apply remove1_in in Hx; [|exact H1]. apply H3. tauto.
  - intros x. destruct (Nat.eq_dec x node) as [->|Hne]; [rewrite N2; lia|].
    destruct (Hsame x Hne) as [E1 [E2 _]]. rewrite E1, E2. intros Hx. specialize (H4 x Hx). lia.
  - intros x. destruct (Nat.eq_dec x node) as [->|Hne]; [rewrite N4; split; [now left | auto]|].
    destruct (Hsame x Hne) as [_ [_ [_ E4]]]. rewrite E4, H5. split; [now right | intros [Hx|Hx]; [congruence | exact Hx]].
  - constructor; assumption.
  - intros x [<-|Hx]; [rewrite N2, N3; lia|].
    assert (Hne : x <> node) by (intros ->; contradiction).
    destruct (Hsame x Hne) as [_ [E2 [E3 _]]]. rewrite E2, E3. apply H7. exact Hx.
  - left. change (node :: stk) with ([] ++ node :: stk).
    apply cfg_cons with (P := []) (seg := []).
    + destruct H8 as [Hc|[-> [-> [n' [Hv Hn']]]]].
      * destruct (cfg_inv_vnode _ _ _ _ _ Hc) as [a [anc' [P [F' [seg [vs1 [below [-> [-> [-> [Hc' Hf]]]]]]]]]]].
        eapply cfg_advance.
        -- eapply cfg_mono; [exact Hmono1 | exact Hmono2 | exact Hc'].
        -- eapply frame_mono; [exact Hmono1 | | | exact Hf].
           ++ apply Hmono2. apply (f_vis _ _ _ _ _ _ _ Hf). now left.
           ++ apply (cfg_vis _ _ _ _ Hc').
        -- exact N1.
        -- intros Hin. exfalso. apply Hnstk. apply in_or_app. right. now right.
      * injection Hv as _ ->. constructor.
    + constructor.
      * reflexivity.
      * intros x [<-|[]]. exact N1.
      * intros y [].
      * intros y Hy. assert (Hvy : vis m y = true) by (apply stkd_vis; apply H5; exact Hy).
        destruct (Hsame y (Hold y Hvy)) as [_ [E2 _]]. rewrite E2, N2. apply H4. exact Hvy.
      * intros x [].
      * destruct anc as [|a anc']; simpl; [exact I|].
        destruct H8 as [Hc|[Ha _]]; [|discriminate].
        destruct (cfg_inv_vnode _ _ _ _ _ Hc) as [a0 [anc0 [P [F' [seg [vs1 [below [Ea [-> [-> [Hc' Hf]]]]]]]]]]].
        injection Ea as <- <-. unfold E. apply in_rev. rewrite (f_adj _ _ _ _ _ _ _ Hf). apply in_or_app. right. now left.
      * intros x [].
      * intros x [].
      * intros y Hy. destruct H8 as [Hc|[_ [Hs _]]]; [|subst stk; destruct Hy].
        destruct (cfg_inv_vnode _ _ _ _ _ Hc) as [a0 [anc0 [P [F' [seg [vs1 [below [Ea [Ev [Es [Hc' Hf]]]]]]]]]]].
        subst anc. eapply reach_trans; [eapply cfg_top_reach; [exact Hc | exact Hy]|].
        apply reach_edge. unfold E. apply in_rev. rewrite (f_adj _ _ _ _ _ _ _ Hf). apply in_or_app. right. now left.
      * intros x y [[_ []]|[]].
      * intros x y [].
  - intros x [<-|Hx].
    + exists node. rewrite N2, N3. split; [now left | split; [reflexivity | constructor]].
    + destruct (H9 x Hx) as [z [Hz [Hd Hr]]]. exists z.
      assert (Hnx : x <> node) by (intros ->; contradiction).
      assert (Hnz : z <> node) by (intros ->; contradiction).
      destruct (Hsame x Hnx) as [_ [_ [E3 _]]]. destruct (Hsame z Hnz) as [_ [E2 _]]. rewrite E2, E3.
      split; [now right | auto].
  - intros x y Hvx Hsx He.
    assert (Hnx : x <> node) by (intros ->; congruence).
    destruct (Hsame x Hnx) as [E1 [_ [_ E4]]]. rewrite E1 in Hvx. rewrite E4 in Hsx.
    destruct (H10 x y Hvx Hsx He) as [Vy Sy].
    destruct (Hsame y (Hold y Vy)) as [F1 [_ [_ F4]]]. rewrite F1, F4. auto.
  - intros c0 Hc0. destruct (H11 c0 Hc0) as [Hne Hall]. split; [exact Hne|]. intros x Hx.
    destruct (Hall x Hx) as [Vx [Sx Hc]]. destruct (Hsame x (Hold x Vx)) as [F1 [_ [_ F4]]]. rewrite F1, F4. auto.
  - exact H12.
  - intros x Hvx Hsx.
    assert (Hnx : x <> node) by (intros ->; congruence).
    destruct (Hsame x Hnx) as [E1 [_ [_ E4]]]. rewrite E1 in Hvx. rewrite E4 in Hsx. apply H13; assumption.
Qed.

(* returning from a node whose low equals its dfs number: the segment above it and the node are popped *)
Lemma inv_pop U m node anc' seg below vs1 c o P m1 o' :
  Inv (mk U m (node :: anc') (seg ++ node :: below) (VRtn :: vs1) c o) ->
  cfg m anc' vs1 below -> frame_ok m node P [] seg below (hd_error anc') ->
  low m node = dfs m node ->
  (forall x, vis m1 x = vis m x) -> (forall x, dfs m1 x = dfs m x) -> (forall x, low m1 x = low m x) ->
  (forall x, stkd m1 x = if mem x (seg ++ [node]) then false else stkd m x) ->
  ((o' = (seg ++ [node]) :: o /\ (seg = [] -> trivial = true \/ E node node)) \/
   (o' = o /\ seg = [] /\ trivial = false /\ ~ E node node)) ->
  Inv (mk U m1 anc' below vs1 c o').
Proof.
  intros H Hc Hf Hlow Evis Edfs Elow Estk Hout.
  destruct H as [H1 H2 H3 H4 H5 H6 H7 H8 H9 H10 H11 H12 H13]. simpl in *.
  destruct Hf as [A1 A2 A3 A4 A5 A6 A7 A8 A9 A10 A11]. rewrite app_nil_r in A1.
  set (C := seg ++ [node]) in *.
  assert (HCstk : forall x, In x C -> In x (seg ++ node :: below)).
  { intros x Hx. unfold C in Hx. apply in_app_or in Hx. apply in_or_app. destruct Hx as [Hx|[<-|[]]]; [now left | right; now left]. }
  assert (Hsplit : forall x, In x (seg ++ node :: below) -> In x C \/ In x below).
  { intros x Hx. apply in_app_or in Hx. destruct Hx as [Hx|[<-|Hx]]; [left; apply in_or_app; now left | left; apply in_or_app; right; now left | now right]. }
  assert (HND : NoDup C /\ forall x, In x C -> ~ In x below).
  { assert (H6' : NoDup (C ++ below)) by (unfold C; rewrite <- app_assoc; exact H6).
    destruct (NoDup_app_inv _ _ H6') as [N1 [_ N3]]. split; assumption. }
  destruct HND as [HNDC HCb].
  assert (HmemC : forall x, mem x C = true <-> In x C) by (intros x; apply mem_In).
  assert (Hdfs_C : forall x, In x C -> dfs m node <= dfs m x).
  { intros x Hx. unfold C in Hx. apply in_app_or in Hx. destruct Hx as [Hx|[<-|[]]]; [specialize (A5 x Hx); lia | lia]. }
  assert (Hall_adj : forall y, E node y -> In y P) by (intros y Hy; rewrite <- A1; apply -> in_rev; exact Hy).
  (* edges out of the popped set stay inside it or lead to earlier popped nodes *)
  assert (Hclosed : forall x y, vis m x = true -> (In x C \/ stkd m x = false) -> E x y ->
                    vis m y = true /\ (In y C \/ stkd m y = false)).
  { intros x y Vx [Hx|Sx] He; [|destruct (H10 x y Vx Sx He); auto].
    assert (Vy : vis m y = true).
    { unfold C in Hx. apply in_app_or in Hx. destruct Hx as [Hx|[<-|[]]]; [eapply A11; eauto | apply A3; apply Hall_adj; exact He]. }
    split; [exact Vy|]. destruct (stkd m y) eqn:Sy; [left | now right].
    apply H5 in Sy. destruct (Hsplit y Sy) as [Hy|Hy]; [exact Hy|]. exfalso.
    assert (Hk : low m node <= dfs m y).
    { apply (A10 x y); auto. unfold C in Hx. apply in_app_or in Hx. destruct Hx as [Hx|[<-|[]]]; [now right | left; split; [reflexivity | apply Hall_adj; exact He]]. }
    specialize (A4 y Hy). lia. }
  assert (Hscc : forall x, In x C -> forall y, In y C <-> (reach x y /\ reach y x)).
  { assert (Hup : forall x, In x C -> reach x node /\ reach node x).
    { intros x Hx. unfold C in Hx. apply in_app_or in Hx. destruct Hx as [Hx|[<-|[]]]; [split; [apply A7 | apply A8]; exact Hx | split; constructor]. }
    intros x Hx y. split.
    - intros Hy. destruct (Hup x Hx), (Hup y Hy). split; eapply reach_trans; eauto.
    - intros [Rxy Ryx].
      assert (Vx : vis m x = true) by (apply stkd_vis; apply H5; apply HCstk; exact Hx).
      assert (Sy : vis m y = true /\ (In y C \/ stkd m y = false)).
      { apply (closed_reach (fun z => vis m z = true /\ (In z C \/ stkd m z = false))) with (x := x); [|exact Rxy | auto].
        intros a b [Va Ha] He. eapply Hclosed; eauto. }
      destruct Sy as [Vy [Hy|Sy]]; [exact Hy|]. exfalso.
      assert (Sx : vis m x = true /\ stkd m x = false).
      { apply (closed_reach (fun z => vis m z = true /\ stkd m z = false)) with (x := y); [|exact Ryx | auto].
        intros a b [Va Sa] He. eapply H10; eauto. }
      destruct Sx as [_ Sx]. assert (stkd m x = true) by (apply H5; apply HCstk; exact Hx). congruence. }
  assert (Hpop1 : forall x, vis m1 x = true -> stkd m1 x = false -> vis m x = true /\ (In x C \/ stkd m x = false)).
  { intros x Vx Sx. rewrite Evis in Vx. split; [exact Vx|]. rewrite Estk in Sx.
    destruct (mem x C) eqn:Em; [left; apply HmemC; exact Em | right; exact Sx]. }
  assert (Hpop2 : forall x, vis m x = true -> (In x C \/ stkd m x = false) -> vis m1 x = true /\ stkd m1 x = false).
  { intros x Vx Hx. rewrite Evis, Estk. split; [exact Vx|]. destruct (mem x C) eqn:Em; [reflexivity|].
    destruct Hx as [Hx|Sx]; [apply HmemC in Hx; congruence | exact Sx]. }
  assert (HCold : forall x, In x C -> ~ In x (concat o)).
  { intros x Hx Hin. apply in_concat in Hin. destruct Hin as [c0 [Hc0 Hxc]]. destruct (H11 c0 Hc0) as [_ Hall].
    destruct (Hall x Hxc) as [_ [Sx _]]. assert (stkd m x = true) by (apply H5; apply HCstk; exact Hx). congruence. }
  constructor; simpl.
  - exact H1.
  - intros x. rewrite Evis. apply H2.
  - exact H3.
  - intros x. rewrite Evis, Edfs. apply H4.
  - intros x. rewrite Estk. split.
    + destruct (mem x C) eqn:Em; [discriminate|]. intros Sx. apply H5 in Sx. destruct (Hsplit x Sx) as [Hx|Hx]; [apply HmemC in Hx; congruence | exact Hx].
    + intros Hx. destruct (mem x C) eqn:Em; [apply HmemC in Em; exfalso; eapply HCb; eauto|].
      apply H5. apply in_or_app. right. now right.
  - destruct (NoDup_app_inv _ _ H6) as [_ [N2 _]]. inversion N2; assumption.
  - intros x Hx. rewrite Elow, Edfs. apply H7. apply in_or_app. right. now right.
  - left. eapply cfg_mono; [| |exact Hc].
    + intros x Hx. rewrite Evis, Edfs. auto.
    + intros x _. rewrite Elow. lia.
  - intros x Hx. assert (Hxs : In x (seg ++ node :: below)) by (apply in_or_app; right; now right).
    destruct (H9 x Hxs) as [z [Hz [Hd Hr]]]. exists z. rewrite Edfs, Elow. split; [|auto].
    destruct (Hsplit z Hz) as [HzC|Hzb]; [exfalso | exact Hzb].
    specialize (Hdfs_C z HzC). specialize (A4 x Hx). specialize (H7 x Hxs). lia.
  - intros x y Vx Sx He. destruct (Hpop1 x Vx Sx) as [Vx' Hx']. destruct (Hclosed x y Vx' Hx' He) as [Vy Hy]. apply Hpop2; assumption.
  - intros c0 Hc0.
    assert (Hold : In c0 o -> c0 <> [] /\ forall x, In x c0 -> vis m1 x = true /\ stkd m1 x = false /\ forall y, In y c0 <-> reach x y /\ reach y x).
    { intros Hin. destruct (H11 c0 Hin) as [Hne Hall]. split; [exact Hne|]. intros x Hx. destruct (Hall x Hx) as [Vx [Sx Hs]].
      destruct (Hpop2 x Vx (or_intror Sx)). auto. }
    destruct Hout as [[-> _]|[-> _]]; [|apply Hold; exact Hc0].
    destruct Hc0 as [<-|Hc0]; [|apply Hold; exact Hc0].
    split; [unfold C; destruct seg; discriminate|]. intros x Hx.
    assert (Vx : vis m x = true) by (apply stkd_vis; apply H5; apply HCstk; exact Hx).
    destruct (Hpop2 x Vx (or_introl Hx)). split; [assumption|]. split; [assumption|]. apply Hscc. exact Hx.
  - destruct Hout as [[-> _]|[-> _]]; [|exact H12]. simpl.
    clear - HNDC HCold H12. induction C as [|y C IH]; simpl; [exact H12|].
    inversion HNDC as [|? ? Hn Hr]; subst. constructor.
    + intros Hin. apply in_app_or in Hin. destruct Hin as [Hin|Hin]; [contradiction | apply (HCold y); [now left | exact Hin]].
    + apply IH; [exact Hr | intros x Hx; apply HCold; now right].
  - intros x Vx Sx. destruct (Hpop1 x Vx Sx) as [Vx' [Hx|Sx']].
    + (* x belongs to the new component *)
      assert (Hemit : In x (concat o') <-> In (seg ++ [node]) o' /\ True).
      { destruct Hout as [[-> _]|[-> _]]; simpl.
        - split; [intros _; split; [now left | exact I] | intros _; apply in_or_app; left; exact Hx].
        - split; [intros Hin; exfalso; eapply HCold; eauto | intros [Hin _]; exfalso].
          destruct (H11 _ Hin) as [_ Hall]. destruct (Hall x Hx) as [_ [Sx' _]].
          assert (stkd m x = true) by (apply H5; apply HCstk; exact Hx). congruence. }
      destruct seg as [|s0 seg'].
      * (* singleton *)
        assert (x = node) by (unfold C in Hx; simpl in Hx; destruct Hx as [Hx|[]]; auto). subst x.
        assert (Hcyc : cyc node <-> E node node).
        { split; [|intros He; now left]. intros [He|[y [Hne [R1 R2]]]]; [exact He|]. exfalso.
          assert (Hy : In y C) by (apply (Hscc node Hx y); auto). unfold C in Hy. simpl in Hy. destruct Hy as [Hy|[]]. congruence. }
        destruct Hout as [[-> Hem]|[-> [_ [Ht Hne]]]].
        -- split; [intros _; rewrite Hcyc; apply Hem; reflexivity | intros _; simpl; now left].
        -- split; [intros Hin; exfalso; eapply HCold; eauto | intros [Ht'|Hc']; [congruence | apply Hcyc in Hc'; contradiction]].
      * (* at least two nodes: always emitted, always cyclic *)
        destruct Hout as [[-> _]|[_ [Hs _]]]; [|discriminate].
        split; [intros _; right | intros _; change (concat (C :: o)) with (C ++ concat o); apply in_or_app; left; exact Hx].
        right.
        assert (Hex : exists y, In y C /\ y <> x).
        { destruct (Nat.eq_dec s0 x) as [->|Hne]; [|exists s0; split; [now left | exact Hne]].
          assert (In node C) by (apply in_or_app; right; now left).
          exists node. split; [assumption|]. intros ->. unfold C in HNDC. simpl in HNDC. inversion HNDC as [|? ? Hn _]; subst.
          apply Hn. apply in_or_app. right. now left. }
        destruct Hex as [y [Hy Hne]]. exists y. split; [exact Hne|]. apply (Hscc x Hx y). exact Hy.
    + (* x was popped earlier *)
      assert (HxC : ~ In x C) by (intros Hx; assert (stkd m x = true) by (apply H5; apply HCstk; exact Hx); congruence).
      rewrite <- (H13 x Vx' Sx'). destruct Hout as [[-> _]|[-> _]]; [|tauto]. simpl. rewrite in_app_iff. tauto.
Qed.

(* returning from a node whose low is smaller than its dfs number: its frame is merged into the parent's *)
Lemma inv_merge U m node p anc2 seg segp belowp Fp vs2 c o P Pp :
  Inv (mk U m (node :: p :: anc2) (seg ++ node :: segp ++ p :: belowp) (VRtn :: map VNode Fp ++ VRtn :: vs2) c o) ->
  cfg m anc2 vs2 belowp -> frame_ok m p Pp Fp segp belowp (hd_error anc2) ->
  frame_ok m node P [] seg (segp ++ p :: belowp) (Some p) ->
  low m node < dfs m node -> low m p <= low m node ->
  Inv (mk U m (p :: anc2) (seg ++ node :: segp ++ p :: belowp) (map VNode Fp ++ VRtn :: vs2) c o).
Proof.
  intros H Hc Hfp Hfn Hlt Hle. destruct H as [H1 H2 H3 H4 H5 H6 H7 H8 H9 H10 H11 H12 H13]. simpl in *.
  constructor; simpl; auto.
  left. replace (seg ++ node :: segp ++ p :: belowp) with ((seg ++ node :: segp) ++ p :: belowp)
    by (rewrite <- app_assoc; reflexivity).
  apply cfg_cons with (P := Pp); [exact Hc|].
  destruct Hfp as [B1 B2 B3 B4 B5 B6 B7 B8 B9 B10 B11].
  destruct Hfn as [A1 A2 A3 A4 A5 A6 A7 A8 A9 A10 A11]. rewrite app_nil_r in A1. simpl in A6.
  assert (Hall_adj : forall y, E node y -> In y P) by (intros y Hy; rewrite <- A1; apply -> in_rev; exact Hy).
  assert (Hpn : dfs m p < dfs m node) by (apply A4; apply in_or_app; right; now left).
  assert (Hnode_p : reach node p).
  { assert (Hns : In node (seg ++ node :: segp ++ p :: belowp)) by (apply in_or_app; right; now left).
    destruct (H9 node Hns) as [z [Hz [Hd Hr]]].
    apply in_app_or in Hz. destruct Hz as [Hz|[<-|Hz]]; [specialize (A5 z Hz); lia | lia|].
    apply in_app_or in Hz. destruct Hz as [Hz|[<-|Hz]].
    - eapply reach_trans; [exact Hr | apply B7; exact Hz].
    - exact Hr.
    - eapply reach_trans; [exact Hr | apply B9; exact Hz]. }
  assert (Hcase : forall x, In x (seg ++ node :: segp) -> In x seg \/ x = node \/ In x segp).
  { intros x Hx. apply in_app_or in Hx. destruct Hx as [Hx|[<-|Hx]]; auto. }
  constructor; auto.
  - intros x [<-|Hx]; [apply B2; now left|]. destruct (Hcase x Hx) as [Hs|[->|Hs]];
      [apply A2; now right | apply A2; now left | apply B2; now right].
  - intros x Hx. destruct (Hcase x Hx) as [Hs|[->|Hs]]; [specialize (A5 x Hs); lia | exact Hpn | apply B5; exact Hs].
  - intros x Hx. destruct (Hcase x Hx) as [Hs|[->|Hs]];
      [eapply reach_trans; [apply A7; exact Hs | exact Hnode_p] | exact Hnode_p | apply B7; exact Hs].
  - intros x Hx. destruct (Hcase x Hx) as [Hs|[->|Hs]];
      [eapply reach_trans; [apply reach_edge; exact A6 | apply A8; exact Hs] | apply reach_edge; exact A6 | apply B8; exact Hs].
  - intros x y Hx He Hy.
    assert (Hyb : In y (segp ++ p :: belowp)) by (apply in_or_app; right; now right).
    destruct Hx as [[-> HyP]|Hx]; [apply (B10 p y); auto|].
    destruct (Hcase x Hx) as [Hs|[->|Hs]].
    + specialize (A10 x y (or_intror Hs) He Hyb). lia.
    + specialize (A10 node y (or_introl (conj eq_refl (Hall_adj y He))) He Hyb). lia.
    + apply (B10 x y); auto.
  - intros x y Hx He. destruct (Hcase x Hx) as [Hs|[->|Hs]];
      [eapply A11; eauto | apply A3; apply Hall_adj; exact He | eapply B11; eauto].
Qed.

Lemma root_low_eq U m node seg below vs1 c o P :
  Inv (mk U m [node] (seg ++ node :: below) (VRtn :: vs1) c o) -> cfg m [] vs1 below ->
  frame_ok m node P [] seg below None -> low m node = dfs m node.
Proof.
  intros H Hc Hf. destruct H as [H1 H2 H3 H4 H5 H6 H7 H8 H9 H10 H11 H12 H13]. simpl in *.
  assert (Hb : below = []) by (inversion Hc; reflexivity). subst below.
  assert (Hns : In node (seg ++ [node])) by (apply in_or_app; right; now left).
  destruct (H9 node Hns) as [z [Hz [Hd _]]]. specialize (H7 node Hns).
  apply in_app_or in Hz. destruct Hz as [Hz|[<-|[]]]; [|lia].
  pose proof (f_seg_gt _ _ _ _ _ _ _ Hf z Hz). lia.
Qed.

(* ---------------- one step of the machine ---------------- *)
Lemma look_vis m x n : alookup x m = Some n -> vis m x = true /\ dfs m x = st_dfs n /\ low m x = st_low n /\ stkd m x = st_stacked n.
Proof. intros H. unfold vis, dfs, low, stkd. rewrite H. auto. Qed.
Lemma vis_look m x : vis m x = true -> exists n, alookup x m = Some n.
Proof. unfold vis. destruct (alookup x m) as [n|]; [eauto | discriminate]. Qed.

Theorem step_progress s : Inv s ->
  (exists s', step g trivial s = Running s' /\ Inv s') \/
  (step g trivial s = Done s /\ unvisited s = [] /\ visits s = []).
Proof.
  destruct s as [U m anc stk vs c o]. intros HI. unfold step. cbn [visits unvisited ancestors states stack counter out].
  destruct vs as [|[node|] vs0].
  - (* pick a root *)
    destruct U as [|n U']; [right; auto|]. left. eexists. split; [reflexivity|]. apply inv_root. exact HI.
  - (* a neighbour *)
    left. destruct (alookup node m) as [nst|] eqn:El.
    + destruct (look_vis _ _ _ El) as [Vn [Dn [Ln Sn]]].
      assert (Hc : cfg m anc (VNode node :: vs0) stk).
      { destruct (i_cfg _ HI) as [Hc|[_ [_ [n' [Hv Hn']]]]]; [exact Hc|]. simpl in *. injection Hv as <- _.
        exfalso. apply (i_vis _ HI) in Vn. simpl in Vn. tauto. }
      destruct (cfg_inv_vnode _ _ _ _ _ Hc) as [a [anc' [P [F' [seg [vs1 [below [-> [-> [-> [Hc' Hf]]]]]]]]]]].
      assert (Ha_stk : In a (seg ++ a :: below)) by (apply in_or_app; right; now left).
      assert (Hedge : E a node) by (unfold E; apply in_rev; rewrite (f_adj _ _ _ _ _ _ _ Hf); apply in_or_app; right; now left).
      destruct (st_stacked nst) eqn:Es.
      * assert (Va : vis m a = true) by (apply (f_vis _ _ _ _ _ _ _ Hf); now left).
        destruct (vis_look _ _ Va) as [pst Ea]. rewrite Ea. destruct (look_vis _ _ _ Ea) as [_ [_ [La _]]].
        assert (Hnode_stk : In node (seg ++ a :: below)) by (apply (i_stk _ HI); simpl; congruence).
        eexists. split; [reflexivity|].
        destruct (Nat.ltb (st_dfs nst) (st_low pst)) eqn:Elt.
        -- apply Nat.ltb_lt in Elt.
           assert (HI2 : Inv (mk U (set_low a (st_dfs nst) m) (a :: anc') (seg ++ a :: below) (VNode node :: map VNode F' ++ VRtn :: vs1) c o)).
           { apply inv_set_low; [exact HI | exact Ha_stk | lia|]. exists node. split; [exact Hnode_stk|]. split; [exact Dn | apply reach_edge; exact Hedge]. }
           assert (Hmono1 : forall x, vis m x = true -> vis (set_low a (st_dfs nst) m) x = true /\ dfs (set_low a (st_dfs nst) m) x = dfs m x)
             by (intros x Hx; rewrite set_low_vis, set_low_dfs; auto).
           assert (Hmono2 : forall x, vis m x = true -> low (set_low a (st_dfs nst) m) x <= low m x).
           { intros x _. destruct (Nat.eq_dec x a) as [->|Hne]; [rewrite set_low_low_eq by exact Va; lia | rewrite set_low_low_neq by exact Hne; lia]. }
           eapply (inv_advance U _ a anc' P node F' seg vs1 below c o HI2).
           ++ eapply cfg_mono; [exact Hmono1 | exact Hmono2 | exact Hc'].
           ++ eapply frame_mono; [exact Hmono1 | apply Hmono2; exact Va | apply (cfg_vis _ _ _ _ Hc') | exact Hf].
           ++ rewrite set_low_vis. exact Vn.
           ++ intros _. rewrite set_low_low_eq by exact Va. rewrite set_low_dfs. lia.
        -- apply Nat.ltb_ge in Elt.
           eapply (inv_advance U m a anc' P node F' seg vs1 below c o HI Hc' Hf Vn). intros _. lia.
      * eexists. split; [reflexivity|].
        eapply (inv_advance U m a anc' P node F' seg vs1 below c o HI Hc' Hf Vn). intros Hin. exfalso.
        assert (stkd m node = true) by (apply (i_stk _ HI); simpl; apply in_or_app; right; now right). congruence.
    + eexists. split; [reflexivity|]. apply (inv_new U m anc stk node vs0 c o HI). unfold vis. now rewrite El.
  - (* return *)
    left.
    assert (Hc : cfg m anc (VRtn :: vs0) stk).
    { destruct (i_cfg _ HI) as [Hc|[_ [_ [n' [Hv _]]]]]; [exact Hc | simpl in Hv; discriminate]. }
    destruct (cfg_inv_vrtn _ _ _ _ Hc) as [node [anc' [P [seg [below [-> [-> [Hc' Hf]]]]]]]].
    assert (Vn : vis m node = true) by (apply (f_vis _ _ _ _ _ _ _ Hf); now left).
    destruct (vis_look _ _ Vn) as [nst El]. rewrite El. destruct (look_vis _ _ _ El) as [_ [Dn [Ln _]]].
    assert (Hnd : NoDup (seg ++ node :: below)) by exact (i_stk_nodup _ HI).
    assert (Hnseg : ~ In node seg) by (apply NoDup_remove_2 in Hnd; intros Hin; apply Hnd; apply in_or_app; now left).
    destruct (Nat.eqb (st_low nst) (st_dfs nst)) eqn:Eq.
    + apply Nat.eqb_eq in Eq.
      destruct (pop_scc_spec node seg below m [] Hnseg) as [m1 [Epop [Evis [Edfs [Elow Estk]]]]]. rewrite Epop. cbn [app].
      assert (Hlow : low m node = dfs m node) by congruence.
      (* the emission decision *)
      assert (Hemit : exists o', (match seg ++ [node] with
                 | [x] => if trivial then Some ((seg ++ [node]) :: o, below, m1)
                          else if mem x (adj g x) then Some ((seg ++ [node]) :: o, below, m1) else Some (o, below, m1)
                 | _ => Some ((seg ++ [node]) :: o, below, m1) end) = Some (o', below, m1) /\
               ((o' = (seg ++ [node]) :: o /\ (seg = [] -> trivial = true \/ E node node)) \/
                (o' = o /\ seg = [] /\ trivial = false /\ ~ E node node))).
      { destruct seg as [|s0 seg'].
        - simpl. destruct trivial eqn:Et.
          + eexists. split; [reflexivity|]. left. split; [reflexivity | auto].
          + destruct (mem node (adj g node)) eqn:Em.
            * eexists. split; [reflexivity|]. left. split; [reflexivity|]. intros _. right. apply mem_In. exact Em.
            * eexists. split; [reflexivity|]. right. repeat split; auto. intros He. apply mem_In in He. congruence.
        - exists (((s0 :: seg') ++ [node]) :: o). split; [|left; split; [reflexivity | discriminate]].
          simpl. destruct seg'; reflexivity. }
      destruct Hemit as [o' [-> Ho']].
      assert (HI' : Inv (mk U m1 anc' below vs0 c o')) by (eapply inv_pop; eauto).
      destruct anc' as [|p anc2].
      * eexists. split; [reflexivity | exact HI'].
      * assert (Vp : vis m p = true) by (apply (cfg_vis _ _ _ _ Hc'); apply (cfg_anc_in_stack _ _ _ _ Hc'); now left).
        assert (Vp1 : vis m1 p = true) by (rewrite Evis; exact Vp).
        assert (Vn1 : vis m1 node = true) by (rewrite Evis; exact Vn).
        destruct (vis_look _ _ Vp1) as [pst Ep]. destruct (vis_look _ _ Vn1) as [nst' En]. rewrite Ep, En.
        destruct (look_vis _ _ _ Ep) as [_ [_ [Lp _]]]. destruct (look_vis _ _ _ En) as [_ [_ [Ln' _]]].
        assert (Hno : Nat.ltb (st_low nst') (st_low pst) = false).
        { apply Nat.ltb_ge. rewrite <- Lp, <- Ln', !Elow.
          assert (Hpb : In p below) by (apply (cfg_anc_in_stack _ _ _ _ Hc'); now left).
          pose proof (f_below_lt _ _ _ _ _ _ _ Hf p Hpb).
          assert (low m p <= dfs m p) by (apply (i_low_le _ HI); simpl; apply in_or_app; right; now right). lia. }
        rewrite Hno. eexists. split; [reflexivity | exact HI'].
    + apply Nat.eqb_neq in Eq.
      destruct anc' as [|p anc2].
      * exfalso. apply Eq. rewrite <- Ln, <- Dn. eapply root_low_eq; eauto.
      * inversion Hc' as [|p' anc2' Pp Fp segp vs2 belowp Hc2 Hfp E1 E2 E3]. subst.
        assert (Vp : vis m p = true) by (apply (f_vis _ _ _ _ _ _ _ Hfp); now left).
        destruct (vis_look _ _ Vp) as [pst Ep]. rewrite Ep, El. destruct (look_vis _ _ _ Ep) as [_ [_ [Lp _]]].
        assert (Hp_stk : In p (seg ++ node :: segp ++ p :: belowp)) by (apply in_or_app; right; right; apply in_or_app; right; now left).
        assert (Hn_stk : In node (seg ++ node :: segp ++ p :: belowp)) by (apply in_or_app; right; now left).
        assert (Hlt : low m node < dfs m node).
        { assert (low m node <= dfs m node) by (apply (i_low_le _ HI); exact Hn_stk). lia. }
        assert (Hne : node <> p).
        { intros ->. apply NoDup_remove_2 in Hnd. apply Hnd. apply in_or_app. right. apply in_or_app. right. now left. }
        eexists. split; [reflexivity|].
        destruct (Nat.ltb (st_low nst) (st_low pst)) eqn:Elt.
        -- apply Nat.ltb_lt in Elt.
           assert (HI2 : Inv (mk U (set_low p (st_low nst) m) (node :: p :: anc2) (seg ++ node :: segp ++ p :: belowp)
                                 (VRtn :: map VNode Fp ++ VRtn :: vs2) c o)).
           { apply inv_set_low; [exact HI | exact Hp_stk | lia|].
             destruct (i_L _ HI node Hn_stk) as [z [Hz [Hd Hr]]]. exists z. split; [exact Hz|]. split; [simpl in Hd; congruence|].
             eapply reach_trans; [apply reach_edge; exact (f_parent _ _ _ _ _ _ _ Hf) | exact Hr]. }
           assert (Hmono1 : forall x, vis m x = true -> vis (set_low p (st_low nst) m) x = true /\ dfs (set_low p (st_low nst) m) x = dfs m x)
             by (intros x Hx; rewrite set_low_vis, set_low_dfs; auto).
           assert (Hmono2 : forall x, vis m x = true -> low (set_low p (st_low nst) m) x <= low m x).
           { intros x _. destruct (Nat.eq_dec x p) as [->|Hnx]; [rewrite set_low_low_eq by exact Vp; lia | rewrite set_low_low_neq by exact Hnx; lia]. }
           eapply (inv_merge U _ node p anc2 seg segp belowp Fp vs2 c o P Pp HI2).
           ++ eapply cfg_mono; [exact Hmono1 | exact Hmono2 | exact Hc2].
           ++ eapply frame_mono; [exact Hmono1 | apply Hmono2; exact Vp | apply (cfg_vis _ _ _ _ Hc2) | exact Hfp].
           ++ eapply frame_mono; [exact Hmono1 | apply Hmono2; exact Vn | | exact Hf].
              intros x Hx. apply (cfg_vis _ _ _ _ Hc'). exact Hx.
           ++ rewrite set_low_low_neq by exact Hne. rewrite set_low_dfs. exact Hlt.
           ++ rewrite set_low_low_eq by exact Vp. rewrite set_low_low_neq by exact Hne. lia.
        -- apply Nat.ltb_ge in Elt.
           eapply (inv_merge U m node p anc2 seg segp belowp Fp vs2 c o P Pp HI Hc2 Hfp Hf Hlt). lia.
Qed.

(* ---------------- termination within the fuel ---------------- *)
Definition degsum (U : list nat) : nat := fold_right (fun n a => length (adj g n) + a) 0 U.
Lemma degsum_remove1 n : forall U, NoDup U -> In n U -> degsum (remove1 n U) + length (adj g n) = degsum U.
Proof.
  induction U as [|y U IH]; simpl; intros Hnd Hin; [destruct Hin|].
  inversion Hnd as [|? ? Hn Hr]; subst. destruct (Nat.eqb y n) eqn:Ey.
  - apply Nat.eqb_eq in Ey. subst y. lia.
  - apply Nat.eqb_neq in Ey. destruct Hin as [->|Hin]; [congruence|]. simpl. specialize (IH Hr Hin). lia.
Qed.

Definition pending (s : tstate) : bool := match ancestors s, visits s with [], _ :: _ => true | _, _ => false end.
Definition measure (s : tstate) : nat :=
  3 * length (unvisited s) + degsum (unvisited s) + length (visits s) + (if pending s then 0 else 2).

(* what a step does to the work lists (no invariant needed) *)
Lemma step_shape s s' : step g trivial s = Running s' ->
  (visits s = [] /\ exists n U', unvisited s = n :: U' /\ visits s' = [VNode n] /\ unvisited s' = unvisited s /\ ancestors s' = ancestors s) \/
  (exists node vs0, visits s = VNode node :: vs0 /\ vis (states s) node = true /\
      visits s' = vs0 /\ unvisited s' = unvisited s /\ ancestors s' = ancestors s) \/
  (exists node vs0, visits s = VNode node :: vs0 /\ vis (states s) node = false /\
      visits s' = map VNode (rev (adj g node)) ++ VRtn :: vs0 /\ unvisited s' = remove1 node (unvisited s) /\
      ancestors s' = node :: ancestors s) \/
  (exists vs0 a anc', visits s = VRtn :: vs0 /\ ancestors s = a :: anc' /\
      visits s' = vs0 /\ unvisited s' = unvisited s /\ ancestors s' = anc').
Proof.
  unfold step. intros H. destruct (visits s) as [|[node|] vs0] eqn:Ev.
  - destruct (unvisited s) as [|n U'] eqn:Eu; [discriminate|]. injection H as <-. left. split; [reflexivity|].
    exists n, U'. simpl. auto.
  - destruct (alookup node (states s)) as [nst|] eqn:El.
    + right. left. exists node, vs0. split; [reflexivity|]. split; [unfold vis; now rewrite El|].
      destruct (st_stacked nst).
      * destruct (ancestors s) as [|p anc] eqn:Ea; [discriminate|]. destruct (alookup p (states s)); [|discriminate].
        injection H as <-. simpl. auto.
      * injection H as <-. simpl. auto.
    + right. right. left. exists node, vs0. split; [reflexivity|]. split; [unfold vis; now rewrite El|].
      injection H as <-. simpl. auto.
  - destruct (ancestors s) as [|a anc'] eqn:Ea; [discriminate|].
    destruct (alookup a (states s)) as [nst|]; [|discriminate].
    right. right. right. exists vs0, a, anc'. split; [reflexivity|]. split; [reflexivity|].
    match type of H with context [match ?r with Some _ => _ | None => Err end] => destruct r as [[[o' stk'] m']|] end; [|discriminate].
    destruct anc' as [|p anc2].
    + injection H as <-. simpl. auto.
    + destruct (alookup p m'); [|discriminate]. destruct (alookup a m'); [|discriminate]. injection H as <-. simpl. auto.
Qed.

Lemma head_in_U s node vs0 : Inv s -> visits s = VNode node :: vs0 -> vis (states s) node = false -> In node (unvisited s).
Proof.
  intros HI Ev Hnv.
  assert (Hnodes : In node (nodes g)).
  { destruct (i_cfg _ HI) as [Hc|[_ [_ [n' [Hv Hn']]]]].
    - rewrite Ev in Hc. destruct (cfg_inv_vnode _ _ _ _ _ Hc) as [a [anc' [P [F' [seg [vs1 [below [_ [_ [_ [_ Hf]]]]]]]]]]].
      apply (Gadj a). apply in_rev. rewrite (f_adj _ _ _ _ _ _ _ Hf). apply in_or_app. right. now left.
    - rewrite Ev in Hv. injection Hv as <- _. apply (i_U_nodes _ HI). exact Hn'. }
  destruct (in_dec Nat.eq_dec node (unvisited s)) as [Hi|Hni]; [exact Hi|]. exfalso.
  assert (vis (states s) node = true) by (apply (i_vis _ HI); split; assumption). congruence.
Qed.

Lemma measure_decreases s s' : Inv s -> step g trivial s = Running s' -> measure s' < measure s.
Proof.
  intros HI Hs. unfold measure, pending.
  destruct (step_shape s s' Hs) as [[Ev [n [U' [Eu [Ev' [Eu' Ea']]]]]]|[[node [vs0 [Ev [Hv [Ev' [Eu' Ea']]]]]]|[[node [vs0 [Ev [Hv [Ev' [Eu' Ea']]]]]]|[vs0 [a [anc' [Ev [Ea [Ev' [Eu' Ea']]]]]]]]]].
  - assert (Hanc : ancestors s = []).
    { destruct (i_cfg _ HI) as [Hc|[Ha _]]; [rewrite Ev in Hc; apply (cfg_inv_nil _ _ _ Hc) | exact Ha]. }
    rewrite Ev', Eu', Ea', Ev, Hanc, Eu. simpl. lia.
  - assert (Hanc : exists a anc', ancestors s = a :: anc').
    { destruct (i_cfg _ HI) as [Hc|[_ [_ [n' [Hv' Hn']]]]].
      - rewrite Ev in Hc. destruct (cfg_inv_vnode _ _ _ _ _ Hc) as [a [anc' [_ [_ [_ [_ [_ [-> _]]]]]]]]. eauto.
      - rewrite Ev in Hv'. injection Hv' as <- _. exfalso. apply (i_vis _ HI) in Hv. tauto. }
    destruct Hanc as [a [anc' Hanc]]. rewrite Ev', Eu', Ea', Ev, Hanc. simpl. lia.
  - pose proof (head_in_U s node vs0 HI Ev Hv) as Hin.
    pose proof (degsum_remove1 node _ (i_U_nodup _ HI) Hin) as Hd.
    pose proof (remove1_length node _ Hin) as Hl.
    rewrite Ev', Eu', Ea', Ev. rewrite app_length, map_length, rev_length. simpl.
    destruct (ancestors s); lia.
  - assert (Hvs : anc' = [] -> vs0 = []).
    { intros ->. destruct (i_cfg _ HI) as [Hc|[Ha _]]; [|rewrite Ea in Ha; discriminate].
      rewrite Ev, Ea in Hc. destruct (cfg_inv_vrtn _ _ _ _ Hc) as [a0 [anc0 [P [seg [below [Eq [_ [Hc' _]]]]]]]].
      injection Eq as <- <-. inversion Hc'. reflexivity. }
    rewrite Ev', Eu', Ea', Ev, Ea. simpl. destruct anc' as [|p anc2]; [rewrite (Hvs eq_refl); simpl; lia|].
    destruct vs0; simpl; lia.
Qed.

Lemma measure_ge2 s : Inv s -> 2 <= measure s.
Proof.
  intros HI. unfold measure, pending. destruct (ancestors s) as [|a anc] eqn:Ea; [|lia].
  destruct (visits s) as [|v vs] eqn:Ev; [lia|].
  destruct (i_cfg _ HI) as [Hc|[_ [_ [n [Hv Hn]]]]].
  - rewrite Ea, Ev in Hc. inversion Hc.
  - destruct (unvisited s); [destruct Hn | simpl; lia].
Qed.

Lemma run_terminates : forall f s, Inv s -> measure s <= f + 1 ->
  exists s', run g trivial f s = Ok (rev (out s')) /\ Inv s' /\ unvisited s' = [] /\ visits s' = [].
Proof.
  induction f as [|f IH]; intros s HI Hm; [pose proof (measure_ge2 s HI); lia|].
  simpl. destruct (step_progress s HI) as [[s' [Hs HI']]|[Hs [Hu Hv]]].
  - rewrite Hs. apply IH; [exact HI'|]. pose proof (measure_decreases s s' HI Hs). lia.
  - rewrite Hs. exists s. auto.
Qed.

Lemma fold_left_sum (f : nat -> nat) : forall l a, fold_left (fun a n => a + f n) l a = a + fold_right (fun n a => f n + a) 0 l.
Proof. induction l as [|x l IH]; intros a; simpl; [lia|]. rewrite IH. lia. Qed.

Lemma concat_rev_in {A} (l : list (list A)) x : In x (concat (rev l)) <-> In x (concat l).
Proof.
  rewrite !in_concat. split; intros [c [Hc Hx]]; exists c; split; auto; [apply in_rev; exact Hc | apply -> in_rev; exact Hc].
Qed.
Lemma concat_rev_nodup {A} (l : list (list A)) : NoDup (concat l) -> NoDup (concat (rev l)).
Proof.
  induction l as [|c l IH]; simpl; [auto|]. intros H. rewrite concat_app. simpl. rewrite app_nil_r.
  apply NoDup_app_inv in H. destruct H as [N1 [N2 N3]].
  assert (Hgen : forall a b : list A, NoDup a -> NoDup b -> (forall x, In x a -> ~ In x b) -> NoDup (a ++ b)).
  { induction a as [|y a IHa]; simpl; intros b Ha Hb Hd; [exact Hb|]. inversion Ha as [|? ? Hn Hr]; subst.
    constructor; [intros Hin; apply in_app_or in Hin; destruct Hin as [Hin|Hin]; [contradiction | apply (Hd y); [now left | exact Hin]]|].
    apply IHa; [exact Hr | exact Hb | intros x Hx; apply Hd; now right]. }
  apply Hgen; [apply IH; exact N2 | exact N1|].
  intros x Hx Hc. apply (proj1 (concat_rev_in l x)) in Hx. eapply N3; eauto.
Qed.

(* ---------------- the result ---------------- *)
Theorem sccs_correct :
  exists comps, sccs g trivial = Ok comps /\
    NoDup (concat comps) /\
    (forall c, In c comps -> c <> [] /\ forall x, In x c -> In x (nodes g) /\ forall y, In y c <-> (reach x y /\ reach y x)) /\
    (forall x, In x (nodes g) -> (In x (concat comps) <-> (trivial = true \/ cyc x))).
Proof.
  destruct (run_terminates (fuel_bound g) (init g) inv_init) as [s' [Hr [HI [Hu Hv]]]].
  { unfold measure, pending, fuel_bound, edge_count, init. simpl. rewrite fold_left_sum. unfold degsum. lia. }
  exists (rev (out s')). split; [exact Hr|].
  assert (Hstk : stack s' = []).
  { destruct (i_cfg _ HI) as [Hc|[_ [Hs _]]]; [rewrite Hv in Hc; apply (cfg_inv_nil _ _ _ Hc) | exact Hs]. }
  assert (Hall : forall x, In x (nodes g) -> vis (states s') x = true /\ stkd (states s') x = false).
  { intros x Hx. split; [apply (i_vis _ HI); rewrite Hu; split; [exact Hx | intros []]|].
    destruct (stkd (states s') x) eqn:Es; [|reflexivity]. apply (i_stk _ HI) in Es. rewrite Hstk in Es. destruct Es. }
  split; [apply concat_rev_nodup; exact (i_out_nodup _ HI)|]. split.
  - intros c Hc. apply in_rev in Hc. destruct (i_out _ HI c Hc) as [Hne Hx]. split; [exact Hne|].
    intros x Hxc. destruct (Hx x Hxc) as [Vx [_ Hs]]. split; [apply (i_vis _ HI); exact Vx | exact Hs].
  - intros x Hx. destruct (Hall x Hx) as [Vx Sx]. rewrite concat_rev_in. apply (i_out_cover _ HI); assumption.
Qed.
End T.
