(* Restore.v — model of how Runner.run() brackets the test phase with the features' set-up / tear-down and
   warnings.catch_warnings, acting on interpreter-global state. *)
From ZT Require Import Base.

(* global state: a finite map from field to value
   fields: 0 gc threshold, 1 gc debug flags, 2 traceback.format_exception, 3 traceback.print_exception,
           4 sys.settrace hook, 5 threading trace hook, 6 profile hook, 7 warnings filters, 8 sys.stdout, 9 sys.stderr *)
Definition gstate := list (nat * nat).
Fixpoint gget (g : gstate) (f : nat) : nat :=
  match g with [] => 0 | (k, v) :: r => if Nat.eqb k f then v else gget r f end.
Fixpoint gset (g : gstate) (f v : nat) : gstate :=
  match g with [] => [(f, v)] | (k, w) :: r => if Nat.eqb k f then (k, v) :: r else (k, w) :: gset r f v end.
Definition gequiv (a b : gstate) : Prop := forall f, gget a f = gget b f.

(* a feature (or context manager) overwrites some fields while active; it saves what it found *)
Record feature := { f_writes : list (nat * nat) }.     (* (field, value installed) *)

Definition saved := list (nat * nat).                   (* (field, value found) in the order written *)
Fixpoint install (ws : list (nat * nat)) (g : gstate) : gstate * saved :=
  match ws with
  | [] => (g, [])
  | (f, v) :: r => let old := gget g f in
                   let '(g', s) := install r (gset g f v) in (g', (f, old) :: s)
  end.
(* teardown restores in reverse order of installation *)
Fixpoint restore_saved (s : saved) (g : gstate) : gstate :=
  match s with [] => g | (f, old) :: r => gset (restore_saved r g) f old end.

(* the test phase: an arbitrary sequence of writes that are themselves bracketed (e.g. --buffer's stream
   swap, which startTest/stopTest undo per test), then it ends normally or by an exception: either way the
   finally clause runs the tear-downs *)
Inductive ending := Normal | Raised.

Fixpoint with_features (fs : list feature) (phase : gstate -> gstate) (g : gstate) : gstate :=
  match fs with
  | [] => phase g
  | f :: r => let '(g1, s) := install (f_writes f) g in
              restore_saved s (with_features r phase g1)
  end.
