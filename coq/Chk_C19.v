(* Chk_C19.v — case type and checker for C19 (threads left behind). *)
From ZT Require Import Base Threads ThreadsOnce.

Record case := {
  init : list thr;                       (* threads alive before the first test (the main thread, …) *)
  hist : list tev;                       (* history rebuilt from the world's own trace, idents as observed *)
  r_reports : list (nat * list nat)      (* implementation: "left new threads behind" blocks: (test, thread identities) *)
}.

Definition rep_eqb (a b : list (nat * list nat)) : bool :=
  list_eqb (fun x y => Nat.eqb (fst x) (fst y) && seteq (snd x) (snd y) && Nat.eqb (length (snd x)) (length (snd y))) a b.

(* bit 8: the deviation from the statement is explained by ident reuse involving a low-level (_thread) thread *)
Definition check (c : case) : nat :=
  let fresh := idents_fresh (init c) (hist c) in
  bit (negb (rep_eqb (reports (trun (init c) (hist c))) (r_reports c))) 1
  + bit (negb (rep_eqb (s_reports (srun (init c) (hist c))) (r_reports c))) 2
  + bit (negb fresh || negb (bracketed false (hist c))) 4       (* outside the hypotheses of C19_exact / the counting theorems *)
  + bit (negb fresh && negb (rep_eqb (s_reports (srun (init c) (hist c))) (r_reports c))
         && rep_eqb (reports (trun (init c) (hist c))) (r_reports c)) 8.
