(* RunExamples.v — the hypotheses of the whole-run theorems are met by non-trivial worlds (non-vacuity), and the
   statements compute to what one expects on them. *)
From ZT Require Import Base Layers LayersFacts Run RunFacts RunInv RunLedger RunStop RunOnce Chk_World WorldHyps.

Definition sp (su td : option (list hout)) : lspec := {| l_setup := su; l_teardown := td; l_tsetup := true; l_tteardown := true |}.
Definition tst (l : nat) (body : po) (subs : list po) : test :=
  {| t_layer := l; t_deco := false; t_xf := false; t_su := Pok; t_subs := subs; t_body := body; t_td := Pok; t_cl := [Perr]; t_count := 1 |}.

(* layers: 0 unit, 1 base, 2 derived from 1 (its tearDown is not implemented -> later layers are resumed in
   subprocesses), 3 derived from 1 and 2, 4 independent whose tearDown raises *)
Definition ex_lw : world :=
  {| names := [[117%N]; [97%N]; [98%N]; [99%N]; [100%N]]; bases := [[]; []; [1]; [1; 2]; []]; unit_layer := Some 0 |}.
Definition ex_w : rworld :=
  {| lw := ex_lw;
     lsp := [sp None None; sp (Some [HOk]) (Some [HOk]); sp (Some [HOk]) (Some [HNotImpl]); sp None (Some [HOk]); sp (Some [HOk]) (Some [HRaise])];
     tests := [tst 3 Pok []; tst 2 Pfail [Pfail; Pok]; tst 0 Pok []; tst 4 Perr []; tst 2 Pskip []; tst 3 Pok [Pskip]] |}.
Definition ex_o (x : bool) (j : nat) : ropts := {| o_x := x; o_repeat := 2; o_procs := j; o_import_errors := 0 |}.

Example ex_wf : wf (lw ex_w) /\ (forall t, In t (tests ex_w) -> t_layer t < nlayers (lw ex_w)).
Proof.
  assert (H : wf_world (lw ex_w) = true /\ forallb (fun t => Nat.ltb (t_layer t) (nlayers (lw ex_w))) (tests ex_w) = true)
    by (vm_compute; auto).
  destruct H as [H1 H2]. split; [apply wf_world_wf; exact H1|].
  intros t Ht. rewrite forallb_forall in H2. apply Nat.ltb_lt. apply H2. exact Ht.
Qed.

(* a second world in which layer 4's setUp raises: its test is never started, every other test still is *)
Definition ex_w2 : rworld :=
  {| lw := ex_lw;
     lsp := [sp None None; sp (Some [HOk]) (Some [HOk]); sp (Some [HOk]) (Some [HNotImpl]); sp None (Some [HOk]); sp (Some [HRaise]) (Some [HRaise])];
     tests := tests ex_w |}.
Example ex_good : forall l, l < 4 -> good ex_w2 l.
Proof.
  assert (Hb : forall l x, tb (lw ex_w2) l x -> x < l) by (intros l x H; eapply tb_lt; [|exact H]; apply wf_world_wf; reflexivity).
  intros l Hl x sc n Hx E.
  assert (Hx4 : x < 4) by (destruct Hx as [->|Hx]; [exact Hl | apply Hb in Hx; lia]).
  do 4 (destruct x as [|x]; [simpl in E; try discriminate; injection E as <-; destruct n as [|[|n]]; reflexivity|]). lia.
Qed.
Example ex_contained :
  map (fun t => starts_of t (run ex_w2 (ex_o false 1))) [0; 1; 2; 3; 4; 5; 6] = [2; 2; 2; 0; 2; 2; 0] /\
  r_failed (run ex_w2 (ex_o false 1)) = true.
Proof. vm_compute. auto. Qed.

(* the run resumes layers in subprocesses, records failures, and starts every test twice (--repeat 2) *)
Example ex_run_shape :
  length (r_children (run ex_w (ex_o false 1))) = 1 /\ r_failed (run ex_w (ex_o false 1)) = true /\
  map (fun t => starts_of t (run ex_w (ex_o false 1))) [0; 1; 2; 3; 4; 5; 6] = [2; 2; 2; 2; 2; 2; 0] /\
  map (fun t => starts_of t (run ex_w (ex_o false 3))) [0; 1; 2; 3; 4; 5; 6] = [2; 2; 2; 2; 2; 2; 0].
Proof. vm_compute. auto. Qed.

(* under -x the first bad outcome is seen in the parent and nothing is resumed *)
Example ex_stop_shape :
  seen_bad (r_parent (run ex_w (ex_o true 1))) = true /\ r_children (run ex_w (ex_o true 1)) = [] /\
  stop_ok (r_parent (run ex_w (ex_o true 1))) = true /\ r_failed (run ex_w (ex_o true 1)) = true.
Proof. vm_compute. auto. Qed.

(* scans are not trivially true: a trace with a start after a failure is rejected *)
Example ex_scan_rejects : stop_ok [EStart 0; EResult 0 RFail 0; EStop 0; EStart 1] = false /\
                          stop_ok [ESetUp 1 HRaise; ESetUp 2 HOk] = false /\
                          stop_ok [EStart 0; EResult 0 RSkip 0; EStop 0; EStart 1] = true.
Proof. vm_compute. auto. Qed.

(* -j independence is not vacuous: a world with an un-tearable layer (resumption) and failing tests meets the
   hypotheses; the process layouts differ, the reported results do not *)
From ZT Require Import RunModes.
Definition ex_w3 : rworld :=
  {| lw := ex_lw;
     lsp := [sp None None; sp (Some [HOk]) (Some [HOk]); sp (Some [HOk]) (Some [HNotImpl]); sp None (Some [HOk]); sp (Some [HOk]) (Some [HOk])];
     tests := tests ex_w |}.
Example ex_modes :
  length (r_children (run ex_w3 (ex_o false 1))) = 1 /\ length (r_children (run ex_w3 (ex_o false 4))) = 4 /\
  r_fail (run ex_w3 (ex_o false 1)) = r_fail (run ex_w3 (ex_o false 4)) /\ r_fail (run ex_w3 (ex_o false 1)) <> [] /\
  r_err (run ex_w3 (ex_o false 1)) = r_err (run ex_w3 (ex_o false 4)) /\
  r_ran (run ex_w3 (ex_o false 1)) = 6.
Proof. vm_compute. repeat split; auto; discriminate. Qed.
