From ZT Require Import Base LayersFacts Parallel.

Lemma firstn_S_nth {A} (l : list A) : forall c i, nth_error l c = Some i -> firstn (S c) l = firstn c l ++ [i].
Proof.
  induction l as [|x l IH]; intros c i H; [destruct c; discriminate|].
  destruct c as [|c]; simpl in *; [injection H as ->; reflexivity|]. f_equal. apply IH. exact H.
Qed.
Lemma flat_map_ext_in {A B} (f g : A -> list B) l : (forall x, In x l -> f x = g x) -> flat_map f l = flat_map g l.
Proof. induction l as [|x l IH]; simpl; intros H; [reflexivity|]. rewrite (H x (or_introl eq_refl)), IH; [reflexivity|]. intros y Hy. apply H. now right. Qed.


Section P.
Variable N : nat.
Variable order : list nat.
Hypothesis Hnd : NoDup order.

(* ---- at most N alive ---- *)
Lemma start_bound : forall fuel rd rn, length rn <= N -> length (snd (start N fuel rd rn)) <= N.
Proof.
  induction fuel as [|f IH]; intros rd rn H; simpl; [exact H|].
  destruct rd as [|x r]; [exact H|]. destruct (Nat.ltb (length rn) N) eqn:E; [|exact H].
  apply IH. rewrite app_length. simpl. apply Nat.ltb_lt in E. lia.
Qed.
Lemma filter_length_le {A} (f : A -> bool) l : length (filter f l) <= length l.
Proof. induction l as [|x l IH]; simpl; [lia|]. destruct (f x); simpl; lia. Qed.

Lemma step_alive s a : length (running s) <= N -> length (running (pstep N order s a)) <= N.
Proof.
  intros H. destruct a as [|i tok|i]; simpl.
  - destruct (start N (length (ready s)) (ready s) (running s)) as [rd rn] eqn:E.
    destruct (print order (length order) (cur s) (fin s) (outl s) (printed s)) as [c pr]. simpl.
    pose proof (start_bound (length (ready s)) (ready s) (running s) H) as Hb. rewrite E in Hb. simpl in Hb.
    pose proof (filter_length_le (fun i => negb (mem i (fin s))) rn). lia.
  - destruct (mem i (running s) && negb (mem i (fin s))); simpl; exact H.
  - destruct (mem i (running s) && negb (mem i (fin s))); simpl; exact H.
Qed.

Theorem alive_le_N sched : length (running (prun N order sched)) <= N.
Proof.
  unfold prun. assert (H : forall s, length (running s) <= N -> length (running (fold_left (pstep N order) sched s)) <= N).
  { induction sched as [|a r IH]; simpl; intros s Hs; [exact Hs|]. apply IH. apply step_alive. exact Hs. }
  apply H. simpl. lia.
Qed.

(* ---- work conservation: after the start phase either nothing is waiting or N threads are occupied ---- *)
Theorem start_saturates : forall fuel rd rn, length rd <= fuel ->
  fst (start N fuel rd rn) = [] \/ N <= length (snd (start N fuel rd rn)).
Proof.
  induction fuel as [|f IH]; intros rd rn H; simpl.
  - destruct rd; [now left | simpl in H; lia].
  - destruct rd as [|x r]; [now left|]. destruct (Nat.ltb (length rn) N) eqn:E.
    + apply IH. simpl in H. lia.
    + right. simpl. apply Nat.ltb_ge in E. exact E.
Qed.

(* ---- output: whole blocks, in layer order ---- *)
Definition blocks (k : nat) (outl : list (nat * list nat)) : list nat :=
  flat_map (fun i => lines_of i outl) (firstn k order).

Lemma lines_add_other i j tok m : i <> j -> lines_of j (add_line i tok m) = lines_of j m.
Proof.
  intros H. induction m as [|[k l] r IH]; simpl.
  - destruct (Nat.eqb i j) eqn:E; [apply Nat.eqb_eq in E; congruence | reflexivity].
  - destruct (Nat.eqb k i) eqn:E; simpl.
    + apply Nat.eqb_eq in E. subst k. destruct (Nat.eqb i j) eqn:E2; [apply Nat.eqb_eq in E2; congruence | reflexivity].
    + destruct (Nat.eqb k j); [reflexivity | exact IH].
Qed.

(* invariant: what has been printed is exactly the first `cur` blocks, all of them finished *)
Definition Inv (s : pst) : Prop :=
  printed s = blocks (cur s) (outl s) /\ (forall i, In i (firstn (cur s) order) -> In i (fin s)) /\ cur s <= length order.

Lemma print_inv : forall fuel c fin outl pr,
  pr = blocks c outl -> (forall i, In i (firstn c order) -> In i fin) -> c <= length order ->
  let '(c', pr') := print order fuel c fin outl pr in
  pr' = blocks c' outl /\ (forall i, In i (firstn c' order) -> In i fin) /\ c' <= length order
  /\ c <= c'.
Proof.
  induction fuel as [|f IH]; intros c fin outl pr Hp Hf Hc; simpl; [auto|].
  destruct (nth_error order c) as [i|] eqn:En; [|auto].
  destruct (mem i fin) eqn:Em; [|auto].
  assert (Hlt : c < length order) by (apply nth_error_Some; congruence).
  specialize (IH (S c) fin outl (pr ++ lines_of i outl)).
  destruct (print order f (S c) fin outl (pr ++ lines_of i outl)) as [c' pr'].
  destruct IH as [H1 [H2 [H3 H4]]].
  - unfold blocks. rewrite (firstn_S_nth order c i En), flat_map_app. simpl. rewrite app_nil_r. now rewrite Hp.
  - intros j Hj. rewrite (firstn_S_nth order c i En) in Hj. apply in_app_or in Hj. destruct Hj as [Hj|[<-|[]]]; [auto|].
    apply mem_In. exact Em.
  - lia.
  - repeat split; auto. lia.
Qed.

Lemma step_inv s a : Inv s -> Inv (pstep N order s a).
Proof.
  intros [Hp [Hf Hc]]. destruct a as [|i tok|i]; simpl.
  - destruct (start N (length (ready s)) (ready s) (running s)) as [rd rn].
    pose proof (print_inv (length order) (cur s) (fin s) (outl s) (printed s) Hp Hf Hc) as H.
    destruct (print order (length order) (cur s) (fin s) (outl s) (printed s)) as [c pr]. simpl.
    destruct H as [H1 [H2 [H3 _]]]. repeat split; auto.
  - destruct (mem i (running s) && negb (mem i (fin s))) eqn:E; [|repeat split; auto].
    apply andb_true_iff in E. destruct E as [_ E]. apply negb_true_iff in E. apply mem_false in E.
    repeat split; simpl; auto. rewrite Hp. unfold blocks. apply flat_map_ext_in. intros j Hj.
    symmetry. apply lines_add_other. intros ->. apply E. apply Hf. exact Hj.
  - destruct (mem i (running s) && negb (mem i (fin s))) eqn:E; [|repeat split; auto].
    repeat split; simpl; auto. intros j Hj. apply in_or_app. left. apply Hf. exact Hj.
Qed.

Theorem printed_is_whole_blocks_in_order sched :
  let s := prun N order sched in
  printed s = blocks (cur s) (outl s).
Proof.
  unfold prun. assert (H : forall s, Inv s -> Inv (fold_left (pstep N order) sched s)).
  { induction sched as [|a r IH]; simpl; intros s Hs; [exact Hs|]. apply IH, step_inv, Hs. }
  destruct (H (p_init order)) as [Hp _]; [|exact Hp].
  unfold Inv, blocks. simpl. split; [reflexivity|]. split; [intros i []|lia].
Qed.

(* ---- completeness: once every child has finished, the next iteration prints every block ---- *)
Definition K (s : pst) : Prop := forall i, In i order -> In i (ready s) \/ In i (running s) \/ In i (fin s).

Lemma start_keeps : forall fuel rd rn i, In i rd \/ In i rn ->
  In i (fst (start N fuel rd rn)) \/ In i (snd (start N fuel rd rn)).
Proof.
  induction fuel as [|f IH]; intros rd rn i H; simpl; [exact H|].
  destruct rd as [|x r]; [exact H|]. destruct (Nat.ltb (length rn) N); [|exact H].
  apply IH. destruct H as [[->|H]|H].
  - right. apply in_or_app. right. now left.
  - now left.
  - right. apply in_or_app. now left.
Qed.

Lemma step_K s a : K s -> K (pstep N order s a).
Proof.
  intros HK i Hi. specialize (HK i Hi). destruct a as [|j tok|j]; simpl.
  - pose proof (start_keeps (length (ready s)) (ready s) (running s) i) as Hs.
    destruct (start N (length (ready s)) (ready s) (running s)) as [rd rn].
    destruct (print order (length order) (cur s) (fin s) (outl s) (printed s)) as [c pr]. simpl in *.
    destruct HK as [H|[H|H]]; [| |right; right; exact H].
    + destruct (Hs (or_introl H)) as [H'|H']; [now left|].
      destruct (mem i (fin s)) eqn:E; [right; right; apply mem_In; exact E|].
      right. left. apply filter_In. split; [exact H' | now rewrite E].
    + destruct (Hs (or_intror H)) as [H'|H']; [now left|].
      destruct (mem i (fin s)) eqn:E; [right; right; apply mem_In; exact E|].
      right. left. apply filter_In. split; [exact H' | now rewrite E].
  - destruct (mem j (running s) && negb (mem j (fin s))); simpl; exact HK.
  - destruct (mem j (running s) && negb (mem j (fin s))); simpl; [|exact HK].
    destruct HK as [H|[H|H]]; auto. right. right. apply in_or_app. now left.
Qed.

Lemma print_all fin outl : (forall i, In i order -> In i fin) ->
  forall fuel c pr, length order - c <= fuel -> c <= length order ->
  fst (print order fuel c fin outl pr) = length order.
Proof.
  intros Hall. induction fuel as [|f IH]; intros c pr Hf Hc; simpl; [lia|].
  destruct (nth_error order c) as [i|] eqn:En.
  - assert (Hin : In i order) by (eapply nth_error_In; eauto).
    assert (Hm : mem i fin = true) by (apply mem_In, Hall, Hin). rewrite Hm.
    assert (c < length order) by (apply nth_error_Some; congruence). apply IH; lia.
  - apply nth_error_None in En. simpl. lia.
Qed.

Lemma fold_K sched : forall q, K q -> K (fold_left (pstep N order) sched q).
Proof. induction sched as [|a r IH]; simpl; intros q Hq; [exact Hq|]. apply IH, step_K, Hq. Qed.
Lemma fold_Inv sched : forall q, Inv q -> Inv (fold_left (pstep N order) sched q).
Proof. induction sched as [|a r IH]; simpl; intros q Hq; [exact Hq|]. apply IH, step_inv, Hq. Qed.
Lemma init_Inv : Inv (p_init order).
Proof. unfold Inv, blocks. simpl. split; [reflexivity|]. split; [intros i []|lia]. Qed.

Theorem all_blocks_printed sched :
  let s := prun N order sched in
  ready s = [] -> running s = [] ->
  let s' := pstep N order s Tick in
  cur s' = length order /\ printed s' = flat_map (fun i => lines_of i (outl s')) order.
Proof.
  intros s Hr Hn s'.
  assert (HK : K s).
  { unfold s, prun. apply fold_K. intros i Hi. left. exact Hi. }
  assert (Hall : forall i, In i order -> In i (fin s)).
  { intros i Hi. destruct (HK i Hi) as [H|[H|H]]; [rewrite Hr in H; destruct H | rewrite Hn in H; destruct H | exact H]. }
  assert (Hc : cur s' = length order).
  { unfold s'. simpl. destruct (start N (length (ready s)) (ready s) (running s)) as [rd rn].
    pose proof (print_all (fin s) (outl s) Hall (length order) (cur s) (printed s)) as Hp.
    destruct (print order (length order) (cur s) (fin s) (outl s) (printed s)) as [c pr]. simpl in *.
    apply Hp; [lia|].
    assert (HI : Inv s) by (unfold s, prun; apply fold_Inv, init_Inv).
    destruct HI as [_ [_ HI]]. exact HI. }
  split; [exact Hc|].
  pose proof (printed_is_whole_blocks_in_order (sched ++ [Tick])) as Hp. cbn zeta in Hp.
  unfold prun in Hp. rewrite fold_left_app in Hp. cbn [fold_left] in Hp.
  change (fold_left (pstep N order) sched (p_init order)) with s in Hp. change (pstep N order s Tick) with s' in Hp.
  rewrite Hp, Hc. unfold blocks. now rewrite firstn_all.
Qed.
End P.
