From ZT Require Import Base Digraph DigraphEnum.

(* Bounded theorems (the bound is part of each statement): proved by evaluation over a
   complete enumeration and lifted with forallb_forall. *)
Lemma all_hold_spec gs : all_hold gs = true ->
  forall g, In g gs -> forall trivial, c20_holds g trivial = true.
Proof.
  unfold all_hold. rewrite forallb_forall. intros H g Hg t. specialize (H g Hg).
  apply andb_true_iff in H. destruct t; tauto.
Qed.

Lemma sccs_correct_0 : all_hold (all_graphs 0) = true. Proof. vm_compute. reflexivity. Qed.
Lemma sccs_correct_1 : all_hold (all_graphs 1) = true. Proof. vm_compute. reflexivity. Qed.
Lemma sccs_correct_2 : all_hold (all_graphs 2) = true. Proof. vm_compute. reflexivity. Qed.
Lemma sccs_correct_3 : all_hold (all_graphs 3) = true. Proof. vm_compute. reflexivity. Qed.

Theorem sccs_correct_le3 : forall n g, n <= 3 -> In g (all_graphs n) ->
  forall trivial, c20_holds g trivial = true.
Proof.
  intros n g Hn Hg t.
  assert (Hc : n = 0 \/ n = 1 \/ n = 2 \/ n = 3) by lia.
  destruct Hc as [E|[E|[E|E]]]; subst n.
  - exact (all_hold_spec _ sccs_correct_0 g Hg t).
  - exact (all_hold_spec _ sccs_correct_1 g Hg t).
  - exact (all_hold_spec _ sccs_correct_2 g Hg t).
  - exact (all_hold_spec _ sccs_correct_3 g Hg t).
Qed.

(* c20_holds unfolds to: sccs terminates within the fuel bound without error and its
   result satisfies the statement *)
Lemma c20_holds_spec g t : c20_holds g t = true ->
  exists comps, sccs g t = Ok comps /\ c20_ok g t comps = true.
Proof. unfold c20_holds. destruct (sccs g t); try discriminate. eauto. Qed.

Example count_graphs_3 : length (all_graphs 3) = 24576. Proof. vm_compute. reflexivity. Qed.
