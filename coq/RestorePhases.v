(* RestorePhases.v — Runner.run() as the code spells it: global_setup of every feature in order, then late_setup of every
   feature in order, the test phase, and in the finally clause early_teardown of every feature in reverse order followed by
   global_teardown of every feature in reverse order.  The test phase is an ARBITRARY state transformer: tests may themselves
   change the very fields the features manage (gc.set_threshold inside a test, warnings.resetwarnings(), a trace hook).
   Theorems: a field some active feature manages is, after the run, what it was before the run, whatever the phase did
   (normal end or exception — the tear-downs are in a finally clause, so both are the same function of the phase's last state);
   a field no active feature manages is what the test phase left; consequently a history of runs whose tests only touch
   managed fields leaves the interpreter as it found it. *)
From ZT Require Import Base Restore RestoreFacts.

Record feature2 := { f_global : list (nat * nat);    (* written by global_setup, restored by global_teardown *)
                     f_late : list (nat * nat) }.    (* written by late_setup (tracer, profiler), restored by early_teardown *)

Definition globals_of (fs : list feature2) := concat (map f_global fs).
Definition lates_of (fs : list feature2) := concat (map f_late fs).
Definition managed (fs : list feature2) : list nat := map fst (globals_of fs) ++ map fst (lates_of fs).

(* state seen by the tests *)
Definition during2 (fs : list feature2) (g : gstate) : gstate :=
  fst (install (lates_of fs) (fst (install (globals_of fs) g))).

Definition run2 (fs : list feature2) (phase : gstate -> gstate) (g : gstate) : gstate :=
  let '(g1, sg) := install (globals_of fs) g in
  let '(g2, sl) := install (lates_of fs) g1 in
  restore_saved sg (restore_saved sl (phase g2)).

(* restore_saved over the saved list of features set up one after the other = tear-downs in reverse feature order *)
Lemma restore_saved_app s1 s2 x : restore_saved (s1 ++ s2) x = restore_saved s1 (restore_saved s2 x).
Proof. induction s1 as [|[f o] r IH]; simpl; [reflexivity|]. now rewrite IH. Qed.

Lemma install_app ws1 ws2 g :
  install (ws1 ++ ws2) g =
  let '(g1, s1) := install ws1 g in let '(g2, s2) := install ws2 g1 in (g2, s1 ++ s2).
Proof.
  revert g. induction ws1 as [|[f v] r IH]; simpl; intros g.
  - destruct (install ws2 g) as [g2 s2]. reflexivity.
  - rewrite IH. destruct (install r (gset g f v)) as [g1 s1]. destruct (install ws2 g1) as [g2 s2]. reflexivity.
Qed.

Lemma install_other : forall ws g f, ~ In f (map fst ws) -> gget (fst (install ws g)) f = gget g f.
Proof.
  induction ws as [|[a b] ws IH]; simpl; intros g f Hn; [reflexivity|].
  destruct (install ws (gset g a b)) as [g' s'] eqn:E. simpl.
  specialize (IH (gset g a b) f). rewrite E in IH. simpl in IH. rewrite IH by tauto.
  apply gget_gset_ne. intros ->. apply Hn. now left.
Qed.

(* the heart: whatever state x the inner computation ends in, restoring puts back every written field and touches no other *)
Lemma restore_written : forall ws g g' s x f, install ws g = (g', s) -> In f (map fst ws) ->
  gget (restore_saved s x) f = gget g f.
Proof.
  induction ws as [|[f0 v0] r IH]; simpl; intros g g' s x f E Hin; [destruct Hin|].
  destruct (install r (gset g f0 v0)) as [g1 s1] eqn:E1. injection E as <- <-. simpl.
  destruct (Nat.eq_dec f0 f) as [->|Hne]; [apply gget_gset_eq|].
  rewrite gget_gset_ne by assumption.
  destruct Hin as [Heq|Hin]; [congruence|].
  rewrite (IH _ _ _ x f E1 Hin). now apply gget_gset_ne.
Qed.

Lemma restore_unwritten : forall ws g g' s x f, install ws g = (g', s) -> ~ In f (map fst ws) ->
  gget (restore_saved s x) f = gget x f.
Proof.
  induction ws as [|[f0 v0] r IH]; simpl; intros g g' s x f E Hn.
  - injection E as <- <-. reflexivity.
  - destruct (install r (gset g f0 v0)) as [g1 s1] eqn:E1. injection E as <- <-. simpl.
    rewrite gget_gset_ne by tauto. apply (IH _ _ _ x f E1). tauto.
Qed.

Theorem managed_fields_restored : forall fs phase g f, In f (managed fs) -> gget (run2 fs phase g) f = gget g f.
Proof.
  intros fs phase g f Hin. unfold run2.
  destruct (install (globals_of fs) g) as [g1 sg] eqn:Eg.
  destruct (install (lates_of fs) g1) as [g2 sl] eqn:El.
  destruct (in_dec Nat.eq_dec f (map fst (globals_of fs))) as [Hg|Hg].
  - apply (restore_written _ _ _ _ _ _ Eg Hg).
  - rewrite (restore_unwritten _ _ _ _ _ _ Eg Hg).
    unfold managed in Hin. apply in_app_or in Hin. destruct Hin as [Hin|Hin]; [contradiction|].
    rewrite (restore_written _ _ _ _ _ _ El Hin).
    pose proof (install_other (globals_of fs) g f Hg) as H. rewrite Eg in H. exact H.
Qed.

Theorem unmanaged_fields_left_to_the_tests : forall fs phase g f, ~ In f (managed fs) ->
  gget (run2 fs phase g) f = gget (phase (during2 fs g)) f.
Proof.
  intros fs phase g f Hn. unfold run2, during2.
  destruct (install (globals_of fs) g) as [g1 sg] eqn:Eg. simpl.
  destruct (install (lates_of fs) g1) as [g2 sl] eqn:El. simpl.
  unfold managed in Hn.
  rewrite (restore_unwritten _ _ _ _ _ _ Eg) by (intros H; apply Hn, in_or_app; now left).
  apply (restore_unwritten _ _ _ _ _ _ El). intros H; apply Hn, in_or_app; now right.
Qed.

(* tests that only ever change fields some active feature manages: the run gives back the state it found *)
Definition only_managed (fs : list feature2) (phase : gstate -> gstate) : Prop :=
  forall g f, ~ In f (managed fs) -> gget (phase g) f = gget g f.

Theorem run2_restores : forall fs phase, only_managed fs phase -> forall g, gequiv (run2 fs phase g) g.
Proof.
  intros fs phase Hp g f.
  destruct (in_dec Nat.eq_dec f (managed fs)) as [Hm|Hm]; [now apply managed_fields_restored|].
  rewrite unmanaged_fields_left_to_the_tests by assumption. rewrite Hp by assumption.
  unfold during2, managed in *.
  rewrite install_other by (intros H; apply Hm, in_or_app; now right).
  apply install_other. intros H; apply Hm, in_or_app; now left.
Qed.

(* history: any number of runs in one interpreter, each with its own options *)
Fixpoint runs (h : list (list feature2 * (gstate -> gstate))) (g : gstate) : gstate :=
  match h with [] => g | (fs, phase) :: r => runs r (run2 fs phase g) end.

Theorem history_restores : forall h, Forall (fun rp => only_managed (fst rp) (snd rp)) h -> forall g, gequiv (runs h g) g.
Proof.
  induction h as [|[fs phase] r IH]; simpl; intros H g; [apply gequiv_refl|].
  inversion H as [|? ? H1 H2]; subst. simpl in H1.
  eapply gequiv_trans; [apply IH; assumption|]. now apply run2_restores.
Qed.

(* a field managed in every run of a history is restored whatever all the tests did *)
Theorem history_managed_everywhere : forall h f,
  Forall (fun rp => In f (managed (fst rp))) h -> forall g, gget (runs h g) f = gget g f.
Proof.
  induction h as [|[fs phase] r IH]; simpl; intros f H g; [reflexivity|].
  inversion H as [|? ? H1 H2]; subst. simpl in H1.
  rewrite IH by assumption. now apply managed_fields_restored.
Qed.

(* the one-bracket model of Restore.v is this model with every write counted as a global one and a restoring phase *)
Lemma run2_with_features_agree : forall fs phase g,
  (forall x, gequiv (phase x) x) ->
  gequiv (run2 fs phase g) (with_features (map (fun f => {| f_writes := f_global f ++ f_late f |}) fs) phase g).
Proof.
  intros fs phase g Hp.
  eapply gequiv_trans.
  - apply run2_restores. intros x f _. apply Hp.
  - intros f. symmetry. revert f. apply run_restores_globals. exact Hp.
Qed.

(* non-vacuity: --gc and coverage active, a test that sets the thresholds and the trace hook itself and also field 42 *)
Example meddling_test_is_undone :
  let fs := [ {| f_global := [(0, 7)]; f_late := [] |}; {| f_global := [(10, 1)]; f_late := [(4, 2); (5, 2)] |} ] in
  let phase := fun g => gset (gset (gset g 0 99) 4 98) 42 97 in
  let g := [(0, 1); (4, 0); (5, 0); (10, 0)] in
  (gget (run2 fs phase g) 0, gget (run2 fs phase g) 4, gget (run2 fs phase g) 42, gget (during2 fs g) 4) = (1, 0, 97, 2).
Proof. vm_compute. reflexivity. Qed.

(* ------------------------------------------------------------------------------------------------------------------------
   The order the code really uses.  A feature's write happens in global_setup or in late_setup, and is undone in early_teardown
   or in global_teardown — independently (coverage starts its tracer in global_setup and stops it in early_teardown; the
   profiler is enabled in late_setup and disabled in early_teardown; gc, traceback and sys.path are global/global).  So the
   tear-down sequence is NOT the mirror image of the set-up sequence, and the bracket argument above does not apply as it stands.
   What makes the run restoring is that no two active features write the same field (a boolean the check evaluates on
   every case): then each write saved the pre-run value and the order of the tear-downs is irrelevant. *)
Record write := { w_field : nat; w_val : nat; w_late : bool; w_early : bool }.
Definition feature3 := list write.

Definition setup_order (fs : list feature3) : list write :=
  filter (fun w => negb (w_late w)) (concat fs) ++ filter w_late (concat fs).
Definition teardown_order (fs : list feature3) : list write :=
  filter w_early (concat (rev fs)) ++ filter (fun w => negb (w_early w)) (concat (rev fs)).
Definition wpairs (ws : list write) := map (fun w => (w_field w, w_val w)) ws.
Definition fields3 (fs : list feature3) : list nat := map w_field (concat fs).

Fixpoint lookup (s : saved) (f : nat) : nat :=
  match s with [] => 0 | (k, o) :: r => if Nat.eqb k f then o else lookup r f end.
Definition restore_in_order (order : list nat) (s : saved) (x : gstate) : gstate :=
  fold_left (fun acc f => gset acc f (lookup s f)) order x.

Definition during3 (fs : list feature3) (g : gstate) : gstate := fst (install (wpairs (setup_order fs)) g).
Definition run3 (fs : list feature3) (phase : gstate -> gstate) (g : gstate) : gstate :=
  let '(g2, s) := install (wpairs (setup_order fs)) g in
  restore_in_order (map w_field (teardown_order fs)) s (phase g2).

Definition disjoint_writes (fs : list feature3) : bool :=
  (fix nd (l : list nat) := match l with [] => true | a :: r => negb (mem a r) && nd r end) (fields3 fs).

Lemma restore_in_order_get : forall order s x f,
  gget (restore_in_order order s x) f = if mem f order then lookup s f else gget x f.
Proof.
  unfold restore_in_order, mem. induction order as [|a r IH]; simpl; intros s x f; [reflexivity|].
  rewrite IH. destruct (existsb (Nat.eqb f) r) eqn:Er; [now rewrite orb_true_r|]. rewrite orb_false_r.
  destruct (Nat.eqb f a) eqn:Ea.
  - apply Nat.eqb_eq in Ea. subst a. apply gget_gset_eq.
  - apply gget_gset_ne. intros ->. now rewrite Nat.eqb_refl in Ea.
Qed.

Lemma install_saved_lookup : forall ws g g' s f, install ws g = (g', s) -> NoDup (map fst ws) -> In f (map fst ws) ->
  lookup s f = gget g f.
Proof.
  induction ws as [|[f0 v0] r IH]; simpl; intros g g' s f E Hnd Hin; [destruct Hin|].
  destruct (install r (gset g f0 v0)) as [g1 s1] eqn:E1. injection E as <- <-. simpl.
  inversion Hnd as [|? ? Hn Hr]; subst.
  destruct (Nat.eqb f0 f) eqn:Ef; [apply Nat.eqb_eq in Ef; now subst|].
  apply Nat.eqb_neq in Ef. destruct Hin as [Heq|Hin]; [congruence|].
  rewrite (IH _ _ _ f E1 Hr Hin). now apply gget_gset_ne.
Qed.

Lemma mem_In x l : mem x l = true <-> In x l.
Proof.
  unfold mem. rewrite existsb_exists. split.
  - intros [y [Hy E]]. apply Nat.eqb_eq in E. now subst.
  - intros H. exists x. split; [assumption | apply Nat.eqb_refl].
Qed.

Lemma disjoint_writes_NoDup fs : disjoint_writes fs = true -> NoDup (fields3 fs).
Proof.
  unfold disjoint_writes. generalize (fields3 fs). induction l as [|a r IH]; intros H; [constructor|].
  apply andb_true_iff in H. destruct H as [H1 H2]. constructor; [|now apply IH].
  intros Hin. apply mem_In in Hin. now rewrite Hin in H1.
Qed.

Lemma in_filter_split {A} (p : A -> bool) (l : list A) x :
  In x l <-> In x (filter (fun w => negb (p w)) l ++ filter p l).
Proof.
  rewrite in_app_iff, !filter_In. split.
  - intros H. destruct (p x) eqn:E; [right | left]; rewrite ?E; auto.
  - intros [[H _]|[H _]]; exact H.
Qed.

Lemma in_concat_rev {A} (ls : list (list A)) x : In x (concat (rev ls)) <-> In x (concat ls).
Proof.
  rewrite !in_concat. split; intros [l [Hl Hx]]; exists l; split; auto; [now apply in_rev | now apply in_rev in Hl].
Qed.

Lemma setup_fields fs f : In f (map fst (wpairs (setup_order fs))) <-> In f (fields3 fs).
Proof.
  unfold wpairs, fields3, setup_order. rewrite map_map. simpl. rewrite !in_map_iff.
  split; intros [w [Hw Hin]]; exists w; split; auto.
  - now apply (in_filter_split w_late).
  - now apply (in_filter_split w_late) in Hin.
Qed.

Lemma teardown_fields fs f : In f (map w_field (teardown_order fs)) <-> In f (fields3 fs).
Proof.
  unfold fields3, teardown_order. rewrite !in_map_iff.
  split; intros [w [Hw Hin]]; exists w; split; auto.
  - apply in_concat_rev. apply (in_filter_split (fun w => negb (w_early w))).
    apply in_app_or in Hin. apply in_or_app. destruct Hin as [H|H]; [left | right]; [|exact H].
    rewrite filter_In in *. destruct H as [H1 H2]. split; [exact H1|]. now rewrite H2.
  - apply in_concat_rev in Hin. apply (in_filter_split (fun w => negb (w_early w))) in Hin.
    apply in_app_or in Hin. apply in_or_app. destruct Hin as [H|H]; [left | right]; [|exact H].
    rewrite filter_In in *. destruct H as [H1 H2]. split; [exact H1|]. now destruct (w_early w).
Qed.

Lemma NoDup_filter_split {A B} (key : A -> B) (p : A -> bool) (l : list A) :
  NoDup (map key l) -> NoDup (map key (filter (fun w => negb (p w)) l ++ filter p l)).
Proof.
  induction l as [|a r IH]; simpl; intros H; [constructor|].
  inversion H as [|? ? Hn Hr]; subst. specialize (IH Hr).
  assert (Hnot : ~ In (key a) (map key (filter (fun w => negb (p w)) r ++ filter p r))).
  { intros Hin. apply Hn. apply in_map_iff in Hin. destruct Hin as [w [Hk Hw]]. apply in_map_iff. exists w. split; [exact Hk|].
    now apply (in_filter_split p). }
  destruct (p a) eqn:E; simpl.
  - rewrite map_app in *. simpl. apply NoDup_Add with (a := key a) (l := map key (filter (fun w => negb (p w)) r) ++ map key (filter p r)).
    + apply Add_app.
    + split; assumption.
  - constructor; assumption.
Qed.

Lemma setup_NoDup fs : NoDup (fields3 fs) -> NoDup (map fst (wpairs (setup_order fs))).
Proof.
  intros H. unfold wpairs. rewrite map_map. simpl. unfold setup_order. now apply (NoDup_filter_split w_field w_late).
Qed.

(* C18 for the real set-up/tear-down schedule and an arbitrary test phase *)
Theorem run3_managed_restored : forall fs phase g f, disjoint_writes fs = true -> In f (fields3 fs) ->
  gget (run3 fs phase g) f = gget g f.
Proof.
  intros fs phase g f Hd Hin. apply disjoint_writes_NoDup in Hd. unfold run3.
  destruct (install (wpairs (setup_order fs)) g) as [g2 s] eqn:E.
  rewrite restore_in_order_get.
  assert (Hm : mem f (map w_field (teardown_order fs)) = true) by (apply mem_In, teardown_fields; exact Hin).
  rewrite Hm. apply (install_saved_lookup _ _ _ _ _ E); [now apply setup_NoDup | now apply setup_fields].
Qed.

Theorem run3_unmanaged_left_to_the_tests : forall fs phase g f, ~ In f (fields3 fs) ->
  gget (run3 fs phase g) f = gget (phase (during3 fs g)) f.
Proof.
  intros fs phase g f Hn. unfold run3, during3.
  destruct (install (wpairs (setup_order fs)) g) as [g2 s] eqn:E. simpl.
  rewrite restore_in_order_get.
  destruct (mem f (map w_field (teardown_order fs))) eqn:Hm; [|reflexivity].
  apply mem_In, teardown_fields in Hm. contradiction.
Qed.

Theorem run3_restores : forall fs phase, disjoint_writes fs = true ->
  (forall g f, ~ In f (fields3 fs) -> gget (phase g) f = gget g f) -> forall g, gequiv (run3 fs phase g) g.
Proof.
  intros fs phase Hd Hp g f.
  destruct (in_dec Nat.eq_dec f (fields3 fs)) as [Hm|Hm]; [now apply run3_managed_restored|].
  rewrite run3_unmanaged_left_to_the_tests by assumption. rewrite Hp by assumption.
  unfold during3. apply install_other. intros H. apply Hm. now apply setup_fields.
Qed.

(* during the tests every managed field carries the value its feature installed *)
Theorem during3_installed : forall fs g w, disjoint_writes fs = true -> In w (concat fs) ->
  gget (during3 fs g) (w_field w) = w_val w.
Proof.
  intros fs g w Hd Hin. apply disjoint_writes_NoDup in Hd. unfold during3.
  apply install_get; [|now apply setup_NoDup].
  unfold wpairs. apply in_map_iff. exists w. split; [reflexivity|]. unfold setup_order.
  apply (proj1 (in_filter_split w_late (concat fs) w)). exact Hin.
Qed.

(* Scope of run3: restore_in_order finds a write's saved value by its field; that is the value the write itself saved exactly
   when no two active writes share a field (disjoint_writes, evaluated on every case).  With overlapping writes the real
   schedule (outer feature undone early, inner one late) would not be restoring and run3 is not claimed to describe it;
   RestoreTagged.run4 undoes every write by its own saved value, proves the same theorem and exhibits the failing overlap. *)

Example coverage_gc_profile_schedule :
  let fs := [ [ {| w_field := 4; w_val := 5; w_late := false; w_early := true |}; {| w_field := 5; w_val := 5; w_late := false; w_early := true |} ];
              [ {| w_field := 6; w_val := 9; w_late := true; w_early := true |} ];
              [ {| w_field := 0; w_val := 7; w_late := false; w_early := false |} ] ] in
  let phase := fun g => gset (gset g 0 99) 4 98 in
  let g := [(0, 1); (4, 0); (5, 0); (6, 0)] in
  disjoint_writes fs = true /\ gget (during3 fs g) 6 = 9 /\
  forallb (fun f => Nat.eqb (gget (run3 fs phase g) f) (gget g f)) [0; 4; 5; 6; 7] = true.
Proof. vm_compute. repeat split. Qed.
