(* Chk_C09.v — case type and checker for C09 (nearest declaration, levels, unit switches). *)
From ZT Require Import Base Filter Levels Chk_C08.
Open Scope Z_scope.

Record case := {
  tree : suite;
  o : opts;                          (* as given on the command line (before post-processing) *)
  present : list str;                (* layer names registered before Filter.global_setup *)
  tab : table;                       (* re.search answers for (layer pattern, layer name) *)
  r_items : list (nat * option nat); (* implementation: tests_from_suite -> (test id, layer index) *)
  r_kept : list str                  (* implementation: layer names left after Filter.global_setup *)
}.

Definition item_eqb (a b : nat * option nat) : bool :=
  Nat.eqb (fst a) (fst b) && opt_eqb Nat.eqb (snd a) (snd b).

Definition model_items (c : case) : list (nat * option nat) :=
  let po := post (o c) in
  map (fun it : item => (fst (fst it), snd it))
      (filter (fun it : item => match snd it with None => true | Some _ => eligible po (snd (fst it)) end)
              (flatten 1 0%nat (tree c))).

(* the statement, evaluated independently of flatten/eligible/keep_layers *)
Definition stmt_eligible (oo : opts) (lvl : Z) : bool :=
  match only_level oo with
  | Some k => lvl =? k
  | None => if all oo then true else (at_level oo <=? 0) || (lvl <=? at_level oo)
  end.
Definition stmt_items (c : case) : list (nat * option nat) :=
  flat_map (fun pl : list decl * leaf =>
     match snd pl with
     | LStart id => [(id, None)]
     | LCase id =>
       let lvl := nearest (map fst (fst pl)) 1 in
       let lay := nearest (map snd (fst pl)) 0%nat in
       if stmt_eligible (o c) lvl then [(id, Some lay)] else []
     end) (leaves [] (tree c)).
Definition stmt_kept (c : case) : list str :=
  let oo := o c in
  match unit oo, non_unit oo, layer_pats oo with
  | true, false, _ => filter (fun n => str_eqb n unit_name) (present c)
  | false, true, [] => filter (fun n => negb (str_eqb n unit_name)) (present c)
  | true, true, [] => present c
  | false, false, [] => present c
  | false, false, ps => filter (accept (lookup (tab c)) ps) (present c)
  | false, true, ps => (* --non-unit drops the unit-test layer whatever --layer says about it *)
                       filter (fun n => negb (str_eqb n unit_name) && accept (lookup (tab c)) ps n) (present c)
  | _, _, _ => r_kept c     (* combinations the statement does not speak about *)
  end.

Definition strs_eqb := list_eqb str_eqb.
Definition items_eqb := list_eqb item_eqb.

(* hypotheses: levels fit a machine word; the reserved unit name, used as a pattern, matches only itself *)
Fixpoint levels_ok (s : suite) : bool :=
  match s with
  | Case lv _ _ => match lv with Some z => z <=? maxsize | None => true end
  | Suite lv _ kids => match lv with Some z => z <=? maxsize | None => true end
                       && (fix go ks := match ks with [] => true | k :: r => levels_ok k && go r end) kids
  | StartUp _ => true
  end.
Definition hyps (c : case) : bool :=
  levels_ok (tree c)
  && forallb (fun n => Bool.eqb (lookup (tab c) unit_name n) (str_eqb n unit_name)) (present c).

Definition check (c : case) : nat :=
  bit (negb (items_eqb (model_items c) (r_items c)
             && strs_eqb (keep_layers (lookup (tab c)) (post (o c)) (present c)) (r_kept c))) 1
  + bit (hyps c && negb (items_eqb (stmt_items c) (r_items c) && strs_eqb (stmt_kept c) (r_kept c))) 2
  + bit (negb (hyps c)) 4.
