(* Threads.v — model of the "left new threads behind" check of zope TestResult (startTest snapshot,
   stopTest comparison through threadsupport.enumerate / ThreadProxy.__eq__), including the registry of
   `threading` (threading._active) that decides which object stands for a running thread. *)
From ZT Require Import Base.

(* a thread as the world starts it *)
Record thr := {
  th_id : nat;          (* identity of the thread (unique among the threads alive at any time) *)
  th_ident : nat;       (* OS ident; idents of finished threads may be reused *)
  th_known : bool;      (* started through `threading` (true) or through the low-level `_thread` API (false) *)
  th_cur : bool;        (* a low-level thread that asks threading.current_thread() while it runs (logging does): threading
                           registers a _DummyThread for its ident — or hands it the object already registered there *)
  th_ignored : bool     (* the name under which it is seen matches an --ignore-new-thread pattern (re.match oracle) *)
}.

Inductive tev :=
| TBegin (t : nat)                 (* startTest of test t: snapshot *)
| TStart (x : thr)                 (* a thread starts *)
| TFinish (id : nat)               (* the thread with this identity ends *)
| TEnd (t : nat).                  (* stopTest of test t: report *)

(* threading._active: OS ident -> the object threading holds for it (objects are named by the identity of the thread
   for which they were created).  A Thread started through threading registers itself and removes the entry of its
   ident when it ends; a _DummyThread record is created on demand and is never dropped. *)
Definition registry := list (nat * nat).
Fixpoint lookup (r : registry) (i : nat) : option nat :=
  match r with [] => None | (k, o) :: r' => if Nat.eqb k i then Some o else lookup r' i end.
Definition unreg (r : registry) (i : nat) : registry := filter (fun e => negb (Nat.eqb (fst e) i)) r.
Definition register (r : registry) (x : thr) : registry :=
  if th_known x then (th_ident x, th_id x) :: unreg r (th_ident x)
  else if th_cur x then match lookup r (th_ident x) with Some _ => r | None => (th_ident x, th_id x) :: r end
  else r.

(* threadsupport.enumerate(): one proxy per running thread: the object threading has for its ident, or a
   threadsupport.DummyThread(ident) *)
Definition proxy := (nat * option nat)%type.       (* (ident, object) *)
Definition proxy_of (r : registry) (x : thr) : proxy := (th_ident x, lookup r (th_ident x)).

(* ThreadProxy.__eq__ (as repaired): two threads known to `threading` are the same thread iff they are the same
   object; when either is only known through sys._current_frames the OS ident is all there is *)
Definition same (a b : proxy) : bool :=
  match snd a, snd b with
  | Some oa, Some ob => Nat.eqb oa ob
  | _, _ => Nat.eqb (fst a) (fst b)
  end.

Record tstate := {
  alive : list thr;
  active : registry;
  snap : list proxy;                     (* self._threads *)
  reports : list (nat * list nat)        (* (test, identities reported), in order *)
}.

Definition finish_reg (r : registry) (al : list thr) (id : nat) : registry :=
  fold_left (fun r y => if Nat.eqb (th_id y) id && th_known y then unreg r (th_ident y) else r) al r.

Definition tstep (s : tstate) (e : tev) : tstate :=
  match e with
  | TBegin _ => {| alive := alive s; active := active s; snap := map (proxy_of (active s)) (alive s); reports := reports s |}
  | TStart x => {| alive := alive s ++ [x]; active := register (active s) x; snap := snap s; reports := reports s |}
  | TFinish id => {| alive := filter (fun y => negb (Nat.eqb (th_id y) id)) (alive s);
                     active := finish_reg (active s) (alive s) id; snap := snap s; reports := reports s |}
  | TEnd t =>
    let new := filter (fun y => negb (existsb (same (proxy_of (active s) y)) (snap s)) && negb (th_ignored y)) (alive s) in
    {| alive := alive s; active := active s; snap := snap s;
       reports := reports s ++ (match new with [] => [] | _ => [(t, map th_id new)] end) |}
  end.
Definition boot (init : list thr) : tstate :=
  let r := fold_left register init [] in
  {| alive := init; active := r; snap := map (proxy_of r) init; reports := [] |}.
Definition trun (init : list thr) (h : list tev) : tstate := fold_left tstep h (boot init).

(* ---- the statement, computed independently from the history ---- *)
(* threads started since the last TBegin, still alive, not ignored *)
Record sstate := { s_alive : list thr; s_started : list nat; s_reports : list (nat * list nat) }.
Definition sstep (s : sstate) (e : tev) : sstate :=
  match e with
  | TBegin _ => {| s_alive := s_alive s; s_started := []; s_reports := s_reports s |}
  | TStart x => {| s_alive := s_alive s ++ [x]; s_started := s_started s ++ [th_id x]; s_reports := s_reports s |}
  | TFinish id => {| s_alive := filter (fun y => negb (Nat.eqb (th_id y) id)) (s_alive s); s_started := s_started s; s_reports := s_reports s |}
  | TEnd t =>
    let new := filter (fun y => mem (th_id y) (s_started s) && negb (th_ignored y)) (s_alive s) in
    {| s_alive := s_alive s; s_started := s_started s;
       s_reports := s_reports s ++ (match new with [] => [] | _ => [(t, map th_id new)] end) |}
  end.
Definition srun (init : list thr) (h : list tev) : sstate :=
  fold_left sstep h {| s_alive := init; s_started := []; s_reports := [] |}.

(* hypotheses on a history.  (1) what the OS and the world guarantee: a new thread's identity and OS ident differ from
   those of every thread still running.  (2) the one that can fail: the object that stands for the new thread can be told
   from everything in the snapshot — the idents differ, or both are objects of `threading` and they are different objects.
   (It fails when an ident is handed to a new thread while the snapshot still holds a thread with that ident and either
   of them is known by ident only, or the new low-level thread is handed the stale _DummyThread of the old one.) *)
Definition distinguishable (p q : proxy) : bool := negb (same p q).
Definition fresh_step (s : tstate) (e : tev) : bool :=
  match e with
  | TStart x => forallb (distinguishable (proxy_of (register (active s) x) x)) (snap s)
                && negb (mem (th_id x) (map th_id (alive s)))
                && negb (mem (th_ident x) (map th_ident (alive s)))
  | _ => true
  end.
Fixpoint idents_fresh_from (s : tstate) (h : list tev) : bool :=
  match h with [] => true | e :: r => fresh_step s e && idents_fresh_from (tstep s e) r end.
Fixpoint t_nodupb (l : list nat) : bool :=
  match l with [] => true | x :: r => negb (mem x r) && t_nodupb r end.
Definition idents_fresh (init : list thr) (h : list tev) : bool :=
  t_nodupb (map th_ident init) && idents_fresh_from (boot init) h.
