(* Threads.v — model of the "left new threads behind" check of zope TestResult (startTest snapshot,
   stopTest comparison through threadsupport.enumerate / ThreadProxy.__eq__). *)
From ZT Require Import Base.

(* a thread as the runner can see it *)
Record thr := {
  th_id : nat;          (* identity of the thread (unique for the whole history) *)
  th_ident : nat;       (* OS ident; idents of finished threads may be reused *)
  th_known : bool;      (* started through `threading` (true) or through the low-level `_thread` API (false) *)
  th_ignored : bool     (* its name matches an --ignore-new-thread pattern (re.match oracle) *)
}.

Inductive tev :=
| TBegin (t : nat)                 (* startTest of test t: snapshot *)
| TStart (x : thr)                 (* a thread starts *)
| TFinish (id : nat)               (* the thread with this identity ends *)
| TEnd (t : nat).                  (* stopTest of test t: report *)

(* ThreadProxy.__eq__ (as repaired): two threads known to `threading` are the same thread iff they are the same
   object; when either is only known through sys._current_frames the OS ident is all there is *)
Definition same (a b : thr) : bool :=
  if th_known a && th_known b then Nat.eqb (th_id a) (th_id b) else Nat.eqb (th_ident a) (th_ident b).

Record tstate := {
  alive : list thr;
  snap : list thr;                       (* self._threads *)
  reports : list (nat * list nat)        (* (test, identities reported), in order *)
}.

Definition tstep (s : tstate) (e : tev) : tstate :=
  match e with
  | TBegin _ => {| alive := alive s; snap := alive s; reports := reports s |}
  | TStart x => {| alive := alive s ++ [x]; snap := snap s; reports := reports s |}
  | TFinish id => {| alive := filter (fun y => negb (Nat.eqb (th_id y) id)) (alive s); snap := snap s; reports := reports s |}
  | TEnd t =>
    let new := filter (fun y => negb (existsb (same y) (snap s)) && negb (th_ignored y)) (alive s) in
    {| alive := alive s; snap := snap s;
       reports := reports s ++ (match new with [] => [] | _ => [(t, map th_id new)] end) |}
  end.
Definition trun (init : list thr) (h : list tev) : tstate :=
  fold_left tstep h {| alive := init; snap := init; reports := [] |}.

(* ---- the statement, computed independently from the history ---- *)
(* threads started since the last TBegin, still alive, not ignored *)
Record sstate := { s_alive : list thr; s_started : list nat; s_reports : list (nat * list nat) }.
Definition sstep (s : sstate) (e : tev) : sstate :=
  match e with
  | TBegin _ => {| s_alive := s_alive s; s_started := []; s_reports := s_reports s |}
  | TStart x => {| s_alive := s_alive s ++ [x]; s_started := s_started s ++ [th_id x]; s_reports := s_reports s |}
  | TFinish id => {| s_alive := filter (fun y => negb (Nat.eqb (th_id y) id)) (s_alive s); s_started := s_started s; s_reports := s_reports s |}
  | TEnd t =>
    let new := filter (fun y => mem (th_id y) (s_started s) && negb (th_ignored y)) (s_alive s) in
    {| s_alive := s_alive s; s_started := s_started s;
       s_reports := s_reports s ++ (match new with [] => [] | _ => [(t, map th_id new)] end) |}
  end.
Definition srun (init : list thr) (h : list tev) : sstate :=
  fold_left sstep h {| s_alive := init; s_started := []; s_reports := [] |}.

(* hypothesis: an ident is never handed to a new thread while the snapshot still holds a thread with that ident,
   unless both are `threading` threads (which are told apart by identity) *)
Definition fresh_step (s : tstate) (e : tev) : bool :=
  match e with
  | TStart x => forallb (fun y => negb (Nat.eqb (th_ident x) (th_ident y)) || (th_known x && th_known y)) (snap s)
                && negb (existsb (fun y => Nat.eqb (th_id y) (th_id x)) (alive s ++ snap s))
  | _ => true
  end.
Fixpoint idents_fresh_from (s : tstate) (h : list tev) : bool :=
  match h with [] => true | e :: r => fresh_step s e && idents_fresh_from (tstep s e) r end.
Definition idents_fresh (init : list thr) (h : list tev) : bool :=
  idents_fresh_from {| alive := init; snap := init; reports := [] |} h.
