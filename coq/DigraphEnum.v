(* DigraphEnum.v — finite enumerations used by the bounded theorems for C20. *)
From ZT Require Import Base Digraph.

Fixpoint inserts (x : nat) (l : list nat) : list (list nat) :=
  match l with [] => [[x]] | y :: r => (x :: y :: r) :: map (cons y) (inserts x r) end.
Fixpoint perms (l : list nat) : list (list nat) :=
  match l with [] => [[]] | x :: r => flat_map (inserts x) (perms r) end.
Fixpoint sublists (l : list nat) : list (list nat) :=
  match l with [] => [[]] | x :: r => let s := sublists r in s ++ map (cons x) s end.
(* every duplicate-free list over l, in every order *)
Definition ordered_subsets (l : list nat) : list (list nat) := flat_map perms (sublists l).

(* all assignments of an adjacency list (from `choices`) to each node of `ns` *)
Fixpoint assignments (ns : list nat) (choices : list (list nat)) : list (list (nat * list nat)) :=
  match ns with
  | [] => [[]]
  | n :: r => flat_map (fun rest => map (fun c => (n, c) :: rest) choices) (assignments r choices)
  end.

(* all graphs on nodes 0..n-1: every root order, every ordered adjacency list per node *)
Definition all_graphs (n : nat) : list graph :=
  let ns := seq 0 n in
  flat_map (fun order => map (fun a => {| nodes := order; nbrs := a |}) (assignments ns (ordered_subsets ns)))
           (perms ns).

(* graphs on 0..n-1 with ascending adjacency lists only, root order given *)
Definition graphs_sorted_adj (n : nat) (order : list nat) : list graph :=
  let ns := seq 0 n in
  map (fun a => {| nodes := order; nbrs := a |}) (assignments ns (sublists ns)).
Definition rev_adj (g : graph) : graph :=
  {| nodes := nodes g; nbrs := map (fun '(k, l) => (k, rev l)) (nbrs g) |}.

Definition all_hold (gs : list graph) : bool :=
  forallb (fun g => c20_holds g false && c20_holds g true) gs.
