(* ObsC16.v — C16 at observation level: the predicate Obs.c16_ok holds of the model's observation of every run. *)
From ZT Require Import Base Layers LayersFacts Run RunFacts RunLedger RunOnce RunBracket RunBlocks RunInv RunStop
                       Chk_World Obs WorldHyps ObsC01 ModelCase ObsC02 ObsC03.

Section C.
Variable w0 : rworld.

Lemma bad_b_test_bad b : bad_b b = test_bad b.
Proof. unfold bad_b, test_bad. induction (proto b) as [|p ps IH]; simpl; [reflexivity|]. rewrite IH. destruct p as [| | |r k|]; try reflexivity. Qed.

(* the ghost scan of one test block from any state *)
Lemma test_scan_gen l t b gb gk :
  scan_all (flat_map (p_ev w0 l t) (proto b)) (gb, gk) = (gb || bad_b b, gk && negb gb).
Proof.
  unfold bad_b. destruct (proto_shape b) as [[_ E]|[_ [mid [E Hin]]]]; rewrite E.
  - simpl. rewrite app_nil_r, !scan_app.
    rewrite (scan_quiet (hooks_up w0 l)) by apply hooks_up_q.
    cbn [scan_all fold_left app]. rewrite (scan_quiet (hooks_down w0 l)) by apply hooks_down_q.
    unfold scan. cbn [fst snd ev_bad ev_begin rbad fold_left]. now rewrite !orb_false_r, !andb_false_r, !andb_true_r.
  - destruct (inner_nobegin w0 l t mid Hin) as [N1 N2].
    cbn [flat_map p_ev]. rewrite flat_map_app. cbn [flat_map p_ev]. rewrite app_nil_r.
    rewrite !scan_app. rewrite (scan_quiet (hooks_up w0 l)) by apply hooks_up_q.
    cbn [scan_all fold_left app]. 
    replace (scan (scan (gb, gk) (EStart t)) (EPhase t 0 0)) with (gb, gk && negb gb)
      by (unfold scan; cbn [fst snd ev_bad ev_begin]; now rewrite !orb_false_r, !andb_false_r, !andb_true_r).
    fold (scan_all (flat_map (p_ev w0 l t) mid) (gb, gk && negb gb)).
    rewrite (scan_nobegin _ _ N1). cbn [fst snd].
    rewrite (scan_quiet (hooks_down w0 l)) by apply hooks_down_q.
    unfold scan. cbn [fst snd ev_bad ev_begin]. rewrite N2.
    cbn [existsb p_bad orb]. rewrite existsb_app. cbn [existsb p_bad]. now rewrite !orb_false_r, !andb_false_r, !andb_true_r.
Qed.

(* the observer's scan of one test block *)
Variable mc : case.
Hypothesis Hmc : w mc = w0.

Lemma c16_quiet_block l t : forall ps st, sum_ph0 ps = 0 ->
  fold_left (c16_step mc) (observed w0 (flat_map (p_ev w0 l t) ps)) st = st.
Proof.
  assert (Hup : forall st, fold_left (c16_step mc) (observed w0 (hooks_up w0 l)) st = st).
  { intros st. unfold hooks_up, observed. induction (filter _ _) as [|x r IH]; simpl; [reflexivity|]. destruct st as [a k]. exact IH. }
  assert (Hdn : forall st, fold_left (c16_step mc) (observed w0 (hooks_down w0 l)) st = st).
  { intros st. unfold hooks_down, observed. induction (filter _ _) as [|x r IH]; simpl; [reflexivity|]. destruct st as [a k]. exact IH. }
  induction ps as [|p ps IH]; intros st H; [reflexivity|].
  unfold sum_ph0 in H. simpl in H. fold (sum_ph0 ps) in H.
  assert (H1 : ph0 p = 0) by lia. assert (H2 : sum_ph0 ps = 0) by lia.
  cbn [flat_map]. rewrite observed_app', fold_left_app, (IH _ H2).
  destruct p as [| |ph k|r k|]; cbn [p_ev].
  - rewrite observed_app', fold_left_app, Hup. destruct st; reflexivity.
  - rewrite observed_app', fold_left_app, Hup. destruct st; reflexivity.
  - destruct ph; [simpl in H1; discriminate|]. destruct st; reflexivity.
  - destruct st; reflexivity.
  - rewrite observed_app', fold_left_app, Hdn. destruct st; reflexivity.
Qed.

Lemma c16_block l t b ob ok' : nth_error (tests w0) t = Some b ->
  fold_left (c16_step mc) (observed w0 (flat_map (p_ev w0 l t) (proto b))) (ob, ok') =
  (ob || test_bad b, if t_deco b then ok' else ok' && negb ob).
Proof.
  intros Hn. pose proof (proto_ph0 b) as Hph. destruct (proto_shape b) as [[Hd E]|[Hd [mid [E Hin]]]]; rewrite Hd in *.
  - rewrite c16_quiet_block by exact Hph. unfold test_bad. rewrite E. simpl. now rewrite orb_false_r.
  - rewrite E in Hph. unfold sum_ph0 in Hph. simpl in Hph. fold (sum_ph0 (mid ++ [PStop])) in Hph.
    assert (Hrest : sum_ph0 (mid ++ [PStop]) = 0) by lia.
    rewrite E. change (PStart :: PPhase 0 0 :: mid ++ [PStop]) with ([PStart] ++ [PPhase 0 0] ++ (mid ++ [PStop])).
    rewrite !flat_map_app, !observed_app', !fold_left_app.
    rewrite (c16_quiet_block l t [PStart]) by reflexivity.
    rewrite sum_ph0_app in Hrest.
    rewrite (c16_quiet_block l t [PStop]) by reflexivity.
    rewrite (c16_quiet_block l t mid) by lia.
    cbn [flat_map p_ev app observed observe fold_left c16_step]. unfold bad_test, behaviour. rewrite Hmc, Hn.
    reflexivity.
Qed.

(* ghost scan and observer scan stay related along a trace of layer events and test blocks *)
Lemma c16_rel : forall tr, wbp w0 tr -> forall gb gk ok', (gk = true -> ok' = true) ->
  let g := scan_all tr (gb, gk) in let s := fold_left (c16_step mc) (observed w0 tr) (gb, ok') in
  fst s = fst g /\ (snd g = true -> snd s = true).
Proof.
  induction 1 as [|e r [He Hhook] Hr IH|l t b r Hn Hl Hr IH]; intros gb gk ok' Hk.
  - simpl. auto.
  - change (observed w0 (e :: r)) with (observe w0 e ++ observed w0 r). rewrite fold_left_app. cbn [scan_all fold_left].
    fold (scan_all r (scan (gb, gk) e)).
    destruct e as [l out|l out| | | | | | |l a b c d|l]; simpl in He; try discriminate.
    + assert (Hq : scan (gb, gk) (ESetUp l out) = (gb || match out with HOk => false | _ => true end, gk && negb gb)).
      { unfold scan. cbn [fst snd ev_bad ev_begin]. rewrite andb_true_r. destruct out; reflexivity. }
      rewrite Hq. cbn [observe]. destruct (l_setup (spec_of w0 l)) eqn:Esu.
      * destruct out; cbn [fold_left c16_step]; rewrite ?orb_false_r, ?orb_true_r; apply IH;
          intros H; apply andb_prop in H; destruct H as [H1 H2]; rewrite (Hk H1), H2; reflexivity.
      * rewrite (Hhook eq_refl). cbn [fold_left]. rewrite orb_false_r.
        apply IH. intros H. apply andb_prop in H. destruct H as [H1 _]. exact (Hk H1).
    + assert (Hq : scan (gb, gk) (ETearDown l out) = (gb, gk)) by (unfold scan; cbn [fst snd ev_bad ev_begin]; now rewrite orb_false_r, andb_false_r, andb_true_r).
      rewrite Hq. cbn [observe]. destruct (l_teardown (spec_of w0 l)); cbn [fold_left c16_step]; apply IH; exact Hk.
    + assert (Hq : scan (gb, gk) (ESummary l a b c d) = (gb, gk)) by (unfold scan; cbn [fst snd ev_bad ev_begin]; now rewrite orb_false_r, andb_false_r, andb_true_r).
      rewrite Hq. cbn [observe fold_left]. apply IH; exact Hk.
    + assert (Hq : scan (gb, gk) (ECannot l) = (gb, gk)) by (unfold scan; cbn [fst snd ev_bad ev_begin]; now rewrite orb_false_r, andb_false_r, andb_true_r).
      rewrite Hq. cbn [observe fold_left]. apply IH; exact Hk.
  - rewrite scan_app, observed_app', fold_left_app, test_scan_gen, (c16_block l t b gb ok' Hn), bad_b_test_bad.
    apply IH. intros H. apply andb_prop in H. destruct H as [H1 H2]. destruct (t_deco b); [exact (Hk H1) | rewrite (Hk H1), H2; reflexivity].
Qed.

Lemma c16_proc_model tr : wbp w0 tr ->
  fst (c16_proc mc (observed w0 tr)) = seen_bad tr /\ (stop_ok tr = true -> snd (c16_proc mc (observed w0 tr)) = true).
Proof. intros Hw. unfold c16_proc, seen_bad, stop_ok, scan0. apply (c16_rel tr Hw false true true). auto. Qed.
End C.

(* the fold over the processes of a sequential history *)
Definition proc_fold (c : case) (procs : list (list oev)) (st : bool * bool) : bool * bool :=
  fold_left (fun s evs => let '(b, k) := s in let '(b', k') := c16_proc c evs in
                          (b || b', k && k' && negb (b && match evs with [] => false | _ => true end))) procs st.

Lemma children_fold w0 mc : w mc = w0 -> forall cs,
  (forall c, In c cs -> wbp w0 (c_ev c)) ->
  (forall c, In c cs -> stop_ok (c_ev c) = true) ->
  (forall a c b, cs = a ++ c :: b -> seen_bad (c_ev c) = true -> b = []) ->
  proc_fold mc (map (fun c => observed w0 (c_ev c)) cs) (false, true) = (existsb (fun c => seen_bad (c_ev c)) cs, true).
Proof.
  intros Hmc. induction cs as [|c cs IH]; intros Hw Hs Hsplit; [reflexivity|].
  unfold proc_fold. cbn [map fold_left]. fold (proc_fold mc (map (fun c0 => observed w0 (c_ev c0)) cs)).
  destruct (c16_proc_model w0 mc Hmc (c_ev c) (Hw c (or_introl eq_refl))) as [P1 P2].
  specialize (P2 (Hs c (or_introl eq_refl))).
  destruct (c16_proc mc (observed w0 (c_ev c))) as [b' k'] eqn:Ep. simpl in P1, P2. subst b' k'. cbn [orb andb negb existsb].
  destruct (seen_bad (c_ev c)) eqn:Eb.
  - assert (cs = []) by (apply (Hsplit [] c cs eq_refl Eb)). subst cs. reflexivity.
  - apply IH; [intros c' Hc'; apply Hw; now right | intros c' Hc'; apply Hs; now right|].
    intros a c' b E. apply (Hsplit (c :: a) c' b). simpl. now rewrite E.
Qed.

Theorem c16_ok_model w0 o0 inj :
  wf (lw w0) -> (forall t, In t (tests w0) -> t_layer t < nlayers (lw w0)) ->
  c16_ok (model_case w0 o0 inj) = true.
Proof.
  intros Hwf Ht. unfold c16_ok. set (mc := model_case w0 o0 inj). change (o mc) with o0.
  destruct (o_x o0) eqn:Ex; [|reflexivity]. cbn [negb orb].
  destruct (run_wbp w0 o0) as [Wp Wc]. destruct (run_stop w0 o0 Ex) as [S1 [S2 [S3 S4]]].
  assert (Hmc : w mc = w0) by reflexivity.
  change (all_procs mc) with (observed w0 (r_parent (run w0 o0)) :: map snd (map (fun c => (c_layer c, observed w0 (c_ev c))) (r_children (run w0 o0)))).
  rewrite map_map. cbn [snd].
  fold (proc_fold mc (observed w0 (r_parent (run w0 o0)) :: map (fun c => observed w0 (c_ev c)) (r_children (run w0 o0))) (false, true)).
  unfold proc_fold. cbn [fold_left]. fold (proc_fold mc (map (fun c => observed w0 (c_ev c)) (r_children (run w0 o0)))).
  destruct (c16_proc_model w0 mc Hmc _ Wp) as [P1 P2]. specialize (P2 S1).
  destruct (c16_proc mc (observed w0 (r_parent (run w0 o0)))) as [b' k'] eqn:Ep. simpl in P1, P2. subst b' k'. cbn [orb andb negb].
  assert (Hfold : proc_fold mc (map (fun c => observed w0 (c_ev c)) (r_children (run w0 o0))) (seen_bad (r_parent (run w0 o0)), true) =
                  (seen_bad (r_parent (run w0 o0)) || existsb (fun c => seen_bad (c_ev c)) (r_children (run w0 o0)), true)).
  { destruct (seen_bad (r_parent (run w0 o0))) eqn:Eb.
    - rewrite (S3 eq_refl). reflexivity.
    - apply (children_fold w0 mc Hmc); assumption. }
  unfold proc_fold in Hfold. rewrite Hfold.
  pose proof (c04_ok_model w0 o0 inj Hwf Ht) as H4. unfold c04_ok in H4. fold mc in H4.
  apply andb_prop in H4. destruct H4 as [H4 Hsum]. apply andb_prop in H4. destruct H4 as [_ Hc01].
  apply andb_true_intro. split; [apply andb_true_intro; split; [apply andb_true_intro; split; [apply andb_true_intro; split; [reflexivity|]|]|reflexivity]|].
  - (* the verdict *)
    destruct (seen_bad (r_parent (run w0 o0)) || existsb (fun c => seen_bad (c_ev c)) (r_children (run w0 o0))) eqn:Eb; [|reflexivity].
    cbn [negb orb]. change (i_failed mc) with (r_failed (run w0 o0)). apply (bad_outcome_fails w0 o0 Hwf Ht).
    apply orb_prop in Eb. destruct Eb as [Eb|Eb]; [now left | right].
    apply existsb_exists in Eb. destruct Eb as [c [Hc Hb]]. exists c. auto.
  - (* torn down *)
    change (observed w0 (r_parent (run w0 o0)) :: map (fun c => observed w0 (c_ev c)) (r_children (run w0 o0))) with
           (observed w0 (r_parent (run w0 o0)) :: map (fun c => snd (c_layer c, observed w0 (c_ev c))) (r_children (run w0 o0))).
    rewrite <- map_map. exact Hc01.
  - (* a summary was printed *)
    destruct (i_summaries mc) eqn:Es; [|reflexivity]. apply Nat.leb_le in Hsum. cbn [length] in Hsum.
    apply negb_true_iff. apply Bool.not_true_iff_false. intros Hex. apply existsb_exists in Hex. destruct Hex as [evs [Hin Hst]].
    assert (Hin' : In evs (all_procs mc)) by (unfold all_procs, mc, model_case; cbn [i_parent i_children]; rewrite map_map; exact Hin).
    assert (Hf : In evs (filter (fun evs => match started evs with [] => false | _ => true end) (all_procs mc))) by (apply filter_In; split; assumption).
    destruct (filter _ (all_procs mc)); [destruct Hf | simpl in Hsum; lia].
Qed.

Theorem c16_check_sound c : agree c = true -> wf_case c = true -> Nat.ltb 1 (o_procs (o c)) = false -> c16_ok c = true.
Proof.
  intros Ha Hw Hp. destruct (wf_case_hyps c Hw) as [Hwf Ht]. rewrite (agree_is_model c Ha Hp). apply c16_ok_model; assumption.
Qed.
