(* P_C03.v — property theorems for C03 only. *)
From ZT Require Import Base Layers Run RunFacts.

(* every discovered test is on the run list of exactly its own layer, once *)
Theorem C03_test_in_own_layer : forall w l t b,
  In (t, b) (tests_of w l) <-> nth_error (tests w) t = Some b /\ t_layer b = l.
Proof. exact tests_of_spec. Qed.
Print Assumptions C03_test_in_own_layer.
Theorem C03_once_per_layer_run : forall w l, NoDup (map fst (tests_of w l)).
Proof. exact tests_of_once. Qed.
Print Assumptions C03_once_per_layer_run.

(* absent a stop condition the layer's loop executes every test on its list, each once, in list order *)
Theorem C03_all_run : forall w o l ts s,
  rs_stop s = false -> (o_x o = false \/ forallb (fun it => negb (bad_b (snd it))) ts = true) ->
  run_seq w o l ts s = run_all w o l ts s.
Proof. exact run_seq_all. Qed.
Print Assumptions C03_all_run.
Theorem C03_each_started_once : forall w o l ts s,
  rs_run (run_all w o l ts s) = rs_run s + fold_right (fun it a => run_count it + a) 0 ts.
Proof. intros w o l ts s. exact (proj1 (run_all_counts w o l ts s)). Qed.
Print Assumptions C03_each_started_once.

(* ------------------------------------------------------------------------------------------------------------
   The whole run, for EVERY world, test outcomes, tearDown behaviour (errors, NotImplementedError so that later
   layers are resumed in subprocesses), set-up failures of OTHER layers, --repeat count and -j N: absent the stop
   condition -x, a selected test whose own layer stack can be set up (`good`) is started exactly `reps` times
   counted over ALL processes of the run (the parent and every layer subprocess), and nothing that is not a
   selected test is ever started.  Together with C01's whole-run theorem (every start happens with exactly the
   test's layer stack set up) this is "once per iteration, in exactly one process, under its own layer, and no
   other test". *)
From ZT Require Import LayersFacts RunLedger RunOnce.

Theorem C03_whole_run_once_per_iteration : forall w o,
  wf (lw w) -> o_x o = false -> (forall b, In b (tests w) -> t_layer b < nlayers (lw w)) ->
  forall t b, nth_error (tests w) t = Some b -> good w (t_layer b) ->
  starts_of t (run w o) = reps o.
Proof. exact each_test_started_once_per_iteration. Qed.
Print Assumptions C03_whole_run_once_per_iteration.

Theorem C03_whole_run_no_other_test : forall w o,
  wf (lw w) -> o_x o = false -> (forall b, In b (tests w) -> t_layer b < nlayers (lw w)) ->
  forall t, length (tests w) <= t -> starts_of t (run w o) = 0.
Proof. exact no_other_test_started. Qed.
Print Assumptions C03_whole_run_no_other_test.

(* unconditionally — with -x, failing set-ups, un-tearable layers, any -j N — no test is started more often than
   --repeat asks, counted over all processes, and nothing that is not a selected test is ever started *)
From ZT Require Import RunAtMost.
Theorem C03_whole_run_at_most : forall w o t,
  starts_of t (run w o) <= if Nat.ltb t (length (tests w)) then reps o else 0.
Proof. exact starts_at_most. Qed.
Print Assumptions C03_whole_run_at_most.

(* --list-tests shows, for every layer in run order, the layer's tests in suite order (`listing`); without -x, in EVERY process of a
   run the sequence of test starts is that listing restricted to the layers the process actually ran (a sub-list, same order), each
   layer's list repeated once per --repeat iteration: a run executes the tests in precisely the listed order *)
From ZT Require Import RunListing.
Theorem C03_whole_run_follows_listing : forall w o, o_x o = false ->
  (exists ran_here, sublist ran_here (ordered_layers w) /\ start_ids (r_parent (run w o)) = play w o ran_here) /\
  (forall c, In c (r_children (run w o)) ->
     start_ids (c_ev c) = [] \/ exists l, In l (ordered_layers w) /\ start_ids (c_ev c) = times (reps o) (listed w l)).
Proof. exact run_follows_listing. Qed.
Print Assumptions C03_whole_run_follows_listing.

(* observation level: the predicate Obs.c03_ok evaluated on the implementation's observation holds of the model's
   observation of every run; a sequential case without correspondence difference therefore satisfies it *)
From ZT Require Import Chk_World Obs ModelCase ObsC03.
Theorem C03_predicate_holds_of_model : forall w o inj,
  wf (lw w) -> (forall t, In t (tests w) -> t_layer t < nlayers (lw w)) -> c03_ok (model_case w o inj) = true.
Proof. exact c03_ok_model. Qed.
Print Assumptions C03_predicate_holds_of_model.
Theorem C03_check_sound : forall c, agree c = true -> wf_case c = true -> Nat.ltb 1 (o_procs (Chk_World.o c)) = false -> c03_ok c = true.
Proof. exact c03_check_sound. Qed.
Print Assumptions C03_check_sound.
