(* P_C03.v — property theorems for C03 only. *)
From ZT Require Import Base Layers Run RunFacts.

(* every discovered test is on the run list of exactly its own layer, once *)
Theorem C03_test_in_own_layer : forall w l t b,
  In (t, b) (tests_of w l) <-> nth_error (tests w) t = Some b /\ t_layer b = l.
Proof. exact tests_of_spec. Qed.
Print Assumptions C03_test_in_own_layer.
Theorem C03_once_per_layer_run : forall w l, NoDup (map fst (tests_of w l)).
Proof. exact tests_of_once. Qed.
Print Assumptions C03_once_per_layer_run.

(* absent a stop condition the layer's loop executes every test on its list, each once, in list order *)
Theorem C03_all_run : forall w o l ts s,
  rs_stop s = false -> (o_x o = false \/ forallb (fun it => negb (bad_b (snd it))) ts = true) ->
  run_seq w o l ts s = run_all w o l ts s.
Proof. exact run_seq_all. Qed.
Print Assumptions C03_all_run.
Theorem C03_each_started_once : forall w o l ts s,
  rs_run (run_all w o l ts s) = rs_run s + length ts.
Proof. intros w o l ts s. exact (proj1 (run_all_counts w o l ts s)). Qed.
Print Assumptions C03_each_started_once.
