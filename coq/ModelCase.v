(* ModelCase.v — the observation the MODEL makes of its own run, as a `case`; and: a sequential case on which the
   correspondence check finds no difference IS that observation (up to the harness's injection flag), so every
   predicate proved of the model's observation holds of the implementation's. *)
From ZT Require Import Base Layers Run Chk_World ObsC01.

(* what the harness adds to an observation without the model having a say: the injection flag and the printed listings *)
Record extras := { hx_inj : bool; hx_lf : option (list name); hx_le : option (list name) }.
Definition extras_of (c : case) : extras := {| hx_inj := i_injected c; hx_lf := i_lfail c; hx_le := i_lerr c |}.

Definition model_case (w0 : rworld) (o0 : ropts) (inj : extras) : case :=
  let r := run w0 o0 in
  {| w := w0; o := o0;
     i_parent := observed w0 (r_parent r);
     i_children := map (fun c => (c_layer c, observed w0 (c_ev c))) (r_children r);
     i_ran := r_ran r; i_fail := r_fail r; i_err := r_err r; i_skip := r_skip r;
     i_failed := r_failed r; i_aborted := false;
     i_summaries := summaries (r_parent r) ++ flat_map (fun ch => summaries (c_ev ch)) (r_children r);
     i_total := if Nat.eqb (r_layers_run r) 1 then None
                else Some (r_ran r, length (r_fail r), length (r_err r) + o_import_errors o0, r_skip r);
     i_injected := hx_inj inj; i_lfail := hx_lf inj; i_lerr := hx_le inj |}.

Lemma name_eqb_eq a b : name_eqb a b = true -> a = b.
Proof.
  destruct a, b; simpl; try discriminate; intros H;
    repeat (apply andb_prop in H; destruct H as [H ?]);
    repeat match goal with [ E : Nat.eqb _ _ = true |- _ ] => apply Nat.eqb_eq in E; subst end; reflexivity.
Qed.
Lemma q_eqb_eq a b : q_eqb a b = true -> a = b.
Proof.
  destruct a as [[[a1 a2] a3] a4], b as [[[b1 b2] b3] b4]. simpl. intros H.
  repeat (apply andb_prop in H; destruct H as [H ?]).
  repeat match goal with [ E : Nat.eqb _ _ = true |- _ ] => apply Nat.eqb_eq in E; subst end. reflexivity.
Qed.
Lemma opt_eqb_eq {A} (eqb : A -> A -> bool) : (forall a b, eqb a b = true -> a = b) ->
  forall x y, opt_eqb eqb x y = true -> x = y.
Proof. intros He [a|] [b|]; simpl; try discriminate; [intros H; f_equal; apply He; exact H | reflexivity]. Qed.

Theorem agree_is_model c : agree c = true -> Nat.ltb 1 (o_procs (o c)) = false ->
  c = model_case (w c) (o c) (extras_of c).
Proof.
  intros Ha Hp. unfold agree in Ha. rewrite Hp in Ha.
  repeat (apply andb_prop in Ha; destruct Ha as [Ha ?]).
  repeat match goal with
  | [ E : _ && _ = true |- _ ] => apply andb_prop in E; destruct E
  | [ E : list_eqb oev_eqb _ _ = true |- _ ] => apply (list_eqb_eq oev_eqb oev_eqb_eq) in E
  | [ E : list_eqb name_eqb _ _ = true |- _ ] => apply (list_eqb_eq name_eqb name_eqb_eq) in E
  | [ E : list_eqb q_eqb _ _ = true |- _ ] => apply (list_eqb_eq q_eqb q_eqb_eq) in E
  | [ E : opt_eqb q_eqb _ _ = true |- _ ] => apply (opt_eqb_eq q_eqb q_eqb_eq) in E
  | [ E : children_agree false _ _ _ = true |- _ ] => unfold children_agree in E; apply children_rel_eq in E
  | [ E : Nat.eqb _ _ = true |- _ ] => apply Nat.eqb_eq in E
  | [ E : Bool.eqb _ _ = true |- _ ] => apply Bool.eqb_prop in E
  | [ E : negb _ = true |- _ ] => apply Bool.negb_true_iff in E
  end.
  unfold model in *. destruct c as [w0 o0 ip ic ir ifl ie isk ifd iab isu ito iin ilf ile]. unfold model_case, extras_of. cbn [w o i_parent i_children i_ran i_fail i_err i_skip i_failed i_aborted i_summaries i_total i_injected i_lfail i_lerr hx_inj hx_lf hx_le] in *.
  subst. reflexivity.
Qed.
