(* TarjanBase.v — association-list and pop lemmas for the iterative Tarjan machine of Digraph.v. *)
From ZT Require Import Base LayersFacts Digraph.

Definition smap := list (nat * nstate).
Definition vis (m : smap) (x : nat) : bool := match alookup x m with Some _ => true | None => false end.
Definition dfs (m : smap) (x : nat) : nat := match alookup x m with Some n => st_dfs n | None => 0 end.
Definition low (m : smap) (x : nat) : nat := match alookup x m with Some n => st_low n | None => 0 end.
Definition stkd (m : smap) (x : nat) : bool := match alookup x m with Some n => st_stacked n | None => false end.

Lemma alookup_aupdate_eq {A} n (v : A) m : alookup n (aupdate n v m) = Some v.
Proof.
  induction m as [|[k w] r IH]; simpl; [now rewrite Nat.eqb_refl|].
  destruct (Nat.eqb k n) eqn:E; simpl; rewrite ?E; [reflexivity | exact IH].
Qed.
Lemma alookup_aupdate_neq {A} n x (v : A) m : x <> n -> alookup x (aupdate n v m) = alookup x m.
Proof.
  intros Hne. induction m as [|[k w] r IH]; simpl.
  - destruct (Nat.eqb n x) eqn:E; [apply Nat.eqb_eq in E; congruence | reflexivity].
  - destruct (Nat.eqb k n) eqn:E; simpl.
    + apply Nat.eqb_eq in E. subst k. destruct (Nat.eqb n x) eqn:E2; [apply Nat.eqb_eq in E2; congruence | reflexivity].
    + destruct (Nat.eqb k x); [reflexivity | exact IH].
Qed.

Lemma stkd_vis m x : stkd m x = true -> vis m x = true.
Proof. unfold stkd, vis. destruct (alookup x m); [reflexivity | discriminate]. Qed.

(* set_low *)
Lemma set_low_vis n l m x : vis (set_low n l m) x = vis m x.
Proof.
  unfold set_low, vis. destruct (alookup n m) as [s|] eqn:E; [|reflexivity].
  destruct (Nat.eq_dec x n) as [->|Hne]; [now rewrite alookup_aupdate_eq, E | now rewrite alookup_aupdate_neq].
Qed.
Lemma set_low_dfs n l m x : dfs (set_low n l m) x = dfs m x.
Proof.
  unfold set_low, dfs. destruct (alookup n m) as [s|] eqn:E; [|reflexivity].
  destruct (Nat.eq_dec x n) as [->|Hne]; [now rewrite alookup_aupdate_eq, E | now rewrite alookup_aupdate_neq].
Qed.
Lemma set_low_stkd n l m x : stkd (set_low n l m) x = stkd m x.
Proof.
  unfold set_low, stkd. destruct (alookup n m) as [s|] eqn:E; [|reflexivity].
  destruct (Nat.eq_dec x n) as [->|Hne]; [now rewrite alookup_aupdate_eq, E | now rewrite alookup_aupdate_neq].
Qed.
Lemma set_low_low_eq n l m : vis m n = true -> low (set_low n l m) n = l.
Proof. unfold set_low, vis, low. destruct (alookup n m) as [s|] eqn:E; [|discriminate]. intros _. now rewrite alookup_aupdate_eq. Qed.
Lemma set_low_low_neq n l m x : x <> n -> low (set_low n l m) x = low m x.
Proof. intros H. unfold set_low, low. destruct (alookup n m) as [s|] eqn:E; [|reflexivity]. now rewrite alookup_aupdate_neq. Qed.

(* set_unstacked *)
Lemma set_unstacked_vis n m x : vis (set_unstacked n m) x = vis m x.
Proof.
  unfold set_unstacked, vis. destruct (alookup n m) as [s|] eqn:E; [|reflexivity].
  destruct (Nat.eq_dec x n) as [->|Hne]; [now rewrite alookup_aupdate_eq, E | now rewrite alookup_aupdate_neq].
Qed.
Lemma set_unstacked_dfs n m x : dfs (set_unstacked n m) x = dfs m x.
Proof.
  unfold set_unstacked, dfs. destruct (alookup n m) as [s|] eqn:E; [|reflexivity].
  destruct (Nat.eq_dec x n) as [->|Hne]; [now rewrite alookup_aupdate_eq, E | now rewrite alookup_aupdate_neq].
Qed.
Lemma set_unstacked_low n m x : low (set_unstacked n m) x = low m x.
Proof.
  unfold set_unstacked, low. destruct (alookup n m) as [s|] eqn:E; [|reflexivity].
  destruct (Nat.eq_dec x n) as [->|Hne]; [now rewrite alookup_aupdate_eq, E | now rewrite alookup_aupdate_neq].
Qed.
Lemma set_unstacked_stkd n m x : stkd (set_unstacked n m) x = if Nat.eqb x n then false else stkd m x.
Proof.
  unfold set_unstacked, stkd. destruct (Nat.eqb x n) eqn:Ex.
  - apply Nat.eqb_eq in Ex. subst x. destruct (alookup n m) as [s|] eqn:E; [now rewrite alookup_aupdate_eq | now rewrite E].
  - apply Nat.eqb_neq in Ex. destruct (alookup n m) as [s|] eqn:E; [now rewrite alookup_aupdate_neq | reflexivity].
Qed.

(* pop_scc pops the segment above `node` and `node` itself *)
Lemma pop_scc_spec node : forall seg rest m acc, ~ In node seg ->
  exists m', pop_scc node (seg ++ node :: rest) m acc = Some (acc ++ seg ++ [node], rest, m') /\
    (forall x, vis m' x = vis m x) /\ (forall x, dfs m' x = dfs m x) /\ (forall x, low m' x = low m x) /\
    (forall x, stkd m' x = if mem x (seg ++ [node]) then false else stkd m x).
Proof.
  induction seg as [|y seg IH]; intros rest m acc Hn; simpl.
  - rewrite Nat.eqb_refl. exists (set_unstacked node m). split; [reflexivity|].
    repeat split; intros x; [apply set_unstacked_vis | apply set_unstacked_dfs | apply set_unstacked_low|].
    rewrite set_unstacked_stkd. rewrite orb_false_r. reflexivity.
  - destruct (Nat.eqb y node) eqn:E; [apply Nat.eqb_eq in E; subst y; exfalso; apply Hn; now left|].
    destruct (IH rest (set_unstacked y m) (acc ++ [y])) as [m' [H1 [H2 [H3 [H4 H5]]]]]; [intros H; apply Hn; now right|].
    exists m'. split; [rewrite H1, <- !app_assoc; reflexivity|].
    repeat split; intros x; rewrite ?H2, ?H3, ?H4, ?H5, ?set_unstacked_vis, ?set_unstacked_dfs, ?set_unstacked_low; try reflexivity.
    rewrite set_unstacked_stkd. destruct (Nat.eqb x y); simpl; [|reflexivity].
    destruct (mem x (seg ++ [node])); reflexivity.
Qed.

(* new node *)
Lemma new_vis n v m x : vis (aupdate n v m) x = if Nat.eqb x n then true else vis m x.
Proof.
  unfold vis. destruct (Nat.eqb x n) eqn:E.
  - apply Nat.eqb_eq in E. subst x. now rewrite alookup_aupdate_eq.
  - apply Nat.eqb_neq in E. now rewrite alookup_aupdate_neq.
Qed.
Lemma new_dfs n v m x : dfs (aupdate n v m) x = if Nat.eqb x n then st_dfs v else dfs m x.
Proof.
  unfold dfs. destruct (Nat.eqb x n) eqn:E.
  - apply Nat.eqb_eq in E. subst x. now rewrite alookup_aupdate_eq.
  - apply Nat.eqb_neq in E. now rewrite alookup_aupdate_neq.
Qed.
Lemma new_low n v m x : low (aupdate n v m) x = if Nat.eqb x n then st_low v else low m x.
Proof.
  unfold low. destruct (Nat.eqb x n) eqn:E.
  - apply Nat.eqb_eq in E. subst x. now rewrite alookup_aupdate_eq.
  - apply Nat.eqb_neq in E. now rewrite alookup_aupdate_neq.
Qed.
Lemma new_stkd n v m x : stkd (aupdate n v m) x = if Nat.eqb x n then st_stacked v else stkd m x.
Proof.
  unfold stkd. destruct (Nat.eqb x n) eqn:E.
  - apply Nat.eqb_eq in E. subst x. now rewrite alookup_aupdate_eq.
  - apply Nat.eqb_neq in E. now rewrite alookup_aupdate_neq.
Qed.

(* remove1 on duplicate-free lists *)
Lemma remove1_in n l x : NoDup l -> (In x (remove1 n l) <-> In x l /\ x <> n).
Proof.
  induction l as [|y l IH]; simpl; intros H; [tauto|].
  inversion H as [|? ? Hn Hr]; subst. destruct (Nat.eqb y n) eqn:E.
  - apply Nat.eqb_eq in E. subst y. split; [intros Hx; split; [now right | intros ->; contradiction]|].
    intros [[->|Hx] Hne]; [congruence | exact Hx].
  - apply Nat.eqb_neq in E. simpl. rewrite (IH Hr). split.
    + intros [->|[Hx Hne]]; [split; [now left | exact E] | split; [now right | exact Hne]].
    + intros [[->|Hx] Hne]; [now left | right; split; assumption].
Qed.
Lemma remove1_nodup n l : NoDup l -> NoDup (remove1 n l).
Proof.
  induction l as [|y l IH]; simpl; intros H; [constructor|].
  inversion H as [|? ? Hn Hr]; subst. destruct (Nat.eqb y n); [exact Hr|].
  constructor; [|apply IH; exact Hr]. intros Hx. apply remove1_in in Hx; [|exact Hr]. tauto.
Qed.
Lemma remove1_length n l : In n l -> S (length (remove1 n l)) = length l.
Proof.
  induction l as [|y l IH]; simpl; intros H; [destruct H|].
  destruct (Nat.eqb y n) eqn:E; [reflexivity|]. apply Nat.eqb_neq in E. destruct H as [->|H]; [congruence|].
  simpl. now rewrite IH.
Qed.

Lemma NoDup_app_inv {A} (a b : list A) : NoDup (a ++ b) -> NoDup a /\ NoDup b /\ forall x, In x a -> ~ In x b.
Proof.
  induction a as [|y a IH]; simpl; intros H; [split; [constructor | split; [exact H | intros x []]]|].
  inversion H as [|? ? Hn Hr]; subst. destruct (IH Hr) as [I1 [I2 I3]]. split; [|split; [exact I2|]].
  - constructor; [intros Hy; apply Hn; apply in_or_app; now left | exact I1].
  - intros x [<-|Hx] Hb; [apply Hn; apply in_or_app; now right | eapply I3; eauto].
Qed.
