(* P_C12.v — property theorems for C12 only. *)
From ZT Require Import Base Layers Run RunFacts.

(* After running a list of tests the result object holds: for each test started its countTestCases() (1 for an
   ordinary test), exactly the names of the failing / erroring (sub)tests and unexpected successes in order, and
   one skip per skip event. *)
Theorem C12_result_counts : forall w o l ts s,
  let s' := run_all w o l ts s in
  rs_run s' = rs_run s + fold_right (fun it a => run_count it + a) 0 ts /\
  rs_fail s' = rs_fail s ++ flat_map fail_names ts /\
  rs_err s' = rs_err s ++ flat_map err_names ts /\
  rs_us s' = rs_us s ++ flat_map us_names ts /\
  rs_skip s' = rs_skip s + fold_right (fun it a => skip_count it + a) 0 ts.
Proof. exact run_all_counts. Qed.
Print Assumptions C12_result_counts.

(* every protocol event has exactly its own effect on the counters, lists, stop flag and event log *)
Theorem C12_event_effects : forall w o l t ps s,
  let s' := fold_left (apply_pev w o l t) ps s in
  rs_run s' = rs_run s + fold_right (fun p a => p_run p + a) 0 ps /\
  rs_fail s' = rs_fail s ++ flat_map (p_fail t) ps /\ rs_err s' = rs_err s ++ flat_map (p_err t) ps /\
  rs_skip s' = rs_skip s + fold_right (fun p a => p_skip p + a) 0 ps /\
  rs_us s' = rs_us s ++ flat_map (p_us t) ps /\
  rs_stop s' = rs_stop s || (o_x o && existsb p_bad ps) /\
  rs_ev s' = rs_ev s ++ flat_map (p_ev w l t) ps.
Proof. exact fold_effect. Qed.
Print Assumptions C12_event_effects.

(* without a stop condition every test of the layer is executed, so the summary counts all of them *)
Theorem C12_all_tests_counted : forall w o l ts s,
  rs_stop s = false -> (o_x o = false \/ forallb (fun it => negb (bad_b (snd it))) ts = true) ->
  run_seq w o l ts s = run_all w o l ts s.
Proof. exact run_seq_all. Qed.
Print Assumptions C12_all_tests_counted.

(* ------------------------------------------------------------------------------------------------------------
   The whole run: the reported failure and error lists are an exact ledger of the failure / error events of all
   processes, and the reported skip count is the ledger of the skip events of the parent process.  (Skips that
   happen inside a layer subprocess are not transmitted by the 3-integer report protocol: that is the open
   finding C12-child-skips, which the statement makes visible by summing over r_parent only.) *)
From ZT Require Import LayersFacts RunLedger.

Theorem C12_whole_run_ledger : forall w o,
  wf (lw w) -> (forall t, In t (tests w) -> t_layer t < nlayers (lw w)) ->
  let r := run w o in
  length (r_fail r) = total nfail_ev (r_parent r) + sum_children nfail_ev (r_children r) /\
  length (r_err r) = total nerr_ev (r_parent r) + sum_children nerr_ev (r_children r) /\
  r_skip r = total nskip_ev (r_parent r).
Proof. exact run_ledger. Qed.
Print Assumptions C12_whole_run_ledger.

(* the "tests run" total: without --repeat it is the sum of countTestCases() over the test starts of all processes *)
From ZT Require Import RunRan.
Theorem C12_whole_run_tests_run : forall w o, reps o = 1 ->
  r_ran (run w o) = total (nrun_ev w) (r_parent (run w o)) + sum_children (nrun_ev w) (r_children (run w o)).
Proof. exact run_ran. Qed.
Print Assumptions C12_whole_run_tests_run.

(* names-level ledger: the reported failure list is a permutation of the names carried by the failure events of
   all processes, and the reported error list — apart from the "layer set-up failed" entries, which name the
   layer being run — is a permutation of the names carried by the error events of all processes *)
From Coq Require Import Permutation.
From ZT Require Import RunNames.
Theorem C12_whole_run_names : forall w o,
  let r := run w o in
  Permutation (r_fail r) (all_fnames r) /\ Permutation (filter nonsetup (r_err r)) (all_enames r).
Proof. exact run_names. Qed.
Print Assumptions C12_whole_run_names.
