(* RunLedger.v — the lists and counters a run reports are an exact ledger of its (ghost) events: basis of the
   whole-run statements of C02 (verdict) and C12 (counts). *)
From ZT Require Import Base Layers LayersFacts Run RunFacts.

Definition nfail_ev (e : ev) : nat :=
  match e with EResult _ RFail _ | EResult _ RSubFail _ | EResult _ RUS _ => 1 | _ => 0 end.
Definition nerr_ev (e : ev) : nat :=
  match e with
  | EResult _ RErr _ | EResult _ RSubErr _ => 1
  | ESetUp _ HRaise | ESetUp _ HNotImpl => 1        (* any exception out of a layer's setUp *)
  | ETearDown _ HRaise => 1                          (* NotImplementedError from tearDown is not an error *)
  | _ => 0 end.
Definition nskip_ev (e : ev) : nat :=
  match e with EResult _ RSkip _ | EResult _ RSubSkip _ => 1 | _ => 0 end.
Definition nstart_ev (e : ev) : nat := match e with EStart _ => 1 | _ => 0 end.

Definition total (f : ev -> nat) (l : list ev) : nat := fold_right (fun e a => f e + a) 0 l.
Lemma total_app f a b : total f (a ++ b) = total f a + total f b.
Proof. induction a as [|x a IH]; simpl; [reflexivity|]. rewrite IH. lia. Qed.

Section L.
Variable w : rworld.
Variable o : ropts.

(* ---------------- the result object ---------------- *)
Lemma hooks_up_quiet f l : (forall x, f (ETSetUp x) = 0) -> total f (hooks_up w l) = 0.
Proof. intros H. unfold hooks_up. induction (filter _ _) as [|x r IH]; simpl; [reflexivity|]. rewrite H, IH. reflexivity. Qed.
Lemma hooks_down_quiet f l : (forall x, f (ETTearDown x) = 0) -> total f (hooks_down w l) = 0.
Proof. intros H. unfold hooks_down. induction (filter _ _) as [|x r IH]; simpl; [reflexivity|]. rewrite H, IH. reflexivity. Qed.

Lemma p_ev_counts l t p :
  total nfail_ev (p_ev w l t p) = length (p_fail t p) + length (p_us t p) /\
  total nerr_ev (p_ev w l t p) = length (p_err t p) /\
  total nskip_ev (p_ev w l t p) = p_skip p /\
  total nstart_ev (p_ev w l t p) = p_run p.
Proof.
  destruct p as [| |ph k|r k|]; simpl; rewrite ?total_app, ?hooks_up_quiet, ?hooks_down_quiet by reflexivity; simpl; auto.
  destruct r; simpl; auto.
Qed.

(* what a start event adds to testsRun: the countTestCases() of the started test *)
Definition count_of (t : nat) : nat := match nth_error (tests w) t with Some b => 1 + (t_count b - 1) | None => 1 end.
Definition nrun_ev (e : ev) : nat := match e with EStart t => count_of t | _ => 0 end.

Definition rs_ledger (s : rstate) : Prop :=
  total nfail_ev (rs_ev s) = length (rs_fail s) + length (rs_us s) /\
  total nerr_ev (rs_ev s) = length (rs_err s) /\
  total nskip_ev (rs_ev s) = rs_skip s /\
  total nrun_ev (rs_ev s) = rs_run s.

Lemma flat_counts l t ps :
  total nfail_ev (flat_map (p_ev w l t) ps) = length (flat_map (p_fail t) ps) + length (flat_map (p_us t) ps) /\
  total nerr_ev (flat_map (p_ev w l t) ps) = length (flat_map (p_err t) ps) /\
  total nskip_ev (flat_map (p_ev w l t) ps) = fold_right (fun p a => p_skip p + a) 0 ps /\
  total nstart_ev (flat_map (p_ev w l t) ps) = fold_right (fun p a => p_run p + a) 0 ps.
Proof.
  induction ps as [|p ps IH]; simpl; [auto|].
  destruct (p_ev_counts l t p) as [A1 [A2 [A3 A4]]]. destruct IH as [B1 [B2 [B3 B4]]].
  rewrite !total_app, !app_length, A1, A2, A3, A4, B1, B2, B3, B4. repeat split; lia.
Qed.

Lemma flat_run l t ps : total nrun_ev (flat_map (p_ev w l t) ps) = count_of t * fold_right (fun p a => p_run p + a) 0 ps.
Proof.
  induction ps as [|p ps IH]; simpl; [lia|]. rewrite total_app, IH.
  assert (H : total nrun_ev (p_ev w l t p) = count_of t * p_run p).
  { destruct p as [| |ph k|r k|]; simpl; rewrite ?total_app, ?hooks_up_quiet, ?hooks_down_quiet by reflexivity; simpl; lia. }
  rewrite H. lia.
Qed.

Lemma run_test_ledger l t b s : nth_error (tests w) t = Some b -> rs_ledger s -> rs_ledger (run_test w o l t b s).
Proof.
  intros Hn [H1 [H2 [H3 H4]]]. unfold rs_ledger.
  destruct (run_test_effect w o l t b s) as [E1 [E2 [E3 [E4 [E5 [_ E7]]]]]].
  destruct (flat_counts l t (proto b)) as [C1 [C2 [C3 _]]].
  rewrite E1, E2, E3, E4, E5, E7, !total_app, !app_length, C1, C2, C3, flat_run, proto_runs_once, H1, H2, H3, H4.
  unfold count_of. rewrite Hn. repeat split; lia.
Qed.

Lemma run_seq_ledger l : forall ts s, (forall t b, In (t, b) ts -> nth_error (tests w) t = Some b) ->
  rs_ledger s -> rs_ledger (run_seq w o l ts s).
Proof.
  induction ts as [|[t b] ts IH]; intros s Hts H; simpl; [exact H|]. destruct (rs_stop s); [exact H|].
  apply IH; [intros t' b' Hin; apply Hts; now right|]. apply run_test_ledger; [apply Hts; now left | exact H].
Qed.

Lemma rs_init_ledger : rs_ledger rs_init. Proof. repeat split. Qed.

(* ---------------- a process ---------------- *)
Definition ps_ledger (p : pstate) : Prop :=
  total nfail_ev (ps_ev p) = length (ps_fail p) /\
  total nerr_ev (ps_ev p) = length (ps_err p) /\
  total nskip_ev (ps_ev p) = ps_skip p.

Hypothesis Hwf : wf (lw w).

(* setup_layer records nothing itself: it emits exactly one failing set-up event iff it lets an exception out *)
Lemma setup_layer_ledger : forall fuel l p, l < fuel ->
  let r := setup_layer w fuel l p in
  ps_fail (fst r) = ps_fail p /\ ps_err (fst r) = ps_err p /\ ps_skip (fst r) = ps_skip p /\
  exists ext, ps_ev (fst r) = ps_ev p ++ ext /\ total nfail_ev ext = 0 /\ total nskip_ev ext = 0 /\
              total nerr_ev ext = (if snd r then 1 else 0).
Proof.
  induction fuel as [|f IH]; intros l p Hl; [lia|]. cbn [setup_layer].
  destruct (mem l (ps_setup p)).
  - simpl. repeat split; auto. exists []. rewrite app_nil_r. auto.
  - assert (Hfold : forall bs q x0, (forall b, In b bs -> b < f) ->
              let r := fold_left (fun (acc : pstate * bool) b => let '(q0, x) := acc in if x then (q0, x) else setup_layer w f b q0) bs (q, x0) in
              ps_fail (fst r) = ps_fail q /\ ps_err (fst r) = ps_err q /\ ps_skip (fst r) = ps_skip q /\
              exists ext, ps_ev (fst r) = ps_ev q ++ ext /\ total nfail_ev ext = 0 /\ total nskip_ev ext = 0 /\
                 (x0 = true -> ext = [] /\ snd r = true) /\
                 (x0 = false -> total nerr_ev ext = (if snd r then 1 else 0))).
    { induction bs as [|b bs IHb]; intros q x0 Hb; cbn [fold_left].
      - simpl. repeat split; auto. exists []. rewrite app_nil_r. repeat split; auto. intros ->. reflexivity.
      - destruct x0.
        + destruct (IHb q true (fun b' Hb' => Hb b' (or_intror Hb'))) as [K1 [K2 [K3 [ext [K4 [K5 [K6 [K7 K8]]]]]]]].
          split; [exact K1|]. split; [exact K2|]. split; [exact K3|]. exists ext.
          split; [exact K4|]. split; [exact K5|]. split; [exact K6|]. split; [intros _; apply K7; reflexivity | intros HH; discriminate].
        + destruct (IH b q (Hb b (or_introl eq_refl))) as [G1 [G2 [G3 [e1 [G4 [G5 [G6 G7]]]]]]].
          destruct (setup_layer w f b q) as [q1 x1] eqn:E1. simpl in G1, G2, G3, G4, G7.
          destruct (IHb q1 x1 (fun b' Hb' => Hb b' (or_intror Hb'))) as [K1 [K2 [K3 [e2 [K4 [K5 [K6 [K7 K8]]]]]]]].
          rewrite K1, K2, K3, G1, G2, G3. split; [reflexivity|]. split; [reflexivity|]. split; [reflexivity|].
          exists (e1 ++ e2). split; [rewrite K4, G4, <- app_assoc; reflexivity|].
          split; [rewrite total_app, G5, K5; reflexivity|]. split; [rewrite total_app, G6, K6; reflexivity|].
          split; [intros HH; discriminate|]. intros _. rewrite total_app. destruct x1.
          * destruct (K7 eq_refl) as [-> Hs]. rewrite Hs. simpl. rewrite G7. lia.
          * rewrite (K8 eq_refl), G7. lia. }
    destruct (Hfold (bases_of (lw w) l) p false (fun b Hb => ltac:(apply Hwf in Hb; lia))) as [G1 [G2 [G3 [ext [G4 [G5 [G6 [_ G8]]]]]]]].
    destruct (fold_left _ (bases_of (lw w) l) (p, false)) as [p1 exc]. simpl in G1, G2, G3, G4, G8.
    specialize (G8 eq_refl). destruct exc.
    + simpl. repeat split; auto. exists ext. repeat split; auto.
    + set (out := match l_setup (spec_of w l) with None => HOk | Some sc => script_at sc (cnt l (ps_att_su p1)) end).
      simpl. repeat split; auto. exists (ext ++ [ESetUp l out]). rewrite G4, <- app_assoc, !total_app, G5, G6, G8. simpl.
      repeat split; auto. destruct out; reflexivity.
Qed.

Lemma td_loop_ledger : forall order optional p, ps_ledger p -> ps_ledger (fst (td_loop w order optional p)).
Proof.
  induction order as [|l order IH]; intros optional p H; simpl; [exact H|].
  destruct H as [H1 [H2 H3]].
  set (out := match l_teardown (spec_of w l) with None => HOk | Some sc => script_at sc (cnt l (ps_att_td p)) end).
  assert (Hstep : ps_ledger {| ps_setup := filter (fun x => negb (Nat.eqb x l)) (ps_setup p); ps_att_su := ps_att_su p;
                               ps_att_td := inc l (ps_att_td p); ps_ran := ps_ran p; ps_fail := ps_fail p;
                               ps_err := match out with HRaise => ps_err p ++ [NLayerTearDown l] | _ => ps_err p end;
                               ps_skip := ps_skip p; ps_ev := ps_ev p ++ [ETearDown l out] |}).
  { unfold ps_ledger. simpl. rewrite !total_app. simpl. destruct out; simpl; rewrite ?app_length; simpl; repeat split; lia. }
  destruct out; [apply IH; exact Hstep | apply IH; exact Hstep |].
  destruct optional; [apply IH; exact Hstep|].
  simpl. destruct Hstep as [S1 [S2 S3]]. unfold ps_ledger. simpl in *. rewrite !total_app. simpl. repeat split; lia.
Qed.

Lemma tdu_ledger needed optional p : ps_ledger p -> ps_ledger (fst (tear_down_unneeded w needed optional p)).
Proof. apply td_loop_ledger. Qed.

Lemma repeat_loop_ledger : forall k l p, ps_ledger p -> ps_ledger (repeat_loop w o k l p).
Proof.
  induction k as [|k IH]; intros l p H; simpl; [exact H|].
  set (rs := run_seq w o l (tests_of w l) rs_init).
  destruct (run_seq_ledger l (tests_of w l) rs_init (fun t b H => proj1 (proj1 (tests_of_spec w l t b) H)) rs_init_ledger) as [R1 [R2 [R3 R4]]]. fold rs in R1, R2, R3, R4.
  destruct H as [H1 [H2 H3]].
  assert (Hstep : ps_ledger {| ps_setup := ps_setup p; ps_att_su := ps_att_su p; ps_att_td := ps_att_td p; ps_ran := rs_run rs;
                               ps_fail := ps_fail p ++ rs_fail rs ++ rs_us rs; ps_err := ps_err p ++ rs_err rs; ps_skip := ps_skip p + rs_skip rs;
                               ps_ev := ps_ev p ++ rs_ev rs ++ [ESummary l (rs_run rs) (length (rs_fail rs) + length (rs_us rs))
                                                                  (length (rs_err rs) + o_import_errors o) (rs_skip rs)] |}).
  { unfold ps_ledger. simpl. rewrite !total_app, !app_length. simpl. rewrite R1, R2, R3. repeat split; lia. }
  destruct (rs_stop rs); [exact Hstep | apply IH; exact Hstep].
Qed.

Lemma run_layer_ledger l p : l < nlayers (lw w) -> ps_ledger p -> ps_ledger (fst (run_layer w o l p)).
Proof.
  intros Hl H. unfold run_layer.
  pose proof (tdu_ledger (gather_layers (lw w) l) false p H) as H1.
  destruct (tear_down_unneeded w (gather_layers (lw w) l) false p) as [p1 cannot]. simpl in H1.
  destruct cannot; [exact H1|].
  destruct (setup_layer_ledger (S (nlayers (lw w))) l p1 ltac:(lia)) as [G1 [G2 [G3 [ext [G4 [G5 [G6 G7]]]]]]].
  destruct (setup_layer w (S (nlayers (lw w))) l p1) as [p2 exc]. simpl in G1, G2, G3, G4, G7.
  destruct H1 as [A1 [A2 A3]].
  destruct exc; simpl.
  - unfold ps_ledger. simpl. rewrite G1, G2, G3, G4, !total_app, app_length, G5, G6, G7. simpl. repeat split; lia.
  - apply repeat_loop_ledger. unfold ps_ledger. simpl. rewrite G1, G2, G3, G4, !total_app, G5, G6, G7. repeat split; lia.
Qed.

Lemma init_ledger : ps_ledger ps_init. Proof. repeat split. Qed.

(* every layer subprocess: its report is the ledger of its own events *)
Theorem child_ledger l : l < nlayers (lw w) ->
  let c := child_run w o l in
  total nfail_ev (c_ev c) = length (c_fail c) /\ total nerr_ev (c_ev c) = length (c_err c).
Proof.
  intros Hl. unfold child_run.
  pose proof (run_layer_ledger l ps_init Hl init_ledger) as H1.
  destruct (run_layer w o l ps_init) as [p1 c1]. simpl in H1.
  pose proof (tdu_ledger [] true p1 H1) as H2.
  destruct (tear_down_unneeded w [] true p1) as [p2 c2]. simpl in *. destruct H2 as [A [B _]]. auto.
Qed.

Lemma parent_loop_ledger : forall ls p ran k, (forall l, In l ls -> l < nlayers (lw w)) -> ps_ledger p ->
  ps_ledger (fst (fst (fst (fst (parent_loop w o ls p ran k))))).
Proof.
  induction ls as [|l ls IH]; intros p ran k Hls H; simpl; [exact H|].
  pose proof (run_layer_ledger l p (Hls l (or_introl eq_refl)) H) as H1.
  destruct (run_layer w o l p) as [p1 cannot]. simpl in H1.
  destruct cannot; [exact H1|].
  destruct (o_x o && match ps_fail p1, ps_err p1 with [], [] => false | _, _ => true end); [exact H1|].
  apply IH; [intros l' Hl'; apply Hls; now right | exact H1].
Qed.

(* tear-down adds errors and error events in step, whatever the lists held before *)
Lemma td_loop_delta : forall order optional p,
  let q := fst (td_loop w order optional p) in
  ps_fail q = ps_fail p /\ ps_skip q = ps_skip p /\
  total nfail_ev (ps_ev q) = total nfail_ev (ps_ev p) /\ total nskip_ev (ps_ev q) = total nskip_ev (ps_ev p) /\
  total nerr_ev (ps_ev q) + length (ps_err p) = total nerr_ev (ps_ev p) + length (ps_err q).
Proof.
  induction order as [|l order IH]; intros optional p; simpl; [repeat split; lia|].
  set (out := match l_teardown (spec_of w l) with None => HOk | Some sc => script_at sc (cnt l (ps_att_td p)) end).
  set (p1 := {| ps_setup := filter (fun x => negb (Nat.eqb x l)) (ps_setup p); ps_att_su := ps_att_su p;
                ps_att_td := inc l (ps_att_td p); ps_ran := ps_ran p; ps_fail := ps_fail p;
                ps_err := match out with HRaise => ps_err p ++ [NLayerTearDown l] | _ => ps_err p end;
                ps_skip := ps_skip p; ps_ev := ps_ev p ++ [ETearDown l out] |}).
  assert (Hstep : ps_fail p1 = ps_fail p /\ ps_skip p1 = ps_skip p /\
                  total nfail_ev (ps_ev p1) = total nfail_ev (ps_ev p) /\ total nskip_ev (ps_ev p1) = total nskip_ev (ps_ev p) /\
                  total nerr_ev (ps_ev p1) + length (ps_err p) = total nerr_ev (ps_ev p) + length (ps_err p1)).
  { unfold p1. simpl. rewrite !total_app. simpl. destruct out; simpl; rewrite ?app_length; simpl; repeat split; lia. }
  destruct Hstep as [S1 [S2 [S3 [S4 S5]]]].
  assert (Hrec : forall opt, let q := fst (td_loop w order opt p1) in
            ps_fail q = ps_fail p /\ ps_skip q = ps_skip p /\
            total nfail_ev (ps_ev q) = total nfail_ev (ps_ev p) /\ total nskip_ev (ps_ev q) = total nskip_ev (ps_ev p) /\
            total nerr_ev (ps_ev q) + length (ps_err p) = total nerr_ev (ps_ev p) + length (ps_err q)).
  { intros opt. destruct (IH opt p1) as [K1 [K2 [K3 [K4 K5]]]]. repeat split; try congruence; lia. }
  destruct out; [apply Hrec | apply Hrec |]. destruct optional; [apply Hrec|].
  simpl. rewrite !total_app. simpl. repeat split; try assumption; lia.
Qed.

Lemma resume_seq_lists : forall ls ran f e,
  let '(cs, _, f', e') := resume_seq w o ls ran f e in
  f' = f ++ flat_map c_fail cs /\ e' = e ++ flat_map c_err cs /\ (forall c, In c cs -> exists l, In l ls /\ c = child_run w o l).
Proof.
  induction ls as [|l ls IH]; intros ran f e; simpl.
  - rewrite !app_nil_r. repeat split; auto. intros c [].
  - destruct (o_x o && match f, e with [], [] => false | _, _ => true end).
    + rewrite !app_nil_r. repeat split; auto. intros c [].
    + specialize (IH (ran + c_ran (child_run w o l)) (f ++ c_fail (child_run w o l)) (e ++ c_err (child_run w o l))).
      destruct (resume_seq w o ls _ _ _) as [[[cs r'] f'] e']. destruct IH as [H1 [H2 H3]].
      simpl. rewrite H1, H2, <- !app_assoc. repeat split; auto.
      intros c [<-|Hc]; [exists l; split; [now left | reflexivity]|].
      destruct (H3 c Hc) as [l' [Hl' E]]. exists l'. split; [now right | exact E].
Qed.

Hypothesis Htests : forall t, In t (tests w) -> t_layer t < nlayers (lw w).

Lemma ordered_in_range' l : In l (ordered_layers w) -> l < nlayers (lw w).
Proof.
  unfold ordered_layers. intros H. apply obb_in in H. unfold layers_with_tests in H.
  assert (Hgen : forall ts acc, (forall t, In t ts -> t_layer t < nlayers (lw w)) -> (forall x, In x acc -> x < nlayers (lw w)) ->
            forall x, In x (fold_left (fun acc t => if mem (t_layer t) acc then acc else acc ++ [t_layer t]) ts acc) -> x < nlayers (lw w)).
  { induction ts as [|t ts IHt]; simpl; intros acc Ht Ha x Hx; [auto|].
    eapply IHt; [intros t' Ht'; apply Ht; now right | | exact Hx].
    destruct (mem (t_layer t) acc); [exact Ha|]. intros y Hy. apply in_app_or in Hy. destruct Hy as [Hy|[<-|[]]]; [auto | apply Ht; now left]. }
  apply (Hgen (tests w) [] Htests (fun x (Hx : In x []) => match Hx with end) l H).
Qed.

Definition sum_children (f : ev -> nat) (cs : list report) : nat := fold_right (fun c a => total f (c_ev c) + a) 0 cs.

(* the whole run: failure and error lists are the ledger of the events of all processes; the skip count is the
   ledger of the parent process only (skips of subprocess layers are not transmitted: open finding C12-child-skips) *)
Theorem run_ledger :
  let r := run w o in
  length (r_fail r) = total nfail_ev (r_parent r) + sum_children nfail_ev (r_children r) /\
  length (r_err r) = total nerr_ev (r_parent r) + sum_children nerr_ev (r_children r) /\
  r_skip r = total nskip_ev (r_parent r).
Proof.
  unfold run.
  set (A := if 1 <? o_procs o then _ else _).
  assert (HA : ps_ledger (fst (fst (fst (fst A)))) /\ forall l, In l (snd (fst (fst A))) -> l < nlayers (lw w)).
  { unfold A. destruct (1 <? o_procs o).
    - simpl. split; [|apply ordered_in_range'].
      unfold ps_ledger, pemit. simpl. induction (reps o) as [|k IHk]; simpl; [repeat split|exact IHk].
    - split; [apply parent_loop_ledger; [apply ordered_in_range' | exact init_ledger]|].
      intros l Hl.
      assert (Hrest : forall ls p ran k l, In l (snd (fst (fst (parent_loop w o ls p ran k)))) -> In l ls).
      { induction ls as [|x ls IH]; intros p ran k l0 H; simpl in H; [destruct H|].
        destruct (run_layer w o x p) as [p1 cannot]. destruct cannot; [simpl in H; exact H|].
        destruct (o_x o && match ps_fail p1, ps_err p1 with [], [] => false | _, _ => true end); [simpl in H; now right|].
        right. eapply IH. exact H. }
      apply ordered_in_range'. eapply Hrest. exact Hl. }
  destruct A as [[[[p1 ran1] rest] resume] n1]. simpl in HA. destruct HA as [[L1 [L2 L3]] Hrest].
  set (B := if resume then _ else _).
  assert (HB : let '(cs, _, f2, e2) := B in
            f2 = ps_fail p1 ++ flat_map c_fail cs /\ e2 = ps_err p1 ++ flat_map c_err cs /\
            (forall c, In c cs -> exists l, l < nlayers (lw w) /\ c = child_run w o l)).
  { unfold B. destruct resume.
    - pose proof (resume_seq_lists rest ran1 (ps_fail p1) (ps_err p1)) as H.
      destruct (resume_seq w o rest ran1 (ps_fail p1) (ps_err p1)) as [[[cs r'] f'] e']. destruct H as [H1 [H2 H3]].
      repeat split; auto. intros c Hc. destruct (H3 c Hc) as [l [Hl E]]. exists l. split; [apply Hrest; exact Hl | exact E].
    - simpl. rewrite !app_nil_r. repeat split; auto. intros c []. }
  destruct B as [[[cs ran2] f2] e2]. destruct HB as [-> [-> Hcs]].
  set (p2 := {| ps_setup := ps_setup p1; ps_att_su := ps_att_su p1; ps_att_td := ps_att_td p1; ps_ran := 0;
                ps_fail := []; ps_err := []; ps_skip := ps_skip p1; ps_ev := ps_ev p1 |}).
  pose proof (td_loop_delta (rev (order_by_bases (lw w) (filter (fun x => negb (mem x [])) (ps_setup p2)))) true p2) as Hd.
  unfold tear_down_unneeded.
  destruct (td_loop w (rev (order_by_bases (lw w) (filter (fun x => negb (mem x [])) (ps_setup p2)))) true p2) as [p3 c3].
  simpl in Hd. destruct Hd as [D1 [D2 [D3 [D4 D5]]]]. simpl.
  assert (Hcf : length (flat_map c_fail cs) = sum_children nfail_ev cs /\ length (flat_map c_err cs) = sum_children nerr_ev cs).
  { clear - Hcs Hwf. induction cs as [|c cs IH]; simpl; [auto|].
    destruct (Hcs c (or_introl eq_refl)) as [l [Hl ->]].
    destruct (child_ledger l Hl) as [E1 E2]. destruct (IH (fun c' Hc' => Hcs c' (or_intror Hc'))) as [I1 I2].
    rewrite !app_length, I1, I2, E1, E2. auto. }
  destruct Hcf as [C1 C2].
  rewrite !app_length, C1, C2, D3, D4. repeat split; lia.
Qed.
End L.

Lemma total_pos_iff (f : ev -> nat) l : 0 < total f l <-> exists e, In e l /\ 0 < f e.
Proof.
  unfold total. induction l as [|x l IH]; simpl.
  - split; [lia | intros [e [[] _]]].
  - split.
    + intros H. destruct (f x) eqn:E.
      * destruct (proj1 IH) as [e [He Hp]]; [lia|]. exists e. split; [now right | exact Hp].
      * exists x. split; [now left | lia].
    + intros [e [[<-|He] Hp]]; [lia|]. assert (0 < fold_right (fun e a => f e + a) 0 l) by (apply IH; exists e; auto). lia.
Qed.

Lemma sum_children_pos_iff (f : ev -> nat) cs : 0 < sum_children f cs <-> exists c e, In c cs /\ In e (c_ev c) /\ 0 < f e.
Proof.
  induction cs as [|c cs IH]; simpl.
  - split; [lia | intros [c [e [[] _]]]].
  - split.
    + intros H. destruct (total f (c_ev c)) eqn:E.
      * destruct (proj1 IH) as [c' [e [Hc [He Hp]]]]; [lia|]. exists c', e. repeat split; auto.
      * destruct (proj1 (total_pos_iff f (c_ev c))) as [e [He Hp]]; [lia|]. exists c, e. repeat split; auto.
    + intros [c' [e [[<-|Hc] [He Hp]]]].
      * assert (0 < total f (c_ev c)) by (apply total_pos_iff; exists e; auto). lia.
      * assert (0 < sum_children f cs) by (apply IH; exists c', e; auto). lia.
Qed.

Definition bad_ev (e : ev) : bool := Nat.ltb 0 (nfail_ev e + nerr_ev e).

(* C02 for the whole run: the verdict is "failed" exactly when there were import errors or some process
   (the parent or a subprocess) recorded a failure/error event; no such event is ever dropped or invented. *)
Theorem run_failed_iff_bad_event w o :
  wf (lw w) -> (forall t, In t (tests w) -> t_layer t < nlayers (lw w)) ->
  (r_failed (run w o) = true <->
   0 < o_import_errors o \/
   (exists e, In e (r_parent (run w o)) /\ bad_ev e = true) \/
   (exists c e, In c (r_children (run w o)) /\ In e (c_ev c) /\ bad_ev e = true)).
Proof.
  intros Hwf Ht. pose proof (run_ledger w o Hwf Ht) as [L1 [L2 _]].
  rewrite verdict_spec. rewrite !Bool.orb_true_iff, Nat.ltb_lt.
  assert (Hne : forall A (l : list A), nonnil l = true <-> 0 < length l)
    by (intros A [|x l]; simpl; split; (lia || discriminate || auto)).
  assert (Hbad : forall e, bad_ev e = true <-> 0 < nfail_ev e \/ 0 < nerr_ev e)
    by (intros e; unfold bad_ev; rewrite Nat.ltb_lt; lia).
  split.
  - intros H.
    assert (Hpos0 : 0 < o_import_errors o \/ (0 < length (r_fail (run w o)) \/ 0 < length (r_err (run w o)))).
    { destruct H as [[H|H]|H]; [now left | right; left; apply Hne; exact H | right; right; apply Hne; exact H]. }
    destruct Hpos0 as [Hp|Hpos]; [now left|]. right.
    rewrite L1, L2 in Hpos.
    assert (Hc : 0 < total nfail_ev (r_parent (run w o)) \/ 0 < total nerr_ev (r_parent (run w o)) \/
                 0 < sum_children nfail_ev (r_children (run w o)) \/ 0 < sum_children nerr_ev (r_children (run w o))) by lia.
    destruct Hc as [Hc|[Hc|[Hc|Hc]]].
    + left. apply total_pos_iff in Hc. destruct Hc as [e [He Hp]]. exists e. split; [exact He | apply Hbad; now left].
    + left. apply total_pos_iff in Hc. destruct Hc as [e [He Hp]]. exists e. split; [exact He | apply Hbad; now right].
    + right. apply sum_children_pos_iff in Hc. destruct Hc as [c [e [Hc [He Hp]]]]. exists c, e. repeat split; auto. apply Hbad; now left.
    + right. apply sum_children_pos_iff in Hc. destruct Hc as [c [e [Hc [He Hp]]]]. exists c, e. repeat split; auto. apply Hbad; now right.
  - assert (Hfin : 0 < length (r_fail (run w o)) \/ 0 < length (r_err (run w o)) ->
                   (0 < o_import_errors o \/ nonnil (r_fail (run w o)) = true) \/ nonnil (r_err (run w o)) = true).
    { intros [Hf|Hf]; [left; right | right]; apply Hne; exact Hf. }
    intros [H|[[e [He Hb]]|[c [e [Hc [He Hb]]]]]]; [now left; left| |]; apply Hfin; apply Hbad in Hb.
    + destruct Hb as [Hb|Hb].
      * left. rewrite L1. assert (0 < total nfail_ev (r_parent (run w o))) by (apply total_pos_iff; exists e; auto). lia.
      * right. rewrite L2. assert (0 < total nerr_ev (r_parent (run w o))) by (apply total_pos_iff; exists e; auto). lia.
    + destruct Hb as [Hb|Hb].
      * left. rewrite L1. assert (0 < sum_children nfail_ev (r_children (run w o))) by (apply sum_children_pos_iff; exists c, e; auto). lia.
      * right. rewrite L2. assert (0 < sum_children nerr_ev (r_children (run w o))) by (apply sum_children_pos_iff; exists c, e; auto). lia.
Qed.
