(* P_C15.v — property theorems for C15 only. *)
From ZT Require Import Base Tree Bytecode BytecodeFacts.

(* A file is unlinked iff it is an orphaned .pyc/.pyo (no same-named .py FILE beside it) lying directly
   in a directory reached from the test path through directories that are neither ignored nor __pycache__;
   and every such orphan is unlinked. *)
Theorem C15_deleted_iff_orphan : forall ign kids p, In p (stale_dir ign kids) <-> is_stale ign kids p.
Proof. exact stale_spec. Qed.
Print Assumptions C15_deleted_iff_orphan.

Theorem C15_only_compiled_suffixes : forall ign kids p, In p (stale_dir ign kids) ->
  exists d f, p = d ++ [f] /\ compiled f = true.
Proof. exact deleted_is_compiled. Qed.
Print Assumptions C15_only_compiled_suffixes.

Theorem C15_compiled_means_suffix : forall f, compiled f = true <-> exists a, f = a ++ s_pyc \/ f = a ++ s_pyo.
Proof. exact compiled_spec. Qed.
Print Assumptions C15_compiled_means_suffix.

Theorem C15_never_inside_pruned_directories : forall ign kids p, In p (stale_dir ign kids) ->
  forall d n r, p = d ++ n :: r -> r <> [] -> pruned ign n = false.
Proof. exact never_below_pruned. Qed.
Print Assumptions C15_never_inside_pruned_directories.

Theorem C15_keep_means_nothing : forall ign tree root, cleanup_root ign true tree root = [].
Proof. exact keep_means_nothing. Qed.
Print Assumptions C15_keep_means_nothing.
