(* P_C15.v — property theorems for C15 only. *)
From ZT Require Import Base Tree Bytecode BytecodeFacts BytecodeAfter.

(* A file is unlinked iff it is an orphaned .pyc/.pyo (no same-named .py FILE beside it) lying directly
   in a directory reached from the test path through directories that are neither ignored nor __pycache__;
   and every such orphan is unlinked. *)
Theorem C15_deleted_iff_orphan : forall ign kids p, In p (stale_dir ign kids) <-> is_stale ign kids p.
Proof. exact stale_spec. Qed.
Print Assumptions C15_deleted_iff_orphan.

Theorem C15_only_compiled_suffixes : forall ign kids p, In p (stale_dir ign kids) ->
  exists d f, p = d ++ [f] /\ compiled f = true.
Proof. exact deleted_is_compiled. Qed.
Print Assumptions C15_only_compiled_suffixes.

Theorem C15_compiled_means_suffix : forall f, compiled f = true <-> exists a, f = a ++ s_pyc \/ f = a ++ s_pyo.
Proof. exact compiled_spec. Qed.
Print Assumptions C15_compiled_means_suffix.

Theorem C15_never_inside_pruned_directories : forall ign kids p, In p (stale_dir ign kids) ->
  forall d n r, p = d ++ n :: r -> r <> [] -> pruned ign n = false.
Proof. exact never_below_pruned. Qed.
Print Assumptions C15_never_inside_pruned_directories.

Theorem C15_keep_means_nothing : forall ign tree root, cleanup_root ign true tree root = [].
Proof. exact keep_means_nothing. Qed.
Print Assumptions C15_keep_means_nothing.

(* History: in the tree the cleanup leaves behind (after_dir: orphans gone from every walked directory, pruned directories as they
   were) a second cleanup finds nothing to remove, and the walked directory itself keeps every entry that was not an orphan. *)
Theorem C15_second_cleanup_removes_nothing : forall ign kids, stale_dir ign (after_dir ign kids) = [].
Proof. exact second_cleanup_removes_nothing. Qed.
Print Assumptions C15_second_cleanup_removes_nothing.

Theorem C15_cleanup_keeps_the_rest : forall ign kids f,
  In (F f) (after_dir ign kids) <-> In (F f) kids /\ ~ orphan kids f.
Proof. exact after_keeps_the_rest. Qed.
Print Assumptions C15_cleanup_keeps_the_rest.

(* non-vacuity: a tree with an orphan, a compiled file beside its source, and an orphan in a pruned directory *)
Example C15_after_example :
  let t := [F [97;46;112;121;99]%N; F [98;46;112;121]%N; F [98;46;112;121;99]%N; D s_pycache [F [99;46;112;121;99]%N]] in
  stale_dir [] t = [[[97;46;112;121;99]%N]] /\ after_dir [] t = [F [98;46;112;121]%N; F [98;46;112;121;99]%N; D s_pycache [F [99;46;112;121;99]%N]].
Proof. vm_compute. split; reflexivity. Qed.
