(* Filter.v — model of zope.testrunner.filter.build_filtering_func.
   `search p v` stands for  re.compile(p).search(v) is not None  (oracle). *)
From ZT Require Import Base.

Section F.
Variable search : str -> str -> bool.

Definition bang : N := 33.
Definition dot_pat : str := [46%N].

Definition is_neg (p : str) : bool :=
  match p with c :: _ => N.eqb c bang | [] => false end.

(* the two lists the loop builds, in pattern order *)
Definition selected (pats : list str) : list str := filter (fun p => negb (is_neg p)) pats.
Definition unselected (pats : list str) : list str := map (@tl N) (filter is_neg pats).

(* "if not selected and unselected: selected.append(re.compile('.').search)" *)
Definition selected' (pats : list str) : list str :=
  match selected pats, unselected pats with
  | [], _ :: _ => [dot_pat]
  | s, _ => s
  end.

Definition accept (pats : list str) (v : str) : bool :=
  existsb (fun p => search p v) (selected' pats) &&
  negb (existsb (fun p => search p v) (unselected pats)).
End F.
