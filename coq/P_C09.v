(* P_C09.v — property theorems for C09 only. *)
From ZT Require Import Base Filter Levels LevelsFacts.
Open Scope Z_scope.

Theorem C09_nearest_declaration_wins : forall s dl dly,
  flatten dl dly s = map (resolve dl dly) (leaves [] s).
Proof. exact nearest_wins. Qed.
Print Assumptions C09_nearest_declaration_wins.

Theorem C09_every_test_once_in_tree_order : forall s dl dly,
  map (fun it : item => fst (fst it)) (flatten dl dly s) = ids s.
Proof. exact flatten_ids. Qed.
Print Assumptions C09_every_test_once_in_tree_order.

Theorem C09_eligible_spec : forall o lvl,
  eligible (post o) lvl = true <->
  match only_level o with
  | Some k => lvl = k
  | None => if all o then (lvl <= maxsize) else (at_level o <= 0 \/ lvl <= at_level o)
  end.
Proof. exact eligible_spec. Qed.
Print Assumptions C09_eligible_spec.

Theorem C09_all_any_level : forall o lvl,
  all o = true -> only_level o = None -> lvl <= maxsize -> eligible (post o) lvl = true.
Proof. exact all_any_level. Qed.
Print Assumptions C09_all_any_level.

Theorem C09_unit_only : forall search o present,
  unit o = true -> non_unit o = false -> unit_pat_exact search present ->
  forall n, In n (keep_layers search (post o) present) <-> (In n present /\ n = unit_name).
Proof. exact unit_only. Qed.
Print Assumptions C09_unit_only.

Theorem C09_non_unit_drops_unit : forall search o present,
  non_unit o = true -> unit o = false -> layer_pats o = [] ->
  forall n, In n (keep_layers search (post o) present) <-> (In n present /\ n <> unit_name).
Proof. exact non_unit_drops_unit. Qed.
Print Assumptions C09_non_unit_drops_unit.

(* … and with --layer patterns as well: what the patterns accept, but never the unit-test layer. *)
Theorem C09_non_unit_with_layer_patterns : forall search o present,
  non_unit o = true -> unit o = false ->
  forall n, In n (keep_layers search (post o) present) <->
            (In n present /\ n <> unit_name /\ (layer_pats o = [] \/ accept search (layer_pats o) n = true)).
Proof. exact non_unit_with_layer_patterns. Qed.
Print Assumptions C09_non_unit_with_layer_patterns.

Theorem C09_both_keep_everything : forall search o present,
  unit o = true -> non_unit o = true -> layer_pats o = [] ->
  keep_layers search (post o) present = present.
Proof. exact both_keep_everything. Qed.
Print Assumptions C09_both_keep_everything.

Theorem C09_layer_patterns : forall search o present,
  unit o = false -> non_unit o = false -> layer_pats o <> [] ->
  forall n, In n (keep_layers search (post o) present) <-> (In n present /\ accept search (layer_pats o) n = true).
Proof. exact layer_patterns. Qed.
Print Assumptions C09_layer_patterns.

Theorem C09_all_levels_refuted :
  exists o lvl, all o = true /\ only_level o = None /\ eligible (post o) lvl = false.
Proof. exact all_levels_refuted. Qed.
Print Assumptions C09_all_levels_refuted.
