(* P_C07.v — property theorems for C07 only. *)
From ZT Require Import Base Channel ChannelFacts ChannelNoise.
Open Scope N_scope.

(* Nothing lost: whatever lines precede the report on the child's stderr (none of which reads as three integers) and
   whatever follows it, for every count below 10^40 and every number and spelling of (end-of-line free) names, the parent
   reads exactly the child's count and exactly its names — at the level of bytes. *)
Theorem C07_roundtrip_bytes : forall ran fails errs noise trailing,
  ran < bound -> N.of_nat (length fails) < bound -> N.of_nat (length errs) < bound ->
  (forall l, In l noise -> no_eol l /\ header l = None) ->
  (forall l, In l (fails ++ errs ++ trailing) -> no_eol l) ->
  parse (flat_map (fun l => l ++ [10]) noise ++ encode ran fails errs ++ flat_map (fun l => l ++ [10]) trailing)
  = Report (Z.of_N ran) (map strip fails) (map strip errs).
Proof. exact roundtrip_bytes. Qed.
Print Assumptions C07_roundtrip_bytes.

(* the header the child prints is read back as the three numbers it meant *)
Theorem C07_header_roundtrip : forall a b c, a < bound -> b < bound -> c < bound ->
  header (hdr a b c) = Some (Z.of_N a, Z.of_N b, Z.of_N c).
Proof. exact header_of_rendered. Qed.
Print Assumptions C07_header_roundtrip.

(* Nothing partial trusted: a report whose names stop early is not used at all. *)
Theorem C07_truncated_report_rejected : forall noise h ran nf ne rest,
  (forall l, In l noise -> header l = None) -> header h = Some (ran, nf, ne) ->
  (0 <= nf)%Z -> (0 <= ne)%Z -> (Z.of_nat (length rest) < nf + ne)%Z ->
  parse_lines (noise ++ h :: rest) = Incomplete.
Proof. exact truncated_lines. Qed.
Print Assumptions C07_truncated_report_rejected.

Theorem C07_no_header_no_report : forall ls, (forall l, In l ls -> header l = None) -> parse_lines ls = NoReport.
Proof. exact no_header_no_report. Qed.
Print Assumptions C07_no_header_no_report.

(* the reader is total; only a complete report contributes data, every other outcome records an error *)
Theorem C07_effect_cases : forall o,
  (exists ran fs es, o = Report ran fs es /\ effect o = (ran, fs, es, false)) \/ effect o = (0%Z, [], [], true).
Proof. exact effect_cases. Qed.
Print Assumptions C07_effect_cases.

(* Open findings, as theorems: a line of three integers on the child's stderr ahead of the report is believed;
   a report cut inside its last name is accepted with the shortened name. *)
Theorem C07_lookalike_noise_refuted : exists noise ran fails errs,
  parse (noise ++ encode ran fails errs) <> Report (Z.of_N ran) fails errs.
Proof. exact lookalike_noise_refuted. Qed.
Print Assumptions C07_lookalike_noise_refuted.
Theorem C07_cut_inside_last_name_refuted : exists ran fails errs n,
  (n < length (encode ran fails errs))%nat /\
  exists fs, parse (firstn n (encode ran fails errs)) = Report (Z.of_N ran) fs errs /\ fs <> fails.
Proof. exact cut_inside_last_name_refuted. Qed.
Print Assumptions C07_cut_inside_last_name_refuted.

(* Which stderr lines can be taken for the report header, exactly: those that, stripped and split at white space, consist of
   three integer literals and nothing else.  A line that merely ends in three integers is never a header. *)
Theorem C07_header_iff_three_integers : forall l, header l <> None <-> looks_like_header l = true.
Proof. exact header_iff_three_integers. Qed.
Print Assumptions C07_header_iff_three_integers.

Theorem C07_other_field_counts_are_not_headers : forall l, length (split (strip l)) <> 3%nat -> header l = None.
Proof. exact not_three_fields_not_header. Qed.
Print Assumptions C07_other_field_counts_are_not_headers.

(* nothing lost, with the condition on the noise as a boolean that can be evaluated on any child output *)
Theorem C07_roundtrip_lines_decidable_noise : forall noise h ran fails errs trailing,
  forallb (fun l => negb (looks_like_header l)) noise = true ->
  header h = Some (ran, Z.of_nat (length fails), Z.of_nat (length errs)) ->
  parse_lines (noise ++ h :: fails ++ errs ++ trailing) = Report ran (map strip fails) (map strip errs).
Proof. exact roundtrip_lines_bool. Qed.
Print Assumptions C07_roundtrip_lines_decidable_noise.
