From ZT Require Import Base Threads LayersFacts.

Lemma same_refl p : same p p = true.
Proof. unfold same. destruct (snd p); apply Nat.eqb_refl. Qed.

(* ---- the registry ---- *)
Lemma lookup_unreg_other r j i : i <> j -> lookup (unreg r j) i = lookup r i.
Proof.
  intros Hne. induction r as [|[k o] r IH]; simpl; [reflexivity|].
  destruct (Nat.eqb k j) eqn:Ekj; simpl.
  - apply Nat.eqb_eq in Ekj. subst k. destruct (Nat.eqb j i) eqn:Eji; [apply Nat.eqb_eq in Eji; congruence | exact IH].
  - destruct (Nat.eqb k i); [reflexivity | exact IH].
Qed.

Lemma lookup_register_other r x i : i <> th_ident x -> lookup (register r x) i = lookup r i.
Proof.
  intros Hne. unfold register. destruct (th_known x).
  - simpl. destruct (Nat.eqb (th_ident x) i) eqn:E; [apply Nat.eqb_eq in E; congruence|]. apply lookup_unreg_other. exact Hne.
  - destruct (th_cur x); [|reflexivity]. destruct (lookup r (th_ident x)); [reflexivity|].
    simpl. destruct (Nat.eqb (th_ident x) i) eqn:E; [apply Nat.eqb_eq in E; congruence | reflexivity].
Qed.

Lemma lookup_finish_other al id i : forall r,
  (forall z, In z al -> th_id z = id -> th_ident z <> i) -> lookup (finish_reg r al id) i = lookup r i.
Proof.
  unfold finish_reg. induction al as [|z al IH]; simpl; intros r H; [reflexivity|].
  rewrite IH; [|intros z' Hz'; apply H; now right].
  destruct (Nat.eqb (th_id z) id && th_known z) eqn:E; [|reflexivity].
  apply andb_true_iff in E. destruct E as [E _]. apply Nat.eqb_eq in E.
  apply lookup_unreg_other. intros Heq. apply (H z (or_introl eq_refl) E). congruence.
Qed.

(* ---- lists without duplicates under a projection ---- *)
Lemma nodup_map_inj {A} (f : A -> nat) l a b : NoDup (map f l) -> In a l -> In b l -> f a = f b -> a = b.
Proof.
  induction l as [|x l IH]; simpl; intros Hnd Ha Hb E; [contradiction|].
  inversion Hnd as [|? ? Hnot Hnd']; subst.
  destruct Ha as [<-|Ha], Hb as [<-|Hb]; try reflexivity.
  - exfalso. apply Hnot. rewrite E. now apply in_map.
  - exfalso. apply Hnot. rewrite <- E. now apply in_map.
  - now apply IH.
Qed.

Lemma nodup_map_filter {A} (f : A -> nat) p l : NoDup (map f l) -> NoDup (map f (filter p l)).
Proof.
  induction l as [|x l IH]; simpl; intros Hnd; [constructor|].
  inversion Hnd as [|? ? Hnot Hnd']; subst. destruct (p x); simpl; [|now apply IH].
  constructor; [|now apply IH]. intros Hin. apply Hnot. apply in_map_iff in Hin. destruct Hin as [y [Ey Hy]].
  apply filter_In in Hy. rewrite <- Ey. apply in_map. tauto.
Qed.

Lemma nodup_map_snoc {A} (f : A -> nat) l x : NoDup (map f l) -> ~ In (f x) (map f l) -> NoDup (map f (l ++ [x])).
Proof.
  induction l as [|y l IH]; simpl; intros Hnd Hnot.
  - constructor; [intros []|constructor].
  - inversion Hnd as [|? ? Hn Hnd']; subst. constructor.
    + rewrite map_app, in_app_iff. simpl. intros [H|[H|[]]]; [now apply Hn|]. apply Hnot. left. congruence.
    + apply IH; [exact Hnd'|]. intros H. apply Hnot. now right.
Qed.

Lemma t_nodupb_spec l : t_nodupb l = true -> NoDup l.
Proof.
  induction l as [|x l IH]; simpl; intros H; [constructor|].
  apply andb_true_iff in H. destruct H as [H1 H2]. constructor; [|now apply IH].
  apply negb_true_iff in H1. now apply mem_false in H1.
Qed.

(* the invariant tying the runner's bookkeeping (snapshot of proxies + __eq__) to the statement's (started set) *)
Record Inv (ts : tstate) (ss : sstate) : Prop := {
  inv_alive : alive ts = s_alive ss;
  inv_rep : reports ts = s_reports ss;
  inv_idents : NoDup (map th_ident (alive ts));
  inv_old : forall y, In y (alive ts) -> mem (th_id y) (s_started ss) = false -> In (proxy_of (active ts) y) (snap ts);
  inv_new : forall y, In y (alive ts) -> mem (th_id y) (s_started ss) = true ->
            existsb (same (proxy_of (active ts) y)) (snap ts) = false
}.

Lemma filter_ext_in' {A} (f g : A -> bool) l : (forall x, In x l -> f x = g x) -> filter f l = filter g l.
Proof.
  induction l as [|x l IH]; simpl; intros H; [reflexivity|].
  rewrite (H x (or_introl eq_refl)), IH; [reflexivity|]. intros y Hy. apply H. now right.
Qed.

Lemma step_inv ts ss e : Inv ts ss -> fresh_step ts e = true -> Inv (tstep ts e) (sstep ss e).
Proof.
  intros [Ha Hr Hi Ho Hn] Hf. destruct e as [t|x|id|t]; simpl.
  - constructor; simpl.
    + exact Ha.
    + exact Hr.
    + exact Hi.
    + intros y Hy _. now apply in_map.
    + intros y _ H. discriminate.
  - simpl in Hf. apply andb_true_iff in Hf. destruct Hf as [Hf Hident]. apply andb_true_iff in Hf. destruct Hf as [Hdist Hid].
    apply negb_true_iff in Hid. apply mem_false in Hid. apply negb_true_iff in Hident. apply mem_false in Hident.
    assert (Hnot : forall y, In y (alive ts) -> th_id y <> th_id x).
    { intros y Hy E. apply Hid. rewrite <- E. now apply in_map. }
    assert (Hsame : forall y, In y (alive ts) -> proxy_of (register (active ts) x) y = proxy_of (active ts) y).
    { intros y Hy. unfold proxy_of. rewrite lookup_register_other; [reflexivity|].
      intros E. apply Hident. rewrite <- E. now apply in_map. }
    constructor; simpl.
    + now rewrite Ha.
    + exact Hr.
    + apply nodup_map_snoc; assumption.
    + intros y Hy Hm. apply in_app_or in Hy. destruct Hy as [Hy|[<-|[]]].
      * rewrite (Hsame y Hy). apply Ho; [exact Hy|]. apply mem_false. intros Hin. apply mem_false in Hm. apply Hm.
        apply in_or_app. now left.
      * exfalso. apply mem_false in Hm. apply Hm. apply in_or_app. right. now left.
    + intros y Hy Hm. apply in_app_or in Hy. destruct Hy as [Hy|[<-|[]]].
      * rewrite (Hsame y Hy). apply Hn; [exact Hy|]. apply mem_In in Hm. apply in_app_or in Hm. destruct Hm as [Hm|[E|[]]].
        -- apply mem_In. exact Hm.
        -- exfalso. apply (Hnot y Hy). congruence.
      * (* the new thread itself: equal to nothing in the snapshot *)
        apply not_true_iff_false. intros He. apply existsb_exists in He. destruct He as [s [Hs Hsm]].
        rewrite forallb_forall in Hdist. specialize (Hdist s Hs). unfold distinguishable in Hdist.
        rewrite Hsm in Hdist. discriminate.
  - assert (Hsame : forall y, In y (alive ts) -> th_id y <> id ->
                    proxy_of (finish_reg (active ts) (alive ts) id) y = proxy_of (active ts) y).
    { intros y Hy Hne. unfold proxy_of. rewrite lookup_finish_other; [reflexivity|].
      intros z Hz Ez E. apply Hne. rewrite <- Ez. f_equal. symmetry.
      apply (nodup_map_inj th_ident (alive ts) z y Hi Hz Hy E). }
    assert (Hflt : forall y, In y (filter (fun y => negb (Nat.eqb (th_id y) id)) (alive ts)) -> In y (alive ts) /\ th_id y <> id).
    { intros y Hy. apply filter_In in Hy. destruct Hy as [Hy Hne]. split; [exact Hy|].
      apply negb_true_iff in Hne. now apply Nat.eqb_neq in Hne. }
    constructor; simpl.
    + now rewrite Ha.
    + exact Hr.
    + apply nodup_map_filter. exact Hi.
    + intros y Hy Hm. destruct (Hflt y Hy) as [Hy' Hne]. rewrite (Hsame y Hy' Hne). now apply Ho.
    + intros y Hy Hm. destruct (Hflt y Hy) as [Hy' Hne]. rewrite (Hsame y Hy' Hne). now apply Hn.
  - assert (Hflt : filter (fun y => negb (existsb (same (proxy_of (active ts) y)) (snap ts)) && negb (th_ignored y)) (alive ts)
                 = filter (fun y => mem (th_id y) (s_started ss) && negb (th_ignored y)) (s_alive ss)).
    { rewrite <- Ha. apply filter_ext_in'. intros y Hy. f_equal.
      destruct (mem (th_id y) (s_started ss)) eqn:Hm.
      - rewrite (Hn y Hy Hm). reflexivity.
      - assert (Hin := Ho y Hy Hm). apply negb_false_iff. apply existsb_exists.
        exists (proxy_of (active ts) y). split; [exact Hin | apply same_refl]. }
    constructor; simpl.
    + exact Ha.
    + rewrite Hflt, Hr. reflexivity.
    + exact Hi.
    + exact Ho.
    + exact Hn.
Qed.

Theorem c19_exact init h : idents_fresh init h = true ->
  reports (trun init h) = s_reports (srun init h).
Proof.
  unfold idents_fresh, trun, srun.
  assert (Hgen : forall h ts ss, Inv ts ss -> idents_fresh_from ts h = true ->
            reports (fold_left tstep h ts) = s_reports (fold_left sstep h ss)).
  { induction h0 as [|e r IH]; simpl; intros ts ss HI Hf; [apply HI|].
    apply andb_true_iff in Hf. destruct Hf as [H1 H2]. apply IH; [apply step_inv; assumption | exact H2]. }
  intros Hf. apply andb_true_iff in Hf. destruct Hf as [Hnd Hf]. apply Hgen; [|exact Hf]. constructor; simpl.
  - reflexivity.
  - reflexivity.
  - apply t_nodupb_spec. exact Hnd.
  - intros y Hy _. now apply in_map.
  - intros y _ H. discriminate.
Qed.

(* without the hypothesis the statement fails: a leaked low-level thread that received the ident of a thread
   which existed when the test began goes unreported *)
Definition mk (id ident : nat) (known cur ign : bool) :=
  {| th_id := id; th_ident := ident; th_known := known; th_cur := cur; th_ignored := ign |}.
Definition ex_A := mk 1 77 false false false.
Definition ex_B := mk 2 77 false false false.
Theorem c19_ident_reuse_refuted :
  exists init h, reports (trun init h) <> s_reports (srun init h).
Proof.
  exists [ex_A], [TBegin 0; TFinish 1; TStart ex_B; TEnd 0]. vm_compute. discriminate.
Qed.

(* the same through the registry: threading never drops the _DummyThread it made for a low-level thread that asked who it
   is, so a second such thread on the same ident is handed the old object and cannot be told from the first *)
Theorem c19_stale_dummy_refuted :
  exists init h, reports (trun init h) <> s_reports (srun init h).
Proof.
  exists [mk 1 1 true false false],
         [TBegin 0; TStart (mk 5 77 false true false); TEnd 0;
          TBegin 1; TFinish 5; TStart (mk 6 77 false true false); TEnd 1].
  vm_compute. discriminate.
Qed.

(* …while a thread started through threading on that ident replaces the stale record and is reported *)
Example c19_threading_replaces_stale :
  let h := [TBegin 0; TStart (mk 5 77 false true false); TEnd 0;
            TBegin 1; TFinish 5; TStart (mk 6 77 true false false); TEnd 1] in
  idents_fresh [mk 1 1 true false false] h = true /\ reports (trun [mk 1 1 true false false] h) = [(0, [5]); (1, [6])].
Proof. vm_compute. split; reflexivity. Qed.

Example c19_hypothesis_satisfiable :
  idents_fresh [ex_A] [TBegin 0; TStart (mk 5 78 true false false); TEnd 0;
                       TBegin 1; TFinish 5; TStart (mk 6 78 true false true); TEnd 1] = true.
Proof. reflexivity. Qed.
