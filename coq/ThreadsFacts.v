From ZT Require Import Base Threads LayersFacts.

Lemma same_refl y : same y y = true.
Proof. unfold same. destruct (th_known y && th_known y); apply Nat.eqb_refl. Qed.

(* the invariant tying the runner's bookkeeping (snapshot + ident comparison) to the statement's (started set) *)
Record Inv (ts : tstate) (ss : sstate) : Prop := {
  inv_alive : alive ts = s_alive ss;
  inv_rep : reports ts = s_reports ss;
  inv_old : forall y, In y (alive ts) -> mem (th_id y) (s_started ss) = false -> In y (snap ts);
  inv_new : forall y, In y (alive ts) -> mem (th_id y) (s_started ss) = true -> existsb (same y) (snap ts) = false
}.

Lemma filter_ext_in' {A} (f g : A -> bool) l : (forall x, In x l -> f x = g x) -> filter f l = filter g l.
Proof.
  induction l as [|x l IH]; simpl; intros H; [reflexivity|].
  rewrite (H x (or_introl eq_refl)), IH; [reflexivity|]. intros y Hy. apply H. now right.
Qed.

Lemma step_inv ts ss e : Inv ts ss -> fresh_step ts e = true -> Inv (tstep ts e) (sstep ss e).
Proof.
  intros [Ha Hr Ho Hn] Hf. destruct e as [t|x|id|t]; simpl.
  - constructor; simpl.
    + exact Ha.
    + exact Hr.
    + intros y Hy _. exact Hy.
    + intros y _ H. discriminate.
  - simpl in Hf. apply andb_true_iff in Hf. destruct Hf as [Hid Hfresh].
    rewrite negb_true_iff in Hfresh.
    assert (Hnot : forall y, In y (alive ts ++ snap ts) -> th_id y <> th_id x).
    { intros y Hy E. rewrite <- not_true_iff_false in Hfresh. apply Hfresh. apply existsb_exists.
      exists y. split; [exact Hy | apply Nat.eqb_eq; exact E]. }
    constructor; simpl.
    + now rewrite Ha.
    + exact Hr.
    + intros y Hy Hm. apply in_app_or in Hy. destruct Hy as [Hy|[<-|[]]].
      * apply Ho; [exact Hy|]. apply mem_false. intros Hin. apply mem_false in Hm. apply Hm. apply in_or_app. now left.
      * exfalso. apply mem_false in Hm. apply Hm. apply in_or_app. right. now left.
    + intros y Hy Hm. apply in_app_or in Hy. destruct Hy as [Hy|[<-|[]]].
      * apply Hn; [exact Hy|]. apply mem_In in Hm. apply in_app_or in Hm. destruct Hm as [Hm|[E|[]]].
        -- apply mem_In. exact Hm.
        -- exfalso. apply (Hnot y); [apply in_or_app; now left | congruence].
      * (* the new thread itself: equal to nothing in the snapshot *)
        apply not_true_iff_false. intros He. apply existsb_exists in He. destruct He as [s [Hs Hsame]].
        rewrite forallb_forall in Hid. specialize (Hid s Hs). unfold same in Hsame.
        destruct (th_known x && th_known s) eqn:Ek.
        -- apply Nat.eqb_eq in Hsame. apply (Hnot s); [apply in_or_app; now right | congruence].
        -- rewrite Hsame in Hid. simpl in Hid. discriminate.
  - constructor; simpl.
    + now rewrite Ha.
    + exact Hr.
    + intros y Hy Hm. apply filter_In in Hy. apply Ho; tauto.
    + intros y Hy Hm. apply filter_In in Hy. apply Hn; tauto.
  - assert (Hflt : filter (fun y => negb (existsb (same y) (snap ts)) && negb (th_ignored y)) (alive ts)
                 = filter (fun y => mem (th_id y) (s_started ss) && negb (th_ignored y)) (s_alive ss)).
    { rewrite <- Ha. apply filter_ext_in'. intros y Hy. f_equal.
      destruct (mem (th_id y) (s_started ss)) eqn:Hm.
      - rewrite (Hn y Hy Hm). reflexivity.
      - assert (Hin := Ho y Hy Hm). apply negb_false_iff. apply existsb_exists. exists y. split; [exact Hin | apply same_refl]. }
    constructor; simpl.
    + exact Ha.
    + rewrite Hflt, Hr. reflexivity.
    + exact Ho.
    + exact Hn.
Qed.

Theorem c19_exact init h : idents_fresh init h = true ->
  reports (trun init h) = s_reports (srun init h).
Proof.
  unfold idents_fresh, trun, srun.
  assert (Hgen : forall h ts ss, Inv ts ss -> idents_fresh_from ts h = true ->
            reports (fold_left tstep h ts) = s_reports (fold_left sstep h ss)).
  { induction h0 as [|e r IH]; simpl; intros ts ss HI Hf; [apply HI|].
    apply andb_true_iff in Hf. destruct Hf as [H1 H2]. apply IH; [apply step_inv; assumption | exact H2]. }
  intros Hf. apply Hgen; [|exact Hf]. constructor; simpl.
  - reflexivity.
  - reflexivity.
  - intros y Hy _. exact Hy.
  - intros y _ H. discriminate.
Qed.

(* without the hypothesis the statement fails: a leaked low-level thread that received the ident of a thread
   which existed when the test began goes unreported *)
Definition ex_A := {| th_id := 1; th_ident := 77; th_known := false; th_ignored := false |}.
Definition ex_B := {| th_id := 2; th_ident := 77; th_known := false; th_ignored := false |}.
Theorem c19_ident_reuse_refuted :
  exists init h, reports (trun init h) <> s_reports (srun init h).
Proof.
  exists [ex_A], [TBegin 0; TFinish 1; TStart ex_B; TEnd 0]. vm_compute. discriminate.
Qed.

Example c19_hypothesis_satisfiable :
  idents_fresh [ex_A] [TBegin 0; TStart {| th_id := 5; th_ident := 78; th_known := true; th_ignored := false |}; TEnd 0;
                       TBegin 1; TFinish 5; TStart {| th_id := 6; th_ident := 78; th_known := true; th_ignored := true |}; TEnd 1] = true.
Proof. reflexivity. Qed.
