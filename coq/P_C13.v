(* P_C13.v — property theorems for C13 only. *)
From ZT Require Import Base Layers Run RunFacts Buffer BufferFacts.

(* Between tests and after the run sys.stdout/sys.stderr are the original objects, whatever sequence of outcomes
   occurred, with and without --buffer. *)
Theorem C13_streams_restored : forall buffer ts,
  Forall (fun it => closed (snd it)) ts ->
  cur (run_tests buffer ts) = false /\ boundary_ok (run_tests buffer ts) = true.
Proof. exact run_restores. Qed.
Print Assumptions C13_streams_restored.

(* … and every test of the unittest protocol model has the required shape (starts or is decorator-skipped, stops). *)
Theorem C13_every_test_is_closed : forall b wr, closed (steps b wr).
Proof. exact steps_closed. Qed.
Print Assumptions C13_every_test_is_closed.

(* Without --buffer an in-process run never replaces the streams; all output goes straight out. *)
Theorem C13_unbuffered_untouched : forall t mid s, Forall is_mid mid -> cur s = false -> buf s = [] ->
  let s' := fold_left (bstep_apply false t) (BStart :: mid) s in
  cur s' = false /\ flatten_log (log s') = flatten_log (log s) ++ flat_map (vis t) mid.
Proof. exact unbuffered_direct. Qed.
Print Assumptions C13_unbuffered_untouched.

(* With --buffer a test whose (only) result event is a success, expected failure or skip leaves no trace in the output. *)
Theorem C13_passing_test_is_silent : forall t toks r s,
  cur s = false -> reports r = false ->
  log (fold_left (bstep_apply true t) (BStart :: map BWrite toks ++ [BRes r; BStop]) s) = log s.
Proof. exact passing_test_is_silent. Qed.
Print Assumptions C13_passing_test_is_silent.

(* With --buffer a test whose first result event is a failure or error has ALL its output shown, under its own header:
   what it wrote before is carried by the report, what it writes afterwards comes out directly, in order. *)
Theorem C13_failing_test_output_complete : forall t pre r rest s,
  cur s = false -> buf s = [] -> reports r = true -> Forall is_mid rest ->
  flatten_log (log (fold_left (bstep_apply true t) (BStart :: map BWrite pre ++ BRes r :: rest ++ [BStop]) s)) =
  flatten_log (log s) ++ (0, t) :: map (fun k => (1, k)) pre ++ flat_map (vis t) rest.
Proof. exact failing_test_output_complete. Qed.
Print Assumptions C13_failing_test_output_complete.

(* Test code that puts the capture stream back itself (contextlib.redirect_stdout around a failing subtest) cannot leave
   it installed: stopTest restores the originals.  (C13_streams_restored covers such tests: `closed` allows BReinstall.) *)
Theorem C13_reinstall_is_undone : forall t s, cur (bstep_apply true t (bstep_apply true t s BReinstall) BStop) = false.
Proof. exact reinstall_is_undone. Qed.
Print Assumptions C13_reinstall_is_undone.

(* Attribution over a whole run of tests: the runner's output is the concatenation, in test order, of one segment per test,
   and a test's segment is a function of that test's own writes and result events only (nothing a test writes can end up in
   another test's segment, whatever the sequence of outcomes, with and without --buffer) … *)
From ZT Require Import BufferSeq.
Theorem C13_output_attributed_per_test : forall buffer ts,
  Forall (fun it => closed (snd it)) ts ->
  flatten_log (log (run_tests buffer ts)) = flat_map (out_of buffer) ts.
Proof. exact output_is_per_test. Qed.
Print Assumptions C13_output_attributed_per_test.

(* … where, with --buffer, the segment of a passing / skipped / expected-failure test is empty and the segment of a test whose
   first result event is a failure or error is its header followed by all it wrote, in order. *)
Theorem C13_segments : forall t,
  (forall toks r, reports r = false -> out_of true (t, BStart :: map BWrite toks ++ [BRes r; BStop]) = []) /\
  (forall pre r rest, reports r = true -> Forall is_mid rest ->
     out_of true (t, BStart :: map BWrite pre ++ BRes r :: rest ++ [BStop]) =
     (0, t) :: map (fun k => (1, k)) pre ++ flat_map (vis t) rest).
Proof. intros t. split; [apply silent_segment | apply failing_segment]. Qed.
Print Assumptions C13_segments.
