(* P_C04.v — property theorems for C04 only.
   In the model every exception a test phase or layer hook can raise is an explicit outcome and every function is
   total: "the run is not aborted" is the absence of any exceptional result of Run.run.  What remains to state is
   that the *other* tests still run and the summary is still produced. *)
From ZT Require Import Base Layers Run RunFacts.

(* a test's failures and errors — however many events it produces — never prevent the following tests (absent -x) *)
Theorem C04_others_still_run : forall w o l ts s,
  rs_stop s = false -> o_x o = false -> run_seq w o l ts s = run_all w o l ts s.
Proof. intros w o l ts s Hs Hx. apply run_seq_all; auto. Qed.
Print Assumptions C04_others_still_run.

(* every test execution is closed by stopTest (per-test tear-down hooks) whatever happened inside *)
Theorem C04_every_test_is_closed : forall w o l t b s,
  exists mid, rs_ev (run_test w o l t b s) = rs_ev s ++ hooks_up w l ++ EStart t :: mid ++ hooks_down w l ++ [EStop t]
    /\ Forall (is_inner_ev t) mid /\ (t_deco b = false -> exists mid', mid = EPhase t 0 0 :: mid').
Proof. exact run_test_bracket. Qed.
Print Assumptions C04_every_test_is_closed.

(* the summary of the layer is produced *)
Theorem C04_summary_produced : forall w o n l p, 0 < n ->
  exists pre ran nf ne ns rest, ps_ev (repeat_loop w o n l p) = ps_ev p ++ pre ++ ESummary l ran nf ne ns :: rest.
Proof. exact repeat_loop_summary. Qed.
Print Assumptions C04_summary_produced.

(* a failing layer tearDown is recorded and the remaining layers are still torn down *)
Theorem C04_teardown_continues : forall w order optional p,
  snd (td_loop w order optional p) = false ->
  forall x, In x order -> ~ In x (ps_setup (fst (td_loop w order optional p))).
Proof. exact td_loop_completed_removes. Qed.
Print Assumptions C04_teardown_continues.

(* ------------------------------------------------------------------------------------------------------------
   The whole run (`run` is a total function: the model of a run that returns instead of raising), for EVERY
   world: whatever any test records in any phase, however many result events one test produces, whatever the
   setUp of other layers and the tearDown of any layer raise, every selected test whose own layer stack can be
   set up is still started `reps` times (absent -x) … *)
From ZT Require Import LayersFacts RunLedger RunOnce RunInv.

Theorem C04_whole_run_others_still_run : forall w o,
  wf (lw w) -> o_x o = false -> (forall b, In b (tests w) -> t_layer b < nlayers (lw w)) ->
  forall t b, nth_error (tests w) t = Some b -> good w (t_layer b) ->
  starts_of t (run w o) = reps o.
Proof. exact each_test_started_once_per_iteration. Qed.
Print Assumptions C04_whole_run_others_still_run.

(* … what was set up is torn down again in every process (C01's discipline holds whatever was raised) … *)
Theorem C04_whole_run_still_torn_down : forall w, wf (lw w) -> forall o,
  (forall t, In t (tests w) -> t_layer t < nlayers (lw w)) ->
  c01_trace_ok w (r_parent (run w o)) = true /\
  forall c, In c (r_children (run w o)) -> c01_trace_ok w (c_ev c) = true.
Proof. intros w Hwf o Ht. split; [apply c01_parent | apply c01_children]; assumption. Qed.
Print Assumptions C04_whole_run_still_torn_down.

(* … and every exception is recorded: the reported lists are the exact ledger of the bad events. *)
Theorem C04_whole_run_recorded : forall w o,
  wf (lw w) -> (forall t, In t (tests w) -> t_layer t < nlayers (lw w)) ->
  let r := run w o in
  length (r_fail r) = total nfail_ev (r_parent r) + sum_children nfail_ev (r_children r) /\
  length (r_err r) = total nerr_ev (r_parent r) + sum_children nerr_ev (r_children r) /\
  r_skip r = total nskip_ev (r_parent r).
Proof. exact run_ledger. Qed.
Print Assumptions C04_whole_run_recorded.

(* observation level: the predicate Obs.c04_ok (nothing escapes, every other test whose stack can be set up still
   starts, everything is torn down, a summary is printed in every process in which a test started) holds of the
   model's observation of every run; a sequential case without correspondence difference therefore satisfies it *)
(* "whose layers can be set up", read off the run itself: without -x a selected test is started once per --repeat iteration
   (counted over all processes) — or some layer of its OWN stack has a setUp attempt that failed in some process of the run.
   Nothing else (another layer's failure, any test outcome, any tearDown, resumption in subprocesses, -j) keeps it from running. *)
From ZT Require Import RunCharged.
Theorem C04_whole_run_started_or_charged : forall w o,
  wf (lw w) -> o_x o = false -> (forall b, In b (tests w) -> t_layer b < nlayers (lw w)) ->
  forall t b, nth_error (tests w) t = Some b ->
  starts_of t (run w o) = reps o \/ 0 < failed_setups_in_stack w (t_layer b) (run w o).
Proof. exact started_or_charged. Qed.
Print Assumptions C04_whole_run_started_or_charged.

From ZT Require Import Chk_World Obs ModelCase ObsC03.
Theorem C04_predicate_holds_of_model : forall w o inj,
  wf (lw w) -> (forall t, In t (tests w) -> t_layer t < nlayers (lw w)) -> c04_ok (model_case w o inj) = true.
Proof. exact c04_ok_model. Qed.
Print Assumptions C04_predicate_holds_of_model.
Theorem C04_check_sound : forall c, agree c = true -> wf_case c = true -> Nat.ltb 1 (o_procs (Chk_World.o c)) = false -> c04_ok c = true.
Proof. exact c04_check_sound. Qed.
Print Assumptions C04_check_sound.
