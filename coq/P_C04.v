(* P_C04.v — property theorems for C04 only.
   In the model every exception a test phase or layer hook can raise is an explicit outcome and every function is
   total: "the run is not aborted" is the absence of any exceptional result of Run.run.  What remains to state is
   that the *other* tests still run and the summary is still produced. *)
From ZT Require Import Base Layers Run RunFacts.

(* a test's failures and errors — however many events it produces — never prevent the following tests (absent -x) *)
Theorem C04_others_still_run : forall w o l ts s,
  rs_stop s = false -> o_x o = false -> run_seq w o l ts s = run_all w o l ts s.
Proof. intros w o l ts s Hs Hx. apply run_seq_all; auto. Qed.
Print Assumptions C04_others_still_run.

(* every test execution is closed by stopTest (per-test tear-down hooks) whatever happened inside *)
Theorem C04_every_test_is_closed : forall w o l t b s,
  exists mid, rs_ev (run_test w o l t b s) = rs_ev s ++ hooks_up w l ++ EStart t :: mid ++ hooks_down w l ++ [EStop t]
    /\ Forall (is_inner_ev t) mid /\ (t_deco b = false -> exists mid', mid = EPhase t 0 0 :: mid').
Proof. exact run_test_bracket. Qed.
Print Assumptions C04_every_test_is_closed.

(* the summary of the layer is produced *)
Theorem C04_summary_produced : forall w o n l p, 0 < n ->
  exists pre ran nf ne ns rest, ps_ev (repeat_loop w o n l p) = ps_ev p ++ pre ++ ESummary l ran nf ne ns :: rest.
Proof. exact repeat_loop_summary. Qed.
Print Assumptions C04_summary_produced.

(* a failing layer tearDown is recorded and the remaining layers are still torn down *)
Theorem C04_teardown_continues : forall w order optional p,
  snd (td_loop w order optional p) = false ->
  forall x, In x order -> ~ In x (ps_setup (fst (td_loop w order optional p))).
Proof. exact td_loop_completed_removes. Qed.
Print Assumptions C04_teardown_continues.
