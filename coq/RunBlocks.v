(* RunBlocks.v — the exact shape of every process trace of a run: layer events and, for each executed test, the
   event expansion of that test's protocol (Run.proto) under its own layer.  Refines RunBracket.wb. *)
From ZT Require Import Base Layers LayersFacts Run RunFacts RunBracket.

Inductive wbp (w : rworld) : list ev -> Prop :=
| wbp_nil : wbp w []
| wbp_layer e r : lev_ok w e -> wbp w r -> wbp w (e :: r)
| wbp_test l t b r : nth_error (tests w) t = Some b -> t_layer b = l -> wbp w r ->
    wbp w (flat_map (p_ev w l t) (proto b) ++ r).

Section B.
Variable w : rworld.
Variable o : ropts.

Lemma wbp_app a b : wbp w a -> wbp w b -> wbp w (a ++ b).
Proof.
  intros Ha Hb. induction Ha as [|e r He Hr IH|l t b0 r Hn Hl Hr IH]; simpl; [exact Hb | constructor; assumption|].
  rewrite <- app_assoc. econstructor; eassumption.
Qed.
Lemma wbp_snoc a e : wbp w a -> lev_ok w e -> wbp w (a ++ [e]).
Proof. intros Ha He. apply wbp_app; [exact Ha | constructor; [exact He | constructor]]. Qed.

Lemma run_test_wbp l t b s : nth_error (tests w) t = Some b -> t_layer b = l ->
  wbp w (rs_ev s) -> wbp w (rs_ev (run_test w o l t b s)).
Proof.
  intros Hn Hl Hs. destruct (run_test_effect w o l t b s) as [_ [_ [_ [_ [_ [_ E]]]]]]. rewrite E.
  apply wbp_app; [exact Hs|]. rewrite <- (app_nil_r (flat_map _ _)). econstructor; try eassumption. constructor.
Qed.

Lemma run_seq_wbp l : forall ts s, (forall t b, In (t, b) ts -> nth_error (tests w) t = Some b /\ t_layer b = l) ->
  wbp w (rs_ev s) -> wbp w (rs_ev (run_seq w o l ts s)).
Proof.
  induction ts as [|[t b] ts IH]; intros s Hts Hs; simpl; [exact Hs|].
  destruct (rs_stop s); [exact Hs|]. apply IH; [intros t' b' H; apply Hts; now right|].
  destruct (Hts t b (or_introl eq_refl)) as [H1 H2]. apply run_test_wbp; assumption.
Qed.

Lemma repeat_loop_wbp : forall n l p, wbp w (ps_ev p) -> wbp w (ps_ev (repeat_loop w o n l p)).
Proof.
  induction n as [|n IH]; intros l p Hp; simpl; [exact Hp|].
  set (rs := run_seq w o l (tests_of w l) rs_init).
  assert (Hrs : wbp w (rs_ev rs)).
  { apply run_seq_wbp; [|constructor]. intros t b H. apply tests_of_spec in H. exact H. }
  assert (H1 : wbp w (ps_ev p ++ rs_ev rs ++ [ESummary l (rs_run rs) (length (rs_fail rs) + length (rs_us rs))
                                   (length (rs_err rs) + o_import_errors o) (rs_skip rs)])).
  { apply wbp_app; [exact Hp|]. apply wbp_snoc; [exact Hrs | split; [reflexivity | exact I]]. }
  destruct (rs_stop rs); [exact H1|]. apply IH. exact H1.
Qed.

Lemma setup_layer_wbp : forall fuel l p, wbp w (ps_ev p) -> wbp w (ps_ev (fst (setup_layer w fuel l p))).
Proof.
  induction fuel as [|f IH]; intros l p Hp; [exact Hp|]. cbn [setup_layer].
  destruct (mem l (ps_setup p)); [exact Hp|].
  set (F := fun (acc : pstate * bool) b => let '(q, x) := acc in if x then (q, x) else setup_layer w f b q).
  assert (Hfold : forall bs q x, wbp w (ps_ev q) -> wbp w (ps_ev (fst (fold_left F bs (q, x))))).
  { induction bs as [|b bs IHb]; intros q x Hq; simpl; [exact Hq|].
    destruct x; [apply IHb; exact Hq|]. specialize (IH b q Hq). destruct (setup_layer w f b q) as [q1 x1]. apply IHb. exact IH. }
  specialize (Hfold (bases_of (lw w) l) p false Hp).
  destruct (fold_left F (bases_of (lw w) l) (p, false)) as [p1 exc]. simpl in Hfold.
  destruct exc; [exact Hfold|]. cbn [fst ps_ev]. apply wbp_snoc; [exact Hfold|].
  split; [reflexivity|]. intros E0. rewrite E0. reflexivity.
Qed.

Lemma td_loop_wbp : forall order optional p, wbp w (ps_ev p) -> wbp w (ps_ev (fst (td_loop w order optional p))).
Proof.
  induction order as [|l order IH]; intros optional p Hp; simpl; [exact Hp|].
  set (out := match l_teardown (spec_of w l) with None => HOk | Some sc => script_at sc (cnt l (ps_att_td p)) end).
  set (p1 := {| ps_setup := filter (fun x => negb (Nat.eqb x l)) (ps_setup p); ps_att_su := ps_att_su p;
                ps_att_td := inc l (ps_att_td p); ps_ran := ps_ran p; ps_fail := ps_fail p;
                ps_err := match out with HRaise => ps_err p ++ [NLayerTearDown l] | _ => ps_err p end;
                ps_skip := ps_skip p; ps_ev := ps_ev p ++ [ETearDown l out] |}).
  assert (H1 : wbp w (ps_ev p1)).
  { unfold p1. cbn [ps_ev]. apply wbp_snoc; [exact Hp|]. split; [reflexivity|]. intros E0. unfold out. rewrite E0. reflexivity. }
  destruct out; [apply IH; exact H1 | apply IH; exact H1 |]. destruct optional; [apply IH; exact H1|].
  cbn [fst pemit ps_ev]. apply wbp_snoc; [exact H1 | split; [reflexivity | exact I]].
Qed.

Lemma run_layer_wbp l p : wbp w (ps_ev p) -> wbp w (ps_ev (fst (run_layer w o l p))).
Proof.
  intros Hp. unfold run_layer, tear_down_unneeded.
  pose proof (td_loop_wbp (rev (order_by_bases (lw w) (filter (fun x => negb (mem x (gather_layers (lw w) l))) (ps_setup p)))) false p Hp) as Ht.
  destruct (td_loop w _ false p) as [p1 cannot]. simpl in Ht. destruct cannot; [exact Ht|].
  pose proof (setup_layer_wbp (S (nlayers (lw w))) l p1 Ht) as Hs.
  destruct (setup_layer w (S (nlayers (lw w))) l p1) as [p2 exc]. simpl in Hs.
  destruct exc; [exact Hs|]. cbn [fst]. apply repeat_loop_wbp. exact Hs.
Qed.

Lemma parent_loop_wbp : forall ls p ran n, wbp w (ps_ev p) -> wbp w (ps_ev (fst (fst (fst (fst (parent_loop w o ls p ran n)))))).
Proof.
  induction ls as [|l ls IH]; intros p ran n Hp; simpl; [exact Hp|].
  pose proof (run_layer_wbp l p Hp) as Hl. destruct (run_layer w o l p) as [p1 cannot]. simpl in Hl.
  destruct cannot; [exact Hl|].
  destruct (o_x o && match ps_fail p1, ps_err p1 with [], [] => false | _, _ => true end); [exact Hl|].
  apply IH. exact Hl.
Qed.

Theorem child_wbp l : wbp w (c_ev (child_run w o l)).
Proof.
  unfold child_run. pose proof (run_layer_wbp l ps_init (wbp_nil w)) as H. destruct (run_layer w o l ps_init) as [p1 c1].
  simpl in H. unfold tear_down_unneeded.
  pose proof (td_loop_wbp (rev (order_by_bases (lw w) (filter (fun x => negb (mem x [])) (ps_setup p1)))) true p1 H) as H2.
  destruct (td_loop w _ true p1) as [p2 c2]. exact H2.
Qed.

Theorem run_wbp :
  wbp w (r_parent (run w o)) /\ forall c, In c (r_children (run w o)) -> wbp w (c_ev c).
Proof.
  unfold run.
  set (A := if 1 <? o_procs o then _ else _).
  assert (HA : wbp w (ps_ev (fst (fst (fst (fst A)))))).
  { unfold A. destruct (1 <? o_procs o).
    - simpl. induction (reps o) as [|k IHk]; simpl; [constructor | constructor; [split; [reflexivity | exact I] | exact IHk]].
    - apply parent_loop_wbp. constructor. }
  destruct A as [[[[p1 ran1] rest] resume] n1]. simpl in HA.
  set (B := if resume then _ else _).
  assert (HB : forall c, In c (fst (fst (fst B))) -> exists l, c = child_run w o l).
  { unfold B. destruct resume; [apply resume_seq_children | intros c []]. }
  destruct B as [[[cs ran2] f2] e2]. simpl in HB.
  set (p2 := {| ps_setup := ps_setup p1; ps_att_su := ps_att_su p1; ps_att_td := ps_att_td p1; ps_ran := 0;
                ps_fail := []; ps_err := []; ps_skip := ps_skip p1; ps_ev := ps_ev p1 |}).
  unfold tear_down_unneeded.
  pose proof (td_loop_wbp (rev (order_by_bases (lw w) (filter (fun x => negb (mem x [])) (ps_setup p2)))) true p2 HA) as Ht.
  destruct (td_loop w _ true p2) as [p3 c3]. simpl in Ht. cbn [r_parent r_children].
  split; [exact Ht|]. intros c Hc. destruct (HB c Hc) as [l ->]. apply child_wbp.
Qed.
End B.
