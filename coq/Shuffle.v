(* Shuffle.v — model of zope.testrunner.shuffle.Shuffle.global_setup.
   The RNG is an oracle: `ks` are the 53-bit integers k with rng.random() = k / 2^53.
   floor(r * (i+1)) is computed bit-exactly on integers: the double product is
   RN53(k * (i+1)) / 2^53 where RN53 rounds to 53 significant bits, ties to even. *)
From ZT Require Import Base.
Open Scope N_scope.

Definition rn53 (n : N) : N :=
  let b := N.size n in
  if b <=? 53 then n else
  let sh := b - 53 in
  let q := N.shiftr n sh in
  let r := N.land n (N.ones sh) in
  let half := N.shiftl 1 (sh - 1) in
  let q' := if (half <? r) || ((r =? half) && N.odd q) then q + 1 else q in
  N.shiftl q' sh.

(* j = floor(random() * (i + 1)) *)
Definition pick (k : N) (i : nat) : nat := N.to_nat (N.shiftr (rn53 (k * N.of_nat (S i))) 53).

Section L.
Context {A : Type}.

Fixpoint set_nth (l : list A) (n : nat) (x : A) : list A :=
  match l, n with
  | [], _ => []
  | _ :: r, O => x :: r
  | y :: r, S n' => y :: set_nth r n' x
  end.

(* tests[i], tests[j] = tests[j], tests[i] ; None = IndexError *)
Definition swap (l : list A) (i j : nat) : option (list A) :=
  match nth_error l i, nth_error l j with
  | Some a, Some b => Some (set_nth (set_nth l i b) j a)
  | _, _ => None
  end.

(* for i in reversed(range(1, len(tests))): consumes one random number per iteration *)
Fixpoint loop (i : nat) (l : list A) (ks : list N) : option (list A * list N) :=
  match i with
  | O => Some (l, ks)
  | S i' =>
    match ks with
    | [] => None                       (* oracle exhausted: excluded by the theorems' hypotheses *)
    | k :: ks' =>
      match swap l i (pick k i) with
      | Some l' => loop i' l' ks'
      | None => None
      end
    end
  end.

Definition shuffle_layer (l : list A) (ks : list N) : option (list A * list N) :=
  loop (length l - 1) l ks.

(* layers in sorted(name) order share one RNG stream *)
Fixpoint shuffle_layers (ls : list (str * list A)) (ks : list N) : option (list (str * list A)) :=
  match ls with
  | [] => Some []
  | (n, t) :: r =>
    match shuffle_layer t ks with
    | Some (t', ks') => match shuffle_layers r ks' with Some r' => Some ((n, t') :: r') | None => None end
    | None => None
    end
  end.
End L.

(* sorted(tests_by_layer_name.items()): insertion sort by name *)
Fixpoint insert_by_name {A} (x : str * A) (l : list (str * A)) : list (str * A) :=
  match l with
  | [] => [x]
  | y :: r => match str_cmp (fst x) (fst y) with Lt => x :: y :: r | _ => y :: insert_by_name x r end
  end.
Definition sort_by_name {A} (l : list (str * A)) : list (str * A) := fold_right insert_by_name [] l.

Definition shuffle_all {A} (ls : list (str * list A)) (ks : list N) := shuffle_layers (sort_by_name ls) ks.
