(* RunStop.v — whole-run statement of C16 (--stop-on-error) on the run model: a scan of each process's events
   shows that after the first bad outcome no test starts and no layer is set up; no subprocess is started once
   a bad outcome is known; the verdict is failed.  (That everything set up is torn down again is C01's
   whole-run theorem, RunInv.v; that the summary is printed is repeat_loop_summary.) *)
From ZT Require Import Base Layers LayersFacts Run RunFacts RunLedger.

Definition rbad (r : rkind) : bool := match r with RFail | RErr | RSubFail | RSubErr | RUS => true | _ => false end.
(* a bad outcome: failing/erroring (sub)test, unexpected success, or an exception out of a layer's setUp *)
Definition ev_bad (e : ev) : bool :=
  match e with EResult _ r _ => rbad r | ESetUp _ HOk => false | ESetUp _ _ => true | _ => false end.
(* what must not happen afterwards: a test starting, a layer set-up being attempted *)
Definition ev_begin (e : ev) : bool := match e with EStart _ | ESetUp _ _ => true | _ => false end.
Definition scan (st : bool * bool) (e : ev) : bool * bool :=
  (fst st || ev_bad e, snd st && negb (fst st && ev_begin e)).
Definition scan_all (l : list ev) (st : bool * bool) : bool * bool := fold_left scan l st.
Definition scan0 (l : list ev) : bool * bool := scan_all l (false, true).
Definition seen_bad (l : list ev) : bool := fst (scan0 l).
Definition stop_ok (l : list ev) : bool := snd (scan0 l).

Lemma scan_app a b st : scan_all (a ++ b) st = scan_all b (scan_all a st).
Proof. unfold scan_all. apply fold_left_app. Qed.

Definition quiet (e : ev) : bool := negb (ev_bad e) && negb (ev_begin e).
Lemma scan_quiet : forall l st, forallb quiet l = true -> scan_all l st = st.
Proof.
  induction l as [|e l IH]; intros [b k] H; [reflexivity|].
  simpl in H. apply andb_prop in H. destruct H as [He Hl]. unfold quiet in He. apply andb_prop in He. destruct He as [E1 E2].
  apply negb_true_iff in E1. apply negb_true_iff in E2.
  unfold scan_all. cbn [fold_left].
  replace (scan (b, k) e) with (b, k) by (unfold scan; cbn [fst snd]; now rewrite E1, E2, orb_false_r, andb_false_r, andb_true_r).
  apply (IH (b, k) Hl).
Qed.

Lemma scan_nobegin : forall l st, forallb (fun e => negb (ev_begin e)) l = true ->
  scan_all l st = (fst st || existsb ev_bad l, snd st).
Proof.
  induction l as [|e l IH]; intros [b k] H; [simpl; now rewrite orb_false_r|].
  simpl in H. apply andb_prop in H. destruct H as [He Hl]. apply negb_true_iff in He.
  unfold scan_all. cbn [fold_left].
  replace (scan (b, k) e) with (b || ev_bad e, k) by (unfold scan; cbn [fst snd]; now rewrite He, andb_false_r, andb_true_r).
  fold (scan_all l (b || ev_bad e, k)). rewrite (IH _ Hl). cbn [fst snd existsb]. now rewrite orb_assoc.
Qed.

Lemma ev_bad_is_bad_ev e : ev_bad e = true -> bad_ev e = true.
Proof.
  unfold bad_ev. rewrite Nat.ltb_lt. destruct e as [l h|l h| | | | |t r k| | |]; simpl; try discriminate.
  - destruct h; simpl; (discriminate || lia).
  - destruct r; simpl; (discriminate || lia).
Qed.

Lemma seen_bad_has_bad_ev : forall l st, fst (scan_all l st) = true -> fst st = true \/ exists e, In e l /\ ev_bad e = true.
Proof.
  induction l as [|e l IH]; intros [b k] H; simpl in *; [now left|].
  apply IH in H. simpl in H. destruct H as [H|[e' [He' Hb]]].
  - apply orb_prop in H. destruct H as [H|H]; [now left|]. right. exists e. split; [now left | exact H].
  - right. exists e'. split; [now right | exact Hb].
Qed.

Section S.
Variable w : rworld.
Variable o : ropts.
Hypothesis Hx : o_x o = true.

Lemma hooks_up_q l : forallb quiet (hooks_up w l) = true.
Proof. unfold hooks_up. induction (filter _ _) as [|x r IH]; simpl; [reflexivity | exact IH]. Qed.
Lemma hooks_down_q l : forallb quiet (hooks_down w l) = true.
Proof. unfold hooks_down. induction (filter _ _) as [|x r IH]; simpl; [reflexivity | exact IH]. Qed.

Lemma inner_nobegin l t : forall mid, forallb inner mid = true ->
  forallb (fun e => negb (ev_begin e)) (flat_map (p_ev w l t) mid) = true /\
  existsb ev_bad (flat_map (p_ev w l t) mid) = existsb p_bad mid.
Proof.
  induction mid as [|p mid IH]; simpl; intros H; [auto|].
  apply andb_prop in H. destruct H as [Hp Hm]. destruct (IH Hm) as [I1 I2].
  destruct p as [| |ph k|r k|]; simpl in Hp; try discriminate; simpl.
  - split; [exact I1 | exact I2].
  - split; [exact I1|]. rewrite I2. destruct r; reflexivity.
Qed.

(* one test, started when nothing bad is known: its events are in order, and bad exactly when the test is *)
Lemma test_scan l t b : scan0 (flat_map (p_ev w l t) (proto b)) = (bad_b b, true).
Proof.
  unfold bad_b, scan0. destruct (proto_shape b) as [[_ E]|[_ [mid [E Hin]]]]; rewrite E.
  - simpl. rewrite app_nil_r, !scan_app.
    rewrite (scan_quiet (hooks_up w l)) by apply hooks_up_q. simpl.
    rewrite (scan_quiet (hooks_down w l)) by apply hooks_down_q. reflexivity.
  - destruct (inner_nobegin l t mid Hin) as [N1 N2].
    cbn [flat_map p_ev]. rewrite flat_map_app. cbn [flat_map p_ev]. rewrite app_nil_r.
    rewrite !scan_app. rewrite (scan_quiet (hooks_up w l)) by apply hooks_up_q.
    cbn [scan_all fold_left scan fst snd ev_bad ev_begin orb andb negb app].
    rewrite (scan_nobegin _ _ N1). cbn [fst snd orb].
    rewrite (scan_quiet (hooks_down w l)) by apply hooks_down_q.
    cbn [scan_all fold_left scan fst snd ev_bad ev_begin]. rewrite N2.
    unfold scan. cbn [fst snd ev_bad ev_begin existsb p_bad orb andb negb]. rewrite existsb_app. cbn [existsb p_bad].
    now rewrite !orb_false_r, andb_false_r.
Qed.

Lemma bad_names_nonempty t : forall ps, existsb p_bad ps = true ->
  flat_map (p_fail t) ps ++ flat_map (p_err t) ps ++ flat_map (p_us t) ps <> [].
Proof.
  induction ps as [|p ps IH]; simpl; [discriminate|]. intros H.
  destruct (p_bad p) eqn:Ep.
  - destruct p as [| |ph k|r k|]; simpl in Ep; try discriminate.
    destruct r; simpl in *; try discriminate; intros K; apply (f_equal (@length _)) in K;
      rewrite ?app_length in K; simpl in K; rewrite ?app_length in K; simpl in K; lia.
  - simpl in H. specialize (IH H). intros K. apply IH.
    apply app_eq_nil in K. destruct K as [K1 K]. apply app_eq_nil in K. destruct K as [K2 K3].
    apply app_eq_nil in K1. apply app_eq_nil in K2. apply app_eq_nil in K3.
    destruct K1 as [_ ->], K2 as [_ ->], K3 as [_ ->]. reflexivity.
Qed.

Definition rs_inv (s : rstate) : Prop :=
  exists bd, scan0 (rs_ev s) = (bd, true) /\ (bd = true -> rs_stop s = true /\ rs_fail s ++ rs_err s ++ rs_us s <> []).

Lemma run_test_inv l t b s : scan0 (rs_ev s) = (false, true) -> rs_stop s = false -> rs_inv (run_test w o l t b s).
Proof.
  intros Hs Hstop.
  destruct (run_test_effect w o l t b s) as [_ [F2 [F3 [_ [F5 [F6 F7]]]]]].
  exists (bad_b b). split.
  - rewrite F7. unfold scan0 in *. rewrite scan_app, Hs. apply test_scan.
  - intros Hb. rewrite F6, F2, F3, F5, Hstop, Hx. unfold bad_b in Hb. rewrite Hb. split; [reflexivity|].
    pose proof (bad_names_nonempty t (proto b) Hb) as Hn. intros K. apply Hn.
    apply app_eq_nil in K. destruct K as [K1 K]. apply app_eq_nil in K. destruct K as [K2 K3].
    apply app_eq_nil in K1. apply app_eq_nil in K2. apply app_eq_nil in K3.
    destruct K1 as [_ ->], K2 as [_ ->], K3 as [_ ->]. reflexivity.
Qed.

Lemma run_seq_inv l : forall ts s, scan0 (rs_ev s) = (false, true) -> rs_inv (run_seq w o l ts s).
Proof.
  induction ts as [|[t b] ts IH]; intros s Hs; simpl.
  - exists false. split; [exact Hs | discriminate].
  - destruct (rs_stop s) eqn:Hstop; [exists false; split; [exact Hs | discriminate]|].
    destruct (run_test_inv l t b s Hs Hstop) as [bd [H1 H2]]. destruct bd.
    + destruct (H2 eq_refl) as [Hst Hne]. rewrite run_seq_stopped by exact Hst. exists true. split; [exact H1 | intros _; split; assumption].
    + apply IH. exact H1.
Qed.

(* ---------------- the process ---------------- *)
Definition ps_inv (p : pstate) : Prop :=
  exists bd, scan0 (ps_ev p) = (bd, true) /\ (bd = true -> ps_fail p ++ ps_err p <> []).

Lemma repeat_loop_inv : forall n l p, scan0 (ps_ev p) = (false, true) -> ps_inv (repeat_loop w o n l p).
Proof.
  induction n as [|n IH]; intros l p Hp; simpl.
  - exists false. split; [exact Hp | discriminate].
  - set (rs := run_seq w o l (tests_of w l) rs_init).
    destruct (run_seq_inv l (tests_of w l) rs_init eq_refl) as [bd [R1 R2]]. fold rs in R1, R2.
    assert (Hev : scan0 (ps_ev p ++ rs_ev rs ++ [ESummary l (rs_run rs) (length (rs_fail rs) + length (rs_us rs))
                                   (length (rs_err rs) + o_import_errors o) (rs_skip rs)]) = (bd, true)).
    { unfold scan0 in *. rewrite !scan_app, Hp, R1. apply scan_quiet. reflexivity. }
    destruct (rs_stop rs) eqn:Hst.
    + exists bd. split; [exact Hev|]. cbn [ps_fail ps_err]. intros Hb. destruct (R2 Hb) as [_ Hne]. intros K. apply Hne.
      apply app_eq_nil in K. destruct K as [K1 K2]. apply app_eq_nil in K1. destruct K1 as [_ K1].
      apply app_eq_nil in K1. destruct K1 as [-> ->]. apply app_eq_nil in K2. destruct K2 as [_ ->]. reflexivity.
    + apply IH. cbn [ps_ev]. destruct bd; [destruct (R2 eq_refl) as [C _]; congruence | exact Hev].
Qed.

Lemma setup_layer_inv : forall fuel l p, scan0 (ps_ev p) = (false, true) ->
  let '(p', exc) := setup_layer w fuel l p in
  exists bd, scan0 (ps_ev p') = (bd, true) /\ (bd = true -> exc = true).
Proof.
  induction fuel as [|f IH]; intros l p Hp; simpl.
  - exists false. split; [exact Hp | discriminate].
  - destruct (mem l (ps_setup p)); [exists false; split; [exact Hp | discriminate]|].
    set (F := fun (acc : pstate * bool) b => let '(q, x) := acc in if x then (q, x) else setup_layer w f b q).
    assert (Hfold : forall bs q x, (exists bd, scan0 (ps_ev q) = (bd, true) /\ (bd = true -> x = true)) ->
              let '(q', x') := fold_left F bs (q, x) in exists bd, scan0 (ps_ev q') = (bd, true) /\ (bd = true -> x' = true)).
    { induction bs as [|b bs IHb]; intros q x Hq; simpl; [exact Hq|].
      destruct x; [apply IHb; exact Hq|].
      destruct Hq as [bd [Q1 Q2]]. destruct bd; [specialize (Q2 eq_refl); discriminate|].
      specialize (IH b q Q1). destruct (setup_layer w f b q) as [q1 x1]. apply IHb. exact IH. }
    specialize (Hfold (bases_of (lw w) l) p false (ex_intro _ false (conj Hp (fun H => H)))).
    destruct (fold_left F (bases_of (lw w) l) (p, false)) as [p1 exc]. destruct Hfold as [bd [H1 H2]].
    destruct exc; [exists bd; split; [exact H1 | auto]|].
    destruct bd; [specialize (H2 eq_refl); discriminate|].
    cbn [ps_ev]. unfold scan0 in *. rewrite scan_app, H1.
    destruct (match l_setup (spec_of w l) with None => HOk | Some sc => script_at sc (cnt l (ps_att_su p1)) end);
      simpl; [exists false | exists true | exists true]; split; auto; discriminate.
Qed.

Lemma td_loop_inv : forall order optional p,
  let q := fst (td_loop w order optional p) in
  scan0 (ps_ev q) = scan0 (ps_ev p) /\ ps_fail q = ps_fail p /\ exists ext, ps_err q = ps_err p ++ ext.
Proof.
  induction order as [|l order IH]; intros optional p; simpl; [repeat split; auto; exists []; now rewrite app_nil_r|].
  set (out := match l_teardown (spec_of w l) with None => HOk | Some sc => script_at sc (cnt l (ps_att_td p)) end).
  set (p1 := {| ps_setup := filter (fun x => negb (Nat.eqb x l)) (ps_setup p); ps_att_su := ps_att_su p;
                ps_att_td := inc l (ps_att_td p); ps_ran := ps_ran p; ps_fail := ps_fail p;
                ps_err := match out with HRaise => ps_err p ++ [NLayerTearDown l] | _ => ps_err p end;
                ps_skip := ps_skip p; ps_ev := ps_ev p ++ [ETearDown l out] |}).
  assert (S1 : scan0 (ps_ev p1) = scan0 (ps_ev p) /\ ps_fail p1 = ps_fail p /\ exists ext, ps_err p1 = ps_err p ++ ext).
  { unfold p1, scan0. cbn [ps_ev ps_fail ps_err]. rewrite scan_app. rewrite (scan_quiet [ETearDown l out]) by reflexivity.
    repeat split. destruct out; [exists [] | exists [NLayerTearDown l] | exists []]; now rewrite ?app_nil_r. }
  destruct S1 as [A1 [A2 [ext A3]]].
  assert (Hrec : forall opt, let q := fst (td_loop w order opt p1) in
            scan0 (ps_ev q) = scan0 (ps_ev p) /\ ps_fail q = ps_fail p /\ exists ext, ps_err q = ps_err p ++ ext).
  { intros opt. destruct (IH opt p1) as [B1 [B2 [ext2 B3]]]. repeat split; try congruence.
    exists (ext ++ ext2). rewrite B3, A3, app_assoc. reflexivity. }
  destruct out; [apply Hrec | apply Hrec |]. destruct optional; [apply Hrec|].
  cbn [fst pemit ps_ev ps_fail ps_err]. unfold scan0 in *. rewrite scan_app, (scan_quiet [ECannot l]) by reflexivity.
  split; [exact A1|]. split; [exact A2 | exists ext; exact A3].
Qed.

Lemma ps_inv_td order optional p : ps_inv p -> ps_inv (fst (td_loop w order optional p)).
Proof.
  intros [bd [H1 H2]]. destruct (td_loop_inv order optional p) as [A1 [A2 [ext A3]]].
  exists bd. split; [congruence|]. intros Hb. specialize (H2 Hb). rewrite A2, A3. intros K. apply H2.
  apply app_eq_nil in K. destruct K as [-> K]. apply app_eq_nil in K. destruct K as [-> _]. reflexivity.
Qed.

Lemma run_layer_inv l p : scan0 (ps_ev p) = (false, true) -> ps_inv (fst (run_layer w o l p)).
Proof.
  intros Hp. unfold run_layer, tear_down_unneeded.
  pose proof (td_loop_inv (rev (order_by_bases (lw w) (filter (fun x => negb (mem x (gather_layers (lw w) l))) (ps_setup p)))) false p) as Ht.
  destruct (td_loop w _ false p) as [p1 cannot]. simpl in Ht. destruct Ht as [T1 _].
  destruct cannot; [exists false; split; [simpl; congruence | discriminate]|].
  assert (Hp1 : scan0 (ps_ev p1) = (false, true)) by congruence.
  pose proof (setup_layer_inv (S (nlayers (lw w))) l p1 Hp1) as Hs.
  destruct (setup_layer w (S (nlayers (lw w))) l p1) as [p2 exc]. destruct Hs as [bd [S1 S2]].
  destruct exc.
  - exists bd. cbn [fst ps_ev ps_fail ps_err]. split; [exact S1|]. intros _ K.
    apply app_eq_nil in K. destruct K as [_ K]. apply app_eq_nil in K. destruct K as [_ K]. discriminate K.
  - destruct bd; [specialize (S2 eq_refl); discriminate|]. cbn [fst]. apply repeat_loop_inv. exact S1.
Qed.

Lemma ps_inv_clean p : ps_inv p -> ps_fail p = [] -> ps_err p = [] -> scan0 (ps_ev p) = (false, true).
Proof. intros [bd [H1 H2]] Hf He. destruct bd; [|exact H1]. exfalso. apply (H2 eq_refl). now rewrite Hf, He. Qed.

Lemma parent_loop_inv : forall ls p ran n, scan0 (ps_ev p) = (false, true) ->
  ps_inv (fst (fst (fst (fst (parent_loop w o ls p ran n))))).
Proof.
  induction ls as [|l ls IH]; intros p ran n Hp; simpl.
  - exists false. split; [exact Hp | discriminate].
  - pose proof (run_layer_inv l p Hp) as Hl. destruct (run_layer w o l p) as [p1 cannot]. simpl in Hl.
    destruct cannot; [exact Hl|]. rewrite Hx. cbn [andb].
    destruct (ps_fail p1) as [|x f] eqn:Ef; [destruct (ps_err p1) as [|y e] eqn:Ee|]; try exact Hl.
    apply IH. apply ps_inv_clean; assumption.
Qed.

Lemma child_inv l : let c := child_run w o l in
  exists bd, scan0 (c_ev c) = (bd, true) /\ (bd = true -> c_fail c ++ c_err c <> []).
Proof.
  unfold child_run. pose proof (run_layer_inv l ps_init eq_refl) as H. destruct (run_layer w o l ps_init) as [p1 c1].
  simpl in H. unfold tear_down_unneeded.
  pose proof (ps_inv_td (rev (order_by_bases (lw w) (filter (fun x => negb (mem x [])) (ps_setup p1)))) true p1 H) as H2.
  destruct (td_loop w _ true p1) as [p2 c2]. exact H2.
Qed.

Lemma resume_seq_stop : forall ls ran f e,
  let cs := fst (fst (fst (resume_seq w o ls ran f e))) in
  (f ++ e <> [] -> cs = []) /\
  (forall c, In c cs -> stop_ok (c_ev c) = true) /\
  (forall a c b, cs = a ++ c :: b -> seen_bad (c_ev c) = true -> b = []).
Proof.
  induction ls as [|l ls IH]; intros ran f e; simpl.
  - split; [auto|]. split; [intros c []|]. intros [|x a] c b K; discriminate K.
  - rewrite Hx. cbn [andb].
    destruct (match f, e with [], [] => false | _, _ => true end) eqn:Hfe.
    + simpl. split; [auto|]. split; [intros c []|]. intros [|x a] c b K; discriminate K.
    + assert (Hnil : f = [] /\ e = []) by (destruct f; [destruct e; [auto | discriminate] | discriminate]).
      destruct Hnil as [-> ->]. cbn [app].
      specialize (IH (ran + c_ran (child_run w o l)) (c_fail (child_run w o l)) (c_err (child_run w o l))).
      destruct (resume_seq w o ls _ _ _) as [[[cs r'] f'] e']. simpl in IH. destruct IH as [I1 [I2 I3]]. simpl.
      destruct (child_inv l) as [bd [C1 C2]].
      split; [intros K; exfalso; apply K; reflexivity|]. split.
      * intros c [<-|Hc]; [unfold stop_ok; rewrite C1; reflexivity | apply I2; exact Hc].
      * intros [|x a] c b K Hb.
        -- injection K as <- <-. apply I1. unfold seen_bad in Hb. rewrite C1 in Hb. simpl in Hb. apply C2. exact Hb.
        -- injection K as <- K. eapply I3; eassumption.
Qed.

(* the whole run *)
Theorem run_stop :
  let r := run w o in
  stop_ok (r_parent r) = true /\
  (forall c, In c (r_children r) -> stop_ok (c_ev c) = true) /\
  (seen_bad (r_parent r) = true -> r_children r = []) /\
  (forall a c b, r_children r = a ++ c :: b -> seen_bad (c_ev c) = true -> b = []).
Proof.
  unfold run.
  set (A := if 1 <? o_procs o then _ else _).
  assert (HA : ps_inv (fst (fst (fst (fst A))))).
  { unfold A. destruct (1 <? o_procs o).
    - simpl. exists false. split; [|discriminate]. unfold scan0, pemit. cbn [ps_ev ps_init app].
      apply scan_quiet. induction (reps o) as [|k IHk]; simpl; [reflexivity | exact IHk].
    - apply parent_loop_inv. reflexivity. }
  destruct A as [[[[p1 ran1] rest] resume] n1]. simpl in HA. destruct HA as [bd [P1 P2]].
  set (B := if resume then _ else _).
  assert (HB : let cs := fst (fst (fst B)) in
            (ps_fail p1 ++ ps_err p1 <> [] -> cs = []) /\ (forall c, In c cs -> stop_ok (c_ev c) = true) /\
            (forall a c b, cs = a ++ c :: b -> seen_bad (c_ev c) = true -> b = [])).
  { unfold B. destruct resume; [apply resume_seq_stop|].
    simpl. split; [auto|]. split; [intros c []|]. intros [|x a] c b K; discriminate K. }
  destruct B as [[[cs ran2] f2] e2]. simpl in HB. destruct HB as [B1 [B2 B3]].
  set (p2 := {| ps_setup := ps_setup p1; ps_att_su := ps_att_su p1; ps_att_td := ps_att_td p1; ps_ran := 0;
                ps_fail := []; ps_err := []; ps_skip := ps_skip p1; ps_ev := ps_ev p1 |}).
  unfold tear_down_unneeded.
  pose proof (td_loop_inv (rev (order_by_bases (lw w) (filter (fun x => negb (mem x [])) (ps_setup p2)))) true p2) as Ht.
  destruct (td_loop w _ true p2) as [p3 c3]. simpl in Ht. destruct Ht as [T1 _].
  cbn [r_parent r_children]. unfold stop_ok, seen_bad. rewrite T1, P1. cbn [fst snd].
  split; [reflexivity|]. split; [exact B2|]. split; [|exact B3].
  intros Hb. apply B1. apply P2. exact Hb.
Qed.
End S.

(* a bad outcome anywhere makes the verdict "failed" (with or without -x) *)
Theorem bad_outcome_fails w o :
  wf (lw w) -> (forall t, In t (tests w) -> t_layer t < nlayers (lw w)) ->
  (seen_bad (r_parent (run w o)) = true \/ exists c, In c (r_children (run w o)) /\ seen_bad (c_ev c) = true) ->
  r_failed (run w o) = true.
Proof.
  intros Hwf Ht H. apply (run_failed_iff_bad_event w o Hwf Ht). right.
  destruct H as [H|[c [Hc H]]]; unfold seen_bad, scan0 in H; apply seen_bad_has_bad_ev in H; simpl in H;
    destruct H as [H|[e [He Hb]]]; try discriminate.
  - left. exists e. split; [exact He | apply ev_bad_is_bad_ev; exact Hb].
  - right. exists c, e. repeat split; auto. apply ev_bad_is_bad_ev; exact Hb.
Qed.
