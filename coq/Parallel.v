(* Parallel.v — resume_tests' scheduler as a transition system: the parent's loop iteration (start up to N
   reader threads, reap the finished ones, print the finished results in order) against an environment that
   delivers children's output lines and completions in any order. *)
From ZT Require Import Base.

Inductive act :=
| Tick                       (* one iteration of "while ready_threads or running_threads" *)
| Line (i tok : nat)         (* child i writes a (non-dot) stdout line *)
| Done (i : nat).            (* child i's reader thread finishes: result.done = True *)

Record pst := {
  ready : list nat;                    (* layers whose thread has not been started, in order *)
  running : list nat;                  (* started, not yet reaped *)
  fin : list nat;                      (* result.done *)
  outl : list (nat * list nat);        (* result.stdout per child, arrival order *)
  cur : nat;                           (* how many results have been printed *)
  printed : list nat                   (* what the parent wrote to its stdout *)
}.

Fixpoint lines_of (i : nat) (m : list (nat * list nat)) : list nat :=
  match m with [] => [] | (k, l) :: r => if Nat.eqb k i then l else lines_of i r end.
Fixpoint add_line (i tok : nat) (m : list (nat * list nat)) : list (nat * list nat) :=
  match m with
  | [] => [(i, [tok])]
  | (k, l) :: r => if Nat.eqb k i then (k, l ++ [tok]) :: r else (k, l) :: add_line i tok r
  end.

Section P.
Variable N : nat.                      (* options.processes *)
Variable order : list nat.             (* the layers, in run order *)

(* "while len(running) < N and ready: start one" *)
Fixpoint start (fuel : nat) (rd rn : list nat) : list nat * list nat :=
  match fuel with
  | O => (rd, rn)
  | S f => match rd with
           | [] => (rd, rn)
           | x :: r => if Nat.ltb (length rn) N then start f r (rn ++ [x]) else (rd, rn)
           end
  end.
(* "while current_result and current_result.done: write its lines; advance" *)
Fixpoint print (fuel : nat) (c : nat) (fin : list nat) (outl : list (nat * list nat)) (pr : list nat) : nat * list nat :=
  match fuel with
  | O => (c, pr)
  | S f => match nth_error order c with
           | Some i => if mem i fin then print f (S c) fin outl (pr ++ lines_of i outl) else (c, pr)
           | None => (c, pr)
           end
  end.

Definition pstep (s : pst) (a : act) : pst :=
  match a with
  | Tick =>
    let '(rd, rn) := start (length (ready s)) (ready s) (running s) in
    let rn' := filter (fun i => negb (mem i (fin s))) rn in          (* threads that are no longer alive are dropped *)
    let '(c, pr) := print (length order) (cur s) (fin s) (outl s) (printed s) in
    {| ready := rd; running := rn'; fin := fin s; outl := outl s; cur := c; printed := pr |}
  | Line i tok =>
    if mem i (running s) && negb (mem i (fin s))
    then {| ready := ready s; running := running s; fin := fin s; outl := add_line i tok (outl s); cur := cur s; printed := printed s |}
    else s
  | Done i =>
    if mem i (running s) && negb (mem i (fin s))
    then {| ready := ready s; running := running s; fin := fin s ++ [i]; outl := outl s; cur := cur s; printed := printed s |}
    else s
  end.

Definition p_init : pst := {| ready := order; running := []; fin := []; outl := []; cur := 0; printed := [] |}.
Definition prun (sched : list act) : pst := fold_left pstep sched p_init.
End P.
