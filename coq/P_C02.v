(* P_C02.v — property theorems for C02 only. *)
From ZT Require Import Base Layers Run RunFacts.

(* the verdict is 'failed' exactly when an import failed or the failure or error list is non-empty … *)
Theorem C02_verdict : forall w o,
  r_failed (run w o) = true <->
  (0 < o_import_errors o \/ r_fail (run w o) <> [] \/ r_err (run w o) <> []).
Proof. exact verdict_iff. Qed.
Print Assumptions C02_verdict.

(* … and those lists receive exactly the names of failing / erroring (sub)tests and unexpected successes *)
Theorem C02_lists_hold_the_bad_results : forall w o l ts s,
  let s' := run_all w o l ts s in
  rs_fail s' = rs_fail s ++ flat_map fail_names ts /\
  rs_err s' = rs_err s ++ flat_map err_names ts /\
  rs_us s' = rs_us s ++ flat_map us_names ts.
Proof. intros w o l ts s. destruct (run_all_counts w o l ts s) as [_ [H1 [H2 [H3 _]]]]. auto. Qed.
Print Assumptions C02_lists_hold_the_bad_results.

(* ------------------------------------------------------------------------------------------------------------
   The whole run, for EVERY world, option set (-x, --repeat, -j N), fault script and process layout: the verdict
   is "failed" exactly when an import failed or some process (the parent or a layer subprocess) recorded a
   failure or error event (failing/erroring test or subtest, unexpected success, layer setUp/tearDown error,
   crashed or unreadable subprocess).  Nothing recorded is dropped on the way to the verdict and nothing is
   invented. *)
From ZT Require Import LayersFacts RunLedger Chk_World WorldHyps.

Theorem C02_whole_run_verdict : forall w o,
  wf (lw w) -> (forall t, In t (tests w) -> t_layer t < nlayers (lw w)) ->
  (r_failed (run w o) = true <->
   0 < o_import_errors o \/
   (exists e, In e (r_parent (run w o)) /\ bad_ev e = true) \/
   (exists c e, In c (r_children (run w o)) /\ In e (c_ev c) /\ bad_ev e = true)).
Proof. exact run_failed_iff_bad_event. Qed.
Print Assumptions C02_whole_run_verdict.

(* the hypotheses above are what the correspondence check evaluates on each case (check code bit 4) *)
Theorem C02_hypotheses_are_checked : forall c, wf_case c = true ->
  wf (lw (w c)) /\ (forall t, In t (tests (w c)) -> t_layer t < nlayers (lw (w c))).
Proof. exact wf_case_hyps. Qed.
Print Assumptions C02_hypotheses_are_checked.

(* ------------------------------------------------------------------------------------------------------------
   Observation level.  The verdict predicate Obs.c02_ok that the check evaluates on the IMPLEMENTATION's
   observation ("failed iff a started test is bad, a layer hook failed observably, or an import failed") holds of
   the MODEL's observation of every run … *)
From ZT Require Import Obs ModelCase ObsC02.

Theorem C02_predicate_holds_of_model : forall w o inj,
  wf (lw w) -> (forall t, In t (tests w) -> t_layer t < nlayers (lw w)) ->
  c02_ok (model_case w o inj) false = true.
Proof. exact c02_ok_model. Qed.
Print Assumptions C02_predicate_holds_of_model.

(* … and a sequential case on which the correspondence check finds no difference IS the model's observation, so
   the predicate holds of the implementation's observation: for C02 bit 1 clear and bit 4 clear imply bit 2 clear. *)
Theorem C02_agreeing_case_is_the_model : forall c, agree c = true -> Nat.ltb 1 (o_procs (Chk_World.o c)) = false ->
  c = model_case (Chk_World.w c) (Chk_World.o c) (extras_of c).
Proof. exact agree_is_model. Qed.
Print Assumptions C02_agreeing_case_is_the_model.

Theorem C02_check_sound : forall c, agree c = true -> wf_case c = true -> Nat.ltb 1 (o_procs (Chk_World.o c)) = false ->
  c02_ok c false = true.
Proof. exact c02_check_sound. Qed.
Print Assumptions C02_check_sound.
