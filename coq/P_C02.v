(* P_C02.v — property theorems for C02 only. *)
From ZT Require Import Base Layers Run RunFacts.

(* the verdict is 'failed' exactly when an import failed or the failure or error list is non-empty … *)
Theorem C02_verdict : forall w o,
  r_failed (run w o) = true <->
  (0 < o_import_errors o \/ r_fail (run w o) <> [] \/ r_err (run w o) <> []).
Proof. exact verdict_iff. Qed.
Print Assumptions C02_verdict.

(* … and those lists receive exactly the names of failing / erroring (sub)tests and unexpected successes *)
Theorem C02_lists_hold_the_bad_results : forall w o l ts s,
  let s' := run_all w o l ts s in
  rs_fail s' = rs_fail s ++ flat_map fail_names ts /\
  rs_err s' = rs_err s ++ flat_map err_names ts /\
  rs_us s' = rs_us s ++ flat_map us_names ts.
Proof. intros w o l ts s. destruct (run_all_counts w o l ts s) as [_ [H1 [H2 [H3 _]]]]. auto. Qed.
Print Assumptions C02_lists_hold_the_bad_results.
