(* P_C02.v — property theorems for C02 only. *)
From ZT Require Import Base Layers Run RunFacts.

(* the verdict is 'failed' exactly when an import failed or the failure or error list is non-empty … *)
Theorem C02_verdict : forall w o,
  r_failed (run w o) = true <->
  (0 < o_import_errors o \/ r_fail (run w o) <> [] \/ r_err (run w o) <> []).
Proof. exact verdict_iff. Qed.
Print Assumptions C02_verdict.

(* … and those lists receive exactly the names of failing / erroring (sub)tests and unexpected successes *)
Theorem C02_lists_hold_the_bad_results : forall w o l ts s,
  let s' := run_all w o l ts s in
  rs_fail s' = rs_fail s ++ flat_map fail_names ts /\
  rs_err s' = rs_err s ++ flat_map err_names ts /\
  rs_us s' = rs_us s ++ flat_map us_names ts.
Proof. intros w o l ts s. destruct (run_all_counts w o l ts s) as [_ [H1 [H2 [H3 _]]]]. auto. Qed.
Print Assumptions C02_lists_hold_the_bad_results.

(* ------------------------------------------------------------------------------------------------------------
   The whole run, for EVERY world, option set (-x, --repeat, -j N), fault script and process layout: the verdict
   is "failed" exactly when an import failed or some process (the parent or a layer subprocess) recorded a
   failure or error event (failing/erroring test or subtest, unexpected success, layer setUp/tearDown error,
   crashed or unreadable subprocess).  Nothing recorded is dropped on the way to the verdict and nothing is
   invented. *)
From ZT Require Import LayersFacts RunLedger Chk_World WorldHyps.

Theorem C02_whole_run_verdict : forall w o,
  wf (lw w) -> (forall t, In t (tests w) -> t_layer t < nlayers (lw w)) ->
  (r_failed (run w o) = true <->
   0 < o_import_errors o \/
   (exists e, In e (r_parent (run w o)) /\ bad_ev e = true) \/
   (exists c e, In c (r_children (run w o)) /\ In e (c_ev c) /\ bad_ev e = true)).
Proof. exact run_failed_iff_bad_event. Qed.
Print Assumptions C02_whole_run_verdict.

(* the hypotheses above are what the correspondence check evaluates on each case (check code bit 4) *)
Theorem C02_hypotheses_are_checked : forall c, wf_case c = true ->
  wf (lw (w c)) /\ (forall t, In t (tests (w c)) -> t_layer t < nlayers (lw (w c))).
Proof. exact wf_case_hyps. Qed.
Print Assumptions C02_hypotheses_are_checked.
