(* BytecodeAfter.v — the tree that remove_stale_bytecode leaves behind, and what a second cleanup finds in it. *)
From ZT Require Import Base Tree Bytecode BytecodeFacts.

Section A.
Variable ign : list str.

Definition stale_here (kids : list entry) (f : str) : bool :=
  compiled f && negb (smem (drop1 f) (file_names kids)).
Definition survives (kids : list entry) (k : entry) : bool :=
  match k with F f => negb (stale_here kids f) | D _ _ => true end.

(* the directory after the walk: orphans unlinked here and in every walked sub-directory; pruned directories as they were *)
Fixpoint after_e (e : entry) : entry :=
  match e with
  | F n => F n
  | D n kids => if pruned ign n then D n kids else D n (filter (survives kids) (map after_e kids))
  end.
Definition after_dir (kids : list entry) : list entry := filter (survives kids) (map after_e kids).

Lemma after_e_D n kids : after_e (D n kids) = if pruned ign n then D n kids else D n (after_dir kids).
Proof. reflexivity. Qed.

Lemma after_e_is_dir n sub : exists sub', after_e (D n sub) = D n sub'.
Proof. rewrite after_e_D. destruct (pruned ign n); eauto. Qed.

Lemma file_names_after_gen K r :
  file_names (filter (survives K) (map after_e r)) = filter (fun f => negb (stale_here K f)) (file_names r).
Proof.
  induction r as [|k r IH]; [reflexivity|].
  destruct k as [f|n sub].
  - cbn [map after_e filter survives]. change (file_names (F f :: r)) with (f :: file_names r). cbn [filter].
    destruct (negb (stale_here K f)); [|exact IH].
    change (file_names (F f :: filter (survives K) (map after_e r))) with (f :: file_names (filter (survives K) (map after_e r))).
    rewrite IH. reflexivity.
  - cbn [map]. destruct (after_e_is_dir n sub) as [sub' E]. rewrite E. cbn [filter survives].
    change (file_names (D n sub' :: filter (survives K) (map after_e r))) with (file_names (filter (survives K) (map after_e r))).
    change (file_names (D n sub :: r)) with (file_names r). exact IH.
Qed.
Lemma file_names_after kids :
  file_names (after_dir kids) = filter (fun f => negb (stale_here kids f)) (file_names kids).
Proof. apply file_names_after_gen. Qed.

(* dropping the last character of a compiled name never gives a compiled name: "x.pyc"[:-1] = "x.py" *)
Lemma drop1_not_compiled f : compiled f = true -> compiled (drop1 f) = false.
Proof.
  intros Hc. apply compiled_spec in Hc. destruct Hc as [a Hf].
  assert (Hd : drop1 f = a ++ [46;112;121]%N).
  { unfold drop1. destruct Hf as [-> | ->]; unfold s_pyc, s_pyo;
      change [46;112;121;99]%N with ([46;112;121] ++ [99])%N; change [46;112;121;111]%N with ([46;112;121] ++ [111])%N;
      rewrite app_assoc, removelast_last; reflexivity. }
  rewrite Hd. destruct (compiled (a ++ [46;112;121]%N)) eqn:E; [|reflexivity].
  apply compiled_spec in E. destruct E as [b E]. exfalso.
  change [46;112;121]%N with ([46;112] ++ [121])%N in E. rewrite app_assoc in E.
  unfold s_pyc, s_pyo in E.
  change [46;112;121;99]%N with ([46;112;121] ++ [99])%N in E; change [46;112;121;111]%N with ([46;112;121] ++ [111])%N in E.
  rewrite !app_assoc in E. destruct E as [E | E]; apply app_inj_tail in E; destruct E as [_ E]; discriminate.
Qed.

Lemma no_orphan_after kids f : ~ orphan (after_dir kids) f.
Proof.
  intros [Hin [Hc Hno]].
  rewrite <- in_file_names in Hin, Hno. rewrite file_names_after in Hin, Hno.
  rewrite filter_In in Hin, Hno. destruct Hin as [Hin Hs].
  unfold stale_here in Hs at 1. rewrite Hc in Hs. cbn [andb] in Hs. rewrite negb_involutive in Hs.
  apply smem_In in Hs. apply Hno. split; [exact Hs|].
  unfold stale_here. rewrite (drop1_not_compiled f Hc). reflexivity.
Qed.

Theorem second_cleanup_removes_nothing : forall kids, stale_dir ign (after_dir kids) = [].
Proof.
  assert (He : forall e, stale_e ign (after_e e) = []).
  { induction e as [n|n kids IH] using entry_ind'; [reflexivity|].
    rewrite after_e_D. destruct (pruned ign n) eqn:Ep.
    - rewrite stale_e_D, Ep. reflexivity.
    - rewrite stale_e_D, Ep.
      assert (Hd : stale_dir ign (after_dir kids) = []).
      { destruct (stale_dir ign (after_dir kids)) as [|p ps] eqn:Es; [reflexivity|]. exfalso.
        assert (Hp : In p (stale_dir ign (after_dir kids))) by (rewrite Es; now left).
        apply stale_spec in Hp. inversion Hp as [k f Ho|k m sub q Hin Hpr Hs]; subst.
        - exact (no_orphan_after kids f Ho).
        - unfold after_dir in Hin. apply filter_In in Hin. destruct Hin as [Hin _]. apply in_map_iff in Hin.
          destruct Hin as [e [Ee Hin]]. rewrite Forall_forall in IH. specialize (IH e Hin).
          rewrite Ee in IH. rewrite stale_e_D, Hpr in IH.
          apply stale_spec in Hs. destruct (stale_dir ign sub); [destruct Hs | discriminate]. }
      rewrite Hd. reflexivity. }
  intros kids. destruct (stale_dir ign (after_dir kids)) as [|p ps] eqn:Es; [reflexivity|]. exfalso.
  assert (Hp : In p (stale_dir ign (after_dir kids))) by (rewrite Es; now left).
  apply stale_spec in Hp. inversion Hp as [k f Ho|k m sub q Hin Hpr Hs]; subst.
  - exact (no_orphan_after kids f Ho).
  - unfold after_dir in Hin. apply filter_In in Hin. destruct Hin as [Hin _]. apply in_map_iff in Hin.
    destruct Hin as [e [Ee Hin]]. specialize (He e). rewrite Ee in He. rewrite stale_e_D, Hpr in He.
    apply stale_spec in Hs. destruct (stale_dir ign sub); [destruct Hs | discriminate].
Qed.

(* what the cleanup leaves in the walked directory itself: every entry except the orphans; sources and
   compiled files with a source are all still there *)
Theorem after_keeps_the_rest kids f :
  In (F f) (after_dir kids) <-> In (F f) kids /\ ~ orphan kids f.
Proof.
  rewrite <- !in_file_names, file_names_after, filter_In, negb_true_iff. unfold stale_here, orphan.
  rewrite <- in_file_names. split.
  - intros [Hin Hs]. split; [exact Hin|]. intros [_ [Hc Hno]]. rewrite Hc in Hs. cbn [andb] in Hs.
    apply negb_false_iff in Hs. apply smem_In in Hs. apply Hno. apply in_file_names. exact Hs.
  - intros [Hin Hno]. split; [exact Hin|]. destruct (compiled f) eqn:Hc; [|reflexivity]. cbn [andb].
    apply negb_false_iff. apply smem_In. destruct (smem (drop1 f) (file_names kids)) eqn:Em; [apply smem_In; exact Em|].
    exfalso. apply Hno. split; [exact Hin|]. split; [reflexivity|].
    intros H. apply in_file_names in H. apply smem_In in H. congruence.
Qed.
End A.
