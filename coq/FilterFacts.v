From ZT Require Import Base Filter.
From Coq Require Import Permutation.

Section F.
Variable search : str -> str -> bool.
Notation accept := (accept search).

Lemma in_selected p pats : In p (selected pats) <-> In p pats /\ is_neg p = false.
Proof. unfold selected. rewrite filter_In. rewrite negb_true_iff. tauto. Qed.

Lemma in_unselected q pats : In q (unselected pats) <-> exists p, In p pats /\ is_neg p = true /\ q = tl p.
Proof.
  unfold unselected. rewrite in_map_iff. split.
  - intros [p [E H]]. apply filter_In in H. exists p. intuition.
  - intros [p [H1 [H2 E]]]. exists p. split; [auto|]. apply filter_In. auto.
Qed.

Definition has_pos (pats : list str) := exists p, In p pats /\ is_neg p = false.
Definition has_neg (pats : list str) := exists p, In p pats /\ is_neg p = true.

Lemma selected_nil pats : selected pats = [] <-> ~ has_pos pats.
Proof.
  split.
  - intros E [p [H1 H2]]. assert (In p (selected pats)) by (apply in_selected; auto).
    rewrite E in H. destruct H.
  - intros H. destruct (selected pats) as [|p r] eqn:E; [reflexivity|].
    exfalso. apply H. exists p. apply in_selected. rewrite E. now left.
Qed.

Lemma unselected_nil pats : unselected pats = [] <-> ~ has_neg pats.
Proof.
  split.
  - intros E [p [H1 H2]]. assert (In (tl p) (unselected pats)) by (apply in_unselected; eauto).
    rewrite E in H. destruct H.
  - intros H. destruct (unselected pats) as [|q r] eqn:E; [reflexivity|].
    exfalso. assert (Hq : In q (unselected pats)) by (rewrite E; now left).
    apply in_unselected in Hq. destruct Hq as [p [H1 [H2 _]]]. apply H. exists p. auto.
Qed.

(* membership characterisation of the effective positive list *)
Lemma in_selected' p pats :
  In p (selected' pats) <->
  (In p pats /\ is_neg p = false) \/ (~ has_pos pats /\ has_neg pats /\ p = dot_pat).
Proof.
  unfold selected'.
  destruct (selected pats) as [|s r] eqn:Es.
  - destruct (unselected pats) as [|u r'] eqn:Eu.
    + split; [intros []|]. intros [[H1 H2]|[_ [H _]]].
      * assert (In p (selected pats)) by (apply in_selected; auto). rewrite Es in H. destruct H.
      * apply unselected_nil in Eu. tauto.
    + split.
      * intros [<-|[]]. right. split; [apply selected_nil; exact Es|]. split; [|reflexivity].
        assert (Hu : In u (unselected pats)) by (rewrite Eu; now left).
        apply in_unselected in Hu. destruct Hu as [p [H1 [H2 _]]]. exists p; auto.
      * intros [[H1 H2]|[_ [_ ->]]]; [|now left].
        assert (In p (selected pats)) by (apply in_selected; auto). rewrite Es in H. destruct H.
  - rewrite <- Es. rewrite in_selected. split; [tauto|].
    intros [H|[H _]]; [exact H|]. exfalso. apply H. apply selected_nil in H.
    rewrite H in Es. discriminate.
Qed.

(* ---- the specification ------------------------------------------------ *)
Definition spec (pats : list str) (v : str) : Prop :=
  ((exists p, In p pats /\ is_neg p = false /\ search p v = true) \/
   (~ has_pos pats /\ has_neg pats))
  /\ ~ (exists p, In p pats /\ is_neg p = true /\ search (tl p) v = true).

Theorem accept_spec pats v :
  search dot_pat v = true -> (accept pats v = true <-> spec pats v).
Proof.
  intros Hdot. unfold Filter.accept, spec.
  rewrite andb_true_iff, negb_true_iff, existsb_exists.
  rewrite <- not_true_iff_false, existsb_exists.
  split.
  - intros [[p [Hp Hs]] Hn]. split.
    + apply in_selected' in Hp. destruct Hp as [[H1 H2]|[H1 [H2 _]]]; [left; eauto | right; auto].
    + intros [q [H1 [H2 H3]]]. apply Hn. exists (tl q). split; [|exact H3].
      apply in_unselected. eauto.
  - intros [Hp Hn]. split.
    + destruct Hp as [[p [H1 [H2 H3]]]|[H1 H2]].
      * exists p. split; [|exact H3]. apply in_selected'. left; auto.
      * exists dot_pat. split; [|exact Hdot]. apply in_selected'. right; auto.
    + intros [q [H1 H2]]. apply Hn. apply in_unselected in H1.
      destruct H1 as [p [Ha [Hb ->]]]. eauto.
Qed.

(* without the hypothesis, the code's own reading: "everything that matches '.'" *)
Theorem accept_spec_code pats v :
  accept pats v = true <->
  ((exists p, In p pats /\ is_neg p = false /\ search p v = true) \/
   (~ has_pos pats /\ has_neg pats /\ search dot_pat v = true))
  /\ ~ (exists p, In p pats /\ is_neg p = true /\ search (tl p) v = true).
Proof.
  unfold Filter.accept.
  rewrite andb_true_iff, negb_true_iff, existsb_exists.
  rewrite <- not_true_iff_false, existsb_exists.
  split.
  - intros [[p [Hp Hs]] Hn]. split.
    + apply in_selected' in Hp. destruct Hp as [[H1 H2]|[H1 [H2 ->]]]; [left; eauto | right; auto].
    + intros [q [H1 [H2 H3]]]. apply Hn. exists (tl q). split; [|exact H3].
      apply in_unselected. eauto.
  - intros [Hp Hn]. split.
    + destruct Hp as [[p [H1 [H2 H3]]]|[H1 [H2 H3]]].
      * exists p. split; [|exact H3]. apply in_selected'. left; auto.
      * exists dot_pat. split; [|exact H3]. apply in_selected'. right; auto.
    + intros [q [H1 H2]]. apply Hn. apply in_unselected in H1.
      destruct H1 as [p [Ha [Hb ->]]]. eauto.
Qed.

(* ---- order / duplicates: only the SET of patterns matters -------------- *)
Theorem accept_set_ext pats pats' v :
  (forall p, In p pats <-> In p pats') -> accept pats v = accept pats' v.
Proof.
  intros H.
  apply eq_true_iff_eq. rewrite !accept_spec_code.
  assert (Hpos : has_pos pats <-> has_pos pats').
  { unfold has_pos. split; intros [p [H1 H2]]; exists p; split; auto; apply H; auto. }
  assert (Hneg : has_neg pats <-> has_neg pats').
  { unfold has_neg. split; intros [p [H1 H2]]; exists p; split; auto; apply H; auto. }
  split; intros [[[p [H1 H2]]|[Ha [Hb Hc]]] Hn]; (split; [| intros [q [Hq1 Hq2]]; apply Hn; exists q; split; [apply H; exact Hq1 | exact Hq2]]).
  - left. exists p. split; [apply H; exact H1|exact H2].
  - right. tauto.
  - left. exists p. split; [apply H; exact H1|exact H2].
  - right. tauto.
Qed.

Corollary accept_perm pats pats' v : Permutation pats pats' -> accept pats v = accept pats' v.
Proof.
  intros HP. apply accept_set_ext. intros p. split; intros Hin.
  - eapply Permutation_in; eauto.
  - eapply Permutation_in; [apply Permutation_sym|]; eauto.
Qed.

Corollary accept_dup p pats v : In p pats -> accept (p :: pats) v = accept pats v.
Proof.
  intros Hin. apply accept_set_ext. intros q. simpl. split; [intros [<-|H]; auto | auto].
Qed.

(* ---- monotonicity ------------------------------------------------------ *)
Theorem accept_add_pos pats p v :
  is_neg p = false -> has_pos pats -> accept pats v = true -> accept (pats ++ [p]) v = true.
Proof.
  intros Hp Hpos. rewrite !accept_spec_code.
  intros [[[q [H1 H2]]|[Ha _]] Hn]; [|tauto].
  split.
  - left. exists q. split; [apply in_or_app; now left|exact H2].
  - intros [r [H3 [H4 H5]]]. apply in_app_or in H3. destruct H3 as [H3|[<-|[]]].
    + apply Hn; eauto.
    + congruence.
Qed.

Theorem accept_add_neg pats p v :
  is_neg p = true -> pats <> [] -> accept pats v = false -> accept (pats ++ [p]) v = false.
Proof.
  intros Hp Hne Hf. apply not_true_iff_false. apply not_true_iff_false in Hf.
  intros Ht. apply Hf. clear Hf. revert Ht. rewrite !accept_spec_code.
  intros [Hsel Hn]. split.
  - destruct Hsel as [[q [H1 [H2 H3]]]|[Ha [Hb Hc]]].
    + left. apply in_app_or in H1. destruct H1 as [H1|[<-|[]]]; [eauto|congruence].
    + (* no positive in pats++[p]; pats nonempty => pats has a negated one *)
      right. split; [|split; [|exact Hc]].
      * intros [q [H1 H2]]. apply Ha. exists q. split; [apply in_or_app; now left|exact H2].
      * destruct pats as [|q r]; [congruence|]. exists q. split; [now left|].
        destruct (is_neg q) eqn:E; [reflexivity|]. exfalso. apply Ha. exists q. split; [now left|exact E].
  - intros [q [H1 H2]]. apply Hn. exists q. split; [apply in_or_app; now left|exact H2].
Qed.
End F.

(* ---- corners, documented as theorems ----------------------------------- *)
(* "adding a positive pattern never deselects" fails when only negated patterns were given:
   it contradicts the normative iff of the statement itself. *)
Definition ex_search (p v : str) : bool :=
  (* toy oracle: single-letter patterns match names containing the letter; "." matches non-empty *)
  match p with
  | [46%N] => match v with [] => false | _ => true end
  | [c] => existsb (N.eqb c) v
  | _ => false
  end.
Theorem accept_add_pos_only_neg_refuted :
  exists pats p v, is_neg p = false /\
    accept ex_search pats v = true /\ accept ex_search (pats ++ [p]) v = false.
Proof. exists [[33;97]%N], [99%N], [98%N]. vm_compute. auto. Qed.

(* without `search "." v`, the only-negated rule rejects the empty name *)
Theorem accept_spec_nodot_refuted :
  exists pats v, spec ex_search pats v /\ accept ex_search pats v = false.
Proof.
  exists [[33;97]%N], []. split; [|reflexivity].
  unfold spec. split.
  - right. split.
    + intros [p [[<-|[]] H]]. discriminate.
    + exists [33;97]%N. split; [now left|reflexivity].
  - intros [p [[<-|[]] [_ H]]]. discriminate.
Qed.

(* non-vacuity: the hypotheses of the theorems are met by concrete data *)
Example accept_spec_nonvacuous :
  ex_search dot_pat [97;98]%N = true /\ spec ex_search [[97]; [33;99]]%N [97;98]%N.
Proof.
  split; [reflexivity|]. split.
  - left. exists [97%N]. simpl. auto.
  - intros [p [[<-|[<-|[]]] [H1 H2]]]; discriminate.
Qed.
