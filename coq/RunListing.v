(* RunListing.v — "--list-tests lists the tests per layer in precisely the order a run executes them" on the run model:
   what --list-tests prints is, for every layer in run order, the layer's tests in suite order (`listing`); in EVERY process
   of a run (the parent, every resumed or -j child) the sequence of test starts is that listing restricted to the layers the
   process actually ran, each layer's list repeated once per --repeat iteration — whatever the tests' outcomes and whatever
   layer set-ups and tear-downs do (no -x). *)
From ZT Require Import Base Layers LayersFacts Run RunFacts RunLedger RunOnce.

Definition start_ids (evs : list ev) : list nat := flat_map (fun e => match e with EStart t => [t] | _ => [] end) evs.
Lemma start_ids_app a b : start_ids (a ++ b) = start_ids a ++ start_ids b.
Proof. unfold start_ids. apply flat_map_app. Qed.

(* what --list-tests shows: layers in run order, the tests of each in suite order *)
Definition listed (w : rworld) (l : nat) : list nat := map fst (tests_of w l).
Definition listing (w : rworld) : list (nat * list nat) := map (fun l => (l, listed w l)) (ordered_layers w).
Fixpoint times {A} (n : nat) (l : list A) : list A := match n with 0 => [] | S k => l ++ times k l end.

Section O.
Variable w : rworld.
Variable o : ropts.
Hypothesis Hnox : o_x o = false.

Lemma hooks_up_nostart l : start_ids (hooks_up w l) = [].
Proof. unfold hooks_up. induction (filter _ _) as [|x r IH]; simpl; [reflexivity | exact IH]. Qed.
Lemma hooks_down_nostart l : start_ids (hooks_down w l) = [].
Proof. unfold hooks_down. induction (filter _ _) as [|x r IH]; simpl; [reflexivity | exact IH]. Qed.

Lemma p_ev_starts l t p : start_ids (p_ev w l t p) = times (p_run p) [t].
Proof.
  destruct p as [| |ph k|r k|]; simpl; rewrite ?start_ids_app, ?hooks_up_nostart, ?hooks_down_nostart; reflexivity.
Qed.
Lemma times_add {A} a b (l : list A) : times (a + b) l = times a l ++ times b l.
Proof. induction a as [|a IH]; simpl; [reflexivity|]. now rewrite IH, app_assoc. Qed.
Lemma flat_starts l t ps : start_ids (flat_map (p_ev w l t) ps) = times (fold_right (fun p a => p_run p + a) 0 ps) [t].
Proof. induction ps as [|p ps IH]; simpl; [reflexivity|]. rewrite start_ids_app, p_ev_starts, IH, times_add. reflexivity. Qed.

Lemma run_test_starts l t b s : start_ids (rs_ev (run_test w o l t b s)) = start_ids (rs_ev s) ++ [t].
Proof.
  destruct (run_test_effect w o l t b s) as [_ [_ [_ [_ [_ [_ F7]]]]]].
  rewrite F7, start_ids_app, flat_starts, proto_runs_once. reflexivity.
Qed.

Lemma run_seq_starts l : forall ts s, rs_stop s = false ->
  rs_stop (run_seq w o l ts s) = false /\ start_ids (rs_ev (run_seq w o l ts s)) = start_ids (rs_ev s) ++ map fst ts.
Proof.
  induction ts as [|[t b] ts IH]; intros s Hs; simpl; [split; [exact Hs | now rewrite app_nil_r]|].
  rewrite Hs. destruct (IH (run_test w o l t b s)) as [I1 I2].
  - rewrite run_test_stop, Hs, Hnox. reflexivity.
  - split; [exact I1|]. rewrite I2, run_test_starts, <- app_assoc. reflexivity.
Qed.

Lemma repeat_loop_starts : forall n l p,
  start_ids (ps_ev (repeat_loop w o n l p)) = start_ids (ps_ev p) ++ times n (listed w l).
Proof.
  induction n as [|n IH]; intros l p; simpl; [now rewrite app_nil_r|].
  destruct (run_seq_starts l (tests_of w l) rs_init eq_refl) as [R1 R2].
  rewrite R1, IH. cbn [ps_ev]. rewrite !start_ids_app, R2. simpl. rewrite app_nil_r, <- app_assoc. reflexivity.
Qed.

Lemma td_loop_nostart : forall order optional p, start_ids (ps_ev (fst (td_loop w order optional p))) = start_ids (ps_ev p).
Proof.
  induction order as [|l order IH]; intros optional p; simpl; [reflexivity|].
  set (out := match l_teardown (spec_of w l) with None => HOk | Some sc => script_at sc (cnt l (ps_att_td p)) end).
  set (p1 := {| ps_setup := filter (fun x => negb (Nat.eqb x l)) (ps_setup p); ps_att_su := ps_att_su p;
                ps_att_td := inc l (ps_att_td p); ps_ran := ps_ran p; ps_fail := ps_fail p;
                ps_err := match out with HRaise => ps_err p ++ [NLayerTearDown l] | _ => ps_err p end;
                ps_skip := ps_skip p; ps_ev := ps_ev p ++ [ETearDown l out] |}).
  assert (H1 : start_ids (ps_ev p1) = start_ids (ps_ev p)) by (unfold p1; cbn [ps_ev]; rewrite start_ids_app; simpl; now rewrite app_nil_r).
  assert (Hrec : forall opt, start_ids (ps_ev (fst (td_loop w order opt p1))) = start_ids (ps_ev p)) by (intros opt; rewrite IH; exact H1).
  destruct out; [apply Hrec | apply Hrec |]. destruct optional; [apply Hrec|].
  unfold p1. cbn [fst pemit ps_ev]. rewrite !start_ids_app. simpl. now rewrite !app_nil_r.
Qed.

Lemma setup_layer_nostart : forall fuel l p, start_ids (ps_ev (fst (setup_layer w fuel l p))) = start_ids (ps_ev p).
Proof.
  induction fuel as [|f IH]; intros l p; [reflexivity|]. cbn [setup_layer].
  destruct (mem l (ps_setup p)); [reflexivity|].
  set (F := fun (acc : pstate * bool) b => let '(q, x) := acc in if x then (q, x) else setup_layer w f b q).
  assert (Hfold : forall bs q x, start_ids (ps_ev (fst (fold_left F bs (q, x)))) = start_ids (ps_ev q)).
  { induction bs as [|b bs IHb]; intros q x; simpl; [reflexivity|].
    destruct x; [apply IHb|]. specialize (IH b q). destruct (setup_layer w f b q) as [q1 x1]. simpl in IH.
    rewrite IHb. exact IH. }
  specialize (Hfold (bases_of (lw w) l) p false).
  destruct (fold_left F (bases_of (lw w) l) (p, false)) as [p1 exc]. simpl in Hfold.
  destruct exc; [exact Hfold|]. cbn [fst ps_ev]. rewrite start_ids_app. simpl. now rewrite app_nil_r.
Qed.

(* one layer group in one process: either nothing of it starts (handed over after CanNotTearDown, or its set-up failed),
   or its listed tests start in listed order, once per iteration *)
Lemma run_layer_starts l p :
  start_ids (ps_ev (fst (run_layer w o l p))) = start_ids (ps_ev p) \/
  (snd (run_layer w o l p) = false /\
   start_ids (ps_ev (fst (run_layer w o l p))) = start_ids (ps_ev p) ++ times (reps o) (listed w l)).
Proof.
  unfold run_layer, tear_down_unneeded.
  set (ord := rev (order_by_bases (lw w) (filter (fun x => negb (mem x (gather_layers (lw w) l))) (ps_setup p)))).
  pose proof (td_loop_nostart ord false p) as T1.
  destruct (td_loop w ord false p) as [p1 cannot]. simpl in T1.
  destruct cannot; [left; exact T1|].
  pose proof (setup_layer_nostart (S (nlayers (lw w))) l p1) as S1.
  destruct (setup_layer w (S (nlayers (lw w))) l p1) as [p2 exc]. simpl in S1.
  destruct exc.
  - left. cbn [fst ps_ev]. now rewrite S1.
  - right. split; [reflexivity|]. cbn [fst]. rewrite repeat_loop_starts. cbn [ps_ev]. now rewrite S1, T1.
Qed.

(* the starts of a process that runs a list of layers: the listing of a sub-list of them *)
Inductive sublist {A} : list A -> list A -> Prop :=
| sub_nil : sublist [] []
| sub_skip x a b : sublist a b -> sublist a (x :: b)
| sub_keep x a b : sublist a b -> sublist (x :: a) (x :: b).
Lemma sublist_nil_l {A} (b : list A) : sublist [] b.
Proof. induction b; constructor; auto. Qed.

Definition play (ls : list nat) : list nat := flat_map (fun l => times (reps o) (listed w l)) ls.

Lemma parent_loop_starts : forall ls p ran n,
  let '(p', _, rest, _, _) := parent_loop w o ls p ran n in
  exists ran_here, sublist ran_here ls /\ start_ids (ps_ev p') = start_ids (ps_ev p) ++ play ran_here.
Proof.
  induction ls as [|l ls IH]; intros p ran n; simpl.
  - exists []. split; [constructor | now rewrite app_nil_r].
  - pose proof (run_layer_starts l p) as Hl.
    destruct (run_layer w o l p) as [p1 cannot]. simpl in Hl. destruct cannot.
    + exists []. split; [apply sublist_nil_l|]. destruct Hl as [Hl|[Hc _]]; [now rewrite Hl, app_nil_r | discriminate].
    + rewrite Hnox. cbn [andb].
      specialize (IH p1 (ran + ps_ran p1) (S n)).
      destruct (parent_loop w o ls p1 (ran + ps_ran p1) (S n)) as [[[[p' ran'] rest] resume] n'].
      destruct IH as [rh [Hs He]]. destruct Hl as [Hl|[_ Hl]].
      * exists rh. split; [now constructor|]. now rewrite He, Hl.
      * exists (l :: rh). split; [now constructor|]. rewrite He, Hl. unfold play. simpl. now rewrite <- app_assoc.
Qed.

Lemma child_starts l : start_ids (c_ev (child_run w o l)) = [] \/ start_ids (c_ev (child_run w o l)) = times (reps o) (listed w l).
Proof.
  unfold child_run.
  pose proof (run_layer_starts l ps_init) as H.
  destruct (run_layer w o l ps_init) as [p1 c1]. simpl in H. unfold tear_down_unneeded.
  set (ord := rev (order_by_bases (lw w) (filter (fun x => negb (mem x [])) (ps_setup p1)))).
  pose proof (td_loop_nostart ord true p1) as T1.
  destruct (td_loop w ord true p1) as [p2 c2]. simpl in T1. cbn [c_ev]. rewrite T1.
  destruct H as [H|[_ H]]; [left | right]; rewrite H; reflexivity.
Qed.
End O.

(* The whole run.  The parent's test starts are the listing restricted to a sub-list of the layers, in listing order, each
   layer's tests in listed order and repeated per iteration; every child's starts are its own layer's listed tests likewise
   (or nothing when its set-up failed). *)
Theorem run_follows_listing w o : o_x o = false ->
  (exists ran_here, sublist ran_here (ordered_layers w) /\ start_ids (r_parent (run w o)) = play w o ran_here) /\
  (forall c, In c (r_children (run w o)) ->
     start_ids (c_ev c) = [] \/ exists l, In l (ordered_layers w) /\ start_ids (c_ev c) = times (reps o) (listed w l)).
Proof.
  intros Hnox. unfold run.
  set (A := if 1 <? o_procs o then _ else _).
  assert (HA : let '(p1, _, rest, resume, _) := A in
            (exists rh, sublist rh (ordered_layers w) /\ start_ids (ps_ev p1) = play w o rh) /\
            (forall l, In l rest -> In l (ordered_layers w))).
  { unfold A. destruct (1 <? o_procs o).
    - split; [|auto]. exists []. split; [apply sublist_nil_l|]. unfold pemit. cbn [ps_ev ps_init app].
      induction (Run.reps o) as [|k IHk]; simpl; [reflexivity | exact IHk].
    - pose proof (parent_loop_starts w o Hnox (ordered_layers w) ps_init 0 0) as H.
      pose proof (parent_loop_ns w o) as _.
      destruct (parent_loop w o (ordered_layers w) ps_init 0 0) as [[[[p' ran'] rest] resume] n'] eqn:E.
      destruct H as [rh [Hs He]]. split; [exists rh; split; [exact Hs | exact He]|].
      (* the layers not run are a suffix of the input *)
      assert (Hsuf : forall ls p ran n p' ran' rest resume n', parent_loop w o ls p ran n = (p', ran', rest, resume, n') ->
                     forall l, In l rest -> In l ls).
      { clear. induction ls as [|l ls IH]; intros p ran n p' ran' rest resume n' E x Hx; simpl in E.
        - injection E as _ _ <- _ _. destruct Hx.
        - destruct (run_layer w o l p) as [p1 cannot]. destruct cannot.
          + injection E as _ _ <- _ _. exact Hx.
          + destruct (o_x o && _).
            * injection E as _ _ <- _ _. now right.
            * right. eapply IH; eauto. }
      intros l Hl. eapply Hsuf; eauto. }
  destruct A as [[[[p1 ran1] rest] resume] n1]. destruct HA as [[rh [Hs He]] Hrest].
  set (B := if resume then _ else _).
  assert (HB : fst (fst (fst B)) = if resume then map (child_run w o) rest else []).
  { unfold B. destruct resume; [apply (resume_seq_all w o Hnox) | reflexivity]. }
  destruct B as [[[cs ran2] f2] e2]. simpl in HB.
  set (p2 := {| ps_setup := ps_setup p1; ps_att_su := ps_att_su p1; ps_att_td := ps_att_td p1; ps_ran := 0;
                ps_fail := []; ps_err := []; ps_skip := ps_skip p1; ps_ev := ps_ev p1 |}).
  unfold tear_down_unneeded.
  set (ord := rev (order_by_bases (lw w) (filter (fun x => negb (mem x [])) (ps_setup p2)))).
  pose proof (td_loop_nostart w ord true p2) as T1.
  destruct (td_loop w ord true p2) as [p3 c3]. simpl in T1. cbn [r_parent r_children].
  split.
  - exists rh. split; [exact Hs|]. rewrite T1. exact He.
  - intros c Hc. subst cs. destruct resume; [|destruct Hc].
    apply in_map_iff in Hc. destruct Hc as [l [<- Hl]].
    destruct (child_starts w o Hnox l) as [H|H]; [now left | right; exists l; split; [now apply Hrest | exact H]].
Qed.
