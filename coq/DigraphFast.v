(* DigraphFast.v — the executable statement c20_ok with the reachability sets computed once per graph instead of once per
   pair of nodes; proved equal to c20_ok, so evaluating it on the implementation's output decides the same statement. *)
From ZT Require Import Base Digraph.

Lemma alookup_map {A} (f : nat -> A) (l : list nat) (x : nat) :
  alookup x (map (fun y => (y, f y)) l) = None \/ alookup x (map (fun y => (y, f y)) l) = Some (f x).
Proof.
  induction l as [|y l IH]; simpl; [now left|].
  destruct (Nat.eqb y x) eqn:E; [right; apply Nat.eqb_eq in E; now subst | exact IH].
Qed.

Section F.
Variable g : graph.
Definition rtab : list (nat * list nat) := map (fun x => (x, reach g x)) (nodes g).
Definition reach_t (tab : list (nat * list nat)) (x : nat) : list nat :=
  match alookup x tab with Some r => r | None => reach g x end.
Definition mutual_t tab (x y : nat) : bool := mem y (reach_t tab x) && mem x (reach_t tab y).
Definition class_of_t tab (x : nat) : list nat := filter (mutual_t tab x) (nodes g).
Definition cyclic_t tab (x : nat) : bool := Nat.ltb 1 (length (class_of_t tab x)) || mem x (adj g x).
Definition c20_ok_fast (trivial : bool) (comps : list (list nat)) : bool :=
  let tab := rtab in
  let flat := concat comps in
  nodupb flat
  && forallb (fun c => match c with [] => false | x :: _ => seteq c (class_of_t tab x) end) comps
  && forallb (fun x => mem x (nodes g)) flat
  && forallb (fun x => Bool.eqb (mem x flat) (trivial || cyclic_t tab x)) (nodes g).

Lemma reach_t_eq x : reach_t rtab x = reach g x.
Proof. unfold reach_t, rtab. destruct (alookup_map (reach g) (nodes g) x) as [-> | ->]; reflexivity. Qed.
Lemma mutual_t_eq x y : mutual_t rtab x y = mutual g x y.
Proof. unfold mutual_t, mutual. now rewrite !reach_t_eq. Qed.
Lemma class_of_t_eq x : class_of_t rtab x = class_of g x.
Proof. unfold class_of_t, class_of. apply filter_ext. intros y. apply mutual_t_eq. Qed.
Lemma cyclic_t_eq x : cyclic_t rtab x = cyclic g x.
Proof. unfold cyclic_t, cyclic. now rewrite class_of_t_eq. Qed.

Lemma forallb_ext' {A} (f h : A -> bool) l : (forall x, f x = h x) -> forallb f l = forallb h l.
Proof. intros H. induction l as [|x l IH]; simpl; [reflexivity|]. now rewrite H, IH. Qed.

Theorem c20_ok_fast_eq trivial comps : c20_ok_fast trivial comps = c20_ok g trivial comps.
Proof.
  unfold c20_ok_fast, c20_ok. cbv zeta.
  rewrite (forallb_ext' (fun c => match c with [] => false | x :: _ => seteq c (class_of_t rtab x) end)
                        (fun c => match c with [] => false | x :: _ => seteq c (class_of g x) end)).
  2:{ intros [|x c]; [reflexivity|]. now rewrite class_of_t_eq. }
  rewrite (forallb_ext' (fun x => Bool.eqb (mem x (concat comps)) (trivial || cyclic_t rtab x))
                        (fun x => Bool.eqb (mem x (concat comps)) (trivial || cyclic g x))).
  2:{ intros x. now rewrite cyclic_t_eq. }
  reflexivity.
Qed.
End F.
