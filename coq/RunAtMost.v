(* RunAtMost.v — for EVERY world and option set (with -x, failing set-ups, un-tearable layers, -j N …) no test is
   started more than `reps` times over all processes of a run, and nothing that is not a selected test is started. *)
From ZT Require Import Base Layers LayersFacts Run RunFacts RunLedger RunOnce.

Section A.
Variable w : rworld.
Variable o : ropts.
Variable t : nat.

Notation st := (total (ns t)).

Lemma setup_layer_q : forall fuel l p, st (ps_ev (fst (setup_layer w fuel l p))) = st (ps_ev p).
Proof.
  induction fuel as [|fu IH]; intros l p; [reflexivity|]. cbn [setup_layer].
  destruct (mem l (ps_setup p)); [reflexivity|].
  set (F := fun (acc : pstate * bool) b => let '(q, x) := acc in if x then (q, x) else setup_layer w fu b q).
  assert (Hfold : forall bs q x, st (ps_ev (fst (fold_left F bs (q, x)))) = st (ps_ev q)).
  { induction bs as [|b bs IHb]; intros q x; simpl; [reflexivity|].
    destruct x; [apply IHb|]. specialize (IH b q). destruct (setup_layer w fu b q) as [q1 x1]. simpl in IH.
    rewrite IHb. exact IH. }
  specialize (Hfold (bases_of (lw w) l) p false).
  destruct (fold_left F (bases_of (lw w) l) (p, false)) as [p1 exc]. simpl in Hfold.
  destruct exc; [exact Hfold|]. cbn [fst ps_ev]. rewrite total_app. simpl. rewrite Hfold. apply Nat.add_0_r.
Qed.

Lemma run_seq_le l : forall ts s, st (rs_ev (run_seq w o l ts s)) <= st (rs_ev s) + cnt_in t ts.
Proof.
  induction ts as [|[t' b] ts IH]; intros s; simpl; [apply Nat.le_add_r|].
  destruct (rs_stop s); [apply Nat.le_add_r|].
  eapply Nat.le_trans; [apply IH|]. rewrite run_test_ns. rewrite Nat.add_assoc. apply Nat.le_refl.
Qed.

Lemma repeat_loop_le : forall n l p, st (ps_ev (repeat_loop w o n l p)) <= st (ps_ev p) + n * c w t l.
Proof.
  induction n as [|n IH]; intros l p; simpl; [rewrite Nat.add_0_r; apply Nat.le_refl|].
  set (rs := run_seq w o l (tests_of w l) rs_init).
  pose proof (run_seq_le l (tests_of w l) rs_init) as Hr. fold rs in Hr. simpl in Hr. fold (c w t l) in Hr.
  assert (H1 : st (ps_ev p ++ rs_ev rs ++ [ESummary l (rs_run rs) (length (rs_fail rs) + length (rs_us rs))
                                   (length (rs_err rs) + o_import_errors o) (rs_skip rs)]) <= st (ps_ev p) + c w t l).
  { rewrite !total_app. simpl. rewrite !Nat.add_0_r. apply Nat.add_le_mono_l. exact Hr. }
  destruct (rs_stop rs).
  - cbn [ps_ev]. eapply Nat.le_trans; [exact H1|]. apply Nat.add_le_mono_l. apply Nat.le_add_r.
  - eapply Nat.le_trans; [apply IH|]. cbn [ps_ev]. eapply Nat.le_trans; [apply Nat.add_le_mono_r; exact H1|].
    rewrite <- Nat.add_assoc. apply Nat.le_refl.
Qed.

Lemma run_layer_le l p :
  st (ps_ev (fst (run_layer w o l p))) <= st (ps_ev p) + (if snd (run_layer w o l p) then 0 else reps o * c w t l).
Proof.
  unfold run_layer, tear_down_unneeded.
  pose proof (td_loop_quiet w (ns t) (fun _ _ => eq_refl) (fun _ => eq_refl)
                (rev (order_by_bases (lw w) (filter (fun x => negb (mem x (gather_layers (lw w) l))) (ps_setup p)))) false p) as Ht.
  destruct (td_loop w _ false p) as [p1 cannot]. simpl in Ht. destruct cannot; [simpl; rewrite Ht, Nat.add_0_r; apply Nat.le_refl|].
  pose proof (setup_layer_q (S (nlayers (lw w))) l p1) as Hs.
  destruct (setup_layer w (S (nlayers (lw w))) l p1) as [p2 exc]. simpl in Hs. destruct exc.
  - cbn [fst snd ps_ev]. rewrite Hs, Ht. apply Nat.le_add_r.
  - cbn [fst snd]. eapply Nat.le_trans; [apply repeat_loop_le|]. cbn [ps_ev]. rewrite Hs, Ht. apply Nat.le_refl.
Qed.

Lemma parent_loop_le : forall ls p ran n,
  let '(p', _, rest, _, _) := parent_loop w o ls p ran n in
  exists done, ls = done ++ rest /\ st (ps_ev p') <= st (ps_ev p) + reps o * sum_over (c w t) done.
Proof.
  induction ls as [|l ls IH]; intros p ran n; simpl.
  - exists []. split; [reflexivity|]. simpl. rewrite Nat.mul_0_r, Nat.add_0_r. apply Nat.le_refl.
  - pose proof (run_layer_le l p) as Hl. destruct (run_layer w o l p) as [p1 cannot]. simpl in Hl. destruct cannot.
    + exists []. split; [reflexivity|]. simpl. rewrite Nat.mul_0_r. exact Hl.
    + destruct (o_x o && match ps_fail p1, ps_err p1 with [], [] => false | _, _ => true end).
      * exists [l]. split; [reflexivity|]. simpl. rewrite Nat.add_0_r. exact Hl.
      * specialize (IH p1 (ran + ps_ran p1) (S n)).
        destruct (parent_loop w o ls p1 (ran + ps_ran p1) (S n)) as [[[[p' ran'] rest] resume] n'].
        destruct IH as [done [E T]]. exists (l :: done). split; [simpl; now rewrite E|].
        eapply Nat.le_trans; [exact T|]. simpl. rewrite Nat.mul_add_distr_l, Nat.add_assoc. apply Nat.add_le_mono_r. exact Hl.
Qed.

Lemma child_le l : st (c_ev (child_run w o l)) <= reps o * c w t l.
Proof.
  unfold child_run. pose proof (run_layer_le l ps_init) as H.
  destruct (run_layer w o l ps_init) as [p1 c1]. simpl in H. unfold tear_down_unneeded.
  pose proof (td_loop_quiet w (ns t) (fun _ _ => eq_refl) (fun _ => eq_refl)
                (rev (order_by_bases (lw w) (filter (fun x => negb (mem x [])) (ps_setup p1)))) true p1) as Ht.
  destruct (td_loop w _ true p1) as [p2 c2]. simpl in Ht. cbn [c_ev]. rewrite Ht.
  eapply Nat.le_trans; [exact H|]. destruct c1; [apply Nat.le_0_l | apply Nat.le_refl].
Qed.

Lemma resume_seq_le : forall ls ran f e,
  sum_children (ns t) (fst (fst (fst (resume_seq w o ls ran f e)))) <= reps o * sum_over (c w t) ls.
Proof.
  induction ls as [|l ls IH]; intros ran f e; simpl; [apply Nat.le_0_l|].
  destruct (o_x o && match f, e with [], [] => false | _, _ => true end); [simpl; apply Nat.le_0_l|].
  specialize (IH (ran + c_ran (child_run w o l)) (f ++ c_fail (child_run w o l)) (e ++ c_err (child_run w o l))).
  destruct (resume_seq w o ls _ _ _) as [[[cs r'] f'] e']. simpl in *.
  rewrite Nat.mul_add_distr_l. apply Nat.add_le_mono; [apply child_le | exact IH].
Qed.

Theorem starts_at_most : starts_of t (run w o) <= if Nat.ltb t (length (tests w)) then reps o else 0.
Proof.
  assert (Hmain : starts_of t (run w o) <= reps o * sum_over (c w t) (ordered_layers w)).
  { unfold starts_of, run.
    set (A := if 1 <? o_procs o then _ else _).
    assert (HA : let '(p1, _, rest, _, _) := A in
              exists done, ordered_layers w = done ++ rest /\ st (ps_ev p1) <= reps o * sum_over (c w t) done).
    { unfold A. destruct (1 <? o_procs o).
      - exists []. split; [reflexivity|]. unfold pemit. cbn [ps_ev ps_init app sum_over fold_right].
        rewrite Nat.mul_0_r. induction (Run.reps o) as [|k IHk]; simpl; [apply Nat.le_refl | exact IHk].
      - pose proof (parent_loop_le (ordered_layers w) ps_init 0 0) as H.
        destruct (parent_loop w o (ordered_layers w) ps_init 0 0) as [[[[p' ran'] rest] resume] n'].
        destruct H as [done [E T]]. exists done. split; [exact E | exact T]. }
    destruct A as [[[[p1 ran1] rest] resume] n1]. destruct HA as [done [E T]].
    set (B := if resume then _ else _).
    assert (HB : sum_children (ns t) (fst (fst (fst B))) <= reps o * sum_over (c w t) rest).
    { unfold B. destruct resume; [apply resume_seq_le | simpl; apply Nat.le_0_l]. }
    destruct B as [[[cs ran2] f2] e2]. simpl in HB.
    unfold tear_down_unneeded.
    match goal with |- context [td_loop w ?ord true ?p2] =>
      pose proof (td_loop_quiet w (ns t) (fun _ _ => eq_refl) (fun _ => eq_refl) ord true p2) as Ht; destruct (td_loop w ord true p2) as [p3 c3] end.
    simpl in Ht. cbn [r_parent r_children]. rewrite Ht, E, sum_over_app, Nat.mul_add_distr_l.
    apply Nat.add_le_mono; assumption. }
  rewrite sum_c in Hmain. destruct (Nat.ltb t (length (tests w))); [rewrite Nat.mul_1_r in Hmain | rewrite Nat.mul_0_r in Hmain]; exact Hmain.
Qed.
End A.
