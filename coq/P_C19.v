(* P_C19.v — property theorems for C19 only. *)
From ZT Require Import Base Threads ThreadsFacts ThreadsOnce.

(* After each test exactly the threads started during that test, still running, and not ignored are reported —
   for every history in which no OS ident is re-used between a low-level thread and a thread of the snapshot. *)
Theorem C19_exact : forall init h, idents_fresh init h = true ->
  reports (trun init h) = s_reports (srun init h).
Proof. exact c19_exact. Qed.
Print Assumptions C19_exact.

(* Without that hypothesis the statement is false (open finding for low-level threads). *)
Theorem C19_ident_reuse_refuted : exists init h, reports (trun init h) <> s_reports (srun init h).
Proof. exact c19_ident_reuse_refuted. Qed.
Print Assumptions C19_ident_reuse_refuted.

(* The same limit reached through threading's own registry: the _DummyThread record made for a low-level thread that asked
   threading.current_thread() is never dropped, and a later low-level thread on the same ident is handed that object. *)
Theorem C19_stale_dummy_refuted : exists init h, reports (trun init h) <> s_reports (srun init h).
Proof. exact c19_stale_dummy_refuted. Qed.
Print Assumptions C19_stale_dummy_refuted.

(* "A leaked thread is reported only for the test that started it", over whole histories: when every stopTest follows its
   startTest, the number of reports naming a thread identity never exceeds the number of times a thread with that identity was
   started — of the statement (srun) and, through C19_exact, of the runner's mechanism (trun). *)
Theorem C19_reported_at_most_as_often_as_started : forall init h id,
  idents_fresh init h = true -> bracketed false h = true ->
  n_reports id (reports (trun init h)) <= n_starts id h.
Proof. exact runner_reports_at_most_as_often_as_started. Qed.
Print Assumptions C19_reported_at_most_as_often_as_started.

Theorem C19_thread_started_once_reported_for_one_test : forall init h id,
  idents_fresh init h = true -> bracketed false h = true -> n_starts id h = 1 ->
  n_reports id (reports (trun init h)) <= 1.
Proof. exact thread_started_once_reported_for_one_test. Qed.
Print Assumptions C19_thread_started_once_reported_for_one_test.

(* threads that existed before the run are never reported *)
Theorem C19_thread_never_started_never_reported : forall init h id,
  idents_fresh init h = true -> bracketed false h = true -> n_starts id h = 0 ->
  forall r, In r (reports (trun init h)) -> mem id (snd r) = false.
Proof. exact thread_never_started_never_reported. Qed.
Print Assumptions C19_thread_never_started_never_reported.
