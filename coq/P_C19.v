(* P_C19.v — property theorems for C19 only. *)
From ZT Require Import Base Threads ThreadsFacts.

(* After each test exactly the threads started during that test, still running, and not ignored are reported —
   for every history in which no OS ident is re-used between a low-level thread and a thread of the snapshot. *)
Theorem C19_exact : forall init h, idents_fresh init h = true ->
  reports (trun init h) = s_reports (srun init h).
Proof. exact c19_exact. Qed.
Print Assumptions C19_exact.

(* Without that hypothesis the statement is false (open finding for low-level threads). *)
Theorem C19_ident_reuse_refuted : exists init h, reports (trun init h) <> s_reports (srun init h).
Proof. exact c19_ident_reuse_refuted. Qed.
Print Assumptions C19_ident_reuse_refuted.

(* The same limit reached through threading's own registry: the _DummyThread record made for a low-level thread that asked
   threading.current_thread() is never dropped, and a later low-level thread on the same ident is handed that object. *)
Theorem C19_stale_dummy_refuted : exists init h, reports (trun init h) <> s_reports (srun init h).
Proof. exact c19_stale_dummy_refuted. Qed.
Print Assumptions C19_stale_dummy_refuted.
