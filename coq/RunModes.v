(* RunModes.v — whole-run statement of C06's first sentence on the run model: when layer set-ups succeed and no
   tearDown raises an error (NotImplementedError — hence resumption in subprocesses — is allowed), the failure
   list, the error list, the number of tests run and the verdict of a run do not depend on -j N: every process
   layout (all in the parent; parent + resumed children; every layer in its own child) reports the same. *)
From ZT Require Import Base Layers LayersFacts Run RunFacts RunLedger RunOnce.

Definition with_procs (o : ropts) (n : nat) : ropts :=
  {| o_x := o_x o; o_repeat := o_repeat o; o_procs := n; o_import_errors := o_import_errors o |}.

Section M.
Variable w : rworld.
Hypothesis Hwf : wf (lw w).
Hypothesis Htests : forall b, In b (tests w) -> t_layer b < nlayers (lw w).
Hypothesis Hsetups : forall l, good w l.
Hypothesis Htd : forall l sc n, l_teardown (spec_of w l) = Some sc -> script_at sc n <> HRaise.

Definition bad2 (f e : list name) : bool := match f, e with [], [] => false | _, _ => true end.

Section O.
Variable o : ropts.

(* what the --repeat loop of one layer appends and returns, independently of the process state *)
Fixpoint rl (n l : nat) : list name * list name * nat :=
  match n with
  | 0 => ([], [], 0)
  | S n' =>
    let rs := run_seq w o l (tests_of w l) rs_init in
    let A := (rs_fail rs ++ rs_us rs, rs_err rs, rs_run rs) in
    if rs_stop rs then A else
    match n' with
    | 0 => A
    | _ => let '(f, e, r) := rl n' l in (rs_fail rs ++ rs_us rs ++ f, rs_err rs ++ e, r)
    end
  end.

Lemma repeat_loop_rl : forall n l p,
  let q := repeat_loop w o n l p in let '(f, e, r) := rl n l in
  ps_fail q = ps_fail p ++ f /\ ps_err q = ps_err p ++ e /\ (0 < n -> ps_ran q = r).
Proof.
  induction n as [|n IH]; intros l p; simpl; [rewrite !app_nil_r; repeat split; auto; lia|].
  set (rs := run_seq w o l (tests_of w l) rs_init).
  destruct (rs_stop rs).
  - simpl. repeat split; auto.
  - destruct n as [|n'].
    + simpl. repeat split; auto.
    + specialize (IH l {| ps_setup := ps_setup p; ps_att_su := ps_att_su p; ps_att_td := ps_att_td p; ps_ran := rs_run rs;
                          ps_fail := ps_fail p ++ rs_fail rs ++ rs_us rs; ps_err := ps_err p ++ rs_err rs;
                          ps_skip := ps_skip p + rs_skip rs;
                          ps_ev := ps_ev p ++ rs_ev rs ++ [ESummary l (rs_run rs) (length (rs_fail rs) + length (rs_us rs))
                                                                    (length (rs_err rs) + o_import_errors o) (rs_skip rs)] |}).
      destruct (rl (S n') l) as [[f e] r]. cbn [ps_fail ps_err] in IH. destruct IH as [I1 [I2 I3]].
      rewrite I1, I2, <- !app_assoc. repeat split; auto. intros _. apply I3. lia.
Qed.

Lemma td_loop_lists : forall order optional p,
  ps_fail (fst (td_loop w order optional p)) = ps_fail p /\ ps_err (fst (td_loop w order optional p)) = ps_err p.
Proof.
  induction order as [|l order IH]; intros optional p; simpl; [auto|].
  set (out := match l_teardown (spec_of w l) with None => HOk | Some sc => script_at sc (cnt l (ps_att_td p)) end).
  assert (Hout : out <> HRaise).
  { unfold out. destruct (l_teardown (spec_of w l)) as [sc|] eqn:E; [apply (Htd l sc _ E) | discriminate]. }
  set (p1 := {| ps_setup := filter (fun x => negb (Nat.eqb x l)) (ps_setup p); ps_att_su := ps_att_su p;
                ps_att_td := inc l (ps_att_td p); ps_ran := ps_ran p; ps_fail := ps_fail p;
                ps_err := match out with HRaise => ps_err p ++ [NLayerTearDown l] | _ => ps_err p end;
                ps_skip := ps_skip p; ps_ev := ps_ev p ++ [ETearDown l out] |}).
  assert (H1 : ps_fail p1 = ps_fail p /\ ps_err p1 = ps_err p) by (unfold p1; simpl; destruct out; [auto | congruence | auto]).
  destruct H1 as [F1 F2].
  assert (Hrec : forall opt, ps_fail (fst (td_loop w order opt p1)) = ps_fail p /\ ps_err (fst (td_loop w order opt p1)) = ps_err p)
    by (intros opt; destruct (IH opt p1) as [G1 G2]; split; congruence).
  destruct out; [apply Hrec | congruence|]. destruct optional; [apply Hrec|]. simpl. auto.
Qed.

(* one layer: either it cannot be reached (CanNotTearDown) and nothing is recorded, or its contribution is rl *)
Lemma run_layer_rl l p : l < nlayers (lw w) ->
  let '(q, cannot) := run_layer w o l p in let '(f, e, r) := rl (reps o) l in
  if cannot then ps_fail q = ps_fail p /\ ps_err q = ps_err p
  else ps_fail q = ps_fail p ++ f /\ ps_err q = ps_err p ++ e /\ ps_ran q = r.
Proof.
  intros Hl. unfold run_layer, tear_down_unneeded.
  pose proof (td_loop_lists (rev (order_by_bases (lw w) (filter (fun x => negb (mem x (gather_layers (lw w) l))) (ps_setup p)))) false p) as Ht.
  destruct (td_loop w _ false p) as [p1 cannot]. simpl in Ht. destruct Ht as [T1 T2].
  destruct cannot; [destruct (rl (reps o) l) as [[f e] r]; auto|].
  pose proof (setup_layer_good w Hwf (S (nlayers (lw w))) l p1 ltac:(lia) (Hsetups l)) as S0.
  destruct (setup_layer_ledger w Hwf (S (nlayers (lw w))) l p1 ltac:(lia)) as [S1 [S2 _]].
  destruct (setup_layer w (S (nlayers (lw w))) l p1) as [p2 exc]. simpl in S0, S1, S2. subst exc.
  pose proof (repeat_loop_rl (reps o) l {| ps_setup := ps_setup p2; ps_att_su := ps_att_su p2; ps_att_td := ps_att_td p2; ps_ran := 0;
                              ps_fail := ps_fail p2; ps_err := ps_err p2; ps_skip := ps_skip p2; ps_ev := ps_ev p2 |}) as Hr.
  cbv zeta in Hr. destruct (rl (reps o) l) as [[f e] r]. cbn [ps_fail ps_err] in Hr. destruct Hr as [R1 [R2 R3]].
  split; [rewrite R1, S1, T1; reflexivity|]. split; [rewrite R2, S2, T2; reflexivity|]. apply R3. unfold reps. destruct (o_repeat o); lia.
Qed.

(* the contribution of a list of layers, with the -x cut *)
Fixpoint agg (ls : list nat) (f e : list name) (ran : nat) : list name * list name * nat :=
  match ls with
  | [] => (f, e, ran)
  | l :: r => if o_x o && bad2 f e then (f, e, ran) else
              let '(fl, el, rn) := rl (reps o) l in agg r (f ++ fl) (e ++ el) (ran + rn)
  end.

Lemma child_rl l : l < nlayers (lw w) ->
  let c := child_run w o l in let '(f, e, r) := rl (reps o) l in c_fail c = f /\ c_err c = e /\ c_ran c = r.
Proof.
  intros Hl. unfold child_run. pose proof (run_layer_rl l ps_init Hl) as H.
  assert (Hc : snd (run_layer w o l ps_init) = false).
  { unfold run_layer, tear_down_unneeded. simpl ps_setup. cbn [filter].
    destruct (td_loop w (rev (order_by_bases (lw w) [])) false ps_init) as [p1 c1] eqn:E.
    assert (c1 = false) by (simpl in E; congruence). subst c1.
    destruct (setup_layer w (S (nlayers (lw w))) l p1) as [p2 exc]. destruct exc; reflexivity. }
  destruct (run_layer w o l ps_init) as [p1 c1]. simpl in Hc. subst c1. unfold tear_down_unneeded.
  pose proof (td_loop_lists (rev (order_by_bases (lw w) (filter (fun x => negb (mem x [])) (ps_setup p1)))) true p1) as Ht.
  destruct (td_loop w _ true p1) as [p2 c2]. simpl in Ht. destruct Ht as [T1 T2].
  destruct (rl (reps o) l) as [[f e] r]. simpl in H. destruct H as [H1 [H2 H3]]. cbn [c_fail c_err c_ran].
  rewrite T1, T2, H1, H2. auto.
Qed.

Lemma resume_seq_agg : forall ls ran f e, (forall l, In l ls -> l < nlayers (lw w)) ->
  let '(_, ran', f', e') := resume_seq w o ls ran f e in (f', e', ran') = agg ls f e ran.
Proof.
  induction ls as [|l ls IH]; intros ran f e Hr; simpl; [reflexivity|].
  fold (bad2 f e). destruct (o_x o && bad2 f e); [reflexivity|].
  pose proof (child_rl l (Hr l (or_introl eq_refl))) as Hc. cbv zeta in Hc.
  destruct (rl (reps o) l) as [[fl el] rn]. destruct Hc as [C1 [C2 C3]]. rewrite C1, C2, C3.
  specialize (IH (ran + rn) (f ++ fl) (e ++ el) (fun x Hx => Hr x (or_intror Hx))).
  destruct (resume_seq w o ls (ran + rn) (f ++ fl) (e ++ el)) as [[[cs r'] f'] e']. exact IH.
Qed.

(* the in-process loop followed by resumption of what it left over *)
Lemma parent_then_resume : forall ls p ran n, (forall l, In l ls -> l < nlayers (lw w)) ->
  o_x o && bad2 (ps_fail p) (ps_err p) = false ->
  let '(p1, ran1, rest, resume, _) := parent_loop w o ls p ran n in
  let '(_, ran2, f2, e2) := if resume then resume_seq w o rest ran1 (ps_fail p1) (ps_err p1) else ([], ran1, ps_fail p1, ps_err p1) in
  (f2, e2, ran2) = agg ls (ps_fail p) (ps_err p) ran.
Proof.
  induction ls as [|l ls IH]; intros p ran n Hr Hb; simpl; [reflexivity|].
  rewrite Hb.
  pose proof (run_layer_rl l p (Hr l (or_introl eq_refl))) as Hl.
  destruct (run_layer w o l p) as [p1 cannot]. destruct (rl (reps o) l) as [[fl el] rn] eqn:Erl. destruct cannot.
  - destruct Hl as [L1 L2]. rewrite L1, L2.
    pose proof (resume_seq_agg (l :: ls) ran (ps_fail p) (ps_err p) Hr) as Hs.
    destruct (resume_seq w o (l :: ls) ran (ps_fail p) (ps_err p)) as [[[cs r'] f'] e']. rewrite Hs. simpl.
    fold (bad2 (ps_fail p) (ps_err p)). rewrite Hb, Erl. reflexivity.
  - destruct Hl as [L1 [L2 L3]]. fold (bad2 (ps_fail p1) (ps_err p1)).
    destruct (o_x o && bad2 (ps_fail p1) (ps_err p1)) eqn:Eb.
    + rewrite L1, L2, L3 in *. destruct ls as [|l2 ls2]; simpl; [reflexivity|]. rewrite Eb. reflexivity.
    + specialize (IH p1 (ran + ps_ran p1) (S n) (fun x Hx => Hr x (or_intror Hx)) Eb).
      destruct (parent_loop w o ls p1 (ran + ps_ran p1) (S n)) as [[[[p' ran'] rest] resume] n'].
      rewrite L1, L2, L3 in IH. exact IH.
Qed.

Lemma run_agg :
  let r := run w o in
  (r_fail r, r_err r, r_ran r) = agg (ordered_layers w) [] [] 0.
Proof.
  unfold run.
  pose proof (ordered_in_range' w Htests) as Hrange.
  destruct (1 <? o_procs o).
  - pose proof (resume_seq_agg (ordered_layers w) 0 [] [] Hrange) as Hs. simpl.
    destruct (resume_seq w o (ordered_layers w) 0 [] []) as [[[cs ran2] f2] e2].
    simpl. rewrite app_nil_r. exact Hs.
  - pose proof (parent_then_resume (ordered_layers w) ps_init 0 0 Hrange) as Hp.
    rewrite andb_false_r in Hp. specialize (Hp eq_refl).
    destruct (parent_loop w o (ordered_layers w) ps_init 0 0) as [[[[p1 ran1] rest] resume] n1].
    destruct (if resume then resume_seq w o rest ran1 (ps_fail p1) (ps_err p1) else ([], ran1, ps_fail p1, ps_err p1)) as [[[cs ran2] f2] e2].
    unfold tear_down_unneeded.
    match goal with |- context [td_loop w ?ord true ?p2] => pose proof (td_loop_lists ord true p2) as Ht; destruct (td_loop w ord true p2) as [p3 c3] end.
    simpl in Ht. destruct Ht as [_ T2]. cbn [r_fail r_err r_ran]. rewrite T2, app_nil_r. exact Hp.
Qed.
End O.

Lemma run_seq_procs o n l : forall ts s, run_seq w (with_procs o n) l ts s = run_seq w o l ts s.
Proof. induction ts as [|[t b] ts IH]; intros s; simpl; [reflexivity|]. destruct (rs_stop s); [reflexivity|]. apply IH. Qed.

Lemma rl_procs o n k l : rl (with_procs o n) k l = rl o k l.
Proof.
  induction k as [|k IH]; simpl; [reflexivity|]. rewrite !run_seq_procs. destruct (rs_stop _); [reflexivity|].
  destruct k; [reflexivity|]. rewrite IH. reflexivity.
Qed.

Lemma agg_procs o n : forall ls f e ran, agg (with_procs o n) ls f e ran = agg o ls f e ran.
Proof.
  induction ls as [|l ls IH]; intros f e ran; simpl; [reflexivity|].
  destruct (o_x o && bad2 f e); [reflexivity|].
  replace (reps (with_procs o n)) with (reps o) by reflexivity. rewrite rl_procs.
  destruct (rl o (reps o) l) as [[fl el] rn]. apply IH.
Qed.

(* C06: lists, count and verdict are the same for every -j N *)
Theorem run_independent_of_procs o n :
  let a := run w (with_procs o n) in let b := run w (with_procs o 1) in
  r_fail a = r_fail b /\ r_err a = r_err b /\ r_ran a = r_ran b /\ r_failed a = r_failed b.
Proof.
  pose proof (run_agg (with_procs o n)) as Ha. pose proof (run_agg (with_procs o 1)) as Hb.
  cbv zeta in Ha, Hb. rewrite agg_procs in Ha. rewrite agg_procs in Hb. rewrite <- Hb in Ha.
  injection Ha as H1 H2 H3. cbv zeta. repeat split; auto.
  rewrite !verdict_spec. rewrite H1, H2. reflexivity.
Qed.
End M.
