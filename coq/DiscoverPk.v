(* DiscoverPk.v — facts about search roots that carry a package (--package-path DIR PKG). *)
From ZT Require Import Base Tree Filter Discover BytecodeFacts DiscoverFacts.

Lemma dedup_pk_fst l : forall seen, map fst (dedup_pk l seen) = dedup_paths (map fst l) seen.
Proof.
  induction l as [|[p k] l IH]; simpl; intros seen; [reflexivity|].
  destruct (existsb (path_eqb p) seen); simpl; [apply IH | f_equal; apply IH].
Qed.

Lemma dedup_pk_in l : forall seen p k, In (p, k) (dedup_pk l seen) -> In (p, k) l.
Proof.
  induction l as [|[q j] l IH]; simpl; intros seen p k H; [exact H|].
  destruct (existsb (path_eqb q) seen).
  - right. eapply IH. exact H.
  - destruct H as [H|H]; [now left | right; eapply IH; exact H].
Qed.

Lemma strip_prefix_spec r : forall p rel, strip_prefix r p = Some rel -> p = r ++ rel.
Proof.
  induction r as [|a r IH]; simpl; intros p rel H.
  - now injection H as ->.
  - destruct p as [|b p]; [discriminate|]. destruct (str_eqb a b) eqn:E; [|discriminate].
    apply str_eqb_eq in E. subst b. f_equal. now apply IH.
Qed.

Lemma strip_prefix_app r x : strip_prefix r (r ++ x) = Some x.
Proof.
  induction r as [|a r IH]; simpl; [reflexivity|].
  assert (E : str_eqb a a = true) by now apply str_eqb_eq. rewrite E. exact IH.
Qed.

Lemma last_app_cons {A} (l : list A) x r d : last (l ++ x :: r) d = last (x :: r) d.
Proof.
  induction l as [|a l IH]; [reflexivity|]. change ((a :: l) ++ x :: r) with (a :: (l ++ x :: r)).
  rewrite <- IH. destruct (l ++ x :: r) eqn:E; [destruct l; discriminate | reflexivity].
Qed.

Lemma in_ins_pk x r : forall l, In r (ins_pk x l) <-> r = x \/ In r l.
Proof.
  induction l as [|y l IH]; simpl; [intuition|].
  destruct (Nat.ltb (length (fst y)) (length (fst x))); simpl; [intuition|]. rewrite IH. intuition.
Qed.

Lemma in_longest_first_pk r rs : In r (longest_first_pk rs) <-> In r rs.
Proof.
  induction rs as [|x rs IH]; simpl; [tauto|]. rewrite in_ins_pk, IH. intuition.
Qed.

Section R.
Variables ident tpat fpat : str -> bool.
Variable ign : list str.
Variable usecompiled : bool.
Variable top : entry.
Notation found_all := (found_all ident tpat fpat ign usecompiled top).
Notation found_root := (found_root ident tpat fpat ign usecompiled top).
Notation found_all_pk := (found_all_pk ident tpat fpat ign usecompiled top).
Notation found_root_pk := (found_root_pk ident tpat fpat ign usecompiled top).
Notation module_name_pk := (module_name_pk usecompiled).

Lemma found_root_pk_fst r : map fst (found_root_pk r) = found_root (fst r).
Proof. unfold Discover.found_root_pk. rewrite map_map. simpl. apply map_id. Qed.

Lemma flat_found_fst rs : map fst (flat_map found_root_pk rs) = flat_map found_root (map fst rs).
Proof. induction rs as [|r rs IH]; simpl; [reflexivity|]. rewrite map_app, found_root_pk_fst, IH. reflexivity. Qed.

(* the files found do not depend on the packages the roots carry: they are those of the plain search paths … *)
Theorem found_all_pk_paths rs : map fst (found_all_pk rs) = found_all (map fst rs).
Proof. unfold Discover.found_all_pk, Discover.found_all. rewrite dedup_pk_fst, flat_found_fst. reflexivity. Qed.

(* … each once, however the mounted and plain search paths overlap or repeat *)
Corollary found_pk_once rs : NoDup (map fst (found_all_pk rs)).
Proof. rewrite found_all_pk_paths. apply found_once. Qed.

(* a found file carries the package of a root below which it was found *)
Theorem found_pk_origin rs p k :
  In (p, k) (found_all_pk rs) -> exists r, In r rs /\ snd r = k /\ In p (found_root (fst r)).
Proof.
  intros H. apply dedup_pk_in in H. apply in_flat_map in H. destruct H as [r [Hr H]].
  unfold Discover.found_root_pk in H. apply in_map_iff in H. destruct H as [q [E Hq]].
  injection E as -> <-. exists r. auto.
Qed.

(* shape of a found path: the entry's own name, directories, a file name with a stem *)
Lemma is_found_shape e p : is_found ident tpat fpat ign usecompiled e p ->
  exists d f s, p = entry_name e :: d ++ [f] /\ stem usecompiled f = Some s.
Proof.
  induction 1 as [n kids f Hf | n kids m sub q Hin Hd Hq IH].
  - destruct Hf as [_ [[s [Hs _]] _]]. exists [], f, s. auto.
  - destruct IH as [d [f [s [-> Hs]]]]. exists (m :: d), f, s. auto.
Qed.

Lemma found_root_shape root p : In p (found_root root) -> exists d f s, p = root ++ d ++ [f] /\ stem usecompiled f = Some s.
Proof.
  unfold Discover.found_root. destruct (entry_at_abs top root) as [e|]; [|intros []].
  intros H. apply in_map_iff in H. destruct H as [q [<- Hq]]. apply walk_spec in Hq. apply is_found_shape in Hq.
  destruct Hq as [d [f [s [-> Hs]]]]. exists d, f, s. auto.
Qed.

Lemma name_under_some r fp x rel f s :
  strip_prefix (fst r) fp = Some (x :: rel) -> last fp [] = f -> stem usecompiled f = Some s ->
  exists m, name_under usecompiled r fp = Some m.
Proof.
  intros Hsp Hl Hs. unfold name_under. rewrite Hsp. cbv zeta.
  apply strip_prefix_spec in Hsp. assert (El : last (x :: rel) [] = f).
  { rewrite <- Hl, Hsp. symmetry. apply last_app_cons. }
  rewrite El, Hs. eauto.
Qed.

(* the first prefix (longest first) that carries the file's package and whose name is accepted decides *)
Lemma first_named_spec acc rs fp k m :
  first_named usecompiled acc rs fp k = Some m ->
  exists r, In r rs /\ snd r = k /\ name_under usecompiled r fp = Some m /\ acc m = true.
Proof.
  induction rs as [|r0 rs IH]; simpl; [discriminate|].
  destruct (str_eqb (snd r0) k) eqn:Ek.
  - destruct (name_under usecompiled r0 fp) as [m0|] eqn:En.
    + destruct (acc m0) eqn:Ea.
      * intros E. injection E as <-. exists r0. apply str_eqb_eq in Ek. auto.
      * intros H. destruct (IH H) as [r [H1 H2]]. exists r. auto.
    + intros H. destruct (IH H) as [r [H1 H2]]. exists r. auto.
  - intros H. destruct (IH H) as [r [H1 H2]]. exists r. auto.
Qed.

Lemma first_named_some acc rs fp k :
  (exists r m, In r rs /\ snd r = k /\ name_under usecompiled r fp = Some m /\ acc m = true) ->
  exists m, first_named usecompiled acc rs fp k = Some m.
Proof.
  induction rs as [|r0 rs IH]; intros [r [m [Hin [Hk [Hn Ha]]]]]; [destruct Hin|].
  simpl. destruct Hin as [->|Hin].
  - assert (E : str_eqb (snd r) k = true) by now apply str_eqb_eq. rewrite E, Hn, Ha. eauto.
  - destruct (str_eqb (snd r0) k); [|apply IH; eauto 6].
    destruct (name_under usecompiled r0 fp) as [m0|]; [|apply IH; eauto 6].
    destruct (acc m0); [eauto | apply IH; eauto 6].
Qed.

(* Every file that discovery yields has a module name under the root through which it was found — provided the
   prefixes contain every searched root with its package (options.prefix is built from options.test_path, which is
   what is walked). *)
Theorem every_found_file_is_named walk_roots name_roots p k :
  (forall r, In r walk_roots -> In r name_roots) ->
  In (p, k) (found_all_pk walk_roots) ->
  exists r m, In r name_roots /\ snd r = k /\ name_under usecompiled r p = Some m /\ module_name_pk name_roots p k <> None.
Proof.
  intros Hsub H. apply found_pk_origin in H. destruct H as [r [Hr [Hk Hp]]].
  apply found_root_shape in Hp. destruct Hp as [d [f [s [-> Hs]]]].
  destruct (d ++ [f]) as [|x rel] eqn:E; [destruct d; discriminate|].
  destruct (name_under_some r (fst r ++ x :: rel) x rel f s) as [m Hm].
  - apply strip_prefix_app.
  - rewrite <- E, app_assoc. apply last_last.
  - exact Hs.
  - exists r, m. split; [auto|]. split; [exact Hk|]. split; [exact Hm|].
    unfold Discover.module_name_pk.
    destruct (first_named_some (fun _ => true) (longest_first_pk name_roots) (fst r ++ x :: rel) k) as [m' Hm'].
    + exists r, m. split; [apply in_longest_first_pk; auto | auto].
    + rewrite Hm'. discriminate.
Qed.

Variable search : str -> str -> bool.
Notation imported_pk := (imported_pk ident tpat fpat ign usecompiled top search).

(* Only modules accepted by --module are handed to import: a name handed over is a name of a found file relative to one of the
   search roots that carry the file's package, and --module accepts it … *)
Theorem imported_only_accepted walk_roots name_roots mpats fp m :
  In (fp, m) (imported_pk walk_roots name_roots mpats) ->
  exists k r, In (fp, k) (found_all_pk walk_roots) /\ In r name_roots /\ snd r = k /\
              name_under usecompiled r fp = Some m /\ accept search mpats m = true.
Proof.
  unfold Discover.imported_pk. rewrite in_flat_map. intros [[q k] [Hq H]]. simpl in H.
  destruct (first_named usecompiled (accept search mpats) (longest_first_pk name_roots) q k) as [m'|] eqn:Em; [|destruct H].
  destruct H as [E|[]]. injection E as -> ->. apply first_named_spec in Em. destruct Em as [r [H1 [H2 [H3 H4]]]].
  exists k, r. rewrite in_longest_first_pk in H1. auto.
Qed.

(* … and every found file that has an accepted name is handed over (once: see found_pk_once) *)
Theorem accepted_found_file_is_imported walk_roots name_roots mpats p k r m :
  In (p, k) (found_all_pk walk_roots) -> In r name_roots -> snd r = k ->
  name_under usecompiled r p = Some m -> accept search mpats m = true ->
  exists m', In (p, m') (imported_pk walk_roots name_roots mpats).
Proof.
  intros Hf Hr Hk Hn Ha.
  destruct (first_named_some (accept search mpats) (longest_first_pk name_roots) p k) as [m' Hm'].
  - exists r, m. split; [apply in_longest_first_pk; auto | auto].
  - exists m'. unfold Discover.imported_pk. apply in_flat_map. exists (p, k). split; [exact Hf|]. simpl. rewrite Hm'. now left.
Qed.

(* the files handed to import are distinct *)
Theorem imported_once walk_roots name_roots mpats : NoDup (map fst (imported_pk walk_roots name_roots mpats)).
Proof.
  unfold Discover.imported_pk. generalize (found_pk_once walk_roots).
  induction (found_all_pk walk_roots) as [|[q k] l IH]; simpl; intros Hnd; [constructor|].
  inversion Hnd as [|? ? Hnot Hnd']; subst.
  destruct (first_named usecompiled (accept search mpats) (longest_first_pk name_roots) q k); simpl; [|now apply IH].
  constructor; [|now apply IH]. intros Hin. apply Hnot. apply in_map_iff in Hin. destruct Hin as [[q' m'] [Eq Hin]].
  simpl in Eq. subst q'. apply in_flat_map in Hin. destruct Hin as [[q2 k2] [Hq2 Hin]]. simpl in Hin.
  destruct (first_named usecompiled (accept search mpats) (longest_first_pk name_roots) q2 k2); [|destruct Hin].
  destruct Hin as [E|[]]. injection E as -> _. apply in_map_iff. exists (q, k2). auto.
Qed.
End R.
