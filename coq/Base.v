(* Base.v — shared vocabulary: strings as code-point lists, small list utilities,
   and the case-evaluation protocol used by every generated cases_*.v file. *)
From Coq Require Export List Arith Bool PeanoNat NArith ZArith Lia.
Export ListNotations.
Open Scope bool_scope.

Definition str := list N.

Fixpoint str_eqb (a b : str) : bool :=
  match a, b with
  | [], [] => true
  | x :: a', y :: b' => N.eqb x y && str_eqb a' b'
  | _, _ => false
  end.

(* lexicographic comparison of lists (Python's tuple / str ordering) *)
Fixpoint lex_cmp {A} (cmp : A -> A -> comparison) (a b : list A) : comparison :=
  match a, b with
  | [], [] => Eq | [], _ => Lt | _, [] => Gt
  | x :: a', y :: b' => match cmp x y with Eq => lex_cmp cmp a' b' | c => c end
  end.
Definition str_cmp : str -> str -> comparison := lex_cmp N.compare.

Definition mem (x : nat) (l : list nat) : bool := existsb (Nat.eqb x) l.
Definition smem (x : str) (l : list str) : bool := existsb (str_eqb x) l.

Definition subset (a b : list nat) := forallb (fun x => mem x b) a.
Definition seteq (a b : list nat) := subset a b && subset b a.

Fixpoint list_eqb {A} (eqb : A -> A -> bool) (a b : list A) : bool :=
  match a, b with
  | [], [] => true
  | x :: a', y :: b' => eqb x y && list_eqb eqb a' b'
  | _, _ => false
  end.

Fixpoint list_rel {A B} (f : A -> B -> bool) (a : list A) (b : list B) : bool :=
  match a, b with
  | [], [] => true
  | x :: a', y :: b' => f x y && list_rel f a' b'
  | _, _ => false
  end.

Definition opt_eqb {A} (eqb : A -> A -> bool) (a b : option A) : bool :=
  match a, b with
  | None, None => true
  | Some x, Some y => eqb x y
  | _, _ => false
  end.

(* ---- case-evaluation protocol ------------------------------------------
   Every property defines  check : case -> nat  returning a bit mask:
     1  model and implementation disagree on this case
     2  the property predicate is false on the implementation's observation
     4  the case lies outside the hypotheses of the theorems (informational)
     8+ finding classifiers (property specific)
   A generated file ends in  Eval vm_compute in (codes check cases).  and only
   the (index, code) pairs with code <> 0 are printed. *)
Fixpoint codes_from {A} (chk : A -> nat) (i : nat) (l : list A) : list (nat * nat) :=
  match l with
  | [] => []
  | c :: r => match chk c with
              | 0 => codes_from chk (S i) r
              | k => (i, k) :: codes_from chk (S i) r
              end
  end.
Definition codes {A} (chk : A -> nat) (l : list A) := codes_from chk 0 l.

Definition bit (b : bool) (k : nat) : nat := if b then k else 0.
