(* Levels.v — model of find.tests_from_suite (layer/level inheritance, level eligibility),
   of the option post-processing for --all/-u/-f and of Filter.global_setup's layer selection. *)
From ZT Require Import Base Filter.
Open Scope Z_scope.

Inductive suite :=
| Case (lvl : option Z) (lay : option nat) (id : nat)      (* a test; attributes present or absent *)
| Suite (lvl : option Z) (lay : option nat) (kids : list suite)
| StartUp (id : nat).                                       (* StartUpFailure: yielded with layer None *)

Definition dflt {A} (o : option A) (d : A) : A := match o with Some x => x | None => d end.

(* (id, level, Some layer) ; StartUpFailure gives (id, 0, None) *)
Definition item := (nat * Z * option nat)%type.

Fixpoint flatten (dl : Z) (dly : nat) (s : suite) : list item :=
  match s with
  | Case lv ly id => [(id, dflt lv dl, Some (dflt ly dly))]
  | Suite lv ly kids =>
    (fix go (ks : list suite) : list item :=
       match ks with [] => [] | k :: r => flatten (dflt lv dl) (dflt ly dly) k ++ go r end) kids
  | StartUp id => [(id, 0, None)]
  end.

(* independent specification: collect, for each leaf, the declarations on the path from the
   root, then take the innermost one *)
Definition decl := (option Z * option nat)%type.
Inductive leaf := LCase (id : nat) | LStart (id : nat).
Fixpoint leaves (path : list decl) (s : suite) : list (list decl * leaf) :=
  match s with
  | Case lv ly id => [(path ++ [(lv, ly)], LCase id)]
  | Suite lv ly kids =>
    (fix go (ks : list suite) : list (list decl * leaf) :=
       match ks with [] => [] | k :: r => leaves (path ++ [(lv, ly)]) k ++ go r end) kids
  | StartUp id => [(path, LStart id)]
  end.
(* innermost declaration = last Some along the path *)
Fixpoint nearest {A} (l : list (option A)) (d : A) : A :=
  match l with [] => d | o :: r => nearest r (dflt o d) end.
Definition resolve (dl : Z) (dly : nat) (pl : list decl * leaf) : item :=
  match snd pl with
  | LCase id => (id, nearest (map fst (fst pl)) dl, Some (nearest (map snd (fst pl)) dly))
  | LStart id => (id, 0, None)
  end.

(* ---- options ---- *)
Record opts := {
  at_level : Z; all : bool; only_level : option Z;
  unit : bool; non_unit : bool; layer_pats : list str
}.
Definition maxsize : Z := 9223372036854775807.
Definition unit_name : str :=   (* 'zope.testrunner.layer.UnitTests' *)
  [122;111;112;101;46;116;101;115;116;114;117;110;110;101;114;46;108;97;121;101;114;46;85;110;105;116;84;101;115;116;115]%N.

(* get_options post-processing *)
Definition post (o : opts) : opts :=
  let at' := if all o then maxsize else at_level o in
  let both := unit o && non_unit o in
  let u := if both then false else unit o in
  let f := if both then false else non_unit o in
  {| at_level := at'; all := all o; only_level := only_level o; unit := u; non_unit := f;
     layer_pats := if u then [unit_name] else layer_pats o |}.

(* tests_from_suite's level test, on post-processed options *)
Definition eligible (o : opts) (lvl : Z) : bool :=
  match only_level o with
  | None => (at_level o <=? 0) || (lvl <=? at_level o)
  | Some k => lvl =? k
  end.

Section Sel.
Variable search : str -> str -> bool.
(* Filter.global_setup (not a resumed child): which layer names stay, in dict order *)
Definition keep_layers (o : opts) (present : list str) : list str :=
  let drop_unit :=
    if non_unit o then true
    else match layer_pats o with [] => false | ps => negb (accept search ps unit_name) end in
  let l1 := if drop_unit then filter (fun n => negb (str_eqb n unit_name)) present else present in
  match layer_pats o with
  | [] => l1
  | ps => filter (accept search ps) l1
  end.
End Sel.
