(* P_C08.v — property theorems for C08 only; each closed by `exact`. *)
From ZT Require Import Base Filter FilterFacts.
From Coq Require Import Permutation.

Theorem C08_accept_spec : forall search pats v,
  search dot_pat v = true -> (accept search pats v = true <-> spec search pats v).
Proof. exact accept_spec. Qed.
Print Assumptions C08_accept_spec.

Theorem C08_accept_spec_code : forall search pats v,
  accept search pats v = true <->
  ((exists p, In p pats /\ is_neg p = false /\ search p v = true) \/
   (~ has_pos pats /\ has_neg pats /\ search dot_pat v = true))
  /\ ~ (exists p, In p pats /\ is_neg p = true /\ search (tl p) v = true).
Proof. exact accept_spec_code. Qed.
Print Assumptions C08_accept_spec_code.

Theorem C08_order_and_duplicates_irrelevant : forall search pats pats' v,
  (forall p, In p pats <-> In p pats') -> accept search pats v = accept search pats' v.
Proof. exact accept_set_ext. Qed.
Print Assumptions C08_order_and_duplicates_irrelevant.

Theorem C08_accept_perm : forall search pats pats' v,
  Permutation pats pats' -> accept search pats v = accept search pats' v.
Proof. exact accept_perm. Qed.
Print Assumptions C08_accept_perm.

Theorem C08_add_positive_never_deselects : forall search pats p v,
  is_neg p = false -> has_pos pats -> accept search pats v = true -> accept search (pats ++ [p]) v = true.
Proof. exact accept_add_pos. Qed.
Print Assumptions C08_add_positive_never_deselects.

Theorem C08_add_negated_never_selects : forall search pats p v,
  is_neg p = true -> pats <> [] -> accept search pats v = false -> accept search (pats ++ [p]) v = false.
Proof. exact accept_add_neg. Qed.
Print Assumptions C08_add_negated_never_selects.

Theorem C08_add_pos_only_neg_refuted :
  exists pats p v, is_neg p = false /\
    accept ex_search pats v = true /\ accept ex_search (pats ++ [p]) v = false.
Proof. exact accept_add_pos_only_neg_refuted. Qed.
Print Assumptions C08_add_pos_only_neg_refuted.

Theorem C08_spec_nodot_refuted :
  exists pats v, spec ex_search pats v /\ accept ex_search pats v = false.
Proof. exact accept_spec_nodot_refuted. Qed.
Print Assumptions C08_spec_nodot_refuted.
