(* Chk_C17.v — case type and checker for C17 (XML reports). *)
From ZT Require Import Base Layers Run Xml.

Record tinfo := {
  ti_b : test;              (* behaviour *)
  ti_class : str;           (* module.Class *)
  ti_name : str;            (* method name *)
  ti_msgs : list (nat * nat * str);  (* (phase, k) -> exception message raised there *)
  ti_doc : option str       (* a doctest case: its dotted doctest name (module[.object]); class and name then come from it *)
}.

(* parse_doc_test_case: the name is the last dotted component, suite and class are what precedes it *)
Fixpoint split_last_dot (s : str) : str * str :=
  match s with
  | [] => ([], [])
  | c :: r => let '(a, b) := split_last_dot r in
              if N.eqb c 46 then (if existsb (N.eqb 46) r then (c :: a, b) else ([], r))
              else (if existsb (N.eqb 46) r then (c :: a, b) else ([], c :: b))
  end.
Definition eff_class (ti : tinfo) : str :=
  match ti_doc ti with Some d => fst (split_last_dot d) | None => ti_class ti end.
Definition eff_name (ti : tinfo) : str :=
  match ti_doc ti with Some d => snd (split_last_dot d) | None => ti_name ti end.
Record psuite := {
  p_name : str; p_tests : nat; p_errors : nat; p_failures : nat;
  p_cases : list (str * str * option (nat * str * str))   (* classname, name, child: (0 failure | 1 error, message attr, text) *)
}.
Record case := {
  infos : list tinfo;
  files_wf : bool;            (* every report file was accepted by a strict XML parser (expat) *)
  parsed : list psuite;       (* the report files as parsed, in suite first-seen order *)
  aborted : bool
}.

Definition msg_at (ti : tinfo) (ph k : nat) : str :=
  match find (fun q => let '(p, j, _) := q in Nat.eqb p ph && Nat.eqb j k) (ti_msgs ti) with
  | Some (_, _, m) => m | None => [] end.

(* " (k=K)" as unittest prints subtest parameters *)
Fixpoint nat_digits (fuel n : nat) (acc : str) : str :=
  match fuel with O => acc | S f => let acc' := N.of_nat (48 + n mod 10) :: acc in
                                    if Nat.eqb (n / 10) 0 then acc' else nat_digits f (n / 10) acc' end.
Definition sub_suffix (k : nat) : str := [32; 40; 107; 61]%N ++ nat_digits 6 k [] ++ [41]%N.

(* the result events of one test as the XML wrapper records them; `ph` tracks the phase the event belongs to *)
Fixpoint xevents (ti : tinfo) (ps : list pev) (ph k : nat) : list xevent :=
  match ps with
  | [] => []
  | PPhase ph' k' :: r => xevents ti r ph' k'
  | PRes res j :: r =>
    let mk kind name msg := {| x_suite := eff_class ti; x_class := eff_class ti; x_name := name; x_kind := kind; x_msg := msg |} in
    (match res with
     | RSuccess | RXF => [mk XPass (eff_name ti) []]
     | RFail => [mk XFail (eff_name ti) (msg_at ti ph k)]
     | RErr => [mk XErr (eff_name ti) (msg_at ti ph k)]
     | RSubFail => [mk XFail (eff_name ti ++ sub_suffix j) (msg_at ti 2 j)]
     | RSubErr => [mk XErr (eff_name ti ++ sub_suffix j) (msg_at ti 2 j)]
     | RUS => [mk XErr (eff_name ti) []]
     | RSkip | RSubSkip => []
     end) ++ xevents ti r ph k
  | _ :: r => xevents ti r ph k
  end.
Definition all_events (c : case) : list xevent := flat_map (fun ti => xevents ti (proto (ti_b ti)) 0 0) (infos c).

(* a conforming parser normalises line ends in character data *)
Fixpoint norm_nl (s : str) : str :=
  match s with
  | [] => []
  | 13%N :: r => 10%N :: (match r with 10%N :: r' => norm_nl r' | _ => norm_nl r end)
  | c :: r => c :: norm_nl r
  end.
Fixpoint prefix_eqb (p s : str) : bool :=
  match p, s with [] , _ => true | a :: p', b :: s' => N.eqb a b && prefix_eqb p' s' | _, [] => false end.

Definition kind_code (k : xkind) : nat := match k with XFail => 0 | XErr => 1 | XPass => 2 end.
Definition case_agree (m : str * str * option (xkind * str * str)) (p : str * str * option (nat * str * str)) : bool :=
  let '(mc, mn, mch) := m in let '(pc, pn, pch) := p in
  str_eqb mc pc && str_eqb mn pn &&
  match mch, pch with
  | None, None => true
  | Some (k, msg, txt), Some (pk, pmsg, ptxt) =>
    Nat.eqb (kind_code k) pk && str_eqb msg pmsg && prefix_eqb (norm_nl txt) ptxt
  | _, _ => false
  end.
Definition suite_agree (m : xsuite) (p : psuite) : bool :=
  str_eqb (s_name m) (p_name p) && Nat.eqb (s_tests m) (p_tests p) && Nat.eqb (s_errors m) (p_errors p)
  && Nat.eqb (s_failures m) (p_failures p) && list_rel case_agree (s_cases m) (p_cases p).

Definition agree (c : case) : bool :=
  negb (aborted c) && files_wf c
  && Nat.eqb (length (record (all_events c))) (length (parsed c))
  && forallb (fun m => existsb (suite_agree m) (parsed c)) (map report (record (all_events c))).

(* ---- the statement on the parsed files ---- *)
Definition count_cases (p : psuite) (f : option (nat * str * str) -> bool) : nat :=
  length (filter (fun q => f (snd q)) (p_cases p)).
Definition c17_ok (c : case) : bool :=
  negb (aborted c) && files_wf c
  (* attributes = numbers of elements *)
  && forallb (fun p => Nat.eqb (p_tests p) (length (p_cases p))
                       && Nat.eqb (p_errors p) (count_cases p (fun ch => match ch with Some (1, _, _) => true | _ => false end))
                       && Nat.eqb (p_failures p) (count_cases p (fun ch => match ch with Some (0, _, _) => true | _ => false end)))
             (parsed c)
  (* every reported event appears as a testcase of its own class and name with the right child; passes exactly once *)
  && forallb (fun e =>
       let want := length (filter (fun e' => str_eqb (x_class e') (x_class e) && str_eqb (x_name e') (x_name e)
                                             && Nat.eqb (kind_code (x_kind e')) (kind_code (x_kind e))) (all_events c)) in
       let have := fold_left (fun a p => a + length (filter (fun q =>
                      let '(pc, pn, pch) := q in
                      str_eqb pc (xml_safe (x_class e)) && str_eqb pn (xml_safe (x_name e))
                      && Nat.eqb (match pch with None => 2 | Some (k, _, _) => k end) (kind_code (x_kind e))) (p_cases p)))
                    (parsed c) 0 in
       Nat.eqb want have) (all_events c).

Definition check (c : case) : nat := bit (negb (agree c)) 1 + bit (negb (c17_ok c)) 2.
