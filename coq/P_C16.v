(* P_C16.v — property theorems for C16 only. *)
From ZT Require Import Base Layers Run RunFacts.

(* With -x the test loop of a layer executes the tests up to and including the first one that records a
   failure, an error, a failing subtest or an unexpected success — and nothing after it. *)
Theorem C16_no_test_after_first_bad : forall w o l pre t b post s,
  o_x o = true -> rs_stop s = false ->
  forallb (fun it => negb (bad_b (snd it))) pre = true -> bad_b b = true ->
  run_seq w o l (pre ++ (t, b) :: post) s = run_all w o l (pre ++ [(t, b)]) s.
Proof. exact run_seq_stops_at_first_bad. Qed.
Print Assumptions C16_no_test_after_first_bad.

Theorem C16_stopped_stays_stopped : forall w o l ts s, rs_stop s = true -> run_seq w o l ts s = s.
Proof. exact run_seq_stopped. Qed.
Print Assumptions C16_stopped_stays_stopped.

(* the stop flag is raised exactly by a bad result event under -x *)
Theorem C16_stop_iff_bad : forall w o l t b s,
  rs_stop (run_test w o l t b s) = rs_stop s || (o_x o && bad_b b).
Proof. exact run_test_stop. Qed.
Print Assumptions C16_stop_iff_bad.

(* the summary is still printed *)
Theorem C16_summary_still_printed : forall w o n l p, 0 < n ->
  exists pre ran nf ne ns rest, ps_ev (repeat_loop w o n l p) = ps_ev p ++ pre ++ ESummary l ran nf ne ns :: rest.
Proof. exact repeat_loop_summary. Qed.
Print Assumptions C16_summary_still_printed.
