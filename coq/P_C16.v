(* P_C16.v — property theorems for C16 only. *)
From ZT Require Import Base Layers Run RunFacts.

(* With -x the test loop of a layer executes the tests up to and including the first one that records a
   failure, an error, a failing subtest or an unexpected success — and nothing after it. *)
Theorem C16_no_test_after_first_bad : forall w o l pre t b post s,
  o_x o = true -> rs_stop s = false ->
  forallb (fun it => negb (bad_b (snd it))) pre = true -> bad_b b = true ->
  run_seq w o l (pre ++ (t, b) :: post) s = run_all w o l (pre ++ [(t, b)]) s.
Proof. exact run_seq_stops_at_first_bad. Qed.
Print Assumptions C16_no_test_after_first_bad.

Theorem C16_stopped_stays_stopped : forall w o l ts s, rs_stop s = true -> run_seq w o l ts s = s.
Proof. exact run_seq_stopped. Qed.
Print Assumptions C16_stopped_stays_stopped.

(* the stop flag is raised exactly by a bad result event under -x *)
Theorem C16_stop_iff_bad : forall w o l t b s,
  rs_stop (run_test w o l t b s) = rs_stop s || (o_x o && bad_b b).
Proof. exact run_test_stop. Qed.
Print Assumptions C16_stop_iff_bad.

(* the summary is still printed *)
Theorem C16_summary_still_printed : forall w o n l p, 0 < n ->
  exists pre ran nf ne ns rest, ps_ev (repeat_loop w o n l p) = ps_ev p ++ pre ++ ESummary l ran nf ne ns :: rest.
Proof. exact repeat_loop_summary. Qed.
Print Assumptions C16_summary_still_printed.

(* ------------------------------------------------------------------------------------------------------------
   The whole run under -x, for EVERY world, --repeat count, fault script and process layout.  `stop_ok` scans a
   process's events and is false iff a test starts or a layer set-up is attempted after a bad outcome (failing
   or erroring test or subtest, unexpected success, exception out of a layer's setUp) in that process;
   `seen_bad` says the process had a bad outcome. *)
From ZT Require Import LayersFacts RunStop.

Theorem C16_whole_run : forall w o, o_x o = true ->
  let r := run w o in
  stop_ok (r_parent r) = true /\
  (forall c, In c (r_children r) -> stop_ok (c_ev c) = true) /\
  (* once the parent knows a bad outcome no layer subprocess is started; after a subprocess with one, no other *)
  (seen_bad (r_parent r) = true -> r_children r = []) /\
  (forall a c b, r_children r = a ++ c :: b -> seen_bad (c_ev c) = true -> b = []).
Proof. exact run_stop. Qed.
Print Assumptions C16_whole_run.

Theorem C16_verdict_failed : forall w o,
  wf (lw w) -> (forall t, In t (tests w) -> t_layer t < nlayers (lw w)) ->
  (seen_bad (r_parent (run w o)) = true \/ exists c, In c (r_children (run w o)) /\ seen_bad (c_ev c) = true) ->
  r_failed (run w o) = true.
Proof. exact bad_outcome_fails. Qed.
Print Assumptions C16_verdict_failed.

(* … and everything that was set up is torn down again (C01's whole-run statement, which holds under -x too) *)
From ZT Require Import RunInv.
Theorem C16_still_torn_down : forall w, wf (lw w) -> forall o,
  (forall t, In t (tests w) -> t_layer t < nlayers (lw w)) ->
  c01_trace_ok w (r_parent (run w o)) = true /\
  forall c, In c (r_children (run w o)) -> c01_trace_ok w (c_ev c) = true.
Proof. intros w Hwf o Ht. split; [apply c01_parent | apply c01_children]; assumption. Qed.
Print Assumptions C16_still_torn_down.

(* observation level: the predicate Obs.c16_ok evaluated on the implementation's observation holds of the model's
   observation of every run; a sequential case without correspondence difference therefore satisfies it *)
From ZT Require Import Chk_World Obs ModelCase ObsC16.
Theorem C16_predicate_holds_of_model : forall w o inj,
  wf (lw w) -> (forall t, In t (tests w) -> t_layer t < nlayers (lw w)) -> c16_ok (model_case w o inj) = true.
Proof. exact c16_ok_model. Qed.
Print Assumptions C16_predicate_holds_of_model.
Theorem C16_check_sound : forall c, agree c = true -> wf_case c = true -> Nat.ltb 1 (o_procs (Chk_World.o c)) = false -> c16_ok c = true.
Proof. exact c16_check_sound. Qed.
Print Assumptions C16_check_sound.
