(* Bytecode.v — model of find.remove_stale_bytecode over a directory tree. *)
From ZT Require Import Base Tree.

Definition s_pyc : str := [46;112;121;99]%N.        (* ".pyc" *)
Definition s_pyo : str := [46;112;121;111]%N.       (* ".pyo" *)
Definition s_pycache : str := [95;95;112;121;99;97;99;104;101;95;95]%N.   (* "__pycache__" *)

(* file[-4:] *)
Definition last4 (f : str) : str := skipn (length f - 4) f.
(* file[-4:] in compiled_suffixes *)
Definition compiled (f : str) : bool := str_eqb (last4 f) s_pyc || str_eqb (last4 f) s_pyo.
(* file[:-1] *)
Definition drop1 (f : str) : str := removelast f.

Section B.
Variable ign : list str.     (* options.ignore_dir *)

Definition pruned (n : str) : bool := smem n ign || str_eqb n s_pycache.

(* files unlinked while walking the directory whose entries are `kids` (paths relative to it) *)
Fixpoint stale_e (e : entry) : list path :=
  match e with
  | F _ => []
  | D n kids =>
    if pruned n then [] else
    map (cons n)
      (map (fun f => [f]) (filter (fun f => compiled f && negb (smem (drop1 f) (file_names kids))) (file_names kids))
       ++ (fix go ks := match ks with [] => [] | k :: r => stale_e k ++ go r end) kids)
  end.
Definition stale_dir (kids : list entry) : list path :=
  map (fun f => [f]) (filter (fun f => compiled f && negb (smem (drop1 f) (file_names kids))) (file_names kids))
  ++ flat_map stale_e kids.

End B.

(* remove_stale_bytecode(options): nothing with --keepbytecode (implied by --usecompiled);
   otherwise each test path is walked in turn *)
Definition cleanup_root (ign : list str) (keep : bool) (tree : list entry) (root : path) : list path :=
  if keep then [] else
  match subtree tree root with
  | Some kids => map (app root) (stale_dir ign kids)
  | None => []
  end.
