(* RestoreTagged.v — the schedule of RestorePhases.v with every write undone by the value THAT WRITE saved (run4), not by a
   look-up on the field (run3).  run4 also describes overlapping writes faithfully: there the schedule is not restoring (witness
   below), which is why disjointness of the active features' writes is a hypothesis of the C18 schedule theorems and is evaluated on
   every case.  Under that hypothesis run4 restores every managed field whatever the tests do, like run3. *)
From ZT Require Import Base Restore RestoreFacts RestorePhases.

Definition write_eqb (a b : write) : bool :=
  Nat.eqb (w_field a) (w_field b) && Nat.eqb (w_val a) (w_val b) && Bool.eqb (w_late a) (w_late b) && Bool.eqb (w_early a) (w_early b).

Fixpoint install_w (ws : list write) (g : gstate) : gstate * list (write * nat) :=
  match ws with
  | [] => (g, [])
  | w :: r => let old := gget g (w_field w) in
              let '(g', s) := install_w r (gset g (w_field w) (w_val w)) in (g', (w, old) :: s)
  end.
Fixpoint lookup_w (s : list (write * nat)) (w : write) : nat :=
  match s with [] => 0 | (w', o) :: r => if write_eqb w' w then o else lookup_w r w end.

Definition run4 (fs : list feature3) (phase : gstate -> gstate) (g : gstate) : gstate :=
  let '(g2, s) := install_w (setup_order fs) g in
  fold_left (fun acc w => gset acc (w_field w) (lookup_w s w)) (teardown_order fs) (phase g2).

(* two features writing one field, the outer one undone early, the inner one late: the outer feature's value comes back *)
Theorem overlapping_writes_are_not_restored : exists fs g f,
  disjoint_writes fs = false /\ In f (fields3 fs) /\ gget (run4 fs (fun x => x) g) f <> gget g f.
Proof.
  exists [ [ {| w_field := 4; w_val := 1; w_late := false; w_early := true |} ];
           [ {| w_field := 4; w_val := 2; w_late := false; w_early := false |} ] ], [(4, 0)], 4.
  split; [reflexivity|]. split; [simpl; now left|]. vm_compute. discriminate.
Qed.

Lemma write_eqb_refl w : write_eqb w w = true.
Proof. unfold write_eqb. rewrite !Nat.eqb_refl, !Bool.eqb_reflx. reflexivity. Qed.
Lemma write_eqb_field a b : write_eqb a b = true -> w_field a = w_field b.
Proof. unfold write_eqb. intros H. repeat (apply andb_true_iff in H; destruct H as [H ?]). now apply Nat.eqb_eq. Qed.

(* with distinct fields, what a write saved is the value the field had before the run *)
Lemma install_w_saved : forall ws g g' s w, install_w ws g = (g', s) -> NoDup (map w_field ws) -> In w ws ->
  lookup_w s w = gget g (w_field w).
Proof.
  induction ws as [|w0 r IH]; simpl; intros g g' s w E Hnd Hin; [destruct Hin|].
  destruct (install_w r (gset g (w_field w0) (w_val w0))) as [g1 s1] eqn:E1. injection E as <- <-. simpl.
  inversion Hnd as [|? ? Hn Hr]; subst.
  destruct Hin as [<-|Hin]; [now rewrite write_eqb_refl|].
  destruct (write_eqb w0 w) eqn:Ew.
  - exfalso. apply Hn. apply write_eqb_field in Ew. rewrite Ew. now apply in_map.
  - rewrite (IH _ _ _ w E1 Hr Hin). apply gget_gset_ne. intros Heq. apply Hn. rewrite Heq. now apply in_map.
Qed.

Lemma fold_gset_get (h : write -> nat) : forall order x f,
  gget (fold_left (fun acc w => gset acc (w_field w) (h w)) order x) f =
  match find (fun w => Nat.eqb (w_field w) f) (rev order) with Some w => h w | None => gget x f end.
Proof.
  induction order as [|w r IH] using rev_ind; intros x f; [reflexivity|].
  rewrite fold_left_app, rev_app_distr. simpl.
  destruct (Nat.eqb (w_field w) f) eqn:E.
  - apply Nat.eqb_eq in E. subst f. apply gget_gset_eq.
  - rewrite gget_gset_ne by (intros Heq; rewrite Heq in E; now rewrite Nat.eqb_refl in E). apply IH.
Qed.

Lemma install_w_other : forall ws g f, ~ In f (map w_field ws) -> gget (fst (install_w ws g)) f = gget g f.
Proof.
  induction ws as [|w r IH]; simpl; intros g f Hn; [reflexivity|].
  destruct (install_w r (gset g (w_field w) (w_val w))) as [g' s'] eqn:E. simpl.
  specialize (IH (gset g (w_field w) (w_val w)) f). rewrite E in IH. simpl in IH. rewrite IH by tauto.
  apply gget_gset_ne. intros Heq. apply Hn. now left.
Qed.

Lemma setup_order_fields fs f : In f (map w_field (setup_order fs)) <-> In f (fields3 fs).
Proof. rewrite <- setup_fields. unfold wpairs. rewrite map_map. reflexivity. Qed.

Lemma setup_order_NoDup fs : NoDup (fields3 fs) -> NoDup (map w_field (setup_order fs)).
Proof. intros H. apply setup_NoDup in H. unfold wpairs in H. rewrite map_map in H. exact H. Qed.

Lemma in_teardown_in_setup fs w : In w (teardown_order fs) -> In w (setup_order fs).
Proof.
  unfold teardown_order, setup_order. intros H.
  apply (proj1 (in_filter_split w_late (concat fs) w)).
  apply in_concat_rev. apply (proj2 (in_filter_split (fun w => negb (w_early w)) (concat (rev fs)) w)).
  apply in_app_or in H. apply in_or_app. destruct H as [H|H]; [left | right]; [|exact H].
  rewrite filter_In in *. destruct H as [H1 H2]. split; [exact H1|]. now rewrite H2.
Qed.

Theorem run4_managed_restored : forall fs phase g f, disjoint_writes fs = true -> In f (fields3 fs) ->
  gget (run4 fs phase g) f = gget g f.
Proof.
  intros fs phase g f Hd Hin. apply disjoint_writes_NoDup in Hd. unfold run4.
  destruct (install_w (setup_order fs) g) as [g2 s] eqn:E.
  rewrite fold_gset_get.
  destruct (find (fun w => Nat.eqb (w_field w) f) (rev (teardown_order fs))) as [w|] eqn:Ef.
  - apply find_some in Ef. destruct Ef as [Hw Hf]. apply Nat.eqb_eq in Hf. subst f.
    apply in_rev in Hw. apply (install_w_saved _ _ _ _ _ E); [now apply setup_order_NoDup | now apply in_teardown_in_setup].
  - exfalso. apply teardown_fields in Hin. apply in_map_iff in Hin. destruct Hin as [w [Hf Hw]].
    assert (Hr : In w (rev (teardown_order fs))) by (apply -> in_rev; exact Hw).
    pose proof (find_none _ _ Ef w Hr) as Hnone. cbv beta in Hnone. rewrite Hf, Nat.eqb_refl in Hnone. discriminate.
Qed.

Theorem run4_unmanaged_left_to_the_tests : forall fs phase g f, ~ In f (fields3 fs) ->
  gget (run4 fs phase g) f = gget (phase (fst (install_w (setup_order fs) g))) f.
Proof.
  intros fs phase g f Hn. unfold run4.
  destruct (install_w (setup_order fs) g) as [g2 s] eqn:E. simpl.
  rewrite fold_gset_get.
  destruct (find (fun w => Nat.eqb (w_field w) f) (rev (teardown_order fs))) as [w|] eqn:Ef; [|reflexivity].
  apply find_some in Ef. destruct Ef as [Hw Hf]. apply Nat.eqb_eq in Hf. subst f.
  exfalso. apply Hn. apply teardown_fields. apply in_map. now apply in_rev in Hw.
Qed.
