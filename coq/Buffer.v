(* Buffer.v — model of zope TestResult's handling of sys.stdout/sys.stderr with --buffer
   (_setUpStdStreams / _restoreStdStreams as repaired: idempotent restore, restore in stopTest). *)
From ZT Require Import Base Layers Run.

Inductive bstep :=
| BStart | BDeco
| BWrite (tok : nat)            (* the test writes a token to sys.stdout / sys.stderr *)
| BReinstall                    (* test code puts back the sys.stdout it saved at the start of the test (the capture
                                   stream under --buffer): e.g. on leaving contextlib.redirect_stdout *)
| BRes (r : rkind)
| BStop.

(* what reaches the runner's output: text written straight to the real stream, or a failure/error report of test t
   carrying the captured text (None when nothing was captured because the streams were already restored) *)
Inductive item := Direct (tok : nat) | Report (t : nat) (captured : option (list nat)).

Record bstate := {
  cur : bool;                  (* the capture streams are installed as sys.stdout/sys.stderr *)
  buf : list nat;              (* their content *)
  log : list item;             (* runner output so far *)
  boundary_ok : bool           (* at every test boundary so far the original streams were in place *)
}.
Definition b_init := {| cur := false; buf := []; log := []; boundary_ok := true |}.

Definition reports (r : rkind) : bool :=
  match r with RFail | RErr | RSubFail | RSubErr | RUS => true | _ => false end.

Section B.
Variable buffer : bool.        (* --buffer *)

(* _restoreStdStreams: with --buffer, whatever stream is installed, hand over what the capture buffers hold,
   empty them and put the original streams back *)
Definition restore (s : bstate) : bstate * option (list nat) :=
  if buffer then ({| cur := false; buf := []; log := log s; boundary_ok := boundary_ok s |}, Some (buf s))
  else (s, None).

Definition bstep_apply (t : nat) (s : bstate) (x : bstep) : bstate :=
  match x with
  | BStart => (* testSetUp hooks see the streams as they are; then the capture streams are installed *)
    {| cur := buffer; buf := buf s; log := log s; boundary_ok := boundary_ok s && negb (cur s) |}
  | BDeco => {| cur := cur s; buf := buf s; log := log s; boundary_ok := boundary_ok s && negb (cur s) |}
  | BWrite tok =>
    if cur s then {| cur := true; buf := buf s ++ [tok]; log := log s; boundary_ok := boundary_ok s |}
    else {| cur := false; buf := buf s; log := log s ++ [Direct tok]; boundary_ok := boundary_ok s |}
  | BReinstall => {| cur := buffer; buf := buf s; log := log s; boundary_ok := boundary_ok s |}
  | BRes r =>
    let '(s1, captured) := restore s in
    if reports r then {| cur := cur s1; buf := buf s1; log := log s1 ++ [Report t captured]; boundary_ok := boundary_ok s1 |}
    else s1
  | BStop => (* stopTest restores first, then the testTearDown hooks run *)
    let '(s1, _) := restore s in
    {| cur := cur s1; buf := buf s1; log := log s1; boundary_ok := boundary_ok s1 && negb (cur s1) |}
  end.

(* the steps of one test: its protocol with the scripted writes inserted after each phase marker *)
Definition steps (b : test) (wr : nat -> nat -> list nat) : list bstep :=
  flat_map (fun p => match p with
                     | PStart => [BStart] | PDecoSkip => [BDeco]
                     | PPhase ph k => map BWrite (wr ph k)
                     | PRes r _ => [BRes r] | PStop => [BStop] end) (proto b).

Definition run_one (s : bstate) (it : nat * list bstep) : bstate := fold_left (bstep_apply (fst it)) (snd it) s.
Definition run_tests (ts : list (nat * list bstep)) : bstate := fold_left run_one ts b_init.
End B.

(* the visible sequence: 0 = a failure/error header of test t, 1 = a token *)
Definition flatten_log (l : list item) : list (nat * nat) :=
  flat_map (fun i => match i with
                     | Direct tok => [(1, tok)]
                     | Report t None => [(0, t)]
                     | Report t (Some c) => (0, t) :: map (fun tok => (1, tok)) c end) l.
