(* DiscoverPerm.v — C14: discovery does not depend on the order in which the file system enumerates directory
   entries.  Two trees that differ only by permuting the children of directories (at any depth) have the same
   normal form — what the walk sees after dirs.sort() / files.sort() — provided sibling names are distinct. *)
From Coq Require Import Permutation Sorted.
From ZT Require Import Base LayersFacts Tree Discover.

Fixpoint entry_ind' (P : entry -> Prop) (HF : forall n, P (F n))
    (HD : forall n ks, Forall P ks -> P (D n ks)) (e : entry) : P e :=
  match e with
  | F n => HF n
  | D n ks => HD n ks ((fix go (ks : list entry) : Forall P ks :=
                          match ks with [] => Forall_nil _ | k :: r => Forall_cons _ (entry_ind' P HF HD k) (go r) end) ks)
  end.

Inductive nd : entry -> Prop :=
| nd_F n : nd (F n)
| nd_D n ks : NoDup (map entry_name ks) -> Forall nd ks -> nd (D n ks).

(* same tree up to the enumeration order of every directory *)
Inductive eperm : entry -> entry -> Prop :=
| ep_F n : eperm (F n) (F n)
| ep_D n ks ks2 ks' : Forall2 eperm ks ks2 -> Permutation ks2 ks' -> eperm (D n ks) (D n ks').

Lemma eperm_name e e' : eperm e e' -> entry_name e' = entry_name e.
Proof. destruct 1; reflexivity. Qed.

Lemma normalize_D n ks : normalize (D n ks) = D n (esort (map normalize ks)).
Proof.
  reflexivity.
Qed.
Lemma normalize_name e : entry_name (normalize e) = entry_name e.
Proof. destruct e; [reflexivity | rewrite normalize_D; reflexivity]. Qed.

(* ---------------- insertion sort by name ---------------- *)
Definition ele (a b : entry) : Prop := str_cmp (entry_name a) (entry_name b) <> Gt.

Lemma einsert_perm x l : Permutation (einsert x l) (x :: l).
Proof.
  induction l as [|y r IH]; simpl; [apply Permutation_refl|].
  destruct (str_cmp (entry_name x) (entry_name y)); [|apply Permutation_refl|];
    (eapply perm_trans; [apply perm_skip; exact IH | apply perm_swap]).
Qed.
Lemma esort_perm l : Permutation (esort l) l.
Proof.
  induction l as [|x l IH]; simpl; [constructor|]. eapply perm_trans; [apply einsert_perm | apply perm_skip; exact IH].
Qed.

Lemma str_cmp_gt_lt a b : str_cmp a b = Gt -> str_cmp b a = Lt.
Proof. intros H. rewrite str_antisym, H. reflexivity. Qed.
Lemma ele_trans a b c : ele a b -> ele b c -> ele a c.
Proof.
  unfold ele. intros H1 H2 H3. apply str_cmp_gt_lt in H3.
  destruct (str_cmp (entry_name a) (entry_name b)) eqn:E1; [|clear H1|congruence].
  - apply str_eq in E1. rewrite E1 in H3. apply H2. rewrite str_antisym, H3. reflexivity.
  - destruct (str_cmp (entry_name b) (entry_name c)) eqn:E2; [|clear H2|congruence].
    + apply str_eq in E2. rewrite <- E2 in H3. rewrite str_antisym, E1 in H3. discriminate.
    + pose proof (str_trans _ _ _ H3 E1) as H4. rewrite str_antisym, E2 in H4. discriminate.
Qed.

Lemma einsert_sorted x l : StronglySorted ele l -> StronglySorted ele (einsert x l).
Proof.
  induction l as [|y r IH]; simpl; intros H; [repeat constructor|].
  inversion H as [|? ? Hs Hy]; subst.
  destruct (str_cmp (entry_name x) (entry_name y)) eqn:E.
  - constructor; [apply IH; exact Hs|]. rewrite Forall_forall in *. intros z Hz.
    apply (Permutation_in _ (einsert_perm x r)) in Hz. destruct Hz as [<-|Hz]; [|apply Hy; exact Hz].
    unfold ele. rewrite str_antisym, E. discriminate.
  - constructor; [exact H|]. constructor; [unfold ele; rewrite E; discriminate|].
    rewrite Forall_forall in *. intros z Hz. eapply ele_trans; [|apply Hy; exact Hz]. unfold ele. rewrite E. discriminate.
  - constructor; [apply IH; exact Hs|]. rewrite Forall_forall in *. intros z Hz.
    apply (Permutation_in _ (einsert_perm x r)) in Hz. destruct Hz as [<-|Hz]; [|apply Hy; exact Hz].
    unfold ele. rewrite str_antisym, E. discriminate.
Qed.
Lemma esort_sorted l : StronglySorted ele (esort l).
Proof. induction l as [|x l IH]; simpl; [constructor | apply einsert_sorted; exact IH]. Qed.

(* with distinct names a sorted arrangement is unique *)
Lemma sorted_unique_e : forall l1 l2, NoDup (map entry_name l1) ->
  StronglySorted ele l1 -> StronglySorted ele l2 -> Permutation l1 l2 -> l1 = l2.
Proof.
  induction l1 as [|a l1 IH]; intros l2 Hnd H1 H2 HP.
  - apply Permutation_nil in HP. auto.
  - destruct l2 as [|b l2]; [apply Permutation_sym, Permutation_nil in HP; discriminate|].
    inversion H1 as [|? ? Hs1 Ha]; subst. inversion H2 as [|? ? Hs2 Hb]; subst.
    rewrite Forall_forall in Ha, Hb. simpl in Hnd. inversion Hnd as [|? ? Hna Hnd1]; subst.
    assert (Hin_b : In b (a :: l1)) by (eapply Permutation_in; [apply Permutation_sym; exact HP | now left]).
    assert (Hin_a : In a (b :: l2)) by (eapply Permutation_in; [exact HP | now left]).
    assert (Hab : a = b).
    { destruct Hin_b as [E|Hb1]; [exact E|]. destruct Hin_a as [E|Ha2]; [auto|].
      specialize (Ha b Hb1). specialize (Hb a Ha2). unfold ele in Ha, Hb. exfalso.
      destruct (str_cmp (entry_name a) (entry_name b)) eqn:E; [|apply Hb; rewrite str_antisym, E; reflexivity | congruence].
      apply str_eq in E. apply Hna. rewrite E. apply in_map. exact Hb1. }
    subst b. f_equal. apply IH; auto. eapply Permutation_cons_inv; eauto.
Qed.

Lemma esort_perm_invariant l l' : NoDup (map entry_name l) -> Permutation l l' -> esort l = esort l'.
Proof.
  intros Hnd HP. apply sorted_unique_e.
  - eapply Permutation_NoDup; [|exact Hnd]. apply Permutation_map. apply Permutation_sym. apply esort_perm.
  - apply esort_sorted.
  - apply esort_sorted.
  - eapply perm_trans; [apply esort_perm|]. eapply perm_trans; [exact HP | apply Permutation_sym, esort_perm].
Qed.

(* ---------------- the normal form ignores enumeration order ---------------- *)
Theorem normalize_eperm : forall e, nd e -> forall e', eperm e e' -> normalize e = normalize e'.
Proof.
  induction e as [n|n ks IH] using entry_ind'; intros Hnd e' Hp.
  - inversion Hp; reflexivity.
  - inversion Hp as [|n0 ks0 ks2 ks' Hf2 Hperm]; subst. inversion Hnd as [|n0 ks0 Hnames Hkids]; subst.
    rewrite !normalize_D. f_equal.
    assert (Hmap : map normalize ks = map normalize ks2).
    { clear - IH Hkids Hf2. induction Hf2 as [|k k2 r r2 Hk _ IHr]; [reflexivity|]. simpl.
      inversion IH as [|? ? Hk1 Hr1]; subst. inversion Hkids as [|? ? Hk2 Hr2]; subst.
      f_equal; [apply Hk1; assumption | apply IHr; assumption]. }
    rewrite Hmap. apply esort_perm_invariant; [|apply Permutation_map; exact Hperm].
    rewrite map_map.
    assert (Hn : map (fun x => entry_name (normalize x)) ks2 = map entry_name ks).
    { clear - Hf2. induction Hf2 as [|k k2 r r2 Hk _ IHr]; [reflexivity|]. simpl. rewrite normalize_name, (eperm_name _ _ Hk), IHr. reflexivity. }
    rewrite Hn. exact Hnames.
Qed.

(* hence the files found below a directory are the same, in the same order *)
Corollary walk_enumeration_independent ident tpat fpat ign usecompiled e e' :
  nd e -> eperm e e' ->
  walk_e ident tpat fpat ign usecompiled (normalize e) = walk_e ident tpat fpat ign usecompiled (normalize e').
Proof. intros Hnd Hp. rewrite (normalize_eperm e Hnd e' Hp). reflexivity. Qed.

(* non-vacuity: a permuted tree is related, and is a different term *)
Example eperm_example :
  let a := D [116%N] [F [98%N]; D [97%N] [F [121%N]; F [120%N]]; F [99%N]] in
  let b := D [116%N] [F [99%N]; F [98%N]; D [97%N] [F [120%N]; F [121%N]]] in
  nd a /\ eperm a b /\ a <> b /\ normalize a = normalize b.
Proof.
  simpl. split; [|split; [|split; [discriminate | reflexivity]]].
  - constructor; [repeat constructor; simpl; intuition discriminate|].
    repeat constructor; simpl; intuition discriminate.
  - apply ep_D with (ks2 := [F [98%N]; D [97%N] [F [120%N]; F [121%N]]; F [99%N]]).
    + constructor; [constructor|]. constructor; [|constructor; [constructor | constructor]].
      apply ep_D with (ks2 := [F [121%N]; F [120%N]]); [repeat constructor | apply perm_swap].
    + eapply perm_trans; [|apply perm_swap]. eapply perm_trans; [apply perm_skip; apply perm_swap|]. apply Permutation_refl.
Qed.
