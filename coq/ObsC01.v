(* ObsC01.v — C01 at observation level: the predicate Obs.c01_ok that the check evaluates on the IMPLEMENTATION's
   observation holds of the MODEL's observation for every world and option set; hence, whenever the
   correspondence check finds the implementation's observation equal to the model's (sequential runs), the
   predicate holds of the implementation's observation. *)
From ZT Require Import Base Layers LayersFacts Run RunFacts RunInv RunBracket Chk_World Obs WorldHyps.

Section C.
Variable w : rworld.

(* relation between the ghost replay state (all layers) and the observed replay state (layers with both hooks) *)
Definition rel (g s : list nat * bool * bool) : Prop :=
  let '(ga, gn, gk) := g in let '(sa, sn, sk) := s in
  sa = filter (fo w) ga /\ sn = gn /\ (gk = true -> sk = true).

Lemma filter_comm {A} (f h : A -> bool) l : filter f (filter h l) = filter h (filter f l).
Proof. induction l as [|x l IH]; simpl; [reflexivity|]. destruct (f x) eqn:Ef, (h x) eqn:Eh; simpl; rewrite ?Ef, ?Eh, IH; reflexivity. Qed.

Lemma mem_filter f x l : mem x (filter f l) = mem x l && f x.
Proof.
  destruct (mem x (filter f l)) eqn:E.
  - apply mem_In in E. apply filter_In in E. destruct E as [E1 E2]. apply mem_In in E1. now rewrite E1, E2.
  - destruct (mem x l) eqn:E1; [|reflexivity]. destruct (f x) eqn:E2; [|reflexivity]. exfalso.
    apply mem_In in E1. assert (In x (filter f l)) by (apply filter_In; auto). apply mem_In in H. congruence.
Qed.

Lemma seteq_filter f a b : seteq a b = true -> seteq (filter f a) (filter f b) = true.
Proof.
  unfold seteq, subset. rewrite !andb_true_iff, !forallb_forall. intros [H1 H2]. split; intros x Hx; apply filter_In in Hx; destruct Hx as [Hx Hf];
    rewrite mem_filter, Hf, andb_true_r; auto.
Qed.

(* events that change neither replay *)
Definition gquiet (e : ev) : bool :=
  match e with ESetUp _ _ | ETearDown _ _ | EStart _ => false | _ => true end.
Lemma gquiet_fold : forall l g, forallb gquiet l = true -> fold_left (gstep w) l g = g.
Proof.
  induction l as [|e l IH]; intros g H; simpl; [reflexivity|]. simpl in H. apply andb_prop in H. destruct H as [He Hl].
  rewrite IH by exact Hl. destruct g as [[a n] k]. destruct e; simpl in He; try discriminate; reflexivity.
Qed.

(* one layer event *)
Lemma layer_step e g s : lev_ok w e -> rel g s ->
  rel (gstep w g e) (fold_left (c01_step w) (observe w e) s).
Proof.
  intros [He Hhook]. destruct g as [[ga gn] gk], s as [[sa sn] sk]. intros [-> [-> Hk]].
  destruct e as [l out|l out| | | | | | |l a b c d|l]; simpl in He; try discriminate.
  - (* set-up *)
    simpl. destruct (l_setup (spec_of w l)) as [sc|] eqn:Esu; simpl.
    + split; [|split; [reflexivity|]].
      * destruct out; try reflexivity. rewrite filter_app. simpl. destruct (fo w l); [reflexivity | now rewrite app_nil_r].
      * intros H. apply andb_prop in H. destruct H as [H Hb]. apply andb_prop in H. destruct H as [H Hm]. apply andb_prop in H. destruct H as [H Hn].
        rewrite (Hk H), Hn. simpl. destruct (fo w l) eqn:Ef; [simpl|reflexivity].
        rewrite mem_filter. apply negb_true_iff in Hm. rewrite Hm. simpl.
        apply forallb_forall. intros b Hbb. rewrite forallb_forall in Hb. specialize (Hb b Hbb).
        destruct (fo w b) eqn:Efb; [simpl | reflexivity]. rewrite mem_filter, Hb, Efb. reflexivity.
    + (* no setUp hook: invisible, outcome HOk, and not a fully observable layer *)
      assert (Hfo : fo w l = false) by (unfold fo, has_su; rewrite Esu; reflexivity).
      rewrite (Hhook eq_refl). split; [|split; [reflexivity|]].
      * rewrite filter_app. simpl. rewrite Hfo. now rewrite app_nil_r.
      * intros H. apply andb_prop in H. destruct H as [H _]. apply andb_prop in H. destruct H as [H _]. apply andb_prop in H. destruct H as [H _]. auto.
  - (* tear-down *)
    simpl. destruct (l_teardown (spec_of w l)) as [sc|] eqn:Etd; simpl.
    + split; [apply filter_comm|]. split; [reflexivity|].
      intros H. apply andb_prop in H. destruct H as [H Hd]. apply andb_prop in H. destruct H as [H Hm].
      rewrite (Hk H). simpl. destruct (fo w l) eqn:Ef; [simpl|reflexivity].
      rewrite mem_filter, Hm, Ef. simpl. apply forallb_forall. intros d Hdd. apply filter_In in Hdd. destruct Hdd as [Hdd _].
      rewrite forallb_forall in Hd. exact (Hd d Hdd).
    + assert (Hfo : fo w l = false) by (unfold fo, has_td; rewrite Etd; apply andb_false_r).
      rewrite (Hhook eq_refl). split; [|split].
      * rewrite filter_comm. clear - Hfo. induction ga as [|x ga IH]; simpl; [reflexivity|].
        destruct (fo w x) eqn:Ex; simpl; [|exact IH]. destruct (Nat.eqb x l) eqn:Exl; simpl; [apply Nat.eqb_eq in Exl; congruence | f_equal; exact IH].
      * now rewrite orb_false_r.
      * intros H. apply andb_prop in H. destruct H as [H _]. apply andb_prop in H. destruct H as [H _]. auto.
  - simpl. repeat split; auto.
  - simpl. repeat split; auto.
Qed.

(* the observed replay ignores per-test hooks; phases of test t check the active set against t's stack *)
Lemma obs_hooks_up l s : fold_left (c01_step w) (observed w (hooks_up w l)) s = s.
Proof. unfold hooks_up, observed. induction (filter _ _) as [|x r IH]; simpl; [reflexivity|]. destruct s as [[a n] k]. exact IH. Qed.
Lemma obs_hooks_down l s : fold_left (c01_step w) (observed w (hooks_down w l)) s = s.
Proof. unfold hooks_down, observed. induction (filter _ _) as [|x r IH]; simpl; [reflexivity|]. destruct s as [[a n] k]. exact IH. Qed.

Lemma c01_step_phase sa sn sk t p k :
  c01_step w (sa, sn, sk) (OPhase t p k) = (sa, sn, sk && (negb sn && seteq sa (filter (fo w) (stack w (layer_of w t))))).
Proof. reflexivity. Qed.

Lemma obs_inner t : forall mid sa sn sk, Forall (is_inner_ev t) mid ->
  (negb sn && seteq sa (filter (fo w) (stack w (layer_of w t))) = true) ->
  fold_left (c01_step w) (observed w mid) (sa, sn, sk) = (sa, sn, sk).
Proof.
  induction mid as [|e mid IH]; intros sa sn sk Hm Hc; [reflexivity|].
  inversion Hm as [|? ? He Hr]; subst.
  change (observed w (e :: mid)) with (observe w e ++ observed w mid). rewrite fold_left_app.
  destruct e; simpl in He; try contradiction; subst.
  - cbn [observe fold_left]. rewrite c01_step_phase, Hc, andb_true_r. apply IH; assumption.
  - cbn [observe fold_left]. apply IH; assumption.
Qed.

Lemma hooks_up_gquiet l : forallb gquiet (hooks_up w l) = true.
Proof. unfold hooks_up. induction (filter _ _) as [|x r IH]; simpl; [reflexivity | exact IH]. Qed.
Lemma hooks_down_gquiet l : forallb gquiet (hooks_down w l) = true.
Proof. unfold hooks_down. induction (filter _ _) as [|x r IH]; simpl; [reflexivity | exact IH]. Qed.
Lemma inner_gquiet t mid : Forall (is_inner_ev t) mid -> forallb gquiet mid = true.
Proof. induction 1 as [|e mid He _ IH]; simpl; [reflexivity|]. rewrite IH. destruct e; simpl in He; try contradiction; reflexivity. Qed.

Lemma observed_app a b : observed w (a ++ b) = observed w a ++ observed w b.
Proof. unfold observed. apply flat_map_app. Qed.

(* the two replays stay related along any well-bracketed trace *)
Lemma replay_rel : forall tr, wb w tr -> forall g s, rel g s ->
  rel (fold_left (gstep w) tr g) (fold_left (c01_step w) (observed w tr) s).
Proof.
  induction 1 as [|e r He Hr IH|l t b mid r Hn Hl Hm Hr IH]; intros g s Hrel; [exact Hrel| |].
  - simpl. change (observed w (e :: r)) with (observe w e ++ observed w r). rewrite fold_left_app.
    apply IH. apply layer_step; assumption.
  - rewrite fold_left_app. rewrite (gquiet_fold (hooks_up w l)) by apply hooks_up_gquiet.
    rewrite observed_app, fold_left_app, obs_hooks_up.
    cbn [fold_left]. change (observed w (EStart t :: mid ++ hooks_down w l ++ EStop t :: r)) with (observed w (mid ++ hooks_down w l ++ EStop t :: r)).
    rewrite fold_left_app. rewrite observed_app, fold_left_app.
    rewrite fold_left_app. rewrite observed_app, fold_left_app, obs_hooks_down.
    cbn [fold_left]. change (observed w (EStop t :: r)) with (observed w r).
    destruct g as [[ga gn] gk], s as [[sa sn] sk]. destruct Hrel as [-> [-> Hk]].
    set (chk := negb gn && seteq ga (stackb w (layer_of_test w t))).
    assert (Hg1 : gstep w (ga, gn, gk) (EStart t) = (ga, gn, gk && chk)) by (unfold chk; simpl; now rewrite andb_assoc).
    rewrite Hg1. rewrite (gquiet_fold mid) by (eapply inner_gquiet; eauto).
    rewrite (gquiet_fold (hooks_down w l)) by apply hooks_down_gquiet.
    assert (Hg2 : gstep w (ga, gn, gk && chk) (EStop t) = (ga, gn, gk && chk)) by reflexivity. rewrite Hg2.
    destruct (gk && chk) eqn:Eg.
    + apply andb_prop in Eg. destruct Eg as [Eg1 Eg2]. unfold chk in Eg2. apply andb_prop in Eg2. destruct Eg2 as [Egn Ese].
      rewrite (obs_inner t mid) ; [| exact Hm |].
      * apply IH. split; [reflexivity|]. split; [reflexivity|]. intros _. apply Hk. exact Eg1.
      * rewrite Egn. cbn [andb]. unfold stack, layer_of. unfold stackb, layer_of_test in Ese. apply seteq_filter. exact Ese.
    + (* the ghost replay has already failed: nothing is claimed about the verdict; active sets and flag stay related *)
      assert (Hobs : exists sk', fold_left (c01_step w) (observed w mid) (filter (fo w) ga, gn, sk) = (filter (fo w) ga, gn, sk')).
      { clear - Hm. revert sk. induction Hm as [|e mid He _ IHm]; intros sk; [eexists; reflexivity|].
        change (observed w (e :: mid)) with (observe w e ++ observed w mid). rewrite fold_left_app.
        destruct e; simpl in He; try contradiction; subst; cbn [observe fold_left]; [rewrite c01_step_phase|]; apply IHm. }
      destruct Hobs as [sk' ->]. apply IH. split; [reflexivity|]. split; [reflexivity | discriminate].
Qed.

Theorem c01_obs_of_ghost tr : wb w tr -> c01_trace_ok w tr = true -> c01_proc w (observed w tr) = true.
Proof.
  intros Hwb H. unfold c01_trace_ok, greplay in H. unfold c01_proc.
  pose proof (replay_rel tr Hwb ([], false, true) ([], false, true)) as Hr.
  assert (Hrel0 : rel ([], false, true) ([], false, true)) by (simpl; auto).
  specialize (Hr Hrel0).
  destruct (fold_left (gstep w) tr ([], false, true)) as [[ga gn] gk].
  destruct (fold_left (c01_step w) (observed w tr) ([], false, true)) as [[sa sn] sk].
  destruct Hr as [-> [-> Hk]]. apply andb_prop in H. destruct H as [H1 H2].
  rewrite (Hk H1). destruct ga; [reflexivity | discriminate].
Qed.
End C.

(* the predicate holds of the model's observation of every run *)
Theorem c01_ok_model w o :
  wf (lw w) -> (forall t, In t (tests w) -> t_layer t < nlayers (lw w)) ->
  c01_ok w (observed w (r_parent (run w o))) (map (fun c => (c_layer c, observed w (c_ev c))) (r_children (run w o))) = true.
Proof.
  intros Hwf Ht. unfold c01_ok. destruct (run_wb w o) as [Wp Wc].
  rewrite (c01_obs_of_ghost w _ Wp (c01_parent w Hwf o Ht)). simpl.
  apply forallb_forall. intros ch Hch. apply in_map_iff in Hch. destruct Hch as [c [<- Hc]]. simpl.
  apply c01_obs_of_ghost; [apply Wc; exact Hc | apply (c01_children w Hwf o Ht); exact Hc].
Qed.

(* ---------------- soundness of the check for C01 (sequential runs) ---------------- *)
Lemma hout_eqb_eq a b : hout_eqb a b = true -> a = b.
Proof. destruct a, b; simpl; congruence. Qed.
Lemma oev_eqb_eq a b : oev_eqb a b = true -> a = b.
Proof.
  destruct a, b; simpl; try discriminate; intros H;
    repeat (apply andb_prop in H; destruct H as [H ?]);
    repeat match goal with
           | [ E : Nat.eqb _ _ = true |- _ ] => apply Nat.eqb_eq in E; subst
           | [ E : hout_eqb _ _ = true |- _ ] => apply hout_eqb_eq in E; subst
           end; reflexivity.
Qed.
Lemma list_eqb_eq {A} (eqb : A -> A -> bool) : (forall a b, eqb a b = true -> a = b) ->
  forall x y, list_eqb eqb x y = true -> x = y.
Proof.
  intros He. induction x as [|a x IH]; destruct y as [|b y]; simpl; try discriminate; [reflexivity|].
  intros H. apply andb_prop in H. destruct H as [H1 H2]. f_equal; [apply He; exact H1 | apply IH; exact H2].
Qed.
Lemma children_rel_eq w : forall (m : list report) (i : list (nat * list oev)),
  list_rel (fun c ic => Nat.eqb (c_layer c) (fst ic) && list_eqb oev_eqb (observed w (c_ev c)) (snd ic)) m i = true ->
  map (fun c => (c_layer c, observed w (c_ev c))) m = i.
Proof.
  induction m as [|c m IH]; destruct i as [|[l evs] i]; simpl; try discriminate; [reflexivity|].
  intros H. apply andb_prop in H. destruct H as [H H2]. apply andb_prop in H. destruct H as [H0 H1].
  apply Nat.eqb_eq in H0. apply (list_eqb_eq oev_eqb oev_eqb_eq) in H1. simpl in H0, H1. subst. f_equal. apply IH. exact H2.
Qed.

(* if the correspondence check finds the implementation's observation of a sequential run equal to the model's
   (bit 1 clear) on a case within the hypotheses (bit 4 clear), the C01 predicate holds of the implementation's
   observation (bit 2 clear): for C01 the correspondence subsumes the predicate *)
Theorem c01_check_sound c : agree c = true -> wf_case c = true -> Nat.ltb 1 (o_procs (o c)) = false ->
  c01_ok (Chk_World.w c) (i_parent c) (i_children c) = true.
Proof.
  intros Ha Hw Hp. destruct (wf_case_hyps c Hw) as [Hwf Ht].
  unfold agree in Ha. rewrite Hp in Ha.
  repeat (apply andb_prop in Ha; destruct Ha as [Ha ?]).
  match goal with [ E : list_eqb oev_eqb _ (i_parent c) = true |- _ ] => apply (list_eqb_eq oev_eqb oev_eqb_eq) in E; rewrite <- E end.
  match goal with [ E : children_agree false _ _ _ = true |- _ ] => unfold children_agree in E; apply children_rel_eq in E; rewrite <- E end.
  apply c01_ok_model; assumption.
Qed.
