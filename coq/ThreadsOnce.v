(* ThreadsOnce.v — "a leaked thread is reported only for the test that started it", as a counting theorem over whole histories:
   in a history where every stopTest is preceded by its startTest, the number of reports that name a thread identity never
   exceeds the number of times a thread with that identity was started; in particular a thread started once is reported for at
   most one test, and a thread that was never started (it existed before the run) is never reported.  Stated of the
   specification run (srun) and carried over to the runner's mechanism (trun) by c19_exact. *)
From ZT Require Import Base Threads ThreadsFacts.

Definition names (id : nat) (r : nat * list nat) : bool := mem id (snd r).
Definition n_reports (id : nat) (rs : list (nat * list nat)) : nat := length (filter (names id) rs).
Definition is_start (id : nat) (e : tev) : bool := match e with TStart x => Nat.eqb (th_id x) id | _ => false end.
Definition n_starts (id : nat) (h : list tev) : nat := length (filter (is_start id) h).

(* every stopTest belongs to a startTest: Begin ... End Begin ... End (thread events anywhere) *)
Fixpoint bracketed (open : bool) (h : list tev) : bool :=
  match h with
  | [] => true
  | TBegin _ :: r => bracketed true r
  | TEnd _ :: r => open && bracketed false r
  | _ :: r => bracketed open r
  end.

Definition pending (open : bool) (id : nat) (s : sstate) : nat := if open && mem id (s_started s) then 1 else 0.

Lemma n_reports_app id a b : n_reports id (a ++ b) = n_reports id a + n_reports id b.
Proof. unfold n_reports. now rewrite filter_app, app_length. Qed.

Lemma mem_app x a b : mem x (a ++ b) = mem x a || mem x b.
Proof. unfold mem. apply existsb_app. Qed.

Lemma mem_map_filter id (p : thr -> bool) l :
  mem id (map th_id (filter p l)) = true -> existsb (fun y => Nat.eqb id (th_id y) && p y) l = true.
Proof.
  induction l as [|y r IH]; simpl; [discriminate|].
  destruct (p y) eqn:E; simpl.
  - unfold mem in *. simpl. intros H. apply orb_true_iff in H. destruct H as [H|H].
    + now rewrite H.
    + rewrite IH by exact H. apply orb_true_r.
  - intros H. rewrite IH by exact H. now rewrite andb_false_r.
Qed.

Definition new_of (s : sstate) : list thr :=
  filter (fun y => mem (th_id y) (s_started s) && negb (th_ignored y)) (s_alive s).
Definition report_of (t : nat) (new : list thr) : list (nat * list nat) :=
  match new with [] => [] | _ => [(t, map th_id new)] end.

Lemma report_le_1 id t new : n_reports id (report_of t new) <= 1.
Proof. destruct new; unfold n_reports; simpl; [lia|]. destruct (names id _); simpl; lia. Qed.

Lemma report_not_started id t s : mem id (s_started s) = false -> n_reports id (report_of t (new_of s)) = 0.
Proof.
  intros Em. unfold report_of. destruct (new_of s) eqn:En; [reflexivity|].
  unfold n_reports. cbn [filter]. unfold names. cbn [snd].
  destruct (mem id (map th_id (t0 :: l))) eqn:Hin; [|reflexivity].
  rewrite <- En in Hin. unfold new_of in Hin. apply mem_map_filter in Hin.
  apply existsb_exists in Hin. destruct Hin as [y [_ Hy]].
  apply andb_true_iff in Hy. destruct Hy as [Hy1 Hy2]. apply andb_true_iff in Hy2. destruct Hy2 as [Hy2 _].
  apply Nat.eqb_eq in Hy1. subst id. rewrite Hy2 in Em. discriminate.
Qed.

Lemma sstep_end s t : s_reports (sstep s (TEnd t)) = s_reports s ++ report_of t (new_of s).
Proof. reflexivity. Qed.

Lemma once_from : forall h open s id k,
  bracketed open h = true ->
  n_reports id (s_reports s) + pending open id s <= k ->
  n_reports id (s_reports (fold_left sstep h s)) <= k + n_starts id h.
Proof.
  induction h as [|e r IH]; intros open s id k Hb Hk.
  - simpl. unfold n_starts. simpl. lia.
  - cbn [fold_left]. destruct e as [t|x|i|t].
    + (* TBegin *) cbn [bracketed] in Hb. eapply Nat.le_trans; [apply (IH true _ id k Hb)|].
      * unfold pending. simpl. lia.
      * unfold n_starts. simpl. lia.
    + (* TStart *) cbn [bracketed] in Hb. unfold n_starts. cbn [filter is_start]. destruct (Nat.eqb (th_id x) id) eqn:E.
      * eapply Nat.le_trans; [apply (IH open _ id (S k) Hb)|].
        -- unfold pending in *. simpl. destruct (open && mem id (s_started s ++ [th_id x])); destruct (open && mem id (s_started s)); lia.
        -- unfold n_starts. simpl. lia.
      * apply (IH open _ id k Hb). unfold pending in *. simpl. rewrite mem_app.
        assert (Hm : mem id [th_id x] = false).
        { unfold mem. simpl. rewrite Nat.eqb_sym, E. reflexivity. }
        rewrite Hm, orb_false_r. exact Hk.
    + (* TFinish *) cbn [bracketed] in Hb. unfold n_starts. cbn [filter is_start]. apply (IH open _ id k Hb).
      unfold pending in *. simpl. exact Hk.
    + (* TEnd *) cbn [bracketed] in Hb. apply andb_true_iff in Hb. destruct Hb as [Ho Hb]. subst open.
      unfold n_starts. cbn [filter is_start]. apply (IH false _ id k Hb).
      rewrite sstep_end, n_reports_app. unfold pending in *. cbn [andb].
      destruct (mem id (s_started s)) eqn:Em.
      * pose proof (report_le_1 id t (new_of s)). cbn [andb] in Hk. lia.
      * rewrite (report_not_started id t s Em). cbn [andb] in Hk. lia.
Qed.

Theorem reported_at_most_as_often_as_started : forall init h id,
  bracketed false h = true -> n_reports id (s_reports (srun init h)) <= n_starts id h.
Proof.
  intros init h id Hb. unfold srun.
  apply (once_from h false _ id 0 Hb). unfold pending, n_reports. simpl. lia.
Qed.

(* the same of the runner's own mechanism *)
Theorem runner_reports_at_most_as_often_as_started : forall init h id,
  idents_fresh init h = true -> bracketed false h = true ->
  n_reports id (reports (trun init h)) <= n_starts id h.
Proof. intros init h id Hf Hb. rewrite (c19_exact init h Hf). now apply reported_at_most_as_often_as_started. Qed.

Corollary thread_started_once_reported_for_one_test : forall init h id,
  idents_fresh init h = true -> bracketed false h = true -> n_starts id h = 1 ->
  n_reports id (reports (trun init h)) <= 1.
Proof. intros init h id Hf Hb H1. rewrite <- H1. now apply runner_reports_at_most_as_often_as_started. Qed.

Corollary thread_never_started_never_reported : forall init h id,
  idents_fresh init h = true -> bracketed false h = true -> n_starts id h = 0 ->
  forall r, In r (reports (trun init h)) -> mem id (snd r) = false.
Proof.
  intros init h id Hf Hb H0 r Hin.
  pose proof (runner_reports_at_most_as_often_as_started init h id Hf Hb) as H. rewrite H0 in H.
  destruct (mem id (snd r)) eqn:E; [|reflexivity].
  assert (In r (filter (names id) (reports (trun init h)))) by (apply filter_In; split; assumption).
  unfold n_reports in H. destruct (filter (names id) (reports (trun init h))); [contradiction | simpl in H; lia].
Qed.

(* non-vacuity: thread 7 started in test 1 and never finished is reported for test 1 and not again for test 2; thread 5 existed before *)
Example leak_reported_once :
  let x := {| th_id := 7; th_ident := 70; th_known := true; th_cur := false; th_ignored := false |} in
  let old := {| th_id := 5; th_ident := 50; th_known := true; th_cur := false; th_ignored := false |} in
  let h := [TBegin 1; TStart x; TEnd 1; TBegin 2; TEnd 2] in
  idents_fresh [old] h = true /\ bracketed false h = true /\ reports (trun [old] h) = [(1, [7])].
Proof. vm_compute. repeat split. Qed.
