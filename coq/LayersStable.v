(* LayersStable.v — consequences of permutation invariance for repeated use of order_by_bases on the same layers (run after run in
   one interpreter, a caller that hands back a list it got earlier — reversed by tear_down_unneeded, concatenated, re-ordered):
   the result is a fixed point, and any rearrangement of the request gives the same order. *)
From ZT Require Import Base Layers LayersFacts.
From Coq Require Import Permutation.

Lemma obb_is_permutation w ls : NoDup ls -> Permutation ls (order_by_bases w ls).
Proof.
  intros Hnd. apply NoDup_Permutation; [exact Hnd | apply obb_nodup|].
  intros x. symmetry. apply obb_in.
Qed.

Theorem obb_idempotent w ls : keys_inj w ls -> NoDup ls ->
  order_by_bases w (order_by_bases w ls) = order_by_bases w ls.
Proof.
  intros Hk Hnd. symmetry. apply obb_perm_invariant; [exact Hk | now apply obb_is_permutation].
Qed.

Theorem obb_reversed_request w ls : keys_inj w ls -> order_by_bases w (rev ls) = order_by_bases w ls.
Proof. intros Hk. symmetry. apply obb_perm_invariant; [exact Hk | apply Permutation_rev]. Qed.

(* what tear_down_unneeded does with the result (reverses it) and hands back on a later request *)
Theorem obb_of_reversed_result w ls : keys_inj w ls -> NoDup ls ->
  order_by_bases w (rev (order_by_bases w ls)) = order_by_bases w ls.
Proof.
  intros Hk Hnd. symmetry. apply obb_perm_invariant; [exact Hk|].
  eapply Permutation_trans; [now apply obb_is_permutation | apply Permutation_rev].
Qed.

Theorem obb_request_parts_commute w a b : keys_inj w (a ++ b) -> order_by_bases w (a ++ b) = order_by_bases w (b ++ a).
Proof. intros Hk. apply obb_perm_invariant; [exact Hk | apply Permutation_app_comm]. Qed.
