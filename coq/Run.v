(* Run.v — executable model of a whole zope.testrunner run over a *world*:
   unittest's TestCase.run protocol (Python 3.12), zope's TestResult, setup_layer /
   tear_down_unneeded / run_layer / run_tests, Runner.run_tests' loop, layers resumed in
   subprocesses (sequentially or with -j N) and the totals / verdict.
   The model follows the repaired code (see known_findings.json "fixed"). *)
From ZT Require Import Base Layers.

(* ---------------- worlds ---------------- *)
Inductive hout := HOk | HRaise | HNotImpl.
Record lspec := {
  l_setup : option (list hout);      (* None: the layer has no setUp attribute; else outcome per attempt *)
  l_teardown : option (list hout);
  l_tsetup : bool;                   (* has testSetUp *)
  l_tteardown : bool                 (* has testTearDown *)
}.
Inductive po := Pok | Pfail | Perr | Pskip.
Record test := {
  t_layer : nat;
  t_deco : bool;                     (* @unittest.skip *)
  t_xf : bool;                       (* @unittest.expectedFailure *)
  t_su : po;                         (* setUp *)
  t_subs : list po;                  (* subTest blocks at the start of the body *)
  t_body : po;                       (* rest of the body *)
  t_td : po;                         (* tearDown *)
  t_cl : list po;                    (* cleanups in registration order (run in reverse) *)
  t_count : nat                      (* countTestCases(): 1 for an ordinary test, more for a composite case *)
}.
Record rworld := {
  lw : world;                        (* names, bases, unit layer *)
  lsp : list lspec;
  tests : list test                  (* discovery order; the index is the test's id *)
}.
Record ropts := {
  o_x : bool;                        (* --stop-on-error *)
  o_repeat : nat;                    (* --repeat N (0 and 1 both mean once) *)
  o_procs : nat;                     (* -j N *)
  o_import_errors : nat              (* number of test modules that failed to import *)
}.

Definition spec_of (w : rworld) (l : nat) : lspec :=
  nth l (lsp w) {| l_setup := None; l_teardown := None; l_tsetup := false; l_tteardown := false |}.

(* ---------------- events ---------------- *)
Inductive name :=
| NTest (t : nat) | NSub (t k : nat)
| NLayerSetUp (l : nat) | NLayerTearDown (l : nat)
| NSubprocess (l : nat).

Inductive rkind := RSuccess | RSkip | RFail | RErr | RSubFail | RSubErr | RSubSkip | RXF | RUS.

Inductive ev :=
| ESetUp (l : nat) (o : hout)            (* layer set-up attempt (ghost when the layer has no setUp) *)
| ETearDown (l : nat) (o : hout)         (* layer tear-down attempt (ghost when it has no tearDown) *)
| ETSetUp (l : nat)                      (* testSetUp hook *)
| ETTearDown (l : nat)
| EStart (t : nat)                       (* ghost: the test started *)
| EPhase (t : nat) (ph k : nat)          (* 0 setUp  1 body  2 subtest k  3 tearDown  4 cleanup k *)
| EResult (t : nat) (r : rkind) (k : nat)(* ghost: result event *)
| EStop (t : nat)                        (* ghost: stopTest *)
| ESummary (l : nat) (ran nf ne ns : nat)(* "Ran N tests with F failures, E errors and S skipped" *)
| ECannot (l : nat).                     (* ghost: CanNotTearDown raised for l *)

(* ---------------- unittest.TestCase.run, as a protocol ---------------- *)
Inductive pev := PStart | PDecoSkip | PPhase (ph k : nat) | PRes (r : rkind) (k : nat) | PStop.

(* one guarded part (testPartExecutor) outside the test method: returns events and success *)
Definition part (p : po) : list pev * bool :=
  match p with
  | Pok => ([], true)
  | Pskip => ([PRes RSkip 0], false)
  | Pfail => ([PRes RFail 0], false)
  | Perr => ([PRes RErr 0], false)
  end.

(* subtests: (events, success, expectedFailure seen, body stopped).
   With @expectedFailure a failing subtest only records outcome.expectedFailure; subTest() then raises
   _ShouldStop (ending the test method) unless an earlier part already cleared outcome.success. *)
Fixpoint subs_proto (xf : bool) (k : nat) (l : list po) (succ ef : bool) : list pev * bool * bool * bool :=
  match l with
  | [] => ([], succ, ef, false)
  | p :: r =>
    match p with
    | Pok => if succ && ef then ([PPhase 2 k], succ, ef, true)   (* elif outcome.expectedFailure: raise _ShouldStop *)
             else let '(e, s, ef', st) := subs_proto xf (S k) r succ ef in (PPhase 2 k :: e, s, ef', st)
    | Pskip => let '(e, s, ef', st) := subs_proto xf (S k) r false ef in (PPhase 2 k :: PRes RSubSkip k :: e, s, ef', st)
    | Pfail | Perr =>
      if xf then
        (if succ then ([PPhase 2 k], succ, true, true)
         else let '(e, s, ef', st) := subs_proto xf (S k) r false true in (PPhase 2 k :: e, s, ef', st))
      else let '(e, s, ef', st) := subs_proto xf (S k) r false ef in
           (PPhase 2 k :: PRes (match p with Pfail => RSubFail | _ => RSubErr end) k :: e, s, ef', st)
    end
  end.

(* cleanups run in reverse registration order; k is the registration index *)
Fixpoint cleanups_proto (l : list (nat * po)) (succ : bool) : list pev * bool :=
  match l with
  | [] => ([], succ)
  | (k, p) :: r => let '(e1, s1) := part p in
                   let '(e2, s2) := cleanups_proto r (succ && s1) in
                   (PPhase 4 k :: e1 ++ e2, s2)
  end.
Fixpoint index_from {A} (i : nat) (l : list A) : list (nat * A) :=
  match l with [] => [] | x :: r => (i, x) :: index_from (S i) r end.

Definition proto (b : test) : list pev :=
  if t_deco b then [PDecoSkip; PStop] else
  let '(e_su, ok_su) := part (t_su b) in
  let '(e_mid, succ, ef) :=
    if ok_su then
      let '(e_sub, s1, ef1, stopped) := subs_proto (t_xf b) 0 (t_subs b) true false in
      let '(e_body, s2, ef2) :=
        if stopped then ([], s1, ef1) else
        match t_body b with
        | Pok => ([], s1, ef1)
        | Pskip => ([PRes RSkip 0], false, ef1)
        | Pfail => if t_xf b then ([], s1, true) else ([PRes RFail 0], false, ef1)
        | Perr => if t_xf b then ([], s1, true) else ([PRes RErr 0], false, ef1)
        end in
      let '(e_td, ok_td) := part (t_td b) in
      (PPhase 1 0 :: e_sub ++ e_body ++ PPhase 3 0 :: e_td, s2 && ok_td, ef2)
    else ([], false, false) in
  let '(e_cl, succ2) := cleanups_proto (rev (index_from 0 (t_cl b))) succ in
  let final := if succ2 then (if t_xf b then (if ef then [PRes RXF 0] else [PRes RUS 0]) else [PRes RSuccess 0]) else [] in
  PStart :: PPhase 0 0 :: e_su ++ e_mid ++ e_cl ++ final ++ [PStop].

(* ---------------- zope's TestResult ---------------- *)
Record rstate := {
  rs_run : nat;                   (* testsRun *)
  rs_fail : list name;            (* result.failures, in order *)
  rs_err : list name;
  rs_skip : nat;
  rs_us : list name;              (* unexpectedSuccesses *)
  rs_stop : bool;                 (* shouldStop *)
  rs_ev : list ev                 (* events, most recent last *)
}.
Definition rs_init := {| rs_run := 0; rs_fail := []; rs_err := []; rs_skip := 0; rs_us := []; rs_stop := false; rs_ev := [] |}.

Section R.
Variable w : rworld.
Variable o : ropts.

(* TestResult.layers = order_by_bases(gather_layers(layer)) *)
Definition test_layers (l : nat) : list nat := order_by_bases (lw w) (gather_layers (lw w) l).
Definition hooks_up (l : nat) : list ev :=
  map ETSetUp (filter (fun x => l_tsetup (spec_of w x)) (test_layers l)).
Definition hooks_down (l : nat) : list ev :=
  map ETTearDown (filter (fun x => l_tteardown (spec_of w x)) (rev (test_layers l))).

Definition emit (s : rstate) (e : list ev) : rstate :=
  {| rs_run := rs_run s; rs_fail := rs_fail s; rs_err := rs_err s; rs_skip := rs_skip s; rs_us := rs_us s;
     rs_stop := rs_stop s; rs_ev := rs_ev s ++ e |}.

Definition apply_res (t : nat) (r : rkind) (k : nat) (s : rstate) : rstate :=
  let s := emit s [EResult t r k] in
  let upd (f e : list name) (sk : nat) (us : list name) (stop : bool) :=
    {| rs_run := rs_run s; rs_fail := rs_fail s ++ f; rs_err := rs_err s ++ e; rs_skip := rs_skip s + sk;
       rs_us := rs_us s ++ us; rs_stop := rs_stop s || stop; rs_ev := rs_ev s |} in
  match r with
  | RSuccess | RXF => s
  | RSkip | RSubSkip => upd [] [] 1 [] false
  | RFail => upd [NTest t] [] 0 [] (o_x o)
  | RErr => upd [] [NTest t] 0 [] (o_x o)
  | RSubFail => upd [NSub t k] [] 0 [] (o_x o)
  | RSubErr => upd [] [NSub t k] 0 [] (o_x o)
  | RUS => upd [] [] 0 [NTest t] (o_x o)
  end.

Definition bump_run (s : rstate) : rstate :=
  {| rs_run := S (rs_run s); rs_fail := rs_fail s; rs_err := rs_err s; rs_skip := rs_skip s; rs_us := rs_us s;
     rs_stop := rs_stop s; rs_ev := rs_ev s |}.

Definition apply_pev (l t : nat) (s : rstate) (p : pev) : rstate :=
  match p with
  | PStart => bump_run (emit s (hooks_up l ++ [EStart t]))
  | PDecoSkip => apply_res t RSkip 0 (bump_run (emit s (hooks_up l ++ [EStart t])))
  | PPhase ph k => emit s [EPhase t ph k]
  | PRes r k => apply_res t r k s
  | PStop => emit s (hooks_down l ++ [EStop t])
  end.

(* startTest / the addSkip fallback: "testsRun = testsRun - 1 + test.countTestCases()" *)
Definition add_run (s : rstate) (k : nat) : rstate :=
  {| rs_run := rs_run s + k; rs_fail := rs_fail s; rs_err := rs_err s; rs_skip := rs_skip s; rs_us := rs_us s;
     rs_stop := rs_stop s; rs_ev := rs_ev s |}.
Definition run_test (l t : nat) (b : test) (s : rstate) : rstate :=
  add_run (fold_left (apply_pev l t) (proto b) s) (t_count b - 1).

(* "for test in tests: if result.shouldStop: break; test(result)" *)
Fixpoint run_seq (l : nat) (ts : list (nat * test)) (s : rstate) : rstate :=
  match ts with
  | [] => s
  | (t, b) :: r => if rs_stop s then s else run_seq l r (run_test l t b s)
  end.

(* ---------------- process state ---------------- *)
Record pstate := {
  ps_setup : list nat;             (* setup_layers, insertion order *)
  ps_att_su : list (nat * nat);    (* per layer: setUp attempts made in this process *)
  ps_att_td : list (nat * nat);
  ps_ran : nat;
  ps_fail : list name;
  ps_err : list name;
  ps_skip : nat;
  ps_ev : list ev
}.
Definition ps_init := {| ps_setup := []; ps_att_su := []; ps_att_td := []; ps_ran := 0; ps_fail := []; ps_err := [];
                         ps_skip := 0; ps_ev := [] |}.

Fixpoint cnt (l : nat) (m : list (nat * nat)) : nat :=
  match m with [] => 0 | (k, v) :: r => if Nat.eqb k l then v else cnt l r end.
Fixpoint inc (l : nat) (m : list (nat * nat)) : list (nat * nat) :=
  match m with [] => [(l, 1)] | (k, v) :: r => if Nat.eqb k l then (k, S v) :: r else (k, v) :: inc l r end.
Definition script_at (sc : list hout) (n : nat) : hout := nth n sc (last sc HOk).

Definition pemit (p : pstate) (e : list ev) : pstate :=
  {| ps_setup := ps_setup p; ps_att_su := ps_att_su p; ps_att_td := ps_att_td p; ps_ran := ps_ran p;
     ps_fail := ps_fail p; ps_err := ps_err p; ps_skip := ps_skip p; ps_ev := ps_ev p ++ e |}.

(* setup_layer: returns the new state and whether an exception escaped *)
Fixpoint setup_layer (fuel : nat) (l : nat) (p : pstate) : pstate * bool :=
  match fuel with 0 => (p, true) | S f =>
  if mem l (ps_setup p) then (p, false) else
  let '(p1, exc) := fold_left (fun (acc : pstate * bool) b =>
        let '(q, x) := acc in if x then (q, x) else setup_layer f b q)
        (bases_of (lw w) l) (p, false) in
  if exc then (p1, true) else
  let out := match l_setup (spec_of w l) with
             | None => HOk
             | Some sc => script_at sc (cnt l (ps_att_su p1)) end in
  let p2 := {| ps_setup := match out with HOk => ps_setup p1 ++ [l] | _ => ps_setup p1 end;
               ps_att_su := inc l (ps_att_su p1); ps_att_td := ps_att_td p1; ps_ran := ps_ran p1;
               ps_fail := ps_fail p1; ps_err := ps_err p1; ps_skip := ps_skip p1;
               ps_ev := ps_ev p1 ++ [ESetUp l out] |} in
  (p2, match out with HOk => false | _ => true end)
  end.

(* tear_down_unneeded over an already ordered list; returns state and CanNotTearDown flag *)
Fixpoint td_loop (order : list nat) (optional : bool) (p : pstate) : pstate * bool :=
  match order with
  | [] => (p, false)
  | l :: r =>
    let out := match l_teardown (spec_of w l) with
               | None => HOk
               | Some sc => script_at sc (cnt l (ps_att_td p)) end in
    let p1 := {| ps_setup := filter (fun x => negb (Nat.eqb x l)) (ps_setup p);
                 ps_att_su := ps_att_su p; ps_att_td := inc l (ps_att_td p); ps_ran := ps_ran p;
                 ps_fail := ps_fail p;
                 ps_err := match out with HRaise => ps_err p ++ [NLayerTearDown l] | _ => ps_err p end;
                 ps_skip := ps_skip p; ps_ev := ps_ev p ++ [ETearDown l out] |} in
    match out with
    | HNotImpl => if optional then td_loop r optional p1 else (pemit p1 [ECannot l], true)
    | _ => td_loop r optional p1
    end
  end.
Definition tear_down_unneeded (needed : list nat) (optional : bool) (p : pstate) : pstate * bool :=
  let unneeded := filter (fun x => negb (mem x needed)) (ps_setup p) in
  td_loop (rev (order_by_bases (lw w) unneeded)) optional p.

Definition tests_of (l : nat) : list (nat * test) :=
  filter (fun it => Nat.eqb (t_layer (snd it)) l) (index_from 0 (tests w)).

(* run_tests(options, tests, name, …): the --repeat loop for one layer *)
Fixpoint repeat_loop (n : nat) (l : nat) (p : pstate) : pstate :=
  match n with
  | 0 => p
  | S n' =>
    let rs := run_seq l (tests_of l) rs_init in
    let nf := length (rs_fail rs) + length (rs_us rs) in
    let ne := length (rs_err rs) + o_import_errors o in
    let p1 := {| ps_setup := ps_setup p; ps_att_su := ps_att_su p; ps_att_td := ps_att_td p;
                 ps_ran := rs_run rs;          (* ran = result.testsRun: the last iteration only *)
                 ps_fail := ps_fail p ++ rs_fail rs ++ rs_us rs; ps_err := ps_err p ++ rs_err rs;
                 ps_skip := ps_skip p + rs_skip rs;
                 ps_ev := ps_ev p ++ rs_ev rs ++ [ESummary l (rs_run rs) nf ne (rs_skip rs)] |} in
    if rs_stop rs then p1 else repeat_loop n' l p1
  end.
Definition reps := match o_repeat o with 0 => 1 | n => n end.

(* run_layer: returns state and CanNotTearDown flag; ps_ran of the result is what run_layer *returned* *)
Definition run_layer (l : nat) (p : pstate) : pstate * bool :=
  let fuel := S (nlayers (lw w)) in
  let '(p1, cannot) := tear_down_unneeded (gather_layers (lw w) l) false p in
  if cannot then (p1, true) else
  let '(p2, exc) := setup_layer fuel l p1 in
  if exc then
    ({| ps_setup := ps_setup p2; ps_att_su := ps_att_su p2; ps_att_td := ps_att_td p2; ps_ran := 0;
        ps_fail := ps_fail p2; ps_err := ps_err p2 ++ [NLayerSetUp l]; ps_skip := ps_skip p2; ps_ev := ps_ev p2 |}, false)
  else (repeat_loop reps l {| ps_setup := ps_setup p2; ps_att_su := ps_att_su p2; ps_att_td := ps_att_td p2; ps_ran := 0;
                              ps_fail := ps_fail p2; ps_err := ps_err p2; ps_skip := ps_skip p2; ps_ev := ps_ev p2 |}, false).

(* layers that own tests, in dict (first discovery) order, then ordered *)
Definition layers_with_tests : list nat :=
  fold_left (fun acc t => if mem (t_layer t) acc then acc else acc ++ [t_layer t]) (tests w) [].
Definition ordered_layers : list nat := order_by_bases (lw w) layers_with_tests.

(* ---------------- a resumed / parallel child ---------------- *)
Record report := { c_layer : nat; c_ran : nat; c_fail : list name; c_err : list name; c_ev : list ev }.
Definition child_run (l : nat) : report :=
  let '(p1, _) := run_layer l ps_init in
  let '(p2, _) := tear_down_unneeded [] true p1 in
  {| c_layer := l; c_ran := ps_ran p1; c_fail := ps_fail p2; c_err := ps_err p2; c_ev := ps_ev p2 |}.

(* resume_tests, sequential (-j 1): children one after the other; with -x none is started once
   a failure or error is known.  With -j N > 1 all children run (no -x: see DESIGN). *)
Fixpoint resume_seq (ls : list nat) (ran : nat) (f e : list name) : list report * nat * list name * list name :=
  match ls with
  | [] => ([], ran, f, e)
  | l :: r =>
    if o_x o && (match f, e with [], [] => false | _, _ => true end) then ([], ran, f, e) else
    let c := child_run l in
    let '(cs, ran', f', e') := resume_seq r (ran + c_ran c) (f ++ c_fail c) (e ++ c_err c) in
    (c :: cs, ran', f', e')
  end.

(* ---------------- Runner.run_tests ---------------- *)
Record result := {
  r_parent : list ev;
  r_children : list report;
  r_ran : nat; r_fail : list name; r_err : list name; r_skip : nat;
  r_failed : bool;
  r_layers_run : nat               (* Statistics.layers_run: totals are printed unless it is 1 *)
}.

(* the in-process loop; returns state, the layers not run, whether to resume, number of layer_setup calls *)
Fixpoint parent_loop (ls : list nat) (p : pstate) (ran : nat) (n : nat) : pstate * nat * list nat * bool * nat :=
  match ls with
  | [] => (p, ran, [], false, n)
  | l :: r =>
    let '(p1, cannot) := run_layer l p in
    if cannot then (p1, ran, l :: r, true, S n) else
    let ran1 := ran + ps_ran p1 in
    if o_x o && (match ps_fail p1, ps_err p1 with [], [] => false | _, _ => true end)
    then (p1, ran1, r, false, S n)
    else parent_loop r p1 ran1 (S n)
  end.

Definition run : result :=
  let parallel := Nat.ltb 1 (o_procs o) in
  let '(p1, ran1, rest, resume, n1) :=
    if parallel then
      (* the synthetic EmptyLayer runs first, in-process: no hooks, no tests, one summary per iteration *)
      (pemit ps_init (repeat (ESummary (nlayers (lw w)) 0 0 (o_import_errors o) 0) reps), 0, ordered_layers, true, 1)
    else parent_loop ordered_layers ps_init 0 0 in
  let '(cs, ran2, f2, e2) :=
    if resume then resume_seq rest ran1 (ps_fail p1) (ps_err p1) else ([], ran1, ps_fail p1, ps_err p1) in
  (* left-over layers: tear down, NotImplementedError tolerated *)
  let p2 := {| ps_setup := ps_setup p1; ps_att_su := ps_att_su p1; ps_att_td := ps_att_td p1; ps_ran := 0;
               ps_fail := []; ps_err := []; ps_skip := ps_skip p1; ps_ev := ps_ev p1 |} in
  let '(p3, _) := tear_down_unneeded [] true p2 in
  let errs := e2 ++ ps_err p3 in
  {| r_parent := ps_ev p3; r_children := cs; r_ran := ran2; r_fail := f2; r_err := errs; r_skip := ps_skip p1;
     r_failed := Nat.ltb 0 (o_import_errors o) || (match f2, errs with [], [] => false | _, _ => true end);
     r_layers_run := n1 + length cs |}.
End R.
