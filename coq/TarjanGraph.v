(* TarjanGraph.v — every graph that can be built through DiGraph's public operations (add_nodes, add_neighbors
   with and without ignore_unknown, in any order, with unknown nodes) meets the hypotheses of Tarjan.sccs_correct. *)
From ZT Require Import Base LayersFacts Digraph TarjanBase Tarjan.

Definition graph_ok (g : graph) : Prop :=
  NoDup (nodes g) /\ forall x y, In y (adj g x) -> In y (nodes g).

Lemma add_set_in : forall xs s x, In x (add_set xs s) <-> In x xs \/ In x s.
Proof.
  induction xs as [|y xs IH]; intros s x; simpl; [tauto|]. rewrite IH.
  destruct (mem y s) eqn:Em.
  - apply mem_In in Em. split; [tauto|]. intros [[<-|H]|H]; auto.
  - rewrite in_app_iff. simpl. tauto.
Qed.
Lemma add_set_nodup : forall xs s, NoDup s -> NoDup (add_set xs s).
Proof.
  induction xs as [|y xs IH]; intros s H; simpl; [exact H|]. apply IH.
  destruct (mem y s) eqn:Em; [exact H|]. apply mem_false in Em.
  clear - H Em. induction s as [|z s IHs]; simpl; [constructor; [intros [] | constructor]|].
  inversion H as [|? ? Hn Hr]; subst. constructor.
  - rewrite in_app_iff. simpl. intros [Hi|[->|[]]]; [contradiction | apply Em; now left].
  - apply IHs; [exact Hr | intros Hi; apply Em; now right].
Qed.

Lemma empty_ok : graph_ok empty_graph.
Proof. split; [constructor | intros x y []]. Qed.

Lemma apply_op_ok g o g' : graph_ok g -> apply_op g o = Some g' -> graph_ok g'.
Proof.
  intros [Hnd Hadj] H. destruct o as [ns|n nbs ign]; simpl in H.
  - injection H as <-. split; simpl; [apply add_set_nodup; exact Hnd|].
    intros x y Hy. apply add_set_in. right. apply (Hadj x y). exact Hy.
  - destruct (negb (mem n (nodes g))); [destruct ign; [injection H as <-; split; assumption | discriminate]|].
    set (known := filter (fun x => mem x (nodes g)) (add_set nbs [])) in *.
    assert (Hknown : forall y, In y known -> In y (nodes g)).
    { intros y Hy. unfold known in Hy. apply filter_In in Hy. apply mem_In. tauto. }
    destruct (negb ign && negb (Nat.eqb (length known) (length (add_set nbs [])))); [discriminate|].
    assert (Hgen : forall l, (forall y, In y l -> In y (nodes g)) ->
              graph_ok {| nodes := nodes g; nbrs := aupdate n l (nbrs g) |}).
    { intros l Hl. split; simpl; [exact Hnd|]. intros x y. unfold adj. simpl.
      destruct (Nat.eq_dec x n) as [->|Hne]; [rewrite alookup_aupdate_eq; apply Hl|].
      rewrite alookup_aupdate_neq by exact Hne. apply (Hadj x y). }
    destruct (alookup n (nbrs g)) as [old|] eqn:El; injection H as <-; apply Hgen.
    + intros y Hy. apply add_set_in in Hy. destruct Hy as [Hy|Hy]; [apply Hknown; exact Hy|].
      apply (Hadj n y). unfold adj. rewrite El. exact Hy.
    + exact Hknown.
Qed.

Theorem built_graph_ok : forall os g g', graph_ok g -> apply_ops g os = Some g' -> graph_ok g'.
Proof.
  induction os as [|o os IH]; simpl; intros g g' Hg H; [injection H as <-; exact Hg|].
  destruct (apply_op g o) as [g1|] eqn:E; [|discriminate]. eapply IH; [eapply apply_op_ok; eauto | exact H].
Qed.

(* C20 for every graph DiGraph can hold *)
Theorem sccs_correct_built os g trivial : apply_ops empty_graph os = Some g ->
  exists comps, sccs g trivial = Ok comps /\
    NoDup (concat comps) /\
    (forall c, In c comps -> c <> [] /\ forall x, In x c -> In x (nodes g) /\ forall y, In y c <-> (reach g x y /\ reach g y x)) /\
    (forall x, In x (nodes g) -> (In x (concat comps) <-> (trivial = true \/ cyc g x))).
Proof.
  intros H. destruct (built_graph_ok os empty_graph g empty_ok H) as [H1 H2]. apply sccs_correct; assumption.
Qed.
