(* P_C06.v — property theorems for C06 only. *)
From ZT Require Import Base Parallel ParallelFacts.

(* At no time more than N layer subprocesses are alive — for every schedule of lines and completions. *)
Theorem C06_alive_le_N : forall N order sched, length (running (prun N order sched)) <= N.
Proof. exact alive_le_N. Qed.
Print Assumptions C06_alive_le_N.

(* Up to N do make progress: after the start phase of an iteration nothing is waiting or N threads are occupied. *)
Theorem C06_work_conserving : forall N fuel rd rn, length rd <= fuel ->
  fst (start N fuel rd rn) = [] \/ N <= length (snd (start N fuel rd rn)).
Proof. exact start_saturates. Qed.
Print Assumptions C06_work_conserving.

(* Whatever order the children finish in and however their lines interleave, what the parent has printed at any time is a
   sequence of whole per-layer blocks in layer order … *)
Theorem C06_whole_blocks_in_order : forall N order sched,
  let s := prun N order sched in printed s = blocks order (cur s) (outl s).
Proof. exact printed_is_whole_blocks_in_order. Qed.
Print Assumptions C06_whole_blocks_in_order.

(* … and once every child has finished the next iteration has printed every layer's block. *)
Theorem C06_all_blocks_printed : forall N order sched,
  let s := prun N order sched in
  ready s = [] -> running s = [] ->
  let s' := pstep N order s Tick in
  cur s' = length order /\ printed s' = flat_map (fun i => lines_of i (outl s')) order.
Proof. exact all_blocks_printed. Qed.
Print Assumptions C06_all_blocks_printed.

(* ------------------------------------------------------------------------------------------------------------
   The first sentence of C06 on the whole-run model, for EVERY world in which layer set-ups succeed and no
   tearDown raises an error (tearDown may raise NotImplementedError, so that a sequential run resumes later layers
   in subprocesses), for every --repeat count, with and without -x: the failure list, the error list, the number
   of tests run and the verdict are the same for every -j N — whether all layers run in the parent, some are
   resumed in children, or each runs in its own child.  (The skip count is not: open finding C12-child-skips.) *)
From ZT Require Import Layers LayersFacts Run RunOnce RunModes.

Theorem C06_same_results_for_every_N : forall w,
  wf (lw w) -> (forall b, In b (tests w) -> t_layer b < nlayers (lw w)) ->
  (forall l, good w l) ->
  (forall l sc n, l_teardown (spec_of w l) = Some sc -> script_at sc n <> HRaise) ->
  forall o n,
  let a := run w (with_procs o n) in let b := run w (with_procs o 1) in
  r_fail a = r_fail b /\ r_err a = r_err b /\ r_ran a = r_ran b /\ r_failed a = r_failed b.
Proof. exact run_independent_of_procs. Qed.
Print Assumptions C06_same_results_for_every_N.
