From ZT Require Import Base Channel.

(* ---------------- line level ---------------- *)
Lemma take_names_app : forall ns rest, take_names (length ns) (ns ++ rest) = Some (map strip ns, rest).
Proof. induction ns as [|n ns IH]; intros rest; simpl; [reflexivity|]. now rewrite IH. Qed.

Lemma take_names_short : forall n ls, length ls < n -> take_names n ls = None.
Proof.
  induction n as [|n IH]; intros ls H; [lia|]. destruct ls as [|l r]; simpl; [reflexivity|].
  rewrite IH; [reflexivity | simpl in H; lia].
Qed.

Lemma find_header_skip noise h x rest :
  (forall l, In l noise -> header l = None) -> header h = Some x ->
  find_header (noise ++ h :: rest) = Some (x, rest).
Proof.
  intros Hn Hh. induction noise as [|l noise IH]; simpl.
  - rewrite Hh. destruct x as [[a b] c]. reflexivity.
  - rewrite (Hn l (or_introl eq_refl)). apply IH. intros l' Hl'. apply Hn. now right.
Qed.

(* nothing lost: whatever precedes the report (as long as no line of it reads as three integers) and whatever
   follows it, the parent gets exactly the child's count and exactly its names *)
Theorem roundtrip_lines noise h ran fails errs trailing :
  (forall l, In l noise -> header l = None) ->
  header h = Some (ran, Z.of_nat (length fails), Z.of_nat (length errs)) ->
  parse_lines (noise ++ h :: fails ++ errs ++ trailing) = Report ran (map strip fails) (map strip errs).
Proof.
  intros Hn Hh. unfold parse_lines. rewrite (find_header_skip noise h _ _ Hn Hh).
  rewrite !Nat2Z.id. rewrite take_names_app, take_names_app. reflexivity.
Qed.

(* nothing partial trusted: if the lines after the header are fewer than announced, none of it is used *)
Theorem truncated_lines noise h ran nf ne rest :
  (forall l, In l noise -> header l = None) -> header h = Some (ran, nf, ne) ->
  (0 <= nf)%Z -> (0 <= ne)%Z -> (Z.of_nat (length rest) < nf + ne)%Z ->
  parse_lines (noise ++ h :: rest) = Incomplete.
Proof.
  intros Hn Hh H1 H2 Hlen. unfold parse_lines. rewrite (find_header_skip noise h _ _ Hn Hh).
  destruct (take_names (Z.to_nat nf) rest) as [[fs rest']|] eqn:E1; [|reflexivity].
  assert (Hl : length rest = Z.to_nat nf + length rest').
  { clear - E1. revert rest fs rest' E1. induction (Z.to_nat nf) as [|n IH]; intros rest fs rest' E; simpl in E.
    - injection E as _ <-. reflexivity.
    - destruct rest as [|l r]; [discriminate|]. destruct (take_names n r) as [[ns r']|] eqn:E'; [|discriminate].
      injection E as _ <-. simpl. rewrite (IH _ _ _ E'). reflexivity. }
  rewrite take_names_short; [reflexivity|]. lia.
Qed.

Theorem no_header_no_report ls : (forall l, In l ls -> header l = None) -> parse_lines ls = NoReport.
Proof.
  intros H. unfold parse_lines.
  assert (E : find_header ls = None).
  { induction ls as [|l r IH]; simpl; [reflexivity|]. rewrite (H l (or_introl eq_refl)). apply IH. intros l' Hl'. apply H. now right. }
  now rewrite E.
Qed.

(* the parser is total: it always ends in one of the three outcomes, and only a complete report contributes data *)
Theorem effect_cases o : (exists ran fs es, o = Report ran fs es /\ effect o = (ran, fs, es, false)) \/ effect o = (0%Z, [], [], true).
Proof. destruct o; [left; eauto | right; reflexivity | right; reflexivity]. Qed.

(* ---------------- from bytes to lines ---------------- *)
Open Scope N_scope.
Definition no_eol (l : bytes) : Prop := forall c, In c l -> c <> 10 /\ c <> 13.

Lemma splitlines_aux_line l : no_eol l -> forall rest cur,
  splitlines_aux (l ++ 10 :: rest) cur false = (rev cur ++ l) :: splitlines_aux rest [] false.
Proof.
  induction l as [|c l IH]; intros Hl rest cur; simpl.
  - now rewrite app_nil_r.
  - destruct (Hl c (or_introl eq_refl)) as [H1 H2].
    apply N.eqb_neq in H1, H2. rewrite H1, H2.
    rewrite IH; [|intros x Hx; apply Hl; now right]. simpl. now rewrite <- app_assoc.
Qed.

Theorem splitlines_join ls : (forall l, In l ls -> no_eol l) ->
  splitlines (flat_map (fun l => l ++ [10]) ls) = ls.
Proof.
  unfold splitlines. induction ls as [|l ls IH]; intros H; simpl; [reflexivity|].
  rewrite <- app_assoc. simpl. rewrite splitlines_aux_line by (apply H; now left). simpl. f_equal.
  apply IH. intros l' Hl'. apply H. now right.
Qed.
Close Scope N_scope.

(* the statement is false when the child's real stderr carries a line of three integers before the report … *)
Theorem lookalike_noise_refuted :
  exists noise ran fails errs,
    parse (noise ++ encode ran fails errs) <> Report (Z.of_N ran) fails errs.
Proof.
  exists [55; 32; 48; 32; 48; 10]%N, 3%N, [[102]%N], []. vm_compute. discriminate.
Qed.
(* … and when the report is cut inside its last name *)
Theorem cut_inside_last_name_refuted :
  exists ran fails errs n,
    n < length (encode ran fails errs) /\
    exists fs, parse (firstn n (encode ran fails errs)) = Report (Z.of_N ran) fs errs /\ fs <> fails.
Proof.
  exists 3%N, [[102; 111; 111]%N], [], 7. split; [vm_compute; lia|]. exists [[102]%N]. vm_compute. split; [reflexivity | discriminate].
Qed.

Example encode_example :
  parse (encode 12 [[97; 98]; [99]]%N [[100]]%N) = Report 12%Z [[97; 98]; [99]]%N [[100]]%N.
Proof. vm_compute. reflexivity. Qed.
Open Scope N_scope.
Ltac Zify.zify_post_hook ::= Z.to_euclidean_division_equations.

Definition all_digits (l : bytes) := forallb is_digit l = true.

(* render_nat prepends the decimal digits of n *)
Lemma render_nat_spec : forall f n acc, n < 10 ^ N.of_nat f -> (0 < f)%nat ->
  exists ds, render_nat f n acc = ds ++ acc /\ ds <> [] /\ all_digits ds /\
    forall rest a, digits_val (ds ++ rest) a false = digits_val rest (a * 10 ^ Z.of_nat (length ds) + Z.of_N n)%Z false.
Proof.
  induction f as [|f IH]; intros n acc Hn Hf; [lia|]. cbn [render_nat].
  assert (Hd : is_digit (48 + n mod 10) = true).
  { unfold is_digit. pose proof (N.mod_lt n 10 ltac:(lia)). apply andb_true_iff. split; apply N.leb_le; lia. }
  destruct (n / 10 =? 0) eqn:E.
  - apply N.eqb_eq in E. exists [48 + n mod 10]. split; [reflexivity|]. split; [discriminate|]. split.
    + unfold all_digits. cbn [forallb]. now rewrite Hd.
    + intros rest a. cbn [digits_val app length]. rewrite Hd. f_equal.
      assert (n < 10) by (apply N.div_small_iff in E; lia).
      rewrite N.mod_small by lia. replace (48 + n - 48) with n by lia. lia.
  - apply N.eqb_neq in E.
    assert (Hf' : (0 < f)%nat).
    { destruct f; [|lia]. simpl in Hn. assert (n < 10) by lia. exfalso. apply E. apply N.div_small. lia. }
    assert (Hn' : n / 10 < 10 ^ N.of_nat f).
    { apply N.div_lt_upper_bound; [lia|]. rewrite Nat2N.inj_succ, N.pow_succ_r' in Hn. lia. }
    destruct (IH (n / 10) ((48 + n mod 10) :: acc) Hn' Hf') as [ds [E1 [E2 [E3 E4]]]].
    exists (ds ++ [48 + n mod 10]). split; [rewrite E1, <- app_assoc; reflexivity|]. split; [destruct ds; discriminate|]. split.
    + unfold all_digits in *. rewrite forallb_app, E3. cbn [forallb]. now rewrite Hd.
    + intros rest a. rewrite <- app_assoc. rewrite E4. cbn [digits_val app]. rewrite Hd. f_equal.
      rewrite app_length. cbn [length]. rewrite Nat2Z.inj_add. change (Z.of_nat 1) with 1%Z.
      rewrite Z.pow_add_r by lia. replace (48 + n mod 10 - 48) with (n mod 10) by lia.
      pose proof (N.div_mod n 10 ltac:(lia)) as Hdm.
      assert (Z.of_N n = Z.of_N (n / 10) * 10 + Z.of_N (n mod 10))%Z by lia. lia.
Qed.

Lemma digit_not_ws c : is_digit c = true -> is_ws c = false.
Proof.
  unfold is_digit, is_ws. intros H. apply andb_true_iff in H. destruct H as [H1 H2]. apply N.leb_le in H1, H2.
  repeat (apply orb_false_iff; split); apply N.eqb_neq; lia.
Qed.

Definition bound := 10 ^ 40.

Lemma render_digits n : n < bound -> render n <> [] /\ all_digits (render n) /\
  forall rest a, digits_val (render n ++ rest) a false = digits_val rest (a * 10 ^ Z.of_nat (length (render n)) + Z.of_N n)%Z false.
Proof.
  intros H. unfold render. destruct (render_nat_spec 40 n [] H ltac:(lia)) as [ds [E1 [E2 [E3 E4]]]].
  rewrite app_nil_r in E1. rewrite E1. auto.
Qed.

Lemma parse_int_render n : n < bound -> parse_int (render n) = Some (Z.of_N n).
Proof.
  intros H. destruct (render_digits n H) as [E2 [E3 E4]].
  destruct (render n) as [|c r] eqn:Er; [congruence|].
  unfold all_digits in E3. cbn [forallb] in E3. apply andb_true_iff in E3. destruct E3 as [Hc Hr].
  assert (Hne : c <> 43 /\ c <> 45).
  { unfold is_digit in Hc. apply andb_true_iff in Hc. destruct Hc as [H1 H2]. apply N.leb_le in H1, H2. lia. }
  unfold parse_int. destruct Hne as [N1 N2]. apply N.eqb_neq in N1, N2. rewrite N1, N2.
  rewrite Hc.
  specialize (E4 [] 0%Z). rewrite app_nil_r in E4. rewrite E4. cbn [digits_val]. f_equal; try lia.
Qed.

(* a word without whitespace is accumulated as a whole *)
Lemma split_aux_word w : forallb (fun c => negb (is_ws c)) w = true -> forall rest cur,
  split_aux (w ++ rest) cur = split_aux rest (rev w ++ cur).
Proof.
  induction w as [|c w IH]; intros Hw rest cur; [reflexivity|].
  cbn [forallb] in Hw. apply andb_true_iff in Hw. destruct Hw as [Hc Hw]. apply negb_true_iff in Hc.
  cbn [app split_aux]. rewrite Hc. rewrite IH by exact Hw. cbn [rev]. now rewrite <- app_assoc.
Qed.

Lemma digits_no_ws w : all_digits w -> forallb (fun c => negb (is_ws c)) w = true.
Proof.
  unfold all_digits. intros H. rewrite forallb_forall in *. intros c Hc. rewrite digit_not_ws; auto.
Qed.

Lemma rev_cons_of_nonnil (l : bytes) : l <> [] -> exists x r, rev l = x :: r.
Proof.
  intros H. destruct (rev l) as [|x r] eqn:E; [|eauto].
  exfalso. apply H. rewrite <- (rev_involutive l), E. reflexivity.
Qed.

Lemma split_three a b c : all_digits a -> all_digits b -> all_digits c -> a <> [] -> b <> [] -> c <> [] ->
  split (a ++ 32 :: b ++ 32 :: c) = [a; b; c].
Proof.
  intros Ha Hb Hc Na Nb Nc. unfold split.
  rewrite split_aux_word by (apply digits_no_ws; exact Ha). rewrite app_nil_r.
  cbn [split_aux]. change (is_ws 32) with true. cbn iota.
  destruct (rev_cons_of_nonnil a Na) as [x [ra Era]]. rewrite Era.
  rewrite <- Era, rev_involutive. f_equal.
  rewrite split_aux_word by (apply digits_no_ws; exact Hb). rewrite app_nil_r.
  cbn [split_aux]. change (is_ws 32) with true. cbn iota.
  destruct (rev_cons_of_nonnil b Nb) as [y [rb Erb]]. rewrite Erb.
  rewrite <- Erb, rev_involutive. f_equal.
  rewrite <- (app_nil_r c) at 1. rewrite split_aux_word by (apply digits_no_ws; exact Hc). rewrite app_nil_r.
  cbn [split_aux].
  destruct (rev_cons_of_nonnil c Nc) as [z [rc Erc]]. rewrite Erc.
  rewrite <- Erc, rev_involutive. reflexivity.
Qed.

Lemma lstrip_nows c l : is_ws c = false -> lstrip (c :: l) = c :: l.
Proof. intros H. cbn [lstrip]. now rewrite H. Qed.

Lemma strip_clean l : (exists c r, l = c :: r /\ is_ws c = false) -> (exists c r, rev l = c :: r /\ is_ws c = false) -> strip l = l.
Proof.
  intros [c [r [-> Hc]]] [c' [r' [Er Hc']]]. unfold strip. rewrite lstrip_nows by exact Hc.
  rewrite Er, lstrip_nows by exact Hc'. rewrite <- Er. apply rev_involutive.
Qed.

Definition hdr (a b c : N) : bytes := render a ++ 32 :: render b ++ 32 :: render c.

Lemma first_nows (l : bytes) : all_digits l -> l <> [] -> exists c r, l = c :: r /\ is_ws c = false.
Proof.
  intros H Hn. destruct l as [|c r]; [congruence|]. exists c, r. split; [reflexivity|].
  unfold all_digits in H. cbn [forallb] in H. apply andb_true_iff in H. apply digit_not_ws. tauto.
Qed.

Theorem header_of_rendered a b c : a < bound -> b < bound -> c < bound ->
  header (hdr a b c) = Some (Z.of_N a, Z.of_N b, Z.of_N c).
Proof.
  intros Ha Hb Hc.
  destruct (render_digits a Ha) as [Na [Da _]]. destruct (render_digits b Hb) as [Nb [Db _]]. destruct (render_digits c Hc) as [Nc [Dc _]].
  unfold header, hdr.
  rewrite strip_clean.
  - rewrite split_three by assumption. rewrite !parse_int_render by assumption. reflexivity.
  - destruct (first_nows _ Da Na) as [x [r [E Hx]]]. rewrite E. exists x, (r ++ 32 :: render b ++ 32 :: render c). split; [reflexivity | exact Hx].
  - (* the last byte is the last digit of c *)
    assert (Hrev : all_digits (rev (render c))).
    { unfold all_digits in *. rewrite forallb_forall in *. intros y Hy. apply Dc. now apply in_rev. }
    assert (Nrev : rev (render c) <> []).
    { intros E. apply Nc. rewrite <- (rev_involutive (render c)), E. reflexivity. }
    destruct (first_nows _ Hrev Nrev) as [x [r [E Hx]]].
    exists x, (r ++ rev (render a ++ 32 :: render b ++ [32])). split; [|exact Hx].
    replace (render a ++ 32 :: render b ++ 32 :: render c) with ((render a ++ 32 :: render b ++ [32]) ++ render c)
      by (rewrite <- !app_assoc; cbn [app]; rewrite <- !app_assoc; reflexivity).
    rewrite rev_app_distr, E. reflexivity.
Qed.

Lemma hdr_no_eol a b c : a < bound -> b < bound -> c < bound -> no_eol (hdr a b c).
Proof.
  intros Ha Hb Hc x Hx.
  destruct (render_digits a Ha) as [_ [Da _]]. destruct (render_digits b Hb) as [_ [Db _]]. destruct (render_digits c Hc) as [_ [Dc _]].
  assert (Hd : forall l, all_digits l -> In x l -> x <> 10 /\ x <> 13).
  { intros l Hl Hin. unfold all_digits in Hl. rewrite forallb_forall in Hl. specialize (Hl x Hin).
    unfold is_digit in Hl. apply andb_true_iff in Hl. destruct Hl as [H1 H2]. apply N.leb_le in H1, H2. lia. }
  unfold hdr in Hx. apply in_app_or in Hx. destruct Hx as [Hx|[<-|Hx]]; [eauto | lia |].
  apply in_app_or in Hx. destruct Hx as [Hx|[<-|Hx]]; [eauto | lia | eauto].
Qed.

(* C07, bytes: nothing lost however much precedes and follows the report *)
Theorem roundtrip_bytes ran fails errs noise trailing :
  ran < bound -> N.of_nat (length fails) < bound -> N.of_nat (length errs) < bound ->
  (forall l, In l noise -> no_eol l /\ header l = None) ->
  (forall l, In l (fails ++ errs ++ trailing) -> no_eol l) ->
  parse (flat_map (fun l => l ++ [10]) noise ++ encode ran fails errs ++ flat_map (fun l => l ++ [10]) trailing)
  = Report (Z.of_N ran) (map strip fails) (map strip errs).
Proof.
  intros Hr Hf He Hn Hl. unfold parse.
  set (h := hdr ran (N.of_nat (length fails)) (N.of_nat (length errs))).
  assert (E : flat_map (fun l => l ++ [10]) noise ++ encode ran fails errs ++ flat_map (fun l => l ++ [10]) trailing
            = flat_map (fun l => l ++ [10]) (noise ++ h :: fails ++ errs ++ trailing)).
  { rewrite flat_map_app. f_equal. cbn [flat_map]. rewrite !flat_map_app. unfold encode, h, hdr.
    repeat (rewrite <- app_assoc || cbn [app]). reflexivity. }
  rewrite E, splitlines_join.
  - apply roundtrip_lines.
    + intros l Hin. apply Hn. exact Hin.
    + unfold h. rewrite header_of_rendered by assumption. rewrite !nat_N_Z. reflexivity.
  - intros l Hin. apply in_app_or in Hin. destruct Hin as [Hin|[<-|Hin]].
    + apply Hn. exact Hin.
    + apply hdr_no_eol; assumption.
    + apply Hl. exact Hin.
Qed.
