(* P_C18.v — property theorems for C18 only. *)
From ZT Require Import Base Restore RestoreFacts RestorePhases RestoreTagged.

(* For every subset and order of active features (each saving what it finds and restoring it in the finally clause of
   Runner.run) and every test phase that itself gives back what it found — whether it ends normally or by an exception —
   the interpreter-global state after the run equals the state before it. *)
Theorem C18_run_restores_globals : forall fs phase,
  (forall g, gequiv (phase g) g) -> forall g, gequiv (with_features fs phase g) g.
Proof. exact run_restores_globals. Qed.
Print Assumptions C18_run_restores_globals.

(* one feature: restore(install) is the identity around any inner computation that is itself restoring *)
Theorem C18_install_restore : forall ws g g1 s inner,
  install ws g = (g1, s) -> gequiv inner g1 -> gequiv (restore_saved s inner) g.
Proof. exact install_restore. Qed.
Print Assumptions C18_install_restore.

(* while the test phase runs, a field carries the value its feature installed *)
Theorem C18_installed_value_visible : forall ws g f v, In (f, v) ws -> NoDup (map fst ws) ->
  gget (fst (install ws g)) f = v.
Proof. exact install_get. Qed.
Print Assumptions C18_installed_value_visible.

(* The schedule the code really follows (global_setup of every feature, late_setup of every feature, the tests, early_teardown
   of every feature in reverse, global_teardown of every feature in reverse; a write may be made in either set-up phase and undone in
   either tear-down phase) with an ARBITRARY test phase — tests that change gc thresholds, trace hooks or warnings filters
   themselves, ending normally or by an exception: every field an active feature manages is afterwards what it was before the run,
   provided no two active features write the same field (evaluated on every case: bit 4). *)
Theorem C18_managed_state_restored_whatever_tests_do : forall fs phase g f, disjoint_writes fs = true -> In f (fields3 fs) ->
  gget (run3 fs phase g) f = gget g f.
Proof. exact run3_managed_restored. Qed.
Print Assumptions C18_managed_state_restored_whatever_tests_do.

(* state no active feature manages is exactly what the tests left: the runner itself changes nothing else *)
Theorem C18_other_state_untouched_by_the_runner : forall fs phase g f, ~ In f (fields3 fs) ->
  gget (run3 fs phase g) f = gget (phase (during3 fs g)) f.
Proof. exact run3_unmanaged_left_to_the_tests. Qed.
Print Assumptions C18_other_state_untouched_by_the_runner.

Theorem C18_schedule_restores : forall fs phase, disjoint_writes fs = true ->
  (forall g f, ~ In f (fields3 fs) -> gget (phase g) f = gget g f) -> forall g, gequiv (run3 fs phase g) g.
Proof. exact run3_restores. Qed.
Print Assumptions C18_schedule_restores.

Theorem C18_schedule_installed_value_visible : forall fs g w, disjoint_writes fs = true -> In w (concat fs) ->
  gget (during3 fs g) (w_field w) = w_val w.
Proof. exact during3_installed. Qed.
Print Assumptions C18_schedule_installed_value_visible.

(* nested brackets (a feature undone in the mirror image of its set-up): no disjointness needed, any test phase *)
Theorem C18_bracketed_fields_restored_whatever_tests_do : forall fs phase g f, In f (managed fs) ->
  gget (run2 fs phase g) f = gget g f.
Proof. exact managed_fields_restored. Qed.
Print Assumptions C18_bracketed_fields_restored_whatever_tests_do.

(* history: run after run in one interpreter, each with its own options and tests *)
Theorem C18_history_of_runs_restores : forall h,
  Forall (fun rp => only_managed (fst rp) (snd rp)) h -> forall g, gequiv (runs h g) g.
Proof. exact history_restores. Qed.
Print Assumptions C18_history_of_runs_restores.

Theorem C18_history_field_managed_in_every_run : forall h f,
  Forall (fun rp => In f (managed (fst rp))) h -> forall g, gget (runs h g) f = gget g f.
Proof. exact history_managed_everywhere. Qed.
Print Assumptions C18_history_field_managed_in_every_run.

(* The same schedule with every write undone by the value that very write saved (run4): faithful also when two features write one
   field — and there the schedule is NOT restoring, which is why disjointness is a hypothesis (and is evaluated on every case). *)
Theorem C18_overlapping_writes_refuted : exists fs g f,
  disjoint_writes fs = false /\ In f (fields3 fs) /\ gget (run4 fs (fun x => x) g) f <> gget g f.
Proof. exact overlapping_writes_are_not_restored. Qed.
Print Assumptions C18_overlapping_writes_refuted.

Theorem C18_managed_state_restored_by_own_saved_values : forall fs phase g f, disjoint_writes fs = true -> In f (fields3 fs) ->
  gget (run4 fs phase g) f = gget g f.
Proof. exact run4_managed_restored. Qed.
Print Assumptions C18_managed_state_restored_by_own_saved_values.
