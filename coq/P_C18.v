(* P_C18.v — property theorems for C18 only. *)
From ZT Require Import Base Restore RestoreFacts.

(* For every subset and order of active features (each saving what it finds and restoring it in the finally clause of
   Runner.run) and every test phase that itself gives back what it found — whether it ends normally or by an exception —
   the interpreter-global state after the run equals the state before it. *)
Theorem C18_run_restores_globals : forall fs phase,
  (forall g, gequiv (phase g) g) -> forall g, gequiv (with_features fs phase g) g.
Proof. exact run_restores_globals. Qed.
Print Assumptions C18_run_restores_globals.

(* one feature: restore(install) is the identity around any inner computation that is itself restoring *)
Theorem C18_install_restore : forall ws g g1 s inner,
  install ws g = (g1, s) -> gequiv inner g1 -> gequiv (restore_saved s inner) g.
Proof. exact install_restore. Qed.
Print Assumptions C18_install_restore.

(* while the test phase runs, a field carries the value its feature installed *)
Theorem C18_installed_value_visible : forall ws g f v, In (f, v) ws -> NoDup (map fst ws) ->
  gget (fst (install ws g)) f = v.
Proof. exact install_get. Qed.
Print Assumptions C18_installed_value_visible.
