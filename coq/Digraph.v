(* Digraph.v — model of zope.testrunner.digraph.DiGraph: graph construction through
   add_nodes / add_neighbors and the iterative Tarjan `sccs` as an explicit step machine.
   Iteration orders of Python sets are inputs: the order of `nodes` is the order in which
   `next(iter(unvisited))` picks roots, the order of each adjacency list is the order in
   which `visits.extend(neighbors)` pushes them. *)
From ZT Require Import Base.

(* ---------- graph construction ---------- *)
Record graph := { nodes : list nat; nbrs : list (nat * list nat) }.

Fixpoint alookup {A} (n : nat) (m : list (nat * A)) : option A :=
  match m with [] => None | (k, v) :: r => if Nat.eqb k n then Some v else alookup n r end.
Fixpoint aupdate {A} (n : nat) (v : A) (m : list (nat * A)) : list (nat * A) :=
  match m with [] => [(n, v)] | (k, w) :: r => if Nat.eqb k n then (k, v) :: r else (k, w) :: aupdate n v r end.

Fixpoint add_set (xs : list nat) (s : list nat) : list nat :=
  match xs with [] => s | x :: r => add_set r (if mem x s then s else s ++ [x]) end.

Inductive op :=
| AddNodes (ns : list nat)
| AddNeighbors (n : nat) (nbs : list nat) (ignore_unknown : bool).

(* None = KeyError *)
Definition apply_op (g : graph) (o : op) : option graph :=
  match o with
  | AddNodes ns => Some {| nodes := add_set ns (nodes g); nbrs := nbrs g |}
  | AddNeighbors n nbs ign =>
    if negb (mem n (nodes g)) then (if ign then Some g else None) else
    let tr := add_set nbs [] in
    let known := filter (fun x => mem x (nodes g)) tr in
    if negb ign && negb (Nat.eqb (length known) (length tr)) then None else
    match alookup n (nbrs g) with
    | None => Some {| nodes := nodes g; nbrs := aupdate n known (nbrs g) |}
    | Some old => Some {| nodes := nodes g; nbrs := aupdate n (add_set known old) (nbrs g) |}
    end
  end.

Fixpoint apply_ops (g : graph) (os : list op) : option graph :=
  match os with [] => Some g | o :: r => match apply_op g o with Some g' => apply_ops g' r | None => None end end.

Definition empty_graph := {| nodes := []; nbrs := [] |}.

(* self._neighbors.get(node, ()) *)
Definition adj (g : graph) (n : nat) : list nat :=
  match alookup n (nbrs g) with Some l => l | None => [] end.

(* ---------- Tarjan machine ---------- *)
Record nstate := { st_dfs : nat; st_low : nat; st_stacked : bool }.
Inductive visit := VNode (n : nat) | VRtn.

Record tstate := {
  unvisited : list nat;
  states : list (nat * nstate);
  ancestors : list nat;   (* head = top *)
  stack : list nat;       (* head = top *)
  visits : list visit;    (* head = top *)
  counter : nat;
  out : list (list nat)   (* reverse order of emission *)
}.

Fixpoint remove1 (n : nat) (l : list nat) :=
  match l with [] => [] | x :: r => if Nat.eqb x n then r else x :: remove1 n r end.

Definition set_low (n : nat) (low : nat) (m : list (nat * nstate)) :=
  match alookup n m with
  | Some s => aupdate n {| st_dfs := st_dfs s; st_low := low; st_stacked := st_stacked s |} m
  | None => m end.
Definition set_unstacked (n : nat) (m : list (nat * nstate)) :=
  match alookup n m with
  | Some s => aupdate n {| st_dfs := st_dfs s; st_low := st_low s; st_stacked := false |} m
  | None => m end.

(* "while True: n = stack.pop(); …; if n is node: break"; None = pop from empty list (IndexError) *)
Fixpoint pop_scc (node : nat) (stk : list nat) (m : list (nat * nstate)) (acc : list nat)
  : option (list nat * list nat * list (nat * nstate)) :=
  match stk with
  | [] => None
  | n :: r => let m' := set_unstacked n m in
              if Nat.eqb n node then Some (acc ++ [n], r, m') else pop_scc node r m' (acc ++ [n])
  end.

Section G.
Variable g : graph.
Variable trivial : bool.

Inductive res := Running (s : tstate) | Done (s : tstate) | Err.

Definition step (s : tstate) : res :=
  match visits s with
  | [] =>
    match unvisited s with
    | [] => Done s
    | n :: _ => Running {| unvisited := unvisited s; states := states s; ancestors := ancestors s;
                   stack := stack s; visits := [VNode n]; counter := counter s; out := out s |}
    end
  | VRtn :: vs =>
    match ancestors s with
    | [] => Err
    | node :: anc =>
      match alookup node (states s) with None => Err | Some nst =>
      let r :=
        if Nat.eqb (st_low nst) (st_dfs nst) then
          match pop_scc node (stack s) (states s) [] with
          | None => None
          | Some (scc, stk1, m1) =>
            match scc with
            | [x] => if trivial then Some (scc :: out s, stk1, m1) else
                     if mem x (adj g x) then Some (scc :: out s, stk1, m1) else Some (out s, stk1, m1)
            | _ => Some (scc :: out s, stk1, m1)
            end
          end
        else Some (out s, stack s, states s) in
      match r with None => Err | Some (o, stk', m') =>
      match anc with
      | [] => Running {| unvisited := unvisited s; states := m'; ancestors := []; stack := stk';
                         visits := vs; counter := counter s; out := o |}
      | p :: _ =>
        match alookup p m', alookup node m' with
        | Some pst, Some nst' =>
          let m'' := if Nat.ltb (st_low nst') (st_low pst) then set_low p (st_low nst') m' else m' in
          Running {| unvisited := unvisited s; states := m''; ancestors := anc; stack := stk';
                     visits := vs; counter := counter s; out := o |}
        | _, _ => Err end
      end end end
    end
  | VNode node :: vs =>
    match alookup node (states s) with
    | Some nst =>
      if st_stacked nst then
        match ancestors s with
        | p :: _ => match alookup p (states s) with
                    | Some pst =>
                      let m' := if Nat.ltb (st_dfs nst) (st_low pst) then set_low p (st_dfs nst) (states s) else states s in
                      Running {| unvisited := unvisited s; states := m'; ancestors := ancestors s; stack := stack s;
                                 visits := vs; counter := counter s; out := out s |}
                    | None => Err end
        | [] => Err      (* state[ancestors[-1]] with no ancestor: IndexError *)
        end
      else Running {| unvisited := unvisited s; states := states s; ancestors := ancestors s; stack := stack s;
                      visits := vs; counter := counter s; out := out s |}
    | None =>
      let nst := {| st_dfs := counter s; st_low := counter s; st_stacked := true |} in
      Running {| unvisited := remove1 node (unvisited s); states := aupdate node nst (states s);
                 ancestors := node :: ancestors s; stack := node :: stack s;
                 (* visits[-1] = rtn_marker; visits.extend(neighbors): last neighbour ends on top *)
                 visits := map VNode (rev (adj g node)) ++ VRtn :: vs;
                 counter := S (counter s); out := out s |}
    end
  end.

Inductive outcome := Ok (components : list (list nat)) | Raised | OutOfFuel.

Fixpoint run (fuel : nat) (s : tstate) : outcome :=
  match fuel with 0 => OutOfFuel | S f =>
  match step s with
  | Err => Raised
  | Done s' => Ok (rev (out s'))
  | Running s' => run f s'
  end end.

Definition init : tstate :=
  {| unvisited := nodes g; states := []; ancestors := []; stack := []; visits := []; counter := 0; out := [] |}.

Definition edge_count : nat := fold_left (fun a n => a + length (adj g n)) (nodes g) 0.
Definition fuel_bound : nat := 3 * length (nodes g) + edge_count + 2.
Definition sccs : outcome := run fuel_bound init.
End G.

(* ---------- specification: mutual reachability ---------- *)
Section Spec.
Variable g : graph.
(* nodes reachable from the set `front` in at most `k` more rounds (reflexive) *)
Fixpoint closure (k : nat) (seen : list nat) : list nat :=
  match k with 0 => seen | S k' =>
    closure k' (fold_left (fun acc x => add_set (adj g x) acc) seen seen) end.
Definition reach (x : nat) : list nat := closure (length (nodes g)) [x].
Definition mutual (x y : nat) : bool := mem y (reach x) && mem x (reach y).
Definition class_of (x : nat) : list nat := filter (mutual x) (nodes g).
Definition cyclic (x : nat) : bool := Nat.ltb 1 (length (class_of x)) || mem x (adj g x).

Fixpoint nodupb (l : list nat) : bool :=
  match l with [] => true | x :: r => negb (mem x r) && nodupb r end.

(* the statement of C20 as a boolean over an enumeration result *)
Definition c20_ok (trivial : bool) (comps : list (list nat)) : bool :=
  let flat := concat comps in
  nodupb flat
  && forallb (fun c => match c with [] => false | x :: _ => seteq c (class_of x) end) comps
  && forallb (fun x => mem x (nodes g)) flat
  && forallb (fun x => Bool.eqb (mem x flat) (trivial || cyclic x)) (nodes g).
End Spec.

Definition c20_holds (g : graph) (trivial : bool) : bool :=
  match sccs g trivial with Ok comps => c20_ok g trivial comps | _ => false end.
