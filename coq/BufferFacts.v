From ZT Require Import Base Layers Run RunFacts Buffer.

Section B.
Variable buffer : bool.

(* a well-formed test: starts (or is decorator-skipped), ..., stops *)
Definition closed (xs : list bstep) : Prop :=
  exists mid, (xs = BStart :: mid ++ [BStop] \/ xs = BDeco :: mid ++ [BStop]) /\
              Forall (fun x => match x with BWrite _ | BRes _ | BReinstall => True | _ => False end) mid.

Lemma steps_closed b wr : closed (steps b wr).
Proof.
  unfold steps. destruct (proto_shape b) as [[_ ->]|[_ [mid [-> Hin]]]].
  - exists []. split; [right; reflexivity | constructor].
  - exists (map BWrite (wr 0 0) ++ flat_map (fun p => match p with
                     | PStart => [BStart] | PDecoSkip => [BDeco]
                     | PPhase ph k => map BWrite (wr ph k)
                     | PRes r _ => [BRes r] | PStop => [BStop] end) mid).
    split.
    + left. simpl. rewrite flat_map_app. simpl. rewrite <- !app_assoc. reflexivity.
    + apply Forall_app. split.
      * apply Forall_forall. intros x Hx. apply in_map_iff in Hx. destruct Hx as [tok [<- _]]. exact I.
      * clear - Hin. induction mid as [|p mid IH]; simpl; [constructor|].
        apply andb_true_iff in Hin. destruct Hin as [Hp Hm]. apply Forall_app. split; [|auto].
        destruct p; try discriminate; simpl.
        -- apply Forall_forall. intros x Hx. apply in_map_iff in Hx. destruct Hx as [tok [<- _]]. exact I.
        -- repeat constructor.
Qed.

(* without --buffer the capture streams are never installed *)
Definition J (s : bstate) : Prop := buffer = false -> cur s = false.
Lemma J_step t s x : J s -> J (bstep_apply buffer t s x).
Proof.
  intros H Hb. specialize (H Hb).
  destruct x; simpl; unfold restore; rewrite ?Hb, ?H; simpl; try destruct (reports r); simpl; auto.
Qed.
Lemma J_fold t xs : forall s, J s -> J (fold_left (bstep_apply buffer t) xs s).
Proof. induction xs as [|x xs IH]; simpl; intros s H; [exact H | apply IH, J_step, H]. Qed.

Definition is_mid (x : bstep) : Prop := match x with BWrite _ | BRes _ => True | _ => False end.
Definition is_mid' (x : bstep) : Prop := match x with BWrite _ | BRes _ | BReinstall => True | _ => False end.

(* writes and result events never touch the boundary flag *)
Lemma mid_boundary t xs : Forall is_mid' xs -> forall s,
  boundary_ok (fold_left (bstep_apply buffer t) xs s) = boundary_ok s.
Proof.
  induction 1 as [|x xs Hx _ IH]; intros s; simpl; [reflexivity|]. rewrite IH.
  destruct x; try destruct Hx; simpl.
  - destruct (cur s); reflexivity.
  - reflexivity.
  - unfold restore. destruct buffer; destruct (reports r); reflexivity.
Qed.

(* C13: at every test boundary and after the run the original streams are in place *)
Theorem test_restores t xs s : closed xs -> J s -> cur s = false -> boundary_ok s = true ->
  let s' := fold_left (bstep_apply buffer t) xs s in cur s' = false /\ boundary_ok s' = true /\ J s'.
Proof.
  intros [mid [Hxs Hmid]] HJ Hc Hb.
  assert (Hgen : forall first, (first = BStart \/ first = BDeco) ->
    let s' := fold_left (bstep_apply buffer t) (first :: mid ++ [BStop]) s in
    cur s' = false /\ boundary_ok s' = true /\ J s').
  { intros first Hf. cbn zeta. simpl. rewrite fold_left_app. simpl.
    set (s1 := bstep_apply buffer t s first).
    assert (Hb1 : boundary_ok s1 = true) by (unfold s1; destruct Hf as [->| ->]; simpl; rewrite Hb, Hc; reflexivity).
    assert (HJ1 : J s1) by (apply J_step, HJ).
    set (s2 := fold_left (bstep_apply buffer t) mid s1).
    assert (Hb2 : boundary_ok s2 = true) by (unfold s2; rewrite mid_boundary; assumption).
    assert (HJ2 : J s2) by (apply J_fold, HJ1).
    unfold restore. destruct (Bool.bool_dec buffer true) as [Eb|Eb].
    - rewrite Eb. simpl. rewrite Hb2. split; [reflexivity|]. split; [reflexivity|]. intros _. reflexivity.
    - apply Bool.not_true_is_false in Eb. assert (Hc2 : cur s2 = false) by (apply HJ2; exact Eb).
      rewrite Eb. simpl. rewrite Hb2, Hc2. split; [reflexivity|]. split; [reflexivity|]. intros _. reflexivity. }
  destruct Hxs as [->| ->]; apply Hgen; auto.
Qed.

Theorem run_restores (ts : list (nat * list bstep)) :
  Forall (fun it => closed (snd it)) ts ->
  cur (run_tests buffer ts) = false /\ boundary_ok (run_tests buffer ts) = true.
Proof.
  unfold run_tests.
  assert (H : forall s, J s -> cur s = false -> boundary_ok s = true -> Forall (fun it => closed (snd it)) ts ->
            cur (fold_left (run_one buffer) ts s) = false /\ boundary_ok (fold_left (run_one buffer) ts s) = true).
  { induction ts as [|[t xs] r IH]; simpl; intros s HJ Hc Hb Hall; [auto|].
    inversion Hall as [|? ? Hx Hr]; subst. simpl in Hx.
    destruct (test_restores t xs s Hx HJ Hc Hb) as [H1 [H2 H3]]. apply IH; auto. }
  apply H; [intros _; reflexivity | reflexivity | reflexivity].
Qed.

End B.

Definition vis (t : nat) (x : bstep) : list (nat * nat) :=
  match x with BWrite tok => [(1, tok)] | BRes r => if reports r then [(0, t)] else [] | _ => [] end.
Lemma flatten_app a b : flatten_log (a ++ b) = flatten_log a ++ flatten_log b.
Proof. unfold flatten_log. apply flat_map_app. Qed.

(* once the original streams are in place (and the capture buffers are empty) everything the test writes goes
   straight out, in order, and its failure/error events print their header *)
Lemma direct_step buffer t q x : is_mid x -> cur q = false -> buf q = [] ->
  cur (bstep_apply buffer t q x) = false /\ buf (bstep_apply buffer t q x) = [] /\
  flatten_log (log (bstep_apply buffer t q x)) = flatten_log (log q) ++ vis t x.
Proof.
  intros Hx Hq Hb. destruct x; try destruct Hx.
  - simpl. rewrite Hq. simpl. rewrite flatten_app. auto.
  - simpl. unfold restore. destruct buffer; destruct (reports r); simpl; rewrite ?Hb, ?flatten_app, ?app_nil_r; auto.
Qed.
Lemma direct_when_restored buffer t : forall xs q, Forall is_mid xs -> cur q = false -> buf q = [] ->
  cur (fold_left (bstep_apply buffer t) xs q) = false /\ buf (fold_left (bstep_apply buffer t) xs q) = [] /\
  flatten_log (log (fold_left (bstep_apply buffer t) xs q)) = flatten_log (log q) ++ flat_map (vis t) xs.
Proof.
  induction xs as [|x xs IH]; intros q Hm Hq Hb; simpl.
  - rewrite app_nil_r. auto.
  - inversion Hm as [|? ? Hx Hr]; subst.
    destruct (direct_step buffer t q x Hx Hq Hb) as [S1 [S2 S3]].
    destruct (IH (bstep_apply buffer t q x) Hr S1 S2) as [G1 [G2 G3]].
    split; [exact G1|]. split; [exact G2|]. rewrite G3, S3, <- app_assoc. reflexivity.
Qed.

(* without --buffer an in-process run never replaces the streams: everything is written directly *)
Theorem unbuffered_direct t mid s : Forall is_mid mid -> cur s = false -> buf s = [] ->
  let s' := fold_left (bstep_apply false t) (BStart :: mid) s in
  cur s' = false /\ flatten_log (log s') = flatten_log (log s) ++ flat_map (vis t) mid.
Proof.
  intros Hm Hc Hb. cbn [fold_left].
  destruct (direct_when_restored false t mid {| cur := false; buf := buf s; log := log s; boundary_ok := boundary_ok s && negb (cur s) |} Hm eq_refl Hb)
    as [G1 [_ G3]]. split; [exact G1 | exact G3].
Qed.

(* with --buffer: what a test writes before its first result event is captured … *)
Lemma writes_captured t toks : forall s, cur s = true ->
  let s' := fold_left (bstep_apply true t) (map BWrite toks) s in
  cur s' = true /\ buf s' = buf s ++ toks /\ log s' = log s /\ boundary_ok s' = boundary_ok s.
Proof.
  induction toks as [|k toks IH]; intros s Hc; simpl; [rewrite app_nil_r; auto|].
  rewrite Hc. destruct (IH {| cur := true; buf := buf s ++ [k]; log := log s; boundary_ok := boundary_ok s |} eq_refl) as [H1 [H2 [H3 H4]]].
  simpl in *. rewrite H2, <- app_assoc. auto.
Qed.

(* … a result event that is not a failure or error discards it: a passing / expected-failure / skipping test is silent *)
Theorem passing_test_is_silent t toks r s :
  cur s = false -> reports r = false ->
  log (fold_left (bstep_apply true t) (BStart :: map BWrite toks ++ [BRes r; BStop]) s) = log s.
Proof.
  intros Hc Hr. cbn [fold_left]. rewrite fold_left_app.
  set (s0 := bstep_apply true t s BStart).
  assert (H0 : cur s0 = true /\ log s0 = log s) by (unfold s0; simpl; auto). destruct H0 as [Hc0 Hl0].
  destruct (writes_captured t toks s0 Hc0) as [H1 [H2 [H3 _]]].
  set (s1 := fold_left (bstep_apply true t) (map BWrite toks) s0) in *.
  simpl. unfold restore. simpl. rewrite Hr. simpl. congruence.
Qed.

(* … a failure or error report carries it, and whatever the test writes afterwards still comes out, under its own header *)
Theorem failing_test_output_complete t pre r rest s :
  cur s = false -> buf s = [] -> reports r = true -> Forall is_mid rest ->
  flatten_log (log (fold_left (bstep_apply true t) (BStart :: map BWrite pre ++ BRes r :: rest ++ [BStop]) s)) =
  flatten_log (log s) ++ (0, t) :: map (fun k => (1, k)) pre ++ flat_map (vis t) rest.
Proof.
  intros Hc Hbuf Hr Hrest. cbn [fold_left]. rewrite fold_left_app.
  set (s0 := bstep_apply true t s BStart).
  assert (H0 : cur s0 = true /\ log s0 = log s /\ buf s0 = buf s) by (unfold s0; simpl; auto). destruct H0 as [Hc0 [Hl0 Hb0]].
  destruct (writes_captured t pre s0 Hc0) as [H1 [H2 [H3 _]]].
  set (s1 := fold_left (bstep_apply true t) (map BWrite pre) s0) in *.
  cbn [fold_left].
  assert (E : bstep_apply true t s1 (BRes r) =
              {| cur := false; buf := []; log := log s1 ++ [Report t (Some (buf s1))]; boundary_ok := boundary_ok s1 |}).
  { simpl. unfold restore. rewrite Hr. reflexivity. }
  rewrite E. rewrite fold_left_app.
  set (s2 := {| cur := false; buf := []; log := log s1 ++ [Report t (Some (buf s1))]; boundary_ok := boundary_ok s1 |}).
  destruct (direct_when_restored true t rest s2 Hrest eq_refl eq_refl) as [G1 [G2 G3]].
  set (s3 := fold_left (bstep_apply true t) rest s2) in *.
  simpl. unfold restore. simpl. rewrite G3. unfold s2. simpl. rewrite flatten_app. simpl.
  rewrite H3, H2, Hl0, Hb0, Hbuf. simpl. rewrite app_nil_r, <- app_assoc. reflexivity.
Qed.

(* test code that puts the capture stream back (contextlib.redirect_stdout around a failing subtest) cannot leave it
   installed: the next result event or stopTest restores the originals — this is what test_restores relies on *)
Theorem reinstall_is_undone t s : cur (bstep_apply true t (bstep_apply true t s BReinstall) BStop) = false.
Proof. reflexivity. Qed.
