(* Chk_C07.v — case type and checker for C07 (subprocess result channel). *)
From ZT Require Import Base Channel.

Record case := {
  stderr_bytes : bytes;            (* everything the (scripted or real) child wrote to its real stderr *)
  spawned : bool;                  (* false: the subprocess could not be started *)
  (* ground truth, when the child completed its report: the report it meant to send *)
  truth : option (Z * list bytes * list bytes);
  intact : bool;                   (* the harness delivered the report complete and did not inject a look-alike header line *)
  r_ran : Z;                       (* implementation (parent): tests counted for this layer *)
  r_fail : list bytes;             (* failure names recorded (utf-8) *)
  r_err : list bytes;              (* error names recorded, without the "subprocess for …" marker *)
  r_comm : bool;                   (* an error "subprocess for <layer>" was recorded *)
  r_failed : bool;                 (* the run's verdict *)
  r_hung : bool                    (* the parent did not terminate within the (generous) time limit *)
}.

Definition bytes_eqb := list_eqb N.eqb.
Definition names_eqb := list_eqb bytes_eqb.

Definition model (c : case) : Z * list bytes * list bytes * bool :=
  if spawned c then effect (parse (stderr_bytes c)) else (0%Z, [], [], true).

Definition agree (c : case) : bool :=
  let '(ran, fs, es, comm) := model c in
  negb (r_hung c) && Z.eqb ran (r_ran c) && names_eqb fs (r_fail c) && names_eqb es (r_err c) && Bool.eqb comm (r_comm c).

(* the statement: the parent terminates; with an intact report it records exactly the child's data;
   otherwise it records an error for the layer (and the verdict is failed) and uses no partial data *)
Definition c07_ok (c : case) : bool :=
  negb (r_hung c) &&
  match truth c, intact c with
  | Some (ran, fs, es), true =>
    Z.eqb ran (r_ran c) && names_eqb (map strip fs) (r_fail c) && names_eqb (map strip es) (r_err c) && negb (r_comm c)
  | _, _ =>
    (* not delivered intact: either an error was recorded and nothing else used, or (undetectably damaged report) see findings *)
    r_comm c && r_failed c && Z.eqb (r_ran c) 0 && match r_fail c, r_err c with [], [] => true | _, _ => false end
  end.

Definition check (c : case) : nat := bit (negb (agree c)) 1 + bit (negb (c07_ok c)) 2.
