(* Channel.v — the report a layer subprocess writes to its stderr (process.SubProcess.report) and the
   parent's reader (runner.spawn_layer_in_subprocess), over bytes.  Follows the repaired code: names are
   collected first and an incomplete report is not used at all. *)
From ZT Require Import Base.
Open Scope N_scope.

Definition byte := N.
Definition bytes := list byte.

(* bytes.splitlines(): split at \n, \r, \r\n; no trailing empty line *)
Fixpoint splitlines_aux (l : bytes) (cur : bytes) (prev_cr : bool) : list bytes :=
  match l with
  | [] => match cur with [] => [] | _ => [rev cur] end
  | c :: r =>
    if c =? 10 then (if prev_cr then splitlines_aux r [] false else rev cur :: splitlines_aux r [] false)
    else if c =? 13 then rev cur :: splitlines_aux r [] true
    else splitlines_aux r (c :: cur) false
  end.
Definition splitlines (l : bytes) := splitlines_aux l [] false.

Definition is_ws (c : byte) := (c =? 32) || (c =? 9) || (c =? 10) || (c =? 13) || (c =? 11) || (c =? 12).
Fixpoint lstrip (l : bytes) := match l with c :: r => if is_ws c then lstrip r else l | [] => [] end.
Definition strip (l : bytes) := rev (lstrip (rev (lstrip l))).
(* bytes.split(): on runs of ASCII whitespace *)
Fixpoint split_aux (l : bytes) (cur : bytes) : list bytes :=
  match l with
  | [] => match cur with [] => [] | _ => [rev cur] end
  | c :: r => if is_ws c then (match cur with [] => split_aux r [] | _ => rev cur :: split_aux r [] end)
              else split_aux r (c :: cur)
  end.
Definition split (l : bytes) := split_aux l [].

Definition is_digit (c : byte) := (48 <=? c) && (c <=? 57).
(* int(bytes): [+-]? digit (_? digit)*   (already stripped; no inner whitespace) *)
Fixpoint digits_val (l : bytes) (acc : Z) (prev_us : bool) : option Z :=
  match l with
  | [] => if prev_us then None else Some acc
  | c :: r => if is_digit c then digits_val r (acc * 10 + Z.of_N (c - 48))%Z false
              else if c =? 95 then (if prev_us then None else digits_val r acc true)
              else None
  end.
Definition parse_int (l : bytes) : option Z :=
  let '(neg, body) := match l with
                      | c :: r => if c =? 43 then (false, r) else if c =? 45 then (true, r) else (false, l)
                      | [] => (false, l) end in
  match body with
  | c :: _ => if is_digit c then match digits_val body 0%Z false with Some z => Some (if neg then (- z)%Z else z) | None => None end else None
  | [] => None
  end.
(* "result.num_ran, nfail, nerr = map(int, line.strip().split())" succeeds *)
Definition header (line : bytes) : option (Z * Z * Z) :=
  match split (strip line) with
  | [a; b; c] => match parse_int a, parse_int b, parse_int c with Some x, Some y, Some z => Some (x, y, z) | _, _, _ => None end
  | _ => None
  end.

(* what the parent ends up with for one child *)
Inductive outcome :=
| Report (ran : Z) (fails errs : list bytes)   (* complete report: counts and stripped names *)
| NoReport                                      (* no header line: "Could not communicate with subprocess!" *)
| Incomplete.                                   (* header found but names missing: nothing of it is used *)

Fixpoint find_header (ls : list bytes) : option (Z * Z * Z * list bytes) :=
  match ls with [] => None | l :: r => match header l with Some (a, b, c) => Some (a, b, c, r) | None => find_header r end end.
(* next(erriter) n times; None = StopIteration *)
Fixpoint take_names (n : nat) (ls : list bytes) : option (list bytes * list bytes) :=
  match n with
  | O => Some ([], ls)
  | S n' => match ls with [] => None | l :: r => match take_names n' r with Some (ns, rest) => Some (strip l :: ns, rest) | None => None end end
  end.
Definition parse_lines (ls : list bytes) : outcome :=
  match find_header ls with
  | None => NoReport
  | Some (ran, nf, ne, rest) =>
    match take_names (Z.to_nat nf) rest with
    | None => Incomplete
    | Some (fs, rest') => match take_names (Z.to_nat ne) rest' with
                          | None => Incomplete
                          | Some (es, _) => Report ran fs es end
    end
  end.
Definition parse (stderr : bytes) : outcome := parse_lines (splitlines stderr).

(* parent bookkeeping: (tests run, failures, errors incl. "subprocess for <layer>" marker, verdict contribution) *)
Definition effect (o : outcome) : Z * list bytes * list bytes * bool :=
  match o with
  | Report ran fs es => (ran, fs, es, false)
  | NoReport | Incomplete => (0%Z, [], [], true)          (* one error recorded for the layer *)
  end.

(* ---- the child's side ---- *)
Fixpoint render_nat (fuel : nat) (n : N) (acc : bytes) : bytes :=
  match fuel with O => acc | S f => let acc' := (48 + n mod 10) :: acc in if n / 10 =? 0 then acc' else render_nat f (n / 10) acc' end.
Definition render (n : N) : bytes := render_nat 40 n [].
(* print(ran, nfail, nerr); then one print() per name, already normalised by the child *)
Definition encode (ran : N) (fails errs : list bytes) : bytes :=
  render ran ++ [32] ++ render (N.of_nat (length fails)) ++ [32] ++ render (N.of_nat (length errs)) ++ [10]
  ++ flat_map (fun n => n ++ [10]) fails ++ flat_map (fun n => n ++ [10]) errs.
Close Scope N_scope.
