(* Chk_C13.v — case type and checker for C13 (buffered output, stream restoration). *)
From ZT Require Import Base Layers Run Buffer.

Record case := {
  cbuffer : bool;
  ctests : list test;                       (* behaviours, executed in this order in one layer *)
  redirects : list nat;                     (* tests that wrap their subtests in contextlib.redirect_stdout (they put the saved
                                               sys.stdout back when the block is left) and then write phase-5 tokens *)
  writes : list (nat * nat * nat * nat);    (* (test, phase, k, token): the test writes the token at that phase *)
  err_toks : list nat;                      (* the tokens that are written to sys.stderr (the others to sys.stdout) *)
  o_out : list (nat * nat);                 (* real stdout: (0, t) failure/error header of test t, (1, tok) token, in order *)
  o_err : list nat;                         (* real stderr: tokens in order *)
  o_ident : bool;                           (* at every testSetUp/testTearDown call sys.stdout/sys.stderr were the originals *)
  o_restored : bool;                        (* … and after the run *)
  o_aborted : bool
}.

Definition wr (c : case) (t ph k : nat) : list nat :=
  flat_map (fun q => let '(t', ph', k', tok) := q in
                     if Nat.eqb t t' && Nat.eqb ph ph' && Nat.eqb k k' then [tok] else []) (writes c).
(* the subtest section of a protocol (right after the body marker) and what follows it *)
Fixpoint after_subs (ps : list pev) : list pev * list pev :=
  match ps with
  | PPhase 2 k :: r => let '(a, b) := after_subs r in (PPhase 2 k :: a, b)
  | PRes RSubFail k :: r => let '(a, b) := after_subs r in (PRes RSubFail k :: a, b)
  | PRes RSubErr k :: r => let '(a, b) := after_subs r in (PRes RSubErr k :: a, b)
  | PRes RSubSkip k :: r => let '(a, b) := after_subs r in (PRes RSubSkip k :: a, b)
  | _ => ([], ps)
  end.
Definition to_steps (wr : nat -> nat -> list nat) (ps : list pev) : list bstep :=
  flat_map (fun p => match p with
                     | PStart => [BStart] | PDecoSkip => [BDeco]
                     | PPhase ph k => map BWrite (wr ph k)
                     | PRes r _ => [BRes r] | PStop => [BStop] end) ps.
Fixpoint steps_redirect (wr : nat -> nat -> list nat) (ps : list pev) : list bstep :=
  match ps with
  | [] => []
  | PPhase 1 0 :: r => let '(subs, post) := after_subs r in
                       to_steps wr (PPhase 1 0 :: subs) ++ BReinstall :: map BWrite (wr 5 0) ++ to_steps wr post
  | p :: r => to_steps wr [p] ++ steps_redirect wr r
  end.
Definition steps_of (c : case) (t : nat) (b : test) : list bstep :=
  if mem t (redirects c) then steps_redirect (wr c t) (proto b) else steps b (wr c t).
Definition model_state (c : case) : bstate :=
  run_tests (cbuffer c) (map (fun it => (fst it, steps_of c (fst it) (snd it))) (index_from 0 (ctests c))).
Definition model_seq (c : case) : list (nat * nat) := flatten_log (log (model_state c)).

Definition pair_eqb (a b : nat * nat) := Nat.eqb (fst a) (fst b) && Nat.eqb (snd a) (snd b).
Definition is_err (c : case) (tok : nat) := mem tok (err_toks c).
Definition m_out (c : case) : list (nat * nat) :=
  filter (fun e => Nat.eqb (fst e) 0 || negb (is_err c (snd e))) (model_seq c).
Definition m_err (c : case) : list nat :=
  flat_map (fun e => if Nat.eqb (fst e) 1 && is_err c (snd e) then [snd e] else []) (model_seq c).

Definition agree (c : case) : bool :=
  negb (o_aborted c) && o_ident c && o_restored c
  && boundary_ok (model_state c) && negb (cur (model_state c))
  && list_eqb pair_eqb (m_out c) (o_out c) && list_eqb Nat.eqb (m_err c) (o_err c).

(* ---- the statement ---- *)
Definition tok_test (c : case) (tok : nat) : nat :=
  match find (fun q => let '(_, _, _, k) := q in Nat.eqb k tok) (writes c) with Some (t, _, _, _) => t | None => 0 end.
(* tokens actually written: the phase they are scripted for is reached (per the unittest protocol model) *)
Definition all_toks (c : case) : list nat :=
  flat_map (fun it => flat_map (fun x => match x with BWrite tok => [tok] | _ => [] end) (steps_of c (fst it) (snd it)))
           (index_from 0 (ctests c)).
Definition failing (c : case) (t : nat) : bool :=
  match nth_error (ctests c) t with
  | Some b => existsb (fun p => match p with PRes r _ => reports r | _ => false end) (proto b)
  | None => false end.
Fixpoint count_nat (x : nat) (l : list nat) : nat :=
  match l with [] => 0 | y :: r => (if Nat.eqb x y then 1 else 0) + count_nat x r end.
Definition shown_toks (c : case) : list nat :=
  flat_map (fun e => if Nat.eqb (fst e) 1 then [snd e] else []) (o_out c) ++ o_err c.

(* nearest header before each stdout token is the token's own test *)
Fixpoint attributed (c : case) (cur_hdr : option nat) (l : list (nat * nat)) : bool :=
  match l with
  | [] => true
  | (0, t) :: r => attributed c (Some t) r
  | (_, tok) :: r => match cur_hdr with Some t => Nat.eqb t (tok_test c tok) | None => false end && attributed c cur_hdr r
  end.

(* `except` lists tokens exempted by an open finding *)
Definition statement (c : case) (except : list nat) : bool :=
  negb (o_aborted c) && o_ident c && o_restored c
  && forallb (fun tok => Nat.leb (count_nat tok (shown_toks c)) 1) (all_toks c)
  && (if cbuffer c then
        forallb (fun tok => mem tok except ||
                   Bool.eqb (mem tok (shown_toks c)) (failing c (tok_test c tok))) (all_toks c)
        && attributed c None (filter (fun e => Nat.eqb (fst e) 0 || negb (mem (snd e) except)) (o_out c))
      else forallb (fun tok => mem tok (shown_toks c)) (all_toks c)).

(* tokens the model delivers although their test does not fail (written after a skip event), and tokens of a failing
   test that the model drops (captured before a skip event that precedes the first failure) *)
Definition model_shown (c : case) : list nat := flat_map (fun e => if Nat.eqb (fst e) 1 then [snd e] else []) (model_seq c).
Definition late_skip_toks (c : case) : list nat :=
  filter (fun tok => negb (failing c (tok_test c tok)) && mem tok (model_shown c)) (all_toks c).
Definition lost_early_toks (c : case) : list nat :=
  filter (fun tok => failing c (tok_test c tok) && negb (mem tok (model_shown c))) (all_toks c).

(* tokens of a failing test that the model delivers before that test's first header (written directly after a skip
   event, before the failure): the same root cause as late_skip_toks *)
Fixpoint misplaced (c : case) (seen : list nat) (l : list (nat * nat)) : list nat :=
  match l with
  | [] => []
  | (0, t) :: r => misplaced c (t :: seen) r
  | (_, tok) :: r => (if mem (tok_test c tok) seen then [] else [tok]) ++ misplaced c seen r
  end.
Definition late_toks (c : case) : list nat := late_skip_toks c ++ misplaced c [] (model_seq c).

Definition check (c : case) : nat :=
  bit (negb (agree c)) 1
  + bit (negb (statement c [])) 2
  + bit (negb (statement c []) && statement c (late_toks c ++ lost_early_toks c)
         && match late_toks c with [] => false | _ => true end) 8
  + bit (negb (statement c []) && statement c (late_toks c ++ lost_early_toks c)
         && match lost_early_toks c with [] => false | _ => true end) 16.

(* layers run in subprocesses: the child merges its stderr into its stdout, so only the statement is evaluated on
   what the parent prints (no correspondence bit) *)
Definition check_child (c : case) : nat :=
  bit (negb (statement c [])) 2
  + bit (negb (statement c []) && statement c (late_toks c ++ lost_early_toks c)
         && match late_toks c with [] => false | _ => true end) 8
  + bit (negb (statement c []) && statement c (late_toks c ++ lost_early_toks c)
         && match lost_early_toks c with [] => false | _ => true end) 16.

(* tests whose captured output is byte-for-byte the same: each failing test still gets its own Stdout: / Stderr: block *)
Record same_case := { sc_failing : nat; sc_out : nat; sc_err : nat; sc_aborted : bool }.
Definition check_same (c : same_case) : nat :=
  bit (sc_aborted c || negb (Nat.eqb (sc_out c) (sc_failing c) && Nat.eqb (sc_err c) (sc_failing c))) 2.
