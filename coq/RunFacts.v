(* RunFacts.v — facts about the unittest protocol model and zope's TestResult machine (Run.v). *)
From ZT Require Import Base Layers LayersFacts Run.

(* ------------------------------------------------------------------ *)
(* shape of the protocol of one test *)
Definition inner (p : pev) : bool := match p with PPhase _ _ | PRes _ _ => true | _ => false end.

Lemma part_inner p : forallb inner (fst (part p)) = true.
Proof. destruct p; reflexivity. Qed.

Lemma forallb_app {A} (f : A -> bool) a b : forallb f (a ++ b) = forallb f a && forallb f b.
Proof. induction a as [|x a IH]; simpl; [reflexivity|]. rewrite IH. now rewrite andb_assoc. Qed.

Lemma subs_inner xf : forall l k succ ef, forallb inner (fst (fst (fst (subs_proto xf k l succ ef)))) = true.
Proof.
  induction l as [|p r IH]; intros k succ ef; simpl; [reflexivity|].
  destruct p.
  - destruct (succ && ef); [reflexivity|].
    specialize (IH (S k) succ ef). destruct (subs_proto xf (S k) r succ ef) as [[[e s] ef'] st]. simpl in *. exact IH.
  - destruct xf.
    + destruct succ; [reflexivity|].
      specialize (IH (S k) false true). destruct (subs_proto true (S k) r false true) as [[[e s] ef'] st]. simpl in *. exact IH.
    + specialize (IH (S k) false ef). destruct (subs_proto false (S k) r false ef) as [[[e s] ef'] st]. simpl in *. exact IH.
  - destruct xf.
    + destruct succ; [reflexivity|].
      specialize (IH (S k) false true). destruct (subs_proto true (S k) r false true) as [[[e s] ef'] st]. simpl in *. exact IH.
    + specialize (IH (S k) false ef). destruct (subs_proto false (S k) r false ef) as [[[e s] ef'] st]. simpl in *. exact IH.
  - specialize (IH (S k) false ef). destruct (subs_proto xf (S k) r false ef) as [[[e s] ef'] st]. simpl in *. exact IH.
Qed.

Lemma cleanups_inner : forall l succ, forallb inner (fst (cleanups_proto l succ)) = true.
Proof.
  induction l as [|[k p] r IH]; intros succ; simpl; [reflexivity|].
  pose proof (part_inner p) as Hp. destruct (part p) as [e1 s1]. simpl in Hp.
  specialize (IH (succ && s1)). destruct (cleanups_proto r (succ && s1)) as [e2 s2]. simpl in *.
  rewrite forallb_app, Hp, IH. reflexivity.
Qed.

(* a test either is skipped by decorator, or starts, goes through phases and result events, and stops *)
Theorem proto_shape b :
  (t_deco b = true /\ proto b = [PDecoSkip; PStop]) \/
  (t_deco b = false /\ exists mid, proto b = PStart :: PPhase 0 0 :: mid ++ [PStop] /\ forallb inner mid = true).
Proof.
  unfold proto. destruct (t_deco b); [left; auto|right]. split; [reflexivity|].
  pose proof (part_inner (t_su b)) as Hsu. destruct (part (t_su b)) as [e_su ok_su]. simpl in Hsu.
  destruct ok_su.
  - pose proof (subs_inner (t_xf b) (t_subs b) 0 true false) as Hsub.
    destruct (subs_proto (t_xf b) 0 (t_subs b) true false) as [[[e_sub s1] ef1] stopped]. simpl in Hsub.
    pose proof (part_inner (t_td b)) as Htd. destruct (part (t_td b)) as [e_td ok_td]. simpl in Htd.
    set (body := if stopped then ([], s1, ef1) else
        match t_body b with
        | Pok => ([], s1, ef1)
        | Pskip => ([PRes RSkip 0], false, ef1)
        | Pfail => if t_xf b then ([], s1, true) else ([PRes RFail 0], false, ef1)
        | Perr => if t_xf b then ([], s1, true) else ([PRes RErr 0], false, ef1)
        end).
    assert (Hbody : forallb inner (fst (fst body)) = true).
    { unfold body. destruct stopped; [reflexivity|]. destruct (t_body b); try reflexivity; destruct (t_xf b); reflexivity. }
    destruct body as [[e_body s2] ef2]. simpl in Hbody.
    pose proof (cleanups_inner (rev (index_from 0 (t_cl b))) (s2 && ok_td)) as Hcl.
    destruct (cleanups_proto (rev (index_from 0 (t_cl b))) (s2 && ok_td)) as [e_cl succ2]. simpl in Hcl.
    set (final := if succ2 then if t_xf b then if ef2 then [PRes RXF 0] else [PRes RUS 0] else [PRes RSuccess 0] else []).
    assert (Hfin : forallb inner final = true)
      by (unfold final; destruct succ2; [destruct (t_xf b); [destruct ef2|]|]; reflexivity).
    exists (e_su ++ (PPhase 1 0 :: e_sub ++ e_body ++ PPhase 3 0 :: e_td) ++ e_cl ++ final). split.
    + repeat (rewrite <- app_assoc || rewrite <- app_comm_cons || cbn [app]). reflexivity.
    + repeat (rewrite forallb_app || cbn [forallb inner app]). rewrite Hsu, Hsub, Hbody, Htd, Hcl, Hfin. reflexivity.
  - pose proof (cleanups_inner (rev (index_from 0 (t_cl b))) false) as Hcl.
    destruct (cleanups_proto (rev (index_from 0 (t_cl b))) false) as [e_cl succ2]. simpl in Hcl.
    set (final := if succ2 then if t_xf b then [PRes RUS 0] else [PRes RSuccess 0] else []).
    assert (Hfin : forallb inner final = true) by (unfold final; destruct succ2; [destruct (t_xf b)|]; reflexivity).
    exists (e_su ++ [] ++ e_cl ++ final). split.
    + repeat (rewrite <- app_assoc || rewrite <- app_comm_cons || cbn [app]). reflexivity.
    + repeat (rewrite forallb_app || cbn [forallb inner app]). rewrite Hsu, Hcl, Hfin. reflexivity.
Qed.

(* ------------------------------------------------------------------ *)
(* the TestResult machine accumulates: effect of each protocol event *)
Section R.
Variable w : rworld.
Variable o : ropts.
Variables l t : nat.

Definition p_run (p : pev) : nat := match p with PStart | PDecoSkip => 1 | _ => 0 end.
Definition p_fail (p : pev) : list name :=
  match p with PRes RFail _ => [NTest t] | PRes RSubFail k => [NSub t k] | _ => [] end.
Definition p_err (p : pev) : list name :=
  match p with PRes RErr _ => [NTest t] | PRes RSubErr k => [NSub t k] | _ => [] end.
Definition p_skip (p : pev) : nat := match p with PRes RSkip _ | PRes RSubSkip _ | PDecoSkip => 1 | _ => 0 end.
Definition p_us (p : pev) : list name := match p with PRes RUS _ => [NTest t] | _ => [] end.
Definition p_bad (p : pev) : bool :=
  match p with PRes RFail _ | PRes RErr _ | PRes RSubFail _ | PRes RSubErr _ | PRes RUS _ => true | _ => false end.
Definition p_ev (p : pev) : list ev :=
  match p with
  | PStart => hooks_up w l ++ [EStart t]
  | PDecoSkip => hooks_up w l ++ [EStart t; EResult t RSkip 0]
  | PPhase ph k => [EPhase t ph k]
  | PRes r k => [EResult t r k]
  | PStop => hooks_down w l ++ [EStop t]
  end.

Lemma apply_pev_effect p s :
  let s' := apply_pev w o l t s p in
  rs_run s' = rs_run s + p_run p /\ rs_fail s' = rs_fail s ++ p_fail p /\ rs_err s' = rs_err s ++ p_err p /\
  rs_skip s' = rs_skip s + p_skip p /\ rs_us s' = rs_us s ++ p_us p /\
  rs_stop s' = rs_stop s || (o_x o && p_bad p) /\ rs_ev s' = rs_ev s ++ p_ev p.
Proof.
  destruct p as [| |ph k|r k|]; simpl.
  - repeat split; rewrite ?app_nil_r, ?Nat.add_0_r, ?andb_false_r, ?orb_false_r; auto; lia.
  - repeat split; rewrite ?app_nil_r, ?Nat.add_0_r, ?andb_false_r, ?orb_false_r; auto; try lia.
    repeat rewrite <- app_assoc. reflexivity.
  - repeat split; rewrite ?app_nil_r, ?Nat.add_0_r, ?andb_false_r, ?orb_false_r; auto.
  - destruct r; simpl; repeat split; rewrite ?app_nil_r, ?Nat.add_0_r, ?andb_false_r, ?andb_true_r, ?orb_false_r; auto.
  - repeat split; rewrite ?app_nil_r, ?Nat.add_0_r, ?andb_false_r, ?orb_false_r; auto.
Qed.

Lemma fold_effect : forall ps s,
  let s' := fold_left (apply_pev w o l t) ps s in
  rs_run s' = rs_run s + fold_right (fun p a => p_run p + a) 0 ps /\
  rs_fail s' = rs_fail s ++ flat_map p_fail ps /\ rs_err s' = rs_err s ++ flat_map p_err ps /\
  rs_skip s' = rs_skip s + fold_right (fun p a => p_skip p + a) 0 ps /\
  rs_us s' = rs_us s ++ flat_map p_us ps /\
  rs_stop s' = rs_stop s || (o_x o && existsb p_bad ps) /\
  rs_ev s' = rs_ev s ++ flat_map p_ev ps.
Proof.
  induction ps as [|p ps IH]; intros s; simpl.
  - rewrite ?app_nil_r, ?Nat.add_0_r, ?andb_false_r, ?orb_false_r. auto 10.
  - destruct (apply_pev_effect p s) as [H1 [H2 [H3 [H4 [H5 [H6 H7]]]]]].
    destruct (IH (apply_pev w o l t s p)) as [G1 [G2 [G3 [G4 [G5 [G6 G7]]]]]].
    rewrite G1, G2, G3, G4, G5, G6, G7, H1, H2, H3, H4, H5, H6, H7.
    rewrite <- !app_assoc. repeat split; try lia.
    destruct (rs_stop s), (o_x o), (p_bad p), (existsb p_bad ps); reflexivity.
Qed.
End R.

(* ------------------------------------------------------------------ *)
(* C05: per-test hooks bracket every test *)
Definition is_inner_ev (t : nat) (e : ev) : Prop :=
  match e with EPhase t' _ _ => t' = t | EResult t' _ _ => t' = t | _ => False end.

Lemma inner_evs w l t mid : forallb inner mid = true -> Forall (is_inner_ev t) (flat_map (p_ev w l t) mid).
Proof.
  induction mid as [|p mid IH]; simpl; intros H; [constructor|].
  apply andb_true_iff in H. destruct H as [Hp Hm]. apply Forall_app. split; [|auto].
  destruct p; try discriminate; simpl; repeat constructor.
Qed.

Theorem run_test_bracket w o l t b s :
  exists mid,
    rs_ev (run_test w o l t b s) =
      rs_ev s ++ hooks_up w l ++ EStart t :: mid ++ hooks_down w l ++ [EStop t]
    /\ Forall (is_inner_ev t) mid
    /\ (t_deco b = false -> exists mid', mid = EPhase t 0 0 :: mid').
Proof.
  unfold run_test. cbn [add_run rs_ev]. destruct (fold_effect w o l t (proto b) s) as [_ [_ [_ [_ [_ [_ Hev]]]]]]. rewrite Hev. clear Hev.
  destruct (proto_shape b) as [[Hd ->]|[Hd [mid [-> Hin]]]].
  - exists [EResult t RSkip 0]. simpl. rewrite app_nil_r, <- !app_assoc. simpl. split; [reflexivity|].
    split; [repeat constructor | congruence].
  - exists (EPhase t 0 0 :: flat_map (p_ev w l t) mid). split.
    + simpl. rewrite flat_map_app. simpl. rewrite app_nil_r, <- !app_assoc. simpl. reflexivity.
    + split; [constructor; [reflexivity | apply inner_evs; exact Hin] | eauto].
Qed.

(* the hooks themselves: every layer of the stack that has the hook, once, bases first; tear-down mirrored *)
Section H.
Variable w : rworld.
Hypothesis Hwf : wf (lw w).

Lemma test_layers_in l x : In x (test_layers w l) <-> In x (gather_layers (lw w) l).
Proof. apply obb_in. Qed.
Lemma test_layers_nodup l : NoDup (test_layers w l).
Proof. apply obb_nodup. Qed.

Theorem hooks_up_exact l x :
  In (ETSetUp x) (hooks_up w l) <-> In x (gather_layers (lw w) l) /\ l_tsetup (spec_of w x) = true.
Proof.
  unfold hooks_up. rewrite in_map_iff. split.
  - intros [y [E H]]. injection E as ->. apply filter_In in H. rewrite test_layers_in in H. exact H.
  - intros [H1 H2]. exists x. split; [reflexivity|]. apply filter_In. rewrite test_layers_in. auto.
Qed.
Theorem hooks_down_exact l x :
  In (ETTearDown x) (hooks_down w l) <-> In x (gather_layers (lw w) l) /\ l_tteardown (spec_of w x) = true.
Proof.
  unfold hooks_down. rewrite in_map_iff. split.
  - intros [y [E H]]. injection E as ->. apply filter_In in H. rewrite <- in_rev, test_layers_in in H. exact H.
  - intros [H1 H2]. exists x. split; [reflexivity|]. apply filter_In. rewrite <- in_rev, test_layers_in. auto.
Qed.

Lemma NoDup_filter {A} (f : A -> bool) l : NoDup l -> NoDup (filter f l).
Proof.
  induction 1 as [|x l Hx Hn IH]; simpl; [constructor|]. destruct (f x); [|exact IH].
  constructor; [|exact IH]. rewrite filter_In. tauto.
Qed.
Theorem hooks_up_once l : NoDup (hooks_up w l).
Proof.
  unfold hooks_up. apply FinFun.Injective_map_NoDup; [intros a b E; now injection E|].
  apply NoDup_filter, test_layers_nodup.
Qed.
Theorem hooks_down_once l : NoDup (hooks_down w l).
Proof.
  unfold hooks_down. apply FinFun.Injective_map_NoDup; [intros a b E; now injection E|].
  apply NoDup_filter, NoDup_rev, test_layers_nodup.
Qed.

(* bases first: a base's testSetUp comes before the derived layer's *)
Theorem hooks_up_bases_first l x b R1 R2 :
  l < nlayers (lw w) -> tb (lw w) x b -> l_tsetup (spec_of w b) = true ->
  hooks_up w l = R1 ++ ETSetUp x :: R2 -> In (ETSetUp b) R1.
Proof.
  intros Hl Htb Hb E. unfold hooks_up in E.
  assert (Hx : In x (gather_layers (lw w) l)).
  { assert (In (ETSetUp x) (hooks_up w l)) by (unfold hooks_up; rewrite E; apply in_or_app; right; now left).
    apply hooks_up_exact in H. tauto. }
  assert (Hbin : In b (gather_layers (lw w) l)).
  { apply (gather_layers_spec (lw w) Hwf l x Hl) in Hx. apply (gather_layers_spec (lw w) Hwf l b Hl).
    right. destruct Hx as [->|Hx]; [exact Htb|].
    clear - Hx Htb. induction Hx as [a c Hc|a m c Hm _ IH]; [eapply tbS; eauto | eapply tbS; eauto]. }
  (* split the un-filtered order at x *)
  set (f := fun y => l_tsetup (spec_of w y)) in *.
  assert (Hsplit : forall L R1 R2, map ETSetUp (filter f L) = R1 ++ ETSetUp x :: R2 ->
            exists L1 L2, L = L1 ++ x :: L2 /\ R1 = map ETSetUp (filter f L1)).
  { induction L as [|a L IH]; simpl; intros S1 S2 HE; [destruct S1; discriminate|].
    destruct (f a) eqn:Fa.
    - destruct S1 as [|s S1]; simpl in HE; injection HE as E1 E2.
      + subst a. exists [], L. auto.
      + destruct (IH _ _ E2) as [L1 [L2 [-> ->]]]. exists (a :: L1), L2. simpl. rewrite Fa. subst s. auto.
    - destruct (IH _ _ HE) as [L1 [L2 [-> ->]]]. exists (a :: L1), L2. simpl. rewrite Fa. auto. }
  destruct (Hsplit _ _ _ E) as [L1 [L2 [HL ->]]].
  apply in_map. apply filter_In. split; [|exact Hb].
  eapply (obb_bases_first (lw w) Hwf (gather_layers (lw w) l) x b L1 L2 Htb); [| exact Hbin | exact HL].
  intros y Hy. apply (gather_layers_spec (lw w) Hwf l y Hl) in Hy. destruct Hy as [->|Hy]; [exact Hl|].
  apply tb_lt in Hy; [|exact Hwf]. lia.
Qed.

(* mirrored: on the layers having both hooks, the tear-down order is the exact reverse *)
Lemma filter_rev {A} (f : A -> bool) l : filter f (rev l) = rev (filter f l).
Proof.
  induction l as [|x l IH]; simpl; [reflexivity|]. rewrite filter_app, IH. simpl.
  destruct (f x); simpl; [reflexivity | now rewrite app_nil_r].
Qed.
Lemma filter_filter_sub {A} (f g : A -> bool) l : (forall x, f x = true -> g x = true) ->
  filter f (filter g l) = filter f l.
Proof.
  intros H. induction l as [|x l IH]; simpl; [reflexivity|].
  destruct (g x) eqn:Eg; simpl; [now rewrite IH|]. destruct (f x) eqn:Ef; [|exact IH].
  apply H in Ef. congruence.
Qed.
Theorem hooks_mirrored l :
  let both x := l_tsetup (spec_of w x) && l_tteardown (spec_of w x) in
  filter both (filter (fun x => l_tteardown (spec_of w x)) (rev (test_layers w l)))
  = rev (filter both (filter (fun x => l_tsetup (spec_of w x)) (test_layers w l))).
Proof.
  intros both. rewrite !filter_filter_sub.
  - apply filter_rev.
  - intros x H. unfold both in H. apply andb_true_iff in H. tauto.
  - intros x H. unfold both in H. apply andb_true_iff in H. tauto.
Qed.
End H.

(* ------------------------------------------------------------------ *)
(* C16 / C12 at the level of one layer run *)
Section S.
Variable w : rworld.
Variable o : ropts.
Variable l : nat.

Definition bad_b (b : test) : bool := existsb p_bad (proto b).
(* the unconditional loop *)
Definition run_all (ts : list (nat * test)) (s : rstate) : rstate :=
  fold_left (fun s it => run_test w o l (fst it) (snd it) s) ts s.

Lemma run_test_stop t b s : rs_stop (run_test w o l t b s) = rs_stop s || (o_x o && bad_b b).
Proof. unfold run_test. cbn [add_run rs_stop]. destruct (fold_effect w o l t (proto b) s) as [_ [_ [_ [_ [_ [H _]]]]]]. exact H. Qed.

Lemma run_seq_stopped ts s : rs_stop s = true -> run_seq w o l ts s = s.
Proof. intros H. destruct ts as [|[t b] r]; simpl; [reflexivity | now rewrite H]. Qed.

(* with -x the loop executes the tests up to and including the first one that records a failure or error *)
Theorem run_seq_stops_at_first_bad pre t b post s :
  o_x o = true -> rs_stop s = false ->
  forallb (fun it => negb (bad_b (snd it))) pre = true -> bad_b b = true ->
  run_seq w o l (pre ++ (t, b) :: post) s = run_all (pre ++ [(t, b)]) s.
Proof.
  intros Hx. revert s. induction pre as [|[t' b'] pre IH]; simpl; intros s Hs Hpre Hb.
  - rewrite Hs. apply run_seq_stopped. rewrite run_test_stop, Hx, Hb. now rewrite orb_true_r.
  - rewrite Hs. apply andb_true_iff in Hpre. destruct Hpre as [Hb' Hpre]. apply IH; auto.
    rewrite run_test_stop, Hs. apply negb_true_iff in Hb'. rewrite Hb'. now rewrite andb_false_r.
Qed.

(* without a bad test (or without -x) every test of the layer runs *)
Theorem run_seq_all ts s :
  rs_stop s = false -> (o_x o = false \/ forallb (fun it => negb (bad_b (snd it))) ts = true) ->
  run_seq w o l ts s = run_all ts s.
Proof.
  revert s. induction ts as [|[t b] r IH]; simpl; intros s Hs H; [reflexivity|]. rewrite Hs.
  apply IH.
  - rewrite run_test_stop, Hs. destruct H as [->|H]; [reflexivity|].
    apply andb_true_iff in H. destruct H as [Hb _]. apply negb_true_iff in Hb. rewrite Hb. now rewrite andb_false_r.
  - destruct H as [H|H]; [now left|right]. apply andb_true_iff in H. tauto.
Qed.

(* C12: what the result object holds after running a list of tests *)
Definition fail_names (it : nat * test) : list name := flat_map (p_fail (fst it)) (proto (snd it)).
Definition err_names (it : nat * test) : list name := flat_map (p_err (fst it)) (proto (snd it)).
Definition us_names (it : nat * test) : list name := flat_map (p_us (fst it)) (proto (snd it)).
Definition skip_count (it : nat * test) : nat := fold_right (fun p a => p_skip p + a) 0 (proto (snd it)).

Lemma proto_runs_once b : fold_right (fun p a => p_run p + a) 0 (proto b) = 1.
Proof.
  destruct (proto_shape b) as [[_ ->]|[_ [mid [-> Hin]]]]; [reflexivity|]. simpl.
  rewrite fold_right_app. simpl.
  induction mid as [|p mid IH]; simpl; [reflexivity|]. apply andb_true_iff in Hin. destruct Hin as [Hp Hm].
  destruct p; try discriminate; simpl; auto.
Qed.

(* everything a test execution does to the result object *)
Lemma run_test_effect t b s :
  let s' := run_test w o l t b s in
  rs_run s' = rs_run s + 1 + (t_count b - 1) /\
  rs_fail s' = rs_fail s ++ flat_map (p_fail t) (proto b) /\ rs_err s' = rs_err s ++ flat_map (p_err t) (proto b) /\
  rs_skip s' = rs_skip s + fold_right (fun p a => p_skip p + a) 0 (proto b) /\
  rs_us s' = rs_us s ++ flat_map (p_us t) (proto b) /\
  rs_stop s' = rs_stop s || (o_x o && existsb p_bad (proto b)) /\
  rs_ev s' = rs_ev s ++ flat_map (p_ev w l t) (proto b).
Proof.
  unfold run_test. cbn [add_run rs_run rs_fail rs_err rs_skip rs_us rs_stop rs_ev].
  destruct (fold_effect w o l t (proto b) s) as [H1 [H2 [H3 [H4 [H5 [H6 H7]]]]]]. rewrite H1, proto_runs_once. auto 10.
Qed.

Definition run_count (it : nat * test) : nat := 1 + (t_count (snd it) - 1).

Theorem run_all_counts : forall ts s,
  let s' := run_all ts s in
  rs_run s' = rs_run s + fold_right (fun it a => run_count it + a) 0 ts /\
  rs_fail s' = rs_fail s ++ flat_map fail_names ts /\
  rs_err s' = rs_err s ++ flat_map err_names ts /\
  rs_us s' = rs_us s ++ flat_map us_names ts /\
  rs_skip s' = rs_skip s + fold_right (fun it a => skip_count it + a) 0 ts.
Proof.
  induction ts as [|[t b] r IH]; intros s; simpl.
  - rewrite ?app_nil_r, ?Nat.add_0_r. auto.
  - destruct (IH (run_test w o l t b s)) as [G1 [G2 [G3 [G4 G5]]]]. unfold run_all in *. simpl.
    rewrite G1, G2, G3, G4, G5.
    destruct (run_test_effect t b s) as [H1 [H2 [H3 [H4 [H5 _]]]]].
    rewrite H1, H2, H3, H4, H5. rewrite <- !app_assoc.
    unfold fail_names, err_names, us_names, skip_count, run_count. simpl. repeat split; lia.
Qed.
End S.

(* ------------------------------------------------------------------ *)
(* small facts about the layer machinery used by several properties *)
Lemma index_from_spec {A} : forall (l : list A) i t b,
  In (t, b) (index_from i l) <-> i <= t /\ nth_error l (t - i) = Some b.
Proof.
  induction l as [|x l IH]; intros i t b; simpl.
  - split; [tauto|]. intros [_ H]. destruct (t - i); discriminate.
  - rewrite IH. split.
    + intros [E|[H1 H2]].
      * injection E as -> ->. split; [lia|]. now rewrite Nat.sub_diag.
      * split; [lia|]. replace (t - i) with (S (t - S i)) by lia. exact H2.
    + intros [H1 H2]. destruct (Nat.eq_dec i t) as [->|Hne].
      * left. rewrite Nat.sub_diag in H2. simpl in H2. congruence.
      * right. split; [lia|]. replace (t - i) with (S (t - S i)) in H2 by lia. exact H2.
Qed.

(* every discovered test belongs to the run list of exactly its own layer *)
Theorem tests_of_spec w l t b :
  In (t, b) (tests_of w l) <-> nth_error (tests w) t = Some b /\ t_layer b = l.
Proof.
  unfold tests_of. rewrite filter_In, index_from_spec. simpl. rewrite Nat.eqb_eq, Nat.sub_0_r.
  split; [tauto|]. intros [H1 H2]. split; [split; [lia|exact H1]|exact H2].
Qed.

Lemma index_from_nodup {A} : forall (l : list A) i, NoDup (map fst (index_from i l)).
Proof.
  induction l as [|x l IH]; intros i; simpl; [constructor|]. constructor; [|apply IH].
  rewrite in_map_iff. intros [[t b] [E H]]. simpl in E. subst t. apply index_from_spec in H. lia.
Qed.
Theorem tests_of_once w l : NoDup (map fst (tests_of w l)).
Proof.
  unfold tests_of. generalize (index_from_nodup (tests w) 0).
  induction (index_from 0 (tests w)) as [|[t b] r IH]; simpl; intros H; [constructor|].
  inversion H as [|? ? Hn Hr]; subst. destruct (Nat.eqb (t_layer b) l); simpl; [|auto].
  constructor; [|auto]. rewrite in_map_iff. intros [[t' b'] [E Hin]]. simpl in E. subst t'.
  apply filter_In in Hin. apply Hn. rewrite in_map_iff. exists (t, b'). tauto.
Qed.

(* tear-down order: derived layers before their bases *)
Theorem teardown_derived_first w (Hwf : wf (lw w)) ls l b R1 R2 :
  tb (lw w) l b -> in_range (lw w) ls -> In l ls ->
  rev (order_by_bases (lw w) ls) = R1 ++ b :: R2 -> In l R1.
Proof.
  intros Htb Hr Hl E.
  assert (E' : order_by_bases (lw w) ls = rev R2 ++ b :: rev R1).
  { rewrite <- (rev_involutive (order_by_bases (lw w) ls)), E, rev_app_distr. simpl. now rewrite <- app_assoc. }
  assert (Hb : In b ls).
  { apply (obb_in (lw w) ls b). rewrite E'. apply in_or_app. right. now left. }
  (* l is in the result; it cannot be in rev R2 (before b) *)
  assert (Hlin : In l (order_by_bases (lw w) ls)) by (apply obb_in; exact Hl).
  rewrite E' in Hlin. apply in_app_or in Hlin. destruct Hlin as [H|[H|H]].
  - exfalso. apply in_split in H. destruct H as [A [B HAB]].
    rewrite HAB, <- app_assoc in E'. simpl in E'.
    pose proof (obb_bases_first (lw w) Hwf ls l b A (B ++ b :: rev R1) Htb Hr Hb E') as Hin.
    pose proof (obb_nodup (lw w) ls) as Hnd. rewrite E' in Hnd.
    change (A ++ l :: B ++ b :: rev R1) with (A ++ (l :: B) ++ b :: rev R1) in Hnd.
    rewrite app_assoc in Hnd. apply NoDup_remove_2 in Hnd. apply Hnd.
    apply in_or_app. left. apply in_or_app. left. exact Hin.
  - subst l. apply tb_lt in Htb; [lia | exact Hwf].
  - apply in_rev. exact H.
Qed.

(* tear_down_unneeded always forgets the layer it attempted (the finally clause) *)
Lemma td_loop_forgets w : forall order optional p x,
  In x (ps_setup (fst (td_loop w order optional p))) -> In x (ps_setup p).
Proof.
  induction order as [|l r IH]; intros optional p x; simpl; [auto|].
  set (out := match l_teardown (spec_of w l) with None => HOk | Some sc => script_at sc (cnt l (ps_att_td p)) end).
  destruct out; [| |destruct optional]; simpl; intros H;
    try (apply IH in H); simpl in H; try (apply filter_In in H; tauto).
Qed.
Theorem td_loop_completed_removes w : forall order optional p,
  snd (td_loop w order optional p) = false ->
  forall x, In x order -> ~ In x (ps_setup (fst (td_loop w order optional p))).
Proof.
  induction order as [|l r IH]; intros optional p Hc x Hx; [destruct Hx|]. simpl in *.
  set (out := match l_teardown (spec_of w l) with None => HOk | Some sc => script_at sc (cnt l (ps_att_td p)) end) in *.
  destruct out; [| |destruct optional; [|simpl in Hc; discriminate]];
    (destruct Hx as [<-|Hx];
     [intros Hin; apply td_loop_forgets in Hin; simpl in Hin; apply filter_In in Hin; destruct Hin as [_ Hin];
      rewrite Nat.eqb_refl in Hin; discriminate
     | apply IH; assumption]).
Qed.

(* run_tests emits one summary per iteration it runs, and at least one *)
Lemma repeat_loop_ext w o : forall n l q, exists ext, ps_ev (repeat_loop w o n l q) = ps_ev q ++ ext.
Proof.
  induction n as [|n IH]; intros l q; simpl; [exists []; now rewrite app_nil_r|].
  destruct (rs_stop (run_seq w o l (tests_of w l) rs_init)).
  - simpl. eexists. reflexivity.
  - match goal with |- context [repeat_loop w o n l ?q1] => destruct (IH l q1) as [ext E] end.
    rewrite E. simpl. eexists. rewrite <- app_assoc. reflexivity.
Qed.
Theorem repeat_loop_summary w o n l p : 0 < n ->
  exists pre ran nf ne ns rest, ps_ev (repeat_loop w o n l p) = ps_ev p ++ pre ++ ESummary l ran nf ne ns :: rest.
Proof.
  destruct n as [|n]; intros Hn; [lia|]. simpl.
  set (rs := run_seq w o l (tests_of w l) rs_init).
  destruct (rs_stop rs).
  - simpl. exists (rs_ev rs), (rs_run rs), (length (rs_fail rs) + length (rs_us rs)),
      (length (rs_err rs) + o_import_errors o), (rs_skip rs), []. reflexivity.
  - match goal with |- context [repeat_loop w o n l ?q1] => destruct (repeat_loop_ext w o n l q1) as [ext E] end.
    rewrite E. simpl. exists (rs_ev rs), (rs_run rs), (length (rs_fail rs) + length (rs_us rs)),
      (length (rs_err rs) + o_import_errors o), (rs_skip rs), ext.
    repeat rewrite <- app_assoc. reflexivity.
Qed.

(* the verdict *)
Definition nonnil {A} (l : list A) : bool := match l with [] => false | _ => true end.
Theorem verdict_spec w o :
  r_failed (run w o) = Nat.ltb 0 (o_import_errors o) || nonnil (r_fail (run w o)) || nonnil (r_err (run w o)).
Proof.
  unfold run.
  set (A := if 1 <? o_procs o then _ else _). destruct A as [[[[p1 ran1] rest] resume] n1].
  set (B := if resume then _ else _). destruct B as [[[cs ran2] f2] e2].
  set (C := tear_down_unneeded w [] true _). destruct C as [p3 c3]. cbn [r_failed r_fail r_err].
  destruct f2; destruct (e2 ++ ps_err p3); simpl; rewrite ?orb_false_r, ?orb_true_r; reflexivity.
Qed.
Corollary verdict_iff w o :
  r_failed (run w o) = true <->
  (0 < o_import_errors o \/ r_fail (run w o) <> [] \/ r_err (run w o) <> []).
Proof.
  rewrite verdict_spec, !orb_true_iff, Nat.ltb_lt.
  assert (H : forall (A : Type) (l : list A), nonnil l = true <-> l <> []) by (intros A [|x l]; simpl; split; congruence).
  rewrite !H. tauto.
Qed.
