From ZT Require Import Base Layers.
From Coq Require Import Permutation Sorted.

(* ------------------------------------------------------------------ *)
(* lexicographic comparison is a total order when the element comparison is *)
Section Lex.
Context {A : Type} (cmp : A -> A -> comparison).
Hypothesis cmp_antisym : forall a b, cmp b a = CompOpp (cmp a b).
Hypothesis cmp_eq : forall a b, cmp a b = Eq -> a = b.
Hypothesis cmp_trans : forall a b c, cmp a b = Lt -> cmp b c = Lt -> cmp a c = Lt.

Lemma cmp_refl a : cmp a a = Eq.
Proof. pose proof (cmp_antisym a a) as H. destruct (cmp a a); simpl in H; congruence. Qed.

Lemma lex_antisym : forall a b, lex_cmp cmp b a = CompOpp (lex_cmp cmp a b).
Proof.
  induction a as [|x a IH]; destruct b as [|y b]; simpl; auto.
  rewrite (cmp_antisym x y). destruct (cmp x y); simpl; auto.
Qed.

Lemma lex_eq : forall a b, lex_cmp cmp a b = Eq -> a = b.
Proof.
  induction a as [|x a IH]; destruct b as [|y b]; simpl; try discriminate; auto.
  destruct (cmp x y) eqn:E; try discriminate. intros H. apply cmp_eq in E. apply IH in H. congruence.
Qed.

Lemma lex_trans : forall a b c, lex_cmp cmp a b = Lt -> lex_cmp cmp b c = Lt -> lex_cmp cmp a c = Lt.
Proof.
  induction a as [|x a IH]; destruct b as [|y b]; destruct c as [|z c]; simpl; try discriminate; auto.
  destruct (cmp x y) eqn:E1; try discriminate.
  - apply cmp_eq in E1. subst y. destruct (cmp x z); try discriminate; auto. apply IH.
  - intros _. destruct (cmp y z) eqn:E2; try discriminate.
    + apply cmp_eq in E2. subst z. rewrite E1. auto.
    + rewrite (cmp_trans _ _ _ E1 E2). auto.
Qed.

Lemma lex_refl a : lex_cmp cmp a a = Eq.
Proof. induction a as [|x a IH]; simpl; auto. rewrite cmp_refl. exact IH. Qed.
End Lex.

Lemma Ncmp_antisym : forall a b : N, N.compare b a = CompOpp (N.compare a b).
Proof. intros. apply N.compare_antisym. Qed.
Lemma Ncmp_eq : forall a b : N, N.compare a b = Eq -> a = b.
Proof. intros a b. apply N.compare_eq. Qed.
Lemma Ncmp_trans : forall a b c : N, N.compare a b = Lt -> N.compare b c = Lt -> N.compare a c = Lt.
Proof. intros a b c. rewrite !N.compare_lt_iff. lia. Qed.

Lemma str_antisym a b : str_cmp b a = CompOpp (str_cmp a b).
Proof. exact (lex_antisym N.compare Ncmp_antisym a b). Qed.
Lemma str_eq a b : str_cmp a b = Eq -> a = b.
Proof. exact (lex_eq N.compare Ncmp_eq a b). Qed.
Lemma str_trans a b c : str_cmp a b = Lt -> str_cmp b c = Lt -> str_cmp a c = Lt.
Proof. exact (lex_trans N.compare Ncmp_eq Ncmp_trans a b c). Qed.

Lemma key_antisym a b : key_cmp b a = CompOpp (key_cmp a b).
Proof. exact (lex_antisym str_cmp (fun x y => str_antisym x y) a b). Qed.
Lemma key_eq a b : key_cmp a b = Eq -> a = b.
Proof. exact (lex_eq str_cmp str_eq a b). Qed.
Lemma key_trans a b c : key_cmp a b = Lt -> key_cmp b c = Lt -> key_cmp a c = Lt.
Proof. exact (lex_trans str_cmp str_eq str_trans a b c). Qed.
Lemma key_refl a : key_cmp a a = Eq.
Proof. exact (lex_refl str_cmp (fun x y => str_antisym x y) a). Qed.

Lemma mem_In x l : mem x l = true <-> In x l.
Proof.
  unfold mem. rewrite existsb_exists. split.
  - intros [y [Hy E]]. apply Nat.eqb_eq in E. now subst.
  - intros H. exists x. split; [exact H | apply Nat.eqb_refl].
Qed.
Lemma mem_false x l : mem x l = false <-> ~ In x l.
Proof. rewrite <- mem_In. destruct (mem x l); split; congruence. Qed.

Section W.
Variable w : world.

(* ------------------------------------------------------------------ *)
(* sorting *)
Definition key (x : nat) := sort_key w x.
(* ge x y : x may stand before y in the descending order *)
Definition ge (x y : nat) : Prop := key_cmp (key x) (key y) <> Lt.

Lemma ge_trans x y z : ge x y -> ge y z -> ge x z.
Proof.
  unfold ge. intros H1 H2 H3.
  destruct (key_cmp (key x) (key y)) eqn:E1; [| congruence |].
  - apply key_eq in E1. rewrite E1 in H3. congruence.
  - destruct (key_cmp (key y) (key z)) eqn:E2; [| congruence |].
    + apply key_eq in E2. rewrite <- E2 in H3. congruence.
    + (* x > y > z but x < z *)
      assert (Hzy : key_cmp (key z) (key y) = Lt) by (rewrite key_antisym, E2; reflexivity).
      assert (Hyx : key_cmp (key y) (key x) = Lt) by (rewrite key_antisym, E1; reflexivity).
      pose proof (key_trans _ _ _ H3 Hzy) as Hxy. congruence.
Qed.

Lemma insert_desc_perm x l : Permutation (insert_desc w x l) (x :: l).
Proof.
  induction l as [|y r IH]; simpl; [auto|].
  destruct (key_cmp (sort_key w y) (sort_key w x)); auto;
    (eapply perm_trans; [apply perm_skip; exact IH | apply perm_swap]).
Qed.

Lemma insert_desc_sorted x l : StronglySorted ge l -> StronglySorted ge (insert_desc w x l).
Proof.
  induction 1 as [|y r Hs IH Hall]; simpl.
  - constructor; constructor.
  - destruct (key_cmp (sort_key w y) (sort_key w x)) eqn:E.
    + constructor; [exact IH|]. rewrite Forall_forall. intros z Hz.
      apply (Permutation_in _ (insert_desc_perm x r)) in Hz. destruct Hz as [<-|Hz].
      * unfold ge, key. congruence.
      * rewrite Forall_forall in Hall. auto.
    + (* y < x : x goes in front *)
      assert (Hxy : ge x y).
      { unfold ge, key. rewrite key_antisym, E. simpl. congruence. }
      constructor; [constructor; assumption|].
      constructor; [exact Hxy|]. rewrite Forall_forall in *. intros z Hz. eapply ge_trans; eauto.
    + constructor; [exact IH|]. rewrite Forall_forall. intros z Hz.
      apply (Permutation_in _ (insert_desc_perm x r)) in Hz. destruct Hz as [<-|Hz].
      * unfold ge, key. congruence.
      * rewrite Forall_forall in Hall. auto.
Qed.

Lemma sort_desc_gen ls : forall acc, StronglySorted ge acc ->
  let r := fold_left (fun acc x => insert_desc w x acc) ls acc in
  StronglySorted ge r /\ Permutation r (rev ls ++ acc).
Proof.
  induction ls as [|a ls IH]; simpl; intros acc Hs; [split; auto|].
  destruct (IH (insert_desc w a acc) (insert_desc_sorted a acc Hs)) as [H1 H2]. split; [exact H1|].
  eapply perm_trans; [exact H2|]. rewrite <- app_assoc. apply Permutation_app_head. simpl.
  apply insert_desc_perm.
Qed.

Lemma sort_desc_sorted ls : StronglySorted ge (sort_desc w ls).
Proof. apply (sort_desc_gen ls []). constructor. Qed.
Lemma sort_desc_perm ls : Permutation (sort_desc w ls) ls.
Proof.
  destruct (sort_desc_gen ls [] (SSorted_nil _)) as [_ H]. rewrite app_nil_r in H.
  eapply perm_trans; [exact H|]. apply Permutation_sym, Permutation_rev.
Qed.
Lemma sort_desc_in x ls : In x (sort_desc w ls) <-> In x ls.
Proof.
  split; apply Permutation_in; [apply sort_desc_perm | apply Permutation_sym, sort_desc_perm].
Qed.

(* layers with equal sort keys are the same layer *)
Definition keys_inj (ls : list nat) : Prop :=
  forall x y, In x ls -> In y ls -> key_cmp (key x) (key y) = Eq -> x = y.

Lemma sorted_unique : forall l1 l2, keys_inj l1 ->
  StronglySorted ge l1 -> StronglySorted ge l2 -> Permutation l1 l2 -> l1 = l2.
Proof.
  induction l1 as [|a l1 IH]; intros l2 Hinj H1 H2 HP.
  - apply Permutation_nil in HP. auto.
  - destruct l2 as [|b l2]; [apply Permutation_sym, Permutation_nil in HP; discriminate|].
    inversion H1 as [|? ? Hs1 Ha]; subst. inversion H2 as [|? ? Hs2 Hb]; subst.
    rewrite Forall_forall in Ha, Hb.
    assert (Hab : a = b).
    { destruct (Nat.eq_dec a b) as [|Hne]; [assumption|].
      assert (Hb1 : In b l1).
      { assert (In b (a :: l1)) by (eapply Permutation_in; [apply Permutation_sym; exact HP | now left]).
        destruct H as [E|H]; [congruence|exact H]. }
      assert (Ha2 : In a l2).
      { assert (In a (b :: l2)) by (eapply Permutation_in; [exact HP | now left]).
        destruct H as [E|H]; [congruence|exact H]. }
      specialize (Ha b Hb1). specialize (Hb a Ha2). unfold ge in Ha, Hb.
      apply Hinj; [now left | now right |].
      destruct (key_cmp (key a) (key b)) eqn:E; [reflexivity | congruence |].
      exfalso. apply Hb. rewrite key_antisym, E. reflexivity. }
    subst b. f_equal. apply IH; auto.
    + intros x y Hx Hy. apply Hinj; now right.
    + eapply Permutation_cons_inv; eauto.
Qed.

Theorem sort_desc_perm_invariant ls ls' :
  keys_inj ls -> Permutation ls ls' -> sort_desc w ls = sort_desc w ls'.
Proof.
  intros Hinj HP. apply sorted_unique.
  - intros x y Hx Hy. apply Hinj; apply sort_desc_in; assumption.
  - apply sort_desc_sorted.
  - apply sort_desc_sorted.
  - eapply perm_trans; [apply sort_desc_perm|]. eapply perm_trans; [exact HP|].
    apply Permutation_sym, sort_desc_perm.
Qed.

Theorem obb_perm_invariant ls ls' :
  keys_inj ls -> Permutation ls ls' -> order_by_bases w ls = order_by_bases w ls'.
Proof. intros Hinj HP. unfold order_by_bases. rewrite (sort_desc_perm_invariant ls ls' Hinj HP). reflexivity. Qed.

(* ------------------------------------------------------------------ *)
(* dedup: no duplicates, exactly the requested layers *)
Lemma dedup_in keep x : forall L seen,
  In x (dedup_keep L seen keep) <-> In x L /\ ~ In x seen /\ keep x = true.
Proof.
  induction L as [|a L IH]; simpl; intros seen; [tauto|].
  destruct (mem a seen) eqn:Em.
  - apply mem_In in Em. rewrite IH. split; [tauto|]. intros [[->|H] H2]; tauto.
  - apply mem_false in Em. destruct (keep a) eqn:Ek; simpl; rewrite IH; simpl.
    + split.
      * intros [->|[H1 [H2 H3]]]; [tauto|]. tauto.
      * intros [[->|H1] [H2 H3]]; [now left|]. destruct (Nat.eq_dec a x); [now left|right; tauto].
    + split; [tauto|]. intros [[->|H1] [H2 H3]]; [congruence|].
      destruct (Nat.eq_dec a x); [subst; congruence|tauto].
Qed.

Lemma dedup_nodup keep : forall L seen, NoDup (dedup_keep L seen keep).
Proof.
  induction L as [|a L IH]; simpl; intros seen; [constructor|].
  destruct (mem a seen); [apply IH|]. destruct (keep a); [|apply IH].
  constructor; [|apply IH]. rewrite dedup_in. simpl. tauto.
Qed.

Lemma in_gather_self f l : In l (gather f w l).
Proof. destruct f; simpl; auto. Qed.

Theorem obb_nodup ls : NoDup (order_by_bases w ls).
Proof. apply dedup_nodup. Qed.

Theorem obb_in ls x : In x (order_by_bases w ls) <-> In x ls.
Proof.
  unfold order_by_bases. rewrite dedup_in, mem_In, sort_desc_in, <- in_rev, in_flat_map. split; [tauto|].
  intros H. split; [|tauto]. exists x. split; [apply sort_desc_in; exact H | apply in_gather_self].
Qed.

(* ------------------------------------------------------------------ *)
(* bases first *)
Definition wf := forall l b, In b (bases_of w l) -> b < l.
Hypothesis Hwf : wf.

Inductive tb : nat -> nat -> Prop :=
| tb1 l b : In b (bases_of w l) -> tb l b
| tbS l m b : In m (bases_of w l) -> tb m b -> tb l b.

Lemma tb_lt a c : tb a c -> c < a.
Proof. induction 1 as [a c Hc | a m c Hm _ IHt]; [now apply Hwf|]. apply Hwf in Hm. lia. Qed.

Lemma tb_in_gather : forall f l b, tb l b -> l <= f -> In b (gather f w l).
Proof.
  induction f as [|f IH]; intros l b Ht Hl.
  - apply tb_lt in Ht. lia.
  - simpl. right. apply in_flat_map.
    destruct Ht as [l b Hb | l m b Hm Ht].
    + exists b. split; [exact Hb | apply in_gather_self].
    + exists m. split; [exact Hm|]. apply IH; [exact Ht|]. apply Hwf in Hm. lia.
Qed.

Lemma in_gather_tb : forall f l x, In x (gather f w l) -> x = l \/ tb l x.
Proof.
  induction f as [|f IH]; simpl; intros l x H.
  - destruct H as [<-|[]]. now left.
  - destruct H as [<-|H]; [now left|]. right. apply in_flat_map in H. destruct H as [b [Hb Hx]].
    apply IH in Hx. destruct Hx as [->|Hx]; [now apply tb1 | eapply tbS; eauto].
Qed.

Fixpoint followed (x y : nat) (L : list nat) : Prop :=
  match L with [] => True | a :: r => (a = x -> In y r) /\ followed x y r end.

Lemma followed_app x y A B : followed x y A -> followed x y B -> followed x y (A ++ B).
Proof.
  induction A as [|a A IH]; simpl; intros HA HB; [exact HB|].
  destruct HA as [H1 H2]. split; [|auto].
  intros E. apply in_or_app. left. auto.
Qed.

Lemma followed_flat_map x y (g : nat -> list nat) ls :
  (forall s, In s ls -> followed x y (g s)) -> followed x y (flat_map g ls).
Proof.
  induction ls as [|s ls IH]; simpl; intros H; [exact I|].
  apply followed_app; [apply H; now left | apply IH; intros; apply H; now right].
Qed.

Lemma gather_followed : forall f x l b, tb l b -> x <= f -> followed l b (gather f w x).
Proof.
  induction f as [|f IH]; intros x l b Ht Hx.
  - simpl. split; [|exact I]. intros ->. apply tb_lt in Ht. lia.
  - simpl. split.
    + intros ->.
      pose proof (tb_in_gather (S f) l b Ht Hx) as Hin. simpl in Hin.
      destruct Hin as [E|Hin]; [|exact Hin].
      exfalso. subst b. apply tb_lt in Ht. lia.
    + apply followed_flat_map. intros s Hs. apply IH; [exact Ht|]. apply Hwf in Hs. lia.
Qed.

(* prec x y seen L : every occurrence of x in L has y among seen ++ earlier elements *)
Fixpoint prec (x y : nat) (seen : list nat) (L : list nat) : Prop :=
  match L with [] => True | a :: r => (a = x -> In y seen) /\ prec x y (a :: seen) r end.

Lemma prec_ext x y L : forall s1 s2, (forall z, In z s1 -> In z s2) -> prec x y s1 L -> prec x y s2 L.
Proof.
  induction L as [|a L IH]; simpl; intros s1 s2 Hs H; [exact I|].
  destruct H as [H1 H2]. split; [auto|]. apply (IH (a :: s1)); [|exact H2].
  intros z [->|Hz]; [now left | right; auto].
Qed.

Lemma prec_app x y A : forall B seen, prec x y seen A -> prec x y (rev A ++ seen) B -> prec x y seen (A ++ B).
Proof.
  induction A as [|a A IH]; simpl; intros B seen HA HB; [exact HB|].
  destruct HA as [H1 H2]. split; [exact H1|]. apply IH; [exact H2|].
  eapply prec_ext; [|exact HB]. intros z Hz. rewrite <- app_assoc in Hz. exact Hz.
Qed.

Lemma followed_prec_rev x y G : forall seen, followed x y G -> prec x y seen (rev G).
Proof.
  induction G as [|a G IH]; simpl; intros seen H; [exact I|].
  destruct H as [H1 H2]. apply prec_app; [apply IH; exact H2|].
  simpl. split; [|exact I]. intros E. apply in_or_app. left. rewrite rev_involutive. auto.
Qed.

Lemma dedup_order x y keep : keep y = true -> x <> y ->
  forall L seen0 seen, (forall z, In z seen0 -> In z seen) -> prec x y seen0 L ->
  forall R1 R2, dedup_keep L seen keep = R1 ++ x :: R2 -> In y R1 \/ In y seen.
Proof.
  intros Hk Hxy. induction L as [|a L IH]; simpl; intros seen0 seen Hs Hp R1 R2 E.
  - destruct R1; discriminate.
  - destruct Hp as [Hp1 Hp2].
    destruct (mem a seen) eqn:Ea.
    + apply mem_In in Ea.
      eapply (IH (a :: seen0) seen); [|exact Hp2|exact E].
      intros z [->|Hz]; auto.
    + assert (Hs' : forall z, In z (a :: seen0) -> In z (a :: seen)).
      { intros z [->|Hz]; [now left | right; auto]. }
      destruct (keep a) eqn:Ka.
      * destruct R1 as [|r R1]; simpl in E; injection E as E1 E2.
        -- subst a. right. apply Hs. apply Hp1. reflexivity.
        -- subst r. specialize (IH (a :: seen0) (a :: seen) Hs' Hp2 R1 R2 E2).
           destruct IH as [H|H]; [left; now right|].
           destruct H as [->|H]; [left; now left | right; exact H].
      * specialize (IH (a :: seen0) (a :: seen) Hs' Hp2 R1 R2 E).
        destruct IH as [H|H]; [now left|].
        destruct H as [->|H]; [congruence | right; exact H].
Qed.

Definition in_range (ls : list nat) := forall x, In x ls -> x < nlayers w.

Theorem obb_bases_first ls l b R1 R2 :
  tb l b -> in_range ls -> In b ls ->
  order_by_bases w ls = R1 ++ l :: R2 -> In b R1.
Proof.
  intros Ht Hb Hin E. unfold order_by_bases in E.
  assert (Hlb : l <> b) by (intros ->; apply tb_lt in Ht; lia).
  eapply (dedup_order l b) in E.
  - destruct E as [H|[]]. exact H.
  - apply mem_In. apply sort_desc_in. exact Hin.
  - exact Hlb.
  - intros z Hz. exact Hz.
  - apply followed_prec_rev. apply followed_flat_map. intros s Hs.
    apply gather_followed; [exact Ht|]. apply (proj1 (sort_desc_in _ _)) in Hs. apply Hb in Hs.
    unfold nlayers in *. lia.
Qed.

(* gather_layers = the layer and all its transitive bases *)
Theorem gather_layers_spec l x : l < nlayers w ->
  (In x (gather_layers w l) <-> x = l \/ tb l x).
Proof.
  intros Hl. unfold gather_layers. split; [apply in_gather_tb|].
  intros [->|H]; [apply in_gather_self | apply tb_in_gather; [exact H | lia]].
Qed.

(* ------------------------------------------------------------------ *)
(* the unit-test layer comes first *)
Lemma sk_snd_last : forall f l seen k, exists k', snd (sk (S f) w l seen k) = k ++ k' ++ [l].
Proof.
  intros f l seen k. simpl.
  set (F := fun (acc : list nat * list nat) b => let '(seen0, key0) := acc in
            if mem b seen0 then (seen0, key0) else sk f w b seen0 key0).
  assert (Hmono : forall f' b s k0, exists k1, snd (sk f' w b s k0) = k0 ++ k1).
  { induction f' as [|f' IHf]; intros b s k0; simpl; [exists []; now rewrite app_nil_r|].
    set (G := fun (acc : list nat * list nat) b0 => let '(seen0, key0) := acc in
              if mem b0 seen0 then (seen0, key0) else sk f' w b0 seen0 key0).
    assert (HG : forall bs s0 k2, exists k3, snd (fold_left G bs (s0, k2)) = k2 ++ k3).
    { induction bs as [|b0 bs IHb]; intros s0 k2; simpl; [exists []; now rewrite app_nil_r|].
      destruct (mem b0 s0).
      - apply IHb.
      - destruct (sk f' w b0 s0 k2) as [s1 k4] eqn:Es.
        destruct (IHf b0 s0 k2) as [k5 H5]. rewrite Es in H5. simpl in H5. subst k4.
        destruct (IHb s1 (k2 ++ k5)) as [k6 H6]. exists (k5 ++ k6). rewrite H6. now rewrite app_assoc. }
    destruct (HG (rev (bases_of w b)) (b :: s) k0) as [k3 H3].
    destruct (fold_left G (rev (bases_of w b)) (b :: s, k0)) as [s2 k4]. simpl in *. subst k4.
    exists (k3 ++ [b]). now rewrite app_assoc. }
  assert (HF : forall bs s0 k2, exists k3, snd (fold_left F bs (s0, k2)) = k2 ++ k3).
  { induction bs as [|b0 bs IHb]; intros s0 k2; simpl; [exists []; now rewrite app_nil_r|].
    destruct (mem b0 s0).
    - apply IHb.
    - destruct (sk f w b0 s0 k2) as [s1 k4] eqn:Es.
      destruct (Hmono f b0 s0 k2) as [k5 H5]. rewrite Es in H5. simpl in H5. subst k4.
      destruct (IHb s1 (k2 ++ k5)) as [k6 H6]. exists (k5 ++ k6). rewrite H6. now rewrite app_assoc. }
  destruct (HF (rev (bases_of w l)) (l :: seen) k) as [k3 H3].
  destruct (fold_left F (rev (bases_of w l)) (l :: seen, k)) as [s2 k4]. simpl in *. subst k4.
  exists k3. now rewrite app_assoc.
Qed.

Lemma sort_key_nonunit l : is_unit w l = false -> sort_key w l <> [].
Proof.
  intros Hu. unfold sort_key. destruct (sk_snd_last (nlayers w) l [] []) as [k' H]. rewrite H. simpl.
  rewrite filter_app, map_app. simpl. rewrite Hu. simpl. intros E. apply app_eq_nil in E. destruct E; discriminate.
Qed.

Lemma sort_key_unit u : unit_layer w = Some u -> bases_of w u = [] -> sort_key w u = [].
Proof.
  intros Hu Hb. unfold sort_key. simpl. rewrite Hb. simpl. unfold is_unit. rewrite Hu, Nat.eqb_refl. reflexivity.
Qed.

Lemma key_cmp_nil_r k : key_cmp k [] <> Lt.
Proof. unfold key_cmp. destruct k; simpl; congruence. Qed.
Lemma key_cmp_nil_l k : k <> [] -> key_cmp [] k = Lt.
Proof. unfold key_cmp. destruct k; simpl; congruence. Qed.

Theorem obb_unit_first u ls :
  unit_layer w = Some u -> bases_of w u = [] -> In u ls ->
  exists r, order_by_bases w ls = u :: r.
Proof.
  intros Hu Hb Hin.
  assert (Hku : sort_key w u = []) by (apply sort_key_unit; assumption).
  assert (Hnu : forall x, x <> u -> sort_key w x <> []).
  { intros x Hx. apply sort_key_nonunit. unfold is_unit. rewrite Hu. apply Nat.eqb_neq. congruence. }
  (* inserting keeps / makes u the last element *)
  assert (Hins : forall x l, (x = u \/ exists p, l = p ++ [u]) -> exists p, insert_desc w x l = p ++ [u]).
  { intros x l. induction l as [|y r IH]; simpl; intros H.
    - destruct H as [->|[p Hp]]; [exists []; reflexivity | destruct p; discriminate].
    - destruct (key_cmp (sort_key w y) (sort_key w x)) eqn:E.
      + destruct r as [|z r'].
        * (* y is the last element *)
          destruct H as [->|[p Hp]].
          -- exists [y]. reflexivity.
          -- assert (y = u) by (destruct p as [|? [|? ?]]; simpl in Hp; congruence). subst y.
             destruct (Nat.eq_dec x u) as [->|Hxu]; [exists [u]; reflexivity|].
             exfalso. rewrite Hku in E. rewrite key_cmp_nil_l in E by (apply Hnu; exact Hxu). discriminate.
        * destruct IH as [p Hp].
          { destruct H as [->|[p Hp]]; [now left|right].
            destruct p as [|a p]; [discriminate|]. simpl in Hp. injection Hp as _ Hp. eauto. }
          exists (y :: p). simpl in *. now rewrite Hp.
      + destruct H as [->|[p Hp]].
        * exfalso. rewrite Hku in E. apply (key_cmp_nil_r _ E).
        * exists (x :: p). simpl. now rewrite Hp.
      + destruct r as [|z r'].
        * destruct H as [->|[p Hp]].
          -- exists [y]. reflexivity.
          -- assert (y = u) by (destruct p as [|? [|? ?]]; simpl in Hp; congruence). subst y.
             destruct (Nat.eq_dec x u) as [->|Hxu]; [exists [u]; reflexivity|].
             exfalso. rewrite Hku in E. rewrite key_cmp_nil_l in E by (apply Hnu; exact Hxu). discriminate.
        * destruct IH as [p Hp].
          { destruct H as [->|[p Hp]]; [now left|right].
            destruct p as [|a p]; [discriminate|]. simpl in Hp. injection Hp as _ Hp. eauto. }
          exists (y :: p). simpl in *. now rewrite Hp. }
  assert (Hfold : forall l acc, (In u l \/ exists p, acc = p ++ [u]) ->
            exists p, fold_left (fun acc x => insert_desc w x acc) l acc = p ++ [u]).
  { induction l as [|a l IH]; simpl; intros acc H.
    - destruct H as [[]|H]. exact H.
    - apply IH. destruct H as [[->|H]|H].
      + right. apply Hins. now left.
      + now left.
      + right. apply Hins. now right. }
  destruct (Hfold ls [] (or_introl Hin)) as [p Hp].
  unfold order_by_bases. fold (sort_desc w ls) in Hp. rewrite Hp.
  assert (Hg : gather_layers w u = [u]) by (unfold gather_layers; simpl; rewrite Hb; reflexivity).
  rewrite flat_map_app. cbn [flat_map]. rewrite Hg.
  rewrite rev_app_distr. cbn [rev app dedup_keep mem existsb].
  assert (Hm : mem u (p ++ [u]) = true) by (apply mem_In, in_or_app; right; now left).
  rewrite Hm. eauto.
Qed.

(* distinct layer names give distinct sort keys *)
Theorem keys_inj_names ls :
  (forall x y, In x ls -> In y ls -> name_of w x = name_of w y -> x = y) ->
  (forall u, unit_layer w = Some u -> bases_of w u = []) ->
  keys_inj ls.
Proof.
  intros Hn Hub x y Hx Hy E. apply key_eq in E. unfold key in E.
  assert (Hshape : forall l, is_unit w l = false -> exists K, sort_key w l = K ++ [name_of w l]).
  { intros l Hl. unfold sort_key. destruct (sk_snd_last (nlayers w) l [] []) as [k' H]. rewrite H. simpl.
    rewrite filter_app, map_app. simpl. rewrite Hl. simpl. eauto. }
  assert (Hunit : forall l, is_unit w l = true -> sort_key w l = []).
  { intros l Hl. unfold is_unit in Hl. destruct (unit_layer w) as [u|] eqn:Eu; [|discriminate].
    apply Nat.eqb_eq in Hl. subst l. apply sort_key_unit; auto. }
  destruct (is_unit w x) eqn:Ux; destruct (is_unit w y) eqn:Uy.
  - unfold is_unit in *. destruct (unit_layer w); [|discriminate].
    apply Nat.eqb_eq in Ux, Uy. congruence.
  - rewrite (Hunit x Ux) in E. destruct (Hshape y Uy) as [K HK]. rewrite HK in E. destruct K; discriminate.
  - rewrite (Hunit y Uy) in E. destruct (Hshape x Ux) as [K HK]. rewrite HK in E. destruct K; discriminate.
  - destruct (Hshape x Ux) as [K1 H1]. destruct (Hshape y Uy) as [K2 H2]. rewrite H1, H2 in E.
    apply app_inj_tail in E. destruct E as [_ E]. apply Hn; assumption.
Qed.

End W.
