(* P_C05.v — property theorems for C05 only. *)
From ZT Require Import Base Layers LayersFacts Run RunFacts.

(* Whatever the test does (every outcome kind, decorator skip included) the events of one test execution are:
   testSetUp hooks, the test's start, the test's own phases and result events (its own setUp first), testTearDown hooks. *)
Theorem C05_bracket : forall w o l t b s,
  exists mid,
    rs_ev (run_test w o l t b s) = rs_ev s ++ hooks_up w l ++ EStart t :: mid ++ hooks_down w l ++ [EStop t]
    /\ Forall (is_inner_ev t) mid
    /\ (t_deco b = false -> exists mid', mid = EPhase t 0 0 :: mid').
Proof. exact run_test_bracket. Qed.
Print Assumptions C05_bracket.

(* testSetUp is called on exactly the layers of the test's stack that define it … *)
Theorem C05_setup_exact : forall w l x,
  In (ETSetUp x) (hooks_up w l) <-> In x (gather_layers (lw w) l) /\ l_tsetup (spec_of w x) = true.
Proof. exact hooks_up_exact. Qed.
Print Assumptions C05_setup_exact.
Theorem C05_teardown_exact : forall w l x,
  In (ETTearDown x) (hooks_down w l) <-> In x (gather_layers (lw w) l) /\ l_tteardown (spec_of w x) = true.
Proof. exact hooks_down_exact. Qed.
Print Assumptions C05_teardown_exact.

(* … once each … *)
Theorem C05_setup_once : forall w l, NoDup (hooks_up w l).
Proof. exact hooks_up_once. Qed.
Print Assumptions C05_setup_once.
Theorem C05_teardown_once : forall w l, NoDup (hooks_down w l).
Proof. exact hooks_down_once. Qed.
Print Assumptions C05_teardown_once.

(* … base layers before derived ones … *)
Theorem C05_bases_first : forall w, wf (lw w) -> forall l x b R1 R2,
  l < nlayers (lw w) -> tb (lw w) x b -> l_tsetup (spec_of w b) = true ->
  hooks_up w l = R1 ++ ETSetUp x :: R2 -> In (ETSetUp b) R1.
Proof. exact hooks_up_bases_first. Qed.
Print Assumptions C05_bases_first.

(* … and testTearDown in the exact reverse order (on the layers that define both hooks). *)
Theorem C05_mirrored : forall w l,
  let both x := l_tsetup (spec_of w x) && l_tteardown (spec_of w x) in
  filter both (filter (fun x => l_tteardown (spec_of w x)) (rev (test_layers w l)))
  = rev (filter both (filter (fun x => l_tsetup (spec_of w x)) (test_layers w l))).
Proof. exact hooks_mirrored. Qed.
Print Assumptions C05_mirrored.

(* ------------------------------------------------------------------------------------------------------------
   The whole run, for EVERY world, option set, outcome and process: the trace of each process is made of layer
   events and complete test blocks  hooks_up l · start t · (t's own phases/results) · hooks_down l · stop t
   with t a selected test and l its own layer (`wb`).  So testSetUp/testTearDown never occur outside a block,
   every started test has both hook runs, and layers outside the test's stack see neither
   (C05_setup_exact / C05_teardown_exact say which layers hooks_up / hooks_down touch). *)
From ZT Require Import RunBracket.

Theorem C05_whole_run_blocks : forall w o,
  wb w (r_parent (run w o)) /\ forall c, In c (r_children (run w o)) -> wb w (c_ev c).
Proof. exact run_wb. Qed.
Print Assumptions C05_whole_run_blocks.

(* balance per layer, in every process: as many testTearDown as testSetUp calls *)
Theorem C05_whole_run_balanced : forall w x, l_tsetup (spec_of w x) = l_tteardown (spec_of w x) ->
  forall tr, wb w tr -> count (n_tsu x) tr = count (n_ttd x) tr.
Proof. exact wb_balanced. Qed.
Print Assumptions C05_whole_run_balanced.

(* observation level: the predicate Obs.c05_ok evaluated on the implementation's observation (hook calls grouped
   into test executions: exactly the stack's hooks, once, bases first, mirrored) holds of the model's observation
   of every run, provided the grouping is unambiguous (every layer defines both per-test hooks or neither, or no
   test is skipped by decorator — the only worlds the generator produces); a sequential case without
   correspondence difference therefore satisfies it *)
From ZT Require Import Chk_World Obs ModelCase ObsC05.
Theorem C05_predicate_holds_of_model : forall w o,
  wf (lw w) -> (forall b, In b (tests w) -> t_layer b < nlayers (lw w)) ->
  ((forall x, l_tsetup (spec_of w x) = l_tteardown (spec_of w x)) \/ (forall b, In b (tests w) -> t_deco b = false)) ->
  c05_ok w (observed w (r_parent (run w o))) (map (fun c => (c_layer c, observed w (c_ev c))) (r_children (run w o))) = true.
Proof. exact c05_ok_model. Qed.
Print Assumptions C05_predicate_holds_of_model.
Theorem C05_check_sound : forall c, agree c = true -> wf_case c = true -> Nat.ltb 1 (o_procs (Chk_World.o c)) = false ->
  sym_case c = true -> c05_ok (Chk_World.w c) (i_parent c) (i_children c) = true.
Proof. exact c05_check_sound. Qed.
Print Assumptions C05_check_sound.
