(* Discover.v — model of find.find_test_files_ / find_test_files / module naming / --module filter.
   Regexes are oracles on names: ident (identifier), tpat (--tests-pattern), fpat (--test-file-pattern). *)
From ZT Require Import Base Tree Filter.

Definition s_py : str := [46;112;121]%N.            (* ".py"  *)
Definition s_pyc' : str := [46;112;121;99]%N.       (* ".pyc" *)
Definition s_init : str := [95;95;105;110;105;116;95;95]%N.   (* "__init__" *)
Definition ignore_folders : list str :=
  [[46;103;105;116]; [110;111;100;101;95;109;111;100;117;108;101;115]; [95;95;112;121;99;97;99;104;101;95;95]]%N.
  (* .git  node_modules  __pycache__ *)

Definition ends_with (suf f : str) : bool :=
  Nat.leb (length suf) (length f) && str_eqb (skipn (length f - length suf) f) suf.
Definition chop (n : nat) (f : str) : str := firstn (length f - n) f.

(* insertion sort by code points: list.sort() on names *)
Fixpoint sinsert (x : str) (l : list str) : list str :=
  match l with [] => [x] | y :: r => match str_cmp x y with Lt => x :: y :: r | _ => y :: sinsert x r end end.
Definition ssort (l : list str) : list str := fold_right sinsert [] l.

Definition entry_name (e : entry) : str := match e with F n => n | D n _ => n end.
Fixpoint einsert (x : entry) (l : list entry) : list entry :=
  match l with [] => [x] | y :: r => match str_cmp (entry_name x) (entry_name y) with Lt => x :: y :: r | _ => y :: einsert x r end end.
Definition esort (l : list entry) : list entry := fold_right einsert [] l.

(* os.walk order is the file system's; dirs.sort()/files.sort() normalise it *)
Fixpoint normalize (e : entry) : entry :=
  match e with
  | F n => F n
  | D n kids => D n (esort ((fix go ks := match ks with [] => [] | k :: r => normalize k :: go r end) kids))
  end.

Section D.
Variables ident tpat fpat : str -> bool.
Variable ign : list str.           (* options.ignore_dir *)
Variable usecompiled : bool.

(* strip_py_ext *)
Definition stem (f : str) : option str :=
  if ends_with s_py f then Some (chop 3 f)
  else if usecompiled && ends_with s_pyc' f then Some (chop 4 f)
  else None.
Definition contains_init (files : list str) : bool :=
  smem (s_init ++ s_py) files || (usecompiled && smem (s_init ++ s_pyc') files).

Definition nonempty (s : str) := match s with [] => false | _ => true end.

(* test files yielded for one directory named d with (sorted) file names *)
Definition dir_winners (d : str) (files : list str) : list str :=
  let init_ok := tpat d && contains_init files in
  let cand f := match stem f with
                | Some s => nonempty s && (tpat s || (init_ok && fpat s))
                | None => false end in
  (* root2ext keeps the smallest extension per stem: x.py wins over x.pyc *)
  filter (fun f => cand f && negb (ends_with s_pyc' f && negb (ends_with s_py f) && smem (chop 4 f ++ s_py) files)) files.

Definition descend (n : str) : bool := negb (smem n ign) && ident n && negb (smem n ignore_folders).

(* walk of one (normalised) directory entry; paths start with the entry's own name *)
Fixpoint walk_e (e : entry) : list path :=
  match e with
  | F _ => []
  | D n kids =>
    map (cons n)
      (map (fun f => [f]) (dir_winners n (file_names kids))
       ++ (fix go ks := match ks with
                        | [] => []
                        | k :: r => (match k with D m _ => if descend m then walk_e k else [] | F _ => [] end) ++ go r
                        end) kids)
  end.
End D.

(* find_test_files: concatenation over the test paths, first occurrence kept *)
Definition path_eqb := list_eqb str_eqb.
Fixpoint dedup_paths (l : list path) (seen : list path) : list path :=
  match l with
  | [] => []
  | p :: r => if existsb (path_eqb p) seen then dedup_paths r seen else p :: dedup_paths r (p :: seen)
  end.

(* ---- several search roots, module names, --module ---- *)
Fixpoint entry_at (e : entry) (p : path) : option entry :=
  match p with
  | [] => Some e
  | n :: r => match e with
              | D _ kids => (fix go ks := match ks with
                                          | [] => None
                                          | k :: rest => match k with
                                                         | D m _ => if str_eqb m n then entry_at k r else go rest
                                                         | F _ => go rest end
                                          end) kids
              | F _ => None end
  end.

Section R.
Variables ident tpat fpat : str -> bool.
Variable ign : list str.
Variable usecompiled : bool.
Variable top : entry.                 (* the scratch directory, D name kids *)

(* files found below the directory reached by `root` (directory names below `top`), as paths below `top` *)
(* roots are given from the scratch directory's own name downwards *)
Definition entry_at_abs (root : path) : option entry :=
  match root with
  | n :: r => if str_eqb n (entry_name top) then entry_at top r else None
  | [] => None
  end.
Definition found_root (root : path) : list path :=
  match entry_at_abs root with
  | Some e => map (fun p => root ++ tl p) (walk_e ident tpat fpat ign usecompiled (normalize e))
  | None => []
  end.
Definition found_all (walk_roots : list path) : list path :=
  dedup_paths (flat_map found_root walk_roots) [].

(* module name: relative to the longest search path that is a prefix *)
Fixpoint strip_prefix (r p : path) : option path :=
  match r, p with
  | [], _ => Some p
  | a :: r', b :: p' => if str_eqb a b then strip_prefix r' p' else None
  | _ :: _, [] => None
  end.
Fixpoint join_dot (l : list str) : str :=
  match l with [] => [] | [x] => x | x :: r => x ++ 46%N :: join_dot r end.

(* ---- search roots that carry a package: --package-path DIR PKG mounts DIR as package PKG ('' for --path/--test-path).
   options.test_path = [(path, '')…] + [(dir, pkg)…]; a found file keeps the package of the root through which it was found
   FIRST (find_test_files de-duplicates by path); find_suites names it after the longest prefix WITH THAT PACKAGE. ---- *)
Definition proot := (path * str)%type.
Definition found_root_pk (r : proot) : list (path * str) := map (fun p => (p, snd r)) (found_root (fst r)).
Fixpoint dedup_pk (l : list (path * str)) (seen : list path) : list (path * str) :=
  match l with
  | [] => []
  | (p, k) :: r => if existsb (path_eqb p) seen then dedup_pk r seen else (p, k) :: dedup_pk r (p :: seen)
  end.
Definition found_all_pk (walk_roots : list proot) : list (path * str) :=
  dedup_pk (flat_map found_root_pk walk_roots) [].

Fixpoint ins_pk (x : proot) (l : list proot) : list proot :=
  match l with [] => [x] | y :: r => if Nat.ltb (length (fst y)) (length (fst x)) then x :: y :: r else y :: ins_pk x r end.
Definition longest_first_pk (roots : list proot) : list proot := fold_right ins_pk [] roots.
Definition with_pkg (k m : str) : str := match k with [] => m | _ => k ++ 46%N :: m end.
(* the module name of file fp relative to root r: fpath.startswith(path + sep) — something is left below the root —
   extension stripped, separators to dots, the root's package in front *)
Definition name_under (r : proot) (fp : path) : option str :=
  match strip_prefix (fst r) fp with
  | Some (x :: rel') =>
    let rel := x :: rel' in
    match stem usecompiled (last rel []) with
    | Some s => Some (with_pkg (snd r) (join_dot (removelast rel ++ [s])))
    | None => None end
  | _ => None
  end.
(* find_suites: the prefixes are tried longest first; one whose package is not the file's, or whose name --module
   rejects, is passed over (`continue`), so a file below nested search paths may be loaded under a shorter prefix's name *)
Fixpoint first_named (acc : str -> bool) (rs : list proot) (fp : path) (k : str) : option str :=
  match rs with
  | [] => None
  | r :: rest => if str_eqb (snd r) k
                 then match name_under r fp with
                      | Some m => if acc m then Some m else first_named acc rest fp k
                      | None => first_named acc rest fp k end
                 else first_named acc rest fp k
  end.
Definition module_name_pk (name_roots : list proot) (fp : path) (k : str) : option str :=
  first_named (fun _ => true) (longest_first_pk name_roots) fp k.

Variable search : str -> str -> bool.
(* modules handed to import_name, in order *)
Definition imported_pk (walk_roots name_roots : list proot) (mpats : list str) : list (path * str) :=
  flat_map (fun fk => match first_named (accept search mpats) (longest_first_pk name_roots) (fst fk) (snd fk) with
                      | Some m => [(fst fk, m)]
                      | None => [] end)
           (found_all_pk walk_roots).
End R.
